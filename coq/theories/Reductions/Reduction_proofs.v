(* Theorems about Reduction.v (C07): the reduction identity by exchange of two finite sums. *)
From Coq Require Import QArith ZArith List Bool Lia Lqa Setoid.
From FL Require Import Num ListX Moments Moments_proofs Reduction.
Import ListNotations.
Open Scope Q_scope.

(* ---------- vectors ---------- *)

Lemma zipw_length {A B C} (f : A -> B -> C) a b :
  length (zipw f a b) = Nat.min (length a) (length b).
Proof.
  revert b. induction a as [|x a IH]; intros [|y b]; cbn; auto.
Qed.

Lemma dot_nil_l b : dot [] b = 0.
Proof. reflexivity. Qed.

Lemma dot_vadd a b x : length a = length b -> dot (vadd a b) x == dot a x + dot b x.
Proof.
  revert b x. induction a as [|p a IH]; intros [|q b] [|y x] L; try discriminate; cbn;
    try ring.
  rewrite IH by (cbn in L; lia). ring.
Qed.

Lemma dot_vsub w a b : length a = length b -> dot w (vsub a b) == dot w a - dot w b.
Proof.
  revert a b. induction w as [|p w IH]; intros [|x a] [|y b] L; try discriminate; cbn;
    try ring.
  rewrite IH by (cbn in L; lia). ring.
Qed.

Lemma dot_scale l c x : dot (map (Qmult l) c) x == l * dot c x.
Proof.
  revert x. induction c as [|p c IH]; intros [|y x]; cbn; try ring.
  rewrite IH. ring.
Qed.

Lemma dot_repeat0 n x : dot (repeat 0 n) x == 0.
Proof.
  revert x. induction n as [|n IH]; intros [|y x]; cbn; try ring.
  rewrite IH. ring.
Qed.

Lemma lincomb_length n cols lam :
  Forall (fun c => length c = n) cols -> length (lincomb n cols lam) = n.
Proof.
  intro H. revert lam. induction H as [|c cs Hc Hcs IH]; intros [|l ls]; cbn [lincomb];
    try apply repeat_length.
  unfold vadd. rewrite zipw_length, map_length, Hc, IH. lia.
Qed.

(* the exchange of sums: (U lam) . x = lam . (U^T x) *)
Lemma dot_lincomb n cols lam x :
  Forall (fun c => length c = n) cols ->
  dot (lincomb n cols lam) x == dot lam (map (fun c => dot c x) cols).
Proof.
  intro H. revert lam. induction H as [|c cs Hc Hcs IH]; intros [|l ls]; cbn [lincomb map dot].
  - apply dot_repeat0.
  - rewrite dot_repeat0. reflexivity.
  - apply dot_repeat0.
  - rewrite dot_vadd by (rewrite map_length, lincomb_length; auto).
    rewrite dot_scale, IH. reflexivity.
Qed.

Lemma dot_map_negdiv {A} (f : A -> Q) n lam l :
  dot lam (map (fun c => - f c / n) l) == - dot lam (map f l) / n.
Proof.
  revert lam. induction l as [|c l IH]; intros [|x lam]; cbn [map dot]; unfold Qdiv; try ring.
  rewrite IH. unfold Qdiv. ring.
Qed.

Lemma Umat_lengths k r rows : Forall (fun c => length c = length rows) (Umat k r rows).
Proof.
  unfold Umat. apply Forall_forall. intros c Hc. apply in_map_iff in Hc.
  destruct Hc as ([s [e g]] & <- & _). unfold ucol. apply map_length.
Qed.

(* lambda . gamma(h) = -((U lambda) . pred(h)) / n *)
Lemma lam_gamma_lincomb k r rows lam h :
  lam_gamma k r rows lam h
  == - dot (lincomb (length rows) (Umat k r rows) lam) (pred k rows h) / nrows rows.
Proof.
  unfold lam_gamma, gamma.
  rewrite (dot_map_negdiv (fun c => dot c (pred k rows h))).
  rewrite dot_lincomb by apply Umat_lengths. reflexivity.
Qed.

Lemma dot_pred k rows a h :
  length a = length rows -> length h = length rows ->
  dot a (pred k rows h) == dot (vmul (map (udiff k) rows) a) h + dot a (map (u0 k) rows).
Proof.
  revert a h. induction rows as [|x rows IH]; intros [|p a] [|y h] La Lh; try discriminate.
  - cbn. ring.
  - unfold pred, vmul. cbn [zipw map dot]. fold (pred k rows h) (vmul (map (udiff k) rows) a).
    rewrite IH by (cbn in *; lia). ring.
Qed.

(* gamma is affine in the prediction vector, with slope -(1/n) * signed_weights *)
Lemma lam_gamma_affine k r rows lam h :
  length h = length rows ->
  lam_gamma k r rows lam h
  == - (1 / nrows rows) * dot (signed_weights k r rows lam) h
     - dot (lincomb (length rows) (Umat k r rows) lam) (map (u0 k) rows) / nrows rows.
Proof.
  intro Lh. rewrite lam_gamma_lincomb. unfold signed_weights.
  rewrite dot_pred by (auto; apply lincomb_length, Umat_lengths).
  unfold Qdiv. ring.
Qed.

(* reduction_identity: for EVERY multiplier vector and any two soft predictors *)
Theorem reduction_identity (k : kind) (r : Q) (rows : list row) (lam h h' : list Q) :
  length h = length rows -> length h' = length rows ->
  lam_gamma k r rows lam h - lam_gamma k r rows lam h'
  == - (1 / nrows rows) * dot (signed_weights k r rows lam) (vsub h h').
Proof.
  intros L1 L2. rewrite !lam_gamma_affine by assumption.
  rewrite dot_vsub by congruence. ring.
Qed.

(* ---------- ErrorRate ---------- *)

Lemma Qltb_lt a b : Qltb a b = true <-> a < b.
Proof.
  unfold Qltb. rewrite negb_true_iff. split.
  - intro H. apply Qnot_le_lt. intro C. apply Qle_bool_iff in C. congruence.
  - intro H. destruct (Qle_bool b a) eqn:E; [|reflexivity].
    apply Qle_bool_iff in E. lra.
Qed.

Lemma Qltb_ge a b : Qltb a b = false <-> b <= a.
Proof.
  destruct (Qltb a b) eqn:E.
  - apply Qltb_lt in E. split; [discriminate | lra].
  - split; [|reflexivity]. intros _. apply Qnot_lt_le. intro C. apply Qltb_lt in C. congruence.
Qed.

Definition binary_rows (rows : list row) : Prop := Forall (fun rw => ry rw = 0%Z \/ ry rw = 1%Z) rows.
Definition soft (h : list Q) : Prop := Forall (fun x => 0 <= x /\ x <= 1) h.
Definition hard (h : list Q) : Prop := Forall (fun x => x == 0 \/ x == 1) h.

Lemma hard_soft h : hard h -> soft h.
Proof. apply Forall_impl. intros x [E|E]; rewrite E; split; lra. Qed.

(* cost of one row under a soft prediction: fn * y * (1 - h) + fp * (1 - y) * h *)
Definition er_cost (fp fn : Q) (rw : row) (hi : Q) : Q :=
  fn * inject_Z (ry rw) * (1 - hi) + fp * (1 - inject_Z (ry rw)) * hi.

Lemma er_numerator fp fn rows h :
  binary_rows rows -> soft h -> length h = length rows ->
  let se := zipw (fun rw hi => inject_Z (ry rw) - hi) rows h in
  qsum (map (fun s => s * fn) (filter (fun s => Qltb 0 s) se))
  + qsum (map (fun s => (- s) * fp) (filter (fun s => Qltb s 0) se))
  == qsum (zipw (er_cost fp fn) rows h).
Proof.
  intros Hb Hs. revert h Hs. induction Hb as [|x rows Hx Hb IH]; intros [|y h] Hs L; try discriminate.
  - cbn. ring.
  - inversion Hs as [|? ? [Hy0 Hy1] Hs']; subst. cbn zeta in IH |- *.
    cbn [zipw filter]. specialize (IH h Hs' ltac:(cbn in L; lia)).
    unfold er_cost at 1.
    destruct Hx as [-> | ->]; [change (inject_Z 0) with 0 | change (inject_Z 1) with 1].
    + assert (A : Qltb 0 (0 - y) = false) by (apply Qltb_ge; lra). rewrite A.
      destruct (Qltb (0 - y) 0) eqn:B; cbn [map qsum].
      * rewrite <- IH. ring.
      * apply Qltb_ge in B. rewrite <- IH. assert (y == 0) as -> by lra. ring.
    + assert (A : Qltb (1 - y) 0 = false) by (apply Qltb_ge; lra). rewrite A.
      destruct (Qltb 0 (1 - y)) eqn:B; cbn [map qsum].
      * rewrite <- IH. ring.
      * apply Qltb_ge in B. rewrite <- IH. assert (y == 1) as -> by lra. ring.
Qed.

(* error_rate_gamma_spec: c_fn * P[y=1, h=0] + c_fp * P[y=0, h=1], linearly extended to soft h *)
Theorem error_rate_gamma_spec (fp fn : Q) (rows : list row) (h : list Q) :
  binary_rows rows -> soft h -> length h = length rows ->
  er_gamma fp fn rows h == qsum (zipw (er_cost fp fn) rows h) / nrows rows.
Proof.
  intros Hb Hs L. unfold er_gamma. rewrite (er_numerator fp fn rows h Hb Hs L). reflexivity.
Qed.

Lemma er_cost_diff fp fn rows h h' :
  length h = length rows -> length h' = length rows ->
  qsum (zipw (er_cost fp fn) rows h) - qsum (zipw (er_cost fp fn) rows h')
  == - dot (er_signed_weights fp fn rows) (vsub h h').
Proof.
  revert h h'. induction rows as [|x rows IH]; intros [|y h] [|y' h'] L1 L2; try discriminate.
  - cbn. ring.
  - unfold er_signed_weights, vsub. cbn [zipw qsum map dot].
    fold (er_signed_weights fp fn rows) (vsub h h').
    specialize (IH h h' ltac:(cbn in L1; lia) ltac:(cbn in L2; lia)).
    unfold er_cost at 1 3.
    setoid_replace (dot (er_signed_weights fp fn rows) (vsub h h'))
      with (- (qsum (zipw (er_cost fp fn) rows h) - qsum (zipw (er_cost fp fn) rows h')))
      by (rewrite IH; ring).
    ring.
Qed.

(* objective_identity *)
Theorem objective_identity (fp fn : Q) (rows : list row) (h h' : list Q) :
  binary_rows rows -> soft h -> soft h' -> length h = length rows -> length h' = length rows ->
  er_gamma fp fn rows h - er_gamma fp fn rows h'
  == - (1 / nrows rows) * dot (er_signed_weights fp fn rows) (vsub h h').
Proof.
  intros Hb S1 S2 L1 L2. rewrite !error_rate_gamma_spec by assumption.
  setoid_replace (dot (er_signed_weights fp fn rows) (vsub h h'))
    with (- (qsum (zipw (er_cost fp fn) rows h) - qsum (zipw (er_cost fp fn) rows h')))
    by (rewrite er_cost_diff by assumption; ring).
  unfold Qdiv. ring.
Qed.

(* ---------- the Lagrangian and the cost-sensitive problem ---------- *)

Lemma bound_length eps k rows h r : length (gamma k r rows h) = length (bound eps k rows).
Proof. rewrite gamma_length. unfold bound. rewrite map_length. reflexivity. Qed.

(* L(h, lambda) - L(h', lambda) = -(1/n) sum_i w_i (h_i - h'_i), w = objective weights + constraint weights *)
Theorem lagrangian_identity (k : kind) (r eps fp fn : Q) (rows : list row) (lam h h' : list Q) :
  binary_rows rows -> soft h -> soft h' -> length h = length rows -> length h' = length rows ->
  lagrangian k r eps fp fn rows lam h - lagrangian k r eps fp fn rows lam h'
  == - (1 / nrows rows) * dot (oracle_weights k r fp fn rows lam) (vsub h h').
Proof.
  intros Hb S1 S2 L1 L2. unfold lagrangian, oracle_weights.
  rewrite !dot_vsub by apply bound_length.
  rewrite dot_vadd.
  2:{ unfold er_signed_weights, signed_weights, vmul.
      rewrite zipw_length, !map_length, lincomb_length by apply Umat_lengths. lia. }
  pose proof (objective_identity fp fn rows h h' Hb S1 S2 L1 L2) as O.
  pose proof (reduction_identity k r rows lam h h' L1 L2) as R. unfold lam_gamma in R.
  lra.
Qed.

(* weighted 0/1 error against the relabelled data, for hard predictions *)
Lemma w01_hard (w h : list Q) :
  hard h -> length h = length w ->
  w01 (reweight w) (relabel w) h == qsum (map (fun x => if Qltb 0 x then x else 0) w) - dot w h.
Proof.
  intro Hh. revert w. induction Hh as [|y h Hy Hh IH]; intros [|x w] L; try discriminate.
  - cbn. ring.
  - unfold w01, reweight, relabel. cbn [map combine zipw qsum dot fst snd].
    fold (reweight w) (relabel w) (w01 (reweight w) (relabel w) h).
    rewrite IH by (cbn in L; lia).
    destruct (qabs_spec x) as [P N].
    destruct (Qltb 0 x) eqn:B.
    + apply Qltb_lt in B. rewrite P by lra.
      destruct (Qeqb 1 y) eqn:E; unfold Qeqb in E.
      * apply Qeq_bool_iff in E. rewrite <- E. ring.
      * destruct Hy as [Hy|Hy]; [rewrite Hy; ring|].
        exfalso. apply Qeq_bool_neq in E. apply E. rewrite Hy. reflexivity.
    + apply Qltb_ge in B. rewrite N by lra.
      destruct (Qeqb 0 y) eqn:E; unfold Qeqb in E.
      * apply Qeq_bool_iff in E. rewrite <- E. ring.
      * destruct Hy as [Hy|Hy]; [|rewrite Hy; ring].
        exfalso. apply Qeq_bool_neq in E. apply E. rewrite Hy. reflexivity.
Qed.

(* cost_sensitive_equiv: on hard hypotheses the weighted 0/1 error against labels 1[w>0] with weights |w|
   differs from n * (objective + lambda . (gamma - bound)) by a constant, so both order hypotheses identically *)
Theorem cost_sensitive_identity (k : kind) (r eps fp fn : Q) (rows : list row) (lam h h' : list Q) :
  binary_rows rows -> hard h -> hard h' -> length h = length rows -> length h' = length rows ->
  let w := oracle_weights k r fp fn rows lam in
  w01 (reweight w) (relabel w) h - w01 (reweight w) (relabel w) h'
  == nrows rows * (lagrangian k r eps fp fn rows lam h - lagrangian k r eps fp fn rows lam h').
Proof.
  intros Hb H1 H2 L1 L2 w.
  assert (Lw : length w = length rows).
  { unfold w, oracle_weights, vadd, er_signed_weights, signed_weights, vmul.
    rewrite !zipw_length, !map_length, lincomb_length by apply Umat_lengths. lia. }
  rewrite (lagrangian_identity k r eps fp fn rows lam h h' Hb (hard_soft _ H1) (hard_soft _ H2) L1 L2).
  fold w. rewrite !w01_hard by (auto; congruence).
  rewrite dot_vsub by congruence.
  destruct rows as [|x rows].
  - destruct h, h'; try discriminate. destruct w; try discriminate. cbn. ring.
  - assert (Hn : 0 < nrows (x :: rows)) by (apply inject_nat_pos; cbn; lia).
    field. lra.
Qed.

Theorem cost_sensitive_equiv (k : kind) (r eps fp fn : Q) (rows : list row) (lam h h' : list Q) :
  rows <> [] ->
  binary_rows rows -> hard h -> hard h' -> length h = length rows -> length h' = length rows ->
  let w := oracle_weights k r fp fn rows lam in
  w01 (reweight w) (relabel w) h <= w01 (reweight w) (relabel w) h'
  <-> lagrangian k r eps fp fn rows lam h <= lagrangian k r eps fp fn rows lam h'.
Proof.
  intros Hne Hb H1 H2 L1 L2 w.
  pose proof (cost_sensitive_identity k r eps fp fn rows lam h h' Hb H1 H2 L1 L2) as I.
  cbv zeta in I. fold w in I.
  assert (Hn : 0 < nrows rows) by (apply inject_nat_pos; destruct rows; [contradiction | cbn; lia]).
  set (a := w01 (reweight w) (relabel w) h) in *. set (b := w01 (reweight w) (relabel w) h') in *.
  set (c := lagrangian k r eps fp fn rows lam h) in *.
  set (d := lagrangian k r eps fp fn rows lam h') in *.
  split; intro H; nra.
Qed.
