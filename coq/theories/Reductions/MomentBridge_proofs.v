(* gamma_vs_metricframe (last clause of C06): for ratio r = 1 and a hard classifier the '+' entry of
   gamma at (event, g) is MetricFrame's by_group[g] - overall of the matching rate, the '-' entry its
   negation -- where the MetricFrame side is C03's model `Fairness.metric_frame` (whose cells are proved
   in Fairness_proofs.metric_frame_spec to be the BaseRates / Fairness rates of `filter (group = g) rows`).
   Composition of Moments_proofs.gamma_spec (moment side), Fairness_proofs.metric_frame_spec (metric side)
   and one counting lemma (bridge_sums) that identifies the two kinds of means. *)
From Coq Require Import QArith ZArith List Bool Lia Lqa Setoid.
From FL Require Import Num ListX Moments Moments_proofs MomentBridge.
From FL Require BaseRates BaseRates_proofs Fairness Fairness_proofs.
Import ListNotations.
Open Scope Q_scope.

Module B := BaseRates.
Module BP := BaseRates_proofs.
Module F := Fairness.
Module FP := Fairness_proofs.

(* ---------- small facts ---------- *)

Lemma inject_nat_S n : inject_nat (S n) == 1 + inject_nat n.
Proof.
  unfold inject_nat. rewrite Nat2Z.inj_succ. unfold Z.succ. rewrite inject_Z_plus. ring.
Qed.

Lemma oz_eqb_refl c : oz_eqb c c = true.
Proof. apply oz_eqb_eq. reflexivity. Qed.

Lemma filter_all {A} (l : list A) : filter (fun _ => true) l = l.
Proof. induction l as [|x l IH]; cbn; [reflexivity | rewrite IH; reflexivity]. Qed.

Lemma in_event_single k c bv y g :
  in_event k (c, bv) (mkRow y g c)
  = match base_event k y with Some b' => (b' =? bv)%Z | None => false end.
Proof.
  unfold in_event, event_of. cbn [ry rc]. destruct (base_event k y) as [b'|]; [|reflexivity].
  unfold ev_eqb. cbn [fst snd]. rewrite oz_eqb_refl. reflexivity.
Qed.

(* ---------- the hard prediction as a label column ---------- *)

Lemma hardz_length h : length (hardz h) = length h.
Proof. apply map_length. Qed.

Lemma hardz_binary h : Forall (fun z => z = 0%Z \/ z = 1%Z) (hardz h).
Proof.
  unfold hardz. induction h as [|x h IH]; cbn [map]; constructor; [|exact IH].
  destruct (Qeqb x 1); auto.
Qed.

Lemma hard_entry x : x == 0 \/ x == 1 -> x == inject_Z (if Qeqb x 1 then 1%Z else 0%Z).
Proof.
  intros [E|E].
  - destruct (Qeqb x 1) eqn:B.
    + apply BP.Qeqb_true in B. rewrite E in B. discriminate B.
    + exact E.
  - apply BP.Qeqb_true in E. rewrite E. apply BP.Qeqb_true in E. exact E.
Qed.

Lemma hard_agree k rows h : hard h -> agree_on_events k rows h (map inject_Z (hardz h)).
Proof.
  unfold agree_on_events, hard, hardz. intro Hh. revert rows.
  induction Hh as [|x h Hx Hh IH]; intros [|rw rows]; cbn [map combine]; try constructor.
  - intros _. cbn [fst snd]. apply hard_entry. exact Hx.
  - apply IH.
Qed.

Lemma gamma_at_hardz k r rows h j :
  length h = length rows -> hard h ->
  gamma_at k r rows h j == gamma_at k r rows (map inject_Z (hardz h)) j.
Proof.
  intros Hl Hh. apply no_event_rows_inert; [exact Hl | | apply hard_agree; exact Hh].
  rewrite map_length, hardz_length. exact Hl.
Qed.

(* ---------- the rows MetricFrame sees ---------- *)

Lemma zip_rows_mk rows hz :
  length hz = length rows ->
  B.zip_rows (map ry rows) hz (B.ones (length rows)) = map mk (combine rows hz).
Proof.
  revert hz. induction rows as [|x rows IH]; intros [|z hz] Hl; try discriminate; [reflexivity|].
  cbn [map length combine]. unfold B.ones. cbn [repeat B.zip_rows]. fold (B.ones (length rows)).
  rewrite IH by (cbn in Hl; lia). reflexivity.
Qed.

Lemma mk_rows_mk rows hz :
  length hz = length rows -> B.mk_rows (map ry rows) hz None = Some (map mk (combine rows hz)).
Proof.
  intro Hl. unfold B.mk_rows, B.weights_or_ones, B.ones.
  rewrite repeat_length, map_length, Hl, !Nat.eqb_refl. cbn [andb].
  fold (B.ones (length rows)). rewrite zip_rows_mk by exact Hl. reflexivity.
Qed.

Lemma rows_of_mk g rows hz :
  FP.rows_of g (combine (map rg rows) (map mk (combine rows hz)))
  = map mk (filter (fun t => in_group g (fst t)) (combine rows hz)).
Proof.
  unfold FP.rows_of, in_group. revert hz.
  induction rows as [|x rows IH]; intros [|z hz]; try reflexivity.
  cbn [map combine filter fst]. destruct (rg x =? g)%Z; cbn [map snd]; rewrite IH; reflexivity.
Qed.

Lemma combine_facts c rows hz rw z :
  single_stratum c rows -> binary_labels rows -> Forall (fun z => z = 0%Z \/ z = 1%Z) hz ->
  In (rw, z) (combine rows hz) ->
  rc rw = c /\ (ry rw = 0%Z \/ ry rw = 1%Z) /\ (z = 0%Z \/ z = 1%Z).
Proof.
  intros Hc Hy Hz Hin.
  pose proof (in_combine_l _ _ _ _ Hin) as H1. pose proof (in_combine_r _ _ _ _ Hin) as H2.
  unfold single_stratum, binary_labels in *. rewrite Forall_forall in Hc, Hy, Hz. auto.
Qed.

Lemma good_metric_rows c rows hz :
  single_stratum c rows -> binary_labels rows -> Forall (fun z => z = 0%Z \/ z = 1%Z) hz ->
  length hz = length rows -> rows <> [] -> FP.good_rows (map mk (combine rows hz)).
Proof.
  intros Hc Hy Hz Hl Hne. split.
  - destruct rows as [|x rows]; [congruence|]. destruct hz as [|z hz]; discriminate.
  - intros r Hr. apply in_map_iff in Hr. destruct Hr as [[rw z] [<- Hin]].
    destruct (combine_facts c rows hz rw z Hc Hy Hz Hin) as (_ & A & Bz).
    split; [cbn; reflexivity | split; assumption].
Qed.

(* ---------- the counting lemma: sums over the moment's rows = weighted sums over the metric's rows ---------- *)

(* p: the moment's cell (event [and group]); f: the metric's row filter (group, or everything);
   Pd / Pn: denominator / numerator predicate of the rate; the utility of the prediction on a row of the
   cell is a + b * [numerator predicate] *)
Lemma bridge_sums (k : kind) (p f : row -> bool) (Pd Pn : B.row -> bool) (a b : Q) :
  forall rows hz, length hz = length rows ->
  (forall rw z, In (rw, z) (combine rows hz) ->
      p rw = f rw && Pd (mk (rw, z)) /\
      (p rw = true -> udiff k rw * inject_Z z + u0 k rw == a + b * ind (Pn (mk (rw, z)))) /\
      (Pn (mk (rw, z)) = true -> Pd (mk (rw, z)) = true)) ->
  sum_on p rows (pred k rows (map inject_Z hz))
    == a * B.wsum Pd (map mk (filter (fun t => f (fst t)) (combine rows hz)))
       + b * B.wsum Pn (map mk (filter (fun t => f (fst t)) (combine rows hz))) /\
  cnt p rows == B.wsum Pd (map mk (filter (fun t => f (fst t)) (combine rows hz))).
Proof.
  induction rows as [|x rows IH]; intros [|z hz] Hl H; try discriminate.
  - unfold sum_on, cnt, count_if. cbn. split; [ring | reflexivity].
  - destruct (H x z (or_introl eq_refl)) as (Hp & Hv & Hnd).
    destruct (IH hz) as [IH1 IH2];
      [cbn in Hl; lia | intros rw z' Hin; apply H; right; exact Hin |].
    assert (Ec : cnt p (x :: rows) == (if p x then 1 else 0) + cnt p rows).
    { unfold cnt, count_if. cbn [filter]. destruct (p x); cbn [length]; [apply inject_nat_S | ring]. }
    unfold pred. cbn [map zipw combine filter fst]. fold (pred k rows (map inject_Z hz)).
    rewrite sum_on_cons.
    destruct (f x) eqn:Ef; rewrite ?Ef in Hp; cbn [andb] in Hp; cbn [map B.wsum].
    + change (B.wt (mk (x, z))) with 1.
      destruct (Pd (mk (x, z))) eqn:Ed; rewrite ?Ed in Hp.
      * rewrite Hp in Ec |- *. cbv iota in Ec |- *. rewrite (Hv Hp), Ec, IH1, IH2. unfold ind.
        destruct (Pn (mk (x, z))); split; ring.
      * rewrite Hp in Ec |- *. cbv iota in Ec |- *. rewrite Ec, IH1, IH2.
        destruct (Pn (mk (x, z))) eqn:En; [specialize (Hnd eq_refl); discriminate|].
        split; ring.
    + rewrite Hp in Ec |- *. cbv iota in Ec |- *. rewrite Ec, IH1, IH2. split; ring.
Qed.

(* ---------- per family: the means of gamma_spec are the rates of the metric ---------- *)

Lemma base_ok_spec b : FP.base_ok b (spec_of b).
Proof.
  destruct b; cbn [spec_of];
    [apply FP.base_ok_sel | apply FP.base_ok_tpr | apply FP.base_ok_tnr | apply FP.base_ok_fpr
    | apply FP.base_ok_fnr | apply FP.base_ok_acc | apply FP.base_ok_zol].
Qed.

Lemma matching_cases k bv b :
  matching_metric k bv = Some b ->
  (k = DP /\ bv = 2%Z /\ b = F.BSel) \/ (k = TPR /\ bv = 1%Z /\ b = F.BTpr) \/
  (k = FPR /\ bv = 0%Z /\ b = F.BFpr) \/ (k = EO /\ bv = 1%Z /\ b = F.BTpr) \/
  (k = EO /\ bv = 0%Z /\ b = F.BFpr) \/ (k = ERP /\ bv = 2%Z /\ b = F.BZol).
Proof.
  unfold matching_metric, all_code. destruct k.
  - destruct (bv =? 2)%Z eqn:E; [|discriminate]. apply Z.eqb_eq in E. intros [= <-]. auto 20.
  - destruct (bv =? 1)%Z eqn:E; [|discriminate]. apply Z.eqb_eq in E. intros [= <-]. auto 20.
  - destruct (bv =? 0)%Z eqn:E; [|discriminate]. apply Z.eqb_eq in E. intros [= <-]. auto 20.
  - destruct (bv =? 1)%Z eqn:E; [apply Z.eqb_eq in E; intros [= <-]; auto 20|].
    destruct (bv =? 0)%Z eqn:E0; [|discriminate]. apply Z.eqb_eq in E0. intros [= <-]. auto 20.
  - destruct (bv =? 2)%Z eqn:E; [|discriminate]. apply Z.eqb_eq in E. intros [= <-]. auto 20.
Qed.

(* solves the row-wise side condition of bridge_sums once labels and predictions are literals *)
Ltac rowwise Hp :=
  rewrite Hp, in_event_single;
  split; [vm_compute; match goal with |- context [?f (mkRow ?y ?g ?c)] => destruct (f (mkRow y g c)) end; reflexivity |];
  split; [vm_compute; let Hpt := fresh "Hpt" in intro Hpt; try discriminate Hpt; reflexivity | vm_compute; auto].

Lemma family_mean k bv b c rows hz (p f : row -> bool) :
  matching_metric k bv = Some b ->
  single_stratum c rows -> binary_labels rows -> Forall (fun z => z = 0%Z \/ z = 1%Z) hz ->
  length hz = length rows ->
  (forall rw, p rw = in_event k (c, bv) rw && f rw) ->
  (exists rw, In rw rows /\ p rw = true) ->
  mean_on p rows (pred k rows (map inject_Z hz))
  == spec_of b (map mk (filter (fun t => f (fst t)) (combine rows hz))).
Proof.
  intros Hm Hc Hy Hz Hl Hp (rw0 & Hin0 & Hp0).
  assert (Hpos : 0 < cnt p rows) by (apply inject_nat_pos, (count_if_pos _ _ rw0 Hin0 Hp0)).
  set (l' := map mk (filter (fun t => f (fst t)) (combine rows hz))).
  assert (Side : forall (Pd Pn : B.row -> bool) (a b' : Q),
    (forall y z g, (y = 0 \/ y = 1)%Z -> (z = 0 \/ z = 1)%Z ->
        p (mkRow y g c) = f (mkRow y g c) && Pd (mk (mkRow y g c, z)) /\
        (p (mkRow y g c) = true ->
           udiff k (mkRow y g c) * inject_Z z + u0 k (mkRow y g c) == a + b' * ind (Pn (mk (mkRow y g c, z)))) /\
        (Pn (mk (mkRow y g c, z)) = true -> Pd (mk (mkRow y g c, z)) = true)) ->
    sum_on p rows (pred k rows (map inject_Z hz)) == a * B.wsum Pd l' + b' * B.wsum Pn l' /\
    cnt p rows == B.wsum Pd l').
  { intros Pd Pn a b' H. apply bridge_sums; [exact Hl|]. intros rw z Hin.
    destruct (combine_facts c rows hz rw z Hc Hy Hz Hin) as (Hrc & Hry & Hzz).
    destruct rw as [y g c0]. cbn [rc ry] in Hrc, Hry. subst c0. apply H; assumption. }
  unfold mean_on.
  destruct (matching_cases k bv b Hm) as
    [(-> & -> & ->)|[(-> & -> & ->)|[(-> & -> & ->)|[(-> & -> & ->)|[(-> & -> & ->)|(-> & -> & ->)]]]]];
    cbn [spec_of].
  - (* DemographicParity: selection rate *)
    destruct (Side (fun _ => true) (fun r => B.is_pos 1 (B.yp r)) 0 1) as [S C].
    { intros y z g [-> | ->] [-> | ->]; rowwise Hp. }
    unfold B.sel_spec, B.total_weight. fold l'. rewrite S, C. rewrite C in Hpos. field. lra.
  - (* TruePositiveRateParity *)
    destruct (Side (fun r => B.is_pos 1 (B.yt r)) (fun r => B.is_pos 1 (B.yt r) && B.is_pos 1 (B.yp r)) 0 1)
      as [S C].
    { intros y z g [-> | ->] [-> | ->]; rowwise Hp. }
    unfold B.tpr_spec. fold l'. rewrite C in Hpos. rewrite BP.qdiv0_nz by lra. rewrite S, C. field. lra.
  - (* FalsePositiveRateParity *)
    destruct (Side (fun r => negb (B.is_pos 1 (B.yt r)))
                   (fun r => negb (B.is_pos 1 (B.yt r)) && B.is_pos 1 (B.yp r)) 0 1) as [S C].
    { intros y z g [-> | ->] [-> | ->]; rowwise Hp. }
    unfold B.fpr_spec. fold l'. rewrite C in Hpos. rewrite BP.qdiv0_nz by lra. rewrite S, C. field. lra.
  - (* EqualizedOdds, label = 1 *)
    destruct (Side (fun r => B.is_pos 1 (B.yt r)) (fun r => B.is_pos 1 (B.yt r) && B.is_pos 1 (B.yp r)) 0 1)
      as [S C].
    { intros y z g [-> | ->] [-> | ->]; rowwise Hp. }
    unfold B.tpr_spec. fold l'. rewrite C in Hpos. rewrite BP.qdiv0_nz by lra. rewrite S, C. field. lra.
  - (* EqualizedOdds, label = 0 *)
    destruct (Side (fun r => negb (B.is_pos 1 (B.yt r)))
                   (fun r => negb (B.is_pos 1 (B.yt r)) && B.is_pos 1 (B.yp r)) 0 1) as [S C].
    { intros y z g [-> | ->] [-> | ->]; rowwise Hp. }
    unfold B.fpr_spec. fold l'. rewrite C in Hpos. rewrite BP.qdiv0_nz by lra. rewrite S, C. field. lra.
  - (* ErrorRateParity: zero-one loss = 1 - accuracy *)
    destruct (Side (fun _ => true) F.correct 1 (-1)) as [S C].
    { intros y z g [-> | ->] [-> | ->]; rowwise Hp. }
    unfold F.zol_spec, F.acc_spec, B.total_weight. fold l'. rewrite S, C. rewrite C in Hpos. field. lra.
Qed.

(* ---------- reading a cell of the frame ---------- *)

Lemma frame_cell (Fs : Z -> Q) gs qs g :
  Forall2 Qeq qs (map Fs gs) -> In g gs ->
  exists q, zassoc g (combine gs (map Fin qs)) = Some (Fin q) /\ q == Fs g.
Proof.
  revert qs. induction gs as [|g0 gs IH]; intros qs HF Hin; [destruct Hin|].
  cbn [map] in HF. inversion HF as [|q0 ? qs' ? Hq HF']; subst.
  cbn [map combine zassoc]. destruct (g =? g0)%Z eqn:E.
  - apply Z.eqb_eq in E. subst g0. exists q0. split; [reflexivity | exact Hq].
  - apply Z.eqb_neq in E. destruct Hin as [->|Hin]; [congruence|]. apply IH; assumption.
Qed.

(* ---------- the theorem, one control stratum (c = None: no control features) ---------- *)

Theorem gamma_vs_metricframe_stratum
        (k : kind) (bv : Z) (b : F.base) (c : option Z) (rows : list row) (h : list Q) (g : Z) :
  matching_metric k bv = Some b ->
  single_stratum c rows -> binary_labels rows -> length h = length rows -> hard h ->
  In ((c, bv), g) (pairs_of k rows) ->
  exists f q o,
    mf_of b rows h = Some f /\
    frame_at (map rg rows) f g = Some (Fin q) /\ F.fr_overall f = Fin o /\
    q == spec_of b (metric_rows_of g rows h) /\ o == spec_of b (metric_rows rows h) /\
    mf_gap b rows h g = Some (Fin (q + - o)) /\
    gamma_at k 1 rows h (Plus, ((c, bv), g)) == q - o /\
    gamma_at k 1 rows h (Minus, ((c, bv), g)) == - (q - o).
Proof.
  intros Hm Hc Hy Hl Hh Hin.
  set (hz := hardz h).
  assert (Hlz : length hz = length rows) by (unfold hz; rewrite hardz_length; exact Hl).
  assert (Hz : Forall (fun z => z = 0%Z \/ z = 1%Z) hz) by apply hardz_binary.
  pose proof Hin as Hcell. apply pairs_of_In in Hcell. destruct Hcell as (rw0 & Hrw0 & He0 & Hg0).
  assert (Hne : rows <> []) by (intro E; rewrite E in Hrw0; exact Hrw0).
  (* metric side *)
  assert (Hvalid : FP.valid (map ry rows) hz (map rg rows) None (map mk (combine rows hz))).
  { split; [apply mk_rows_mk; exact Hlz|]. split; [rewrite !map_length; reflexivity|].
    apply (good_metric_rows c); assumption. }
  destruct (FP.metric_frame_spec b (spec_of b) (base_ok_spec b) _ _ _ _ _ Hvalid)
    as (qs & o & Ef & HF & Ho & _ & _ & _).
  unfold FP.group_rates, FP.groups_of in HF.
  rewrite FP.map_fst_combine in HF by (rewrite !map_length, combine_length, Hlz; lia).
  assert (Hgin : In g (zuniq (map rg rows))).
  { apply zuniq_In. apply in_map_iff. exists rw0. auto. }
  destruct (frame_cell (fun g' => spec_of b (FP.rows_of g' (combine (map rg rows) (map mk (combine rows hz)))))
                       _ _ g HF Hgin) as (q & Eq & Hq).
  rewrite rows_of_mk in Hq.
  (* moment side *)
  destruct (gamma_spec k 1 rows (map inject_Z hz) ((c, bv)) g Hin) as [GP GM]. cbv zeta in GP, GM.
  assert (Mg : mean_on (in_eg k (c, bv) g) rows (pred k rows (map inject_Z hz))
               == spec_of b (map mk (filter (fun t => in_group g (fst t)) (combine rows hz)))).
  { apply (family_mean k bv b c rows hz (in_eg k (c, bv) g) (in_group g)); try assumption.
    - intro rw. reflexivity.
    - exists rw0. split; [exact Hrw0|]. apply in_eg_iff. auto. }
  assert (Mo : mean_on (in_event k (c, bv)) rows (pred k rows (map inject_Z hz))
               == spec_of b (map mk (combine rows hz))).
  { rewrite <- (filter_all (combine rows hz)).
    apply (family_mean k bv b c rows hz (in_event k (c, bv)) (fun _ => true)); try assumption.
    - intro rw. rewrite andb_true_r. reflexivity.
    - exists rw0. split; [exact Hrw0|]. apply in_event_iff. exact He0. }
  exists (F.mkframe (map Fin qs) (Fin o)), q, o.
  assert (Efr : frame_at (map rg rows) (F.mkframe (map Fin qs) (Fin o)) g = Some (Fin q)) by exact Eq.
  split; [exact Ef|]. split; [exact Efr|]. split; [reflexivity|].
  split; [exact Hq|]. split; [exact Ho|].
  split; [unfold mf_gap; fold hz in Ef; unfold mf_of; fold hz; rewrite Ef, Efr; reflexivity|].
  rewrite !(gamma_at_hardz k 1 rows h _ Hl Hh). fold hz.
  rewrite GP, GM, Mg, Mo, Hq, Ho. split; ring.
Qed.

(* no control features *)
Theorem gamma_vs_metricframe
        (k : kind) (bv : Z) (b : F.base) (rows : list row) (h : list Q) (g : Z) :
  matching_metric k bv = Some b ->
  single_stratum None rows -> binary_labels rows -> length h = length rows -> hard h ->
  In ((None, bv), g) (pairs_of k rows) ->
  exists f q o,
    mf_of b rows h = Some f /\
    frame_at (map rg rows) f g = Some (Fin q) /\ F.fr_overall f = Fin o /\
    q == spec_of b (metric_rows_of g rows h) /\ o == spec_of b (metric_rows rows h) /\
    mf_gap b rows h g = Some (Fin (q + - o)) /\
    gamma_at k 1 rows h (Plus, ((None, bv), g)) == q - o /\
    gamma_at k 1 rows h (Minus, ((None, bv), g)) == - (q - o).
Proof. apply gamma_vs_metricframe_stratum. Qed.

(* ---------- with control features: stratum by stratum ---------- *)

Lemma restrict_lengths c rows h :
  length h = length rows -> length (restrict_vec c rows h) = length (restrict_rows c rows).
Proof.
  unfold restrict_vec, restrict_rows. revert h.
  induction rows as [|x rows IH]; intros [|y h] Hl; try discriminate; [reflexivity|].
  cbn [combine filter fst]. destruct (in_stratum c x); cbn [map length]; rewrite IH by (cbn in Hl; lia);
    reflexivity.
Qed.

Lemma restrict_hard c rows h : hard h -> hard (restrict_vec c rows h).
Proof.
  unfold hard, restrict_vec. intro Hh. apply Forall_forall. intros x Hx.
  apply in_map_iff in Hx. destruct Hx as [[rw y] [<- Hin]]. apply filter_In in Hin.
  destruct Hin as [Hin _]. apply in_combine_r in Hin. rewrite Forall_forall in Hh. apply Hh. exact Hin.
Qed.

Lemma restrict_single c rows : single_stratum c (restrict_rows c rows).
Proof.
  unfold single_stratum, restrict_rows. apply Forall_forall. intros rw Hin.
  apply filter_In in Hin. destruct Hin as [_ Hs]. unfold in_stratum in Hs. apply oz_eqb_eq. exact Hs.
Qed.

Lemma restrict_binary c rows : binary_labels rows -> binary_labels (restrict_rows c rows).
Proof.
  unfold binary_labels, restrict_rows. intro H. apply Forall_forall. intros rw Hin.
  apply filter_In in Hin. rewrite Forall_forall in H. apply H. tauto.
Qed.

Lemma restrict_pairs k c bv g rows :
  In ((c, bv), g) (pairs_of k rows) -> In ((c, bv), g) (pairs_of k (restrict_rows c rows)).
Proof.
  intro Hin. apply pairs_of_In in Hin. destruct Hin as (rw & A & E & G). apply pairs_of_In.
  exists rw. split; [|auto]. apply filter_In. split; [exact A|].
  apply event_some in E. destruct E as [E _]. cbn [fst] in E. unfold in_stratum. apply oz_eqb_eq. auto.
Qed.

(* the entries of stratum c are by_group - overall of the MetricFrame of the rows of stratum c
   (what MetricFrame(..., control_features=c) reports under the control level c) *)
Theorem gamma_vs_metricframe_control
        (k : kind) (bv : Z) (b : F.base) (rows : list row) (h : list Q) (c : option Z) (g : Z) :
  matching_metric k bv = Some b ->
  binary_labels rows -> length h = length rows -> hard h ->
  In ((c, bv), g) (pairs_of k rows) ->
  let rows_c := restrict_rows c rows in
  let h_c := restrict_vec c rows h in
  exists f q o,
    mf_of b rows_c h_c = Some f /\
    frame_at (map rg rows_c) f g = Some (Fin q) /\ F.fr_overall f = Fin o /\
    q == spec_of b (metric_rows_of g rows_c h_c) /\ o == spec_of b (metric_rows rows_c h_c) /\
    mf_gap b rows_c h_c g = Some (Fin (q + - o)) /\
    gamma_at k 1 rows h (Plus, ((c, bv), g)) == q - o /\
    gamma_at k 1 rows h (Minus, ((c, bv), g)) == - (q - o).
Proof.
  intros Hm Hy Hl Hh Hin rows_c h_c.
  destruct (gamma_vs_metricframe_stratum k bv b c rows_c h_c g Hm
              (restrict_single c rows) (restrict_binary c rows Hy)
              (restrict_lengths c rows h Hl) (restrict_hard c rows h Hh)
              (restrict_pairs k c bv g rows Hin))
    as (f & q & o & A1 & A2 & A3 & A4 & A5 & A6 & GP & GM).
  exists f, q, o. repeat (split; [assumption|]).
  pose proof (strata_independent k 1 rows h Plus (c, bv) g Hin) as SP.
  pose proof (strata_independent k 1 rows h Minus (c, bv) g Hin) as SM.
  cbv zeta in SP, SM. cbn [fst] in SP, SM. fold rows_c h_c in SP, SM.
  rewrite SP, SM. split; assumption.
Qed.

Lemma stratum_rows_eq c rows : stratum_rows c rows = restrict_rows c rows.
Proof. reflexivity. Qed.
Lemma stratum_vec_eq c rows h : stratum_vec c rows h = restrict_vec c rows h.
Proof. reflexivity. Qed.

(* every cell of the index has a matching rate (binary labels) *)
Lemma cell_metric k rows c bv g :
  binary_labels rows -> In ((c, bv), g) (pairs_of k rows) -> exists b, matching_metric k bv = Some b.
Proof.
  intros Hy Hin. apply pairs_of_In in Hin. destruct Hin as (rw & A & E & _).
  unfold binary_labels in Hy. rewrite Forall_forall in Hy. specialize (Hy rw A).
  unfold event_of, base_event in E. unfold matching_metric.
  destruct k, Hy as [Y|Y]; rewrite ?Y in E; cbn in E; try discriminate E;
    injection E as _ <-; cbn; eauto.
Qed.

(* the form the correspondence run evaluates: EVERY index entry, with or without control features *)
Theorem bridge_entry_spec (k : kind) (rows : list row) (h : list Q) (s : sign) (e : event) (g : Z) :
  binary_labels rows -> length h = length rows -> hard h ->
  In (s, (e, g)) (index k rows) ->
  exists d, bridge_entry k rows h (s, (e, g)) = Some (Fin d) /\
            gamma_at k 1 rows h (Plus, (e, g)) == d /\ gamma_at k 1 rows h (Minus, (e, g)) == - d.
Proof.
  intros Hy Hl Hh Hin. apply index_In in Hin. destruct e as [c bv].
  destruct (cell_metric k rows c bv g Hy Hin) as [b Hm].
  destruct (gamma_vs_metricframe_control k bv b rows h c g Hm Hy Hl Hh Hin)
    as (f & q & o & _ & _ & _ & _ & _ & A6 & GP & GM).
  exists (q + - o). unfold bridge_entry. rewrite Hm. split; [exact A6|].
  rewrite GP, GM. split; ring.
Qed.

(* ---------- the five families, spelled out (no control features) ---------- *)

Section Families.
  Variables (rows : list row) (h : list Q) (g : Z).
  Hypotheses (Hc : single_stratum None rows) (Hy : binary_labels rows)
             (Hl : length h = length rows) (Hh : hard h).

  Let claim (k : kind) (bv : Z) (b : F.base) : Prop :=
    In ((None, bv), g) (pairs_of k rows) ->
    exists f q o,
      mf_of b rows h = Some f /\
      frame_at (map rg rows) f g = Some (Fin q) /\ F.fr_overall f = Fin o /\
      gamma_at k 1 rows h (Plus, ((None, bv), g)) == q - o /\
      gamma_at k 1 rows h (Minus, ((None, bv), g)) == - (q - o).

  Lemma family_claim k bv b : matching_metric k bv = Some b -> claim k bv b.
  Proof.
    intros Hm Hin.
    destruct (gamma_vs_metricframe k bv b rows h g Hm Hc Hy Hl Hh Hin)
      as (f & q & o & A1 & A2 & A3 & _ & _ & _ & GP & GM).
    exists f, q, o. auto.
  Qed.

  (* selection rate *)
  Lemma gvm_demographic_parity : claim DP all_code F.BSel.
  Proof. apply family_claim. reflexivity. Qed.
  (* true positive rate, on the event label = 1 *)
  Lemma gvm_true_positive_rate_parity : claim TPR 1%Z F.BTpr.
  Proof. apply family_claim. reflexivity. Qed.
  (* false positive rate, on the event label = 0 *)
  Lemma gvm_false_positive_rate_parity : claim FPR 0%Z F.BFpr.
  Proof. apply family_claim. reflexivity. Qed.
  (* both *)
  Lemma gvm_equalized_odds : claim EO 1%Z F.BTpr /\ claim EO 0%Z F.BFpr.
  Proof. split; apply family_claim; reflexivity. Qed.
  (* error rate = zero-one loss = 1 - accuracy *)
  Lemma gvm_error_rate_parity : claim ERP all_code F.BZol.
  Proof. apply family_claim. reflexivity. Qed.
End Families.

(* ---------- ErrorRate cost validation ---------- *)

Theorem er_config_spec (costs : option (bool * Q * Q)) :
  match costs with
  | None => er_config costs = Some (1, 1)
  | Some (keys_ok, fp, fn) =>
      (er_config costs = Some (fp, fn) <-> keys_ok = true /\ 0 <= fp /\ 0 <= fn /\ ~ (fp == 0 /\ fn == 0)) /\
      (er_config costs = None <-> ~ (keys_ok = true /\ 0 <= fp /\ 0 <= fn /\ ~ (fp == 0 /\ fn == 0)))
  end.
Proof.
  destruct costs as [[[ko fp] fn]|]; [|reflexivity].
  unfold er_config.
  assert (R : ko && Qleb 0 fp && Qleb 0 fn && Qltb 0 (fp + fn) = true
              <-> ko = true /\ 0 <= fp /\ 0 <= fn /\ ~ (fp == 0 /\ fn == 0)).
  { rewrite !andb_true_iff, !Qleb_le. unfold Qltb. rewrite negb_true_iff.
    split.
    - intros [[[A Bp] Bn] D]. repeat split; try assumption. intros [E1 E2].
      assert (X : Qle_bool (fp + fn) 0 = true) by (apply Qle_bool_iff; lra). congruence.
    - intros (A & Bp & Bn & D). repeat split; try assumption.
      destruct (Qle_bool (fp + fn) 0) eqn:X; [|reflexivity]. apply Qle_bool_iff in X.
      exfalso. apply D. split; lra. }
  destruct (ko && Qleb 0 fp && Qleb 0 fn && Qltb 0 (fp + fn)) eqn:E.
  - split; split; try discriminate; try (intros _; reflexivity).
    + intros _. apply R. reflexivity.
    + intro N. exfalso. apply N. apply R. reflexivity.
  - split; split; try discriminate; try (intros _; reflexivity).
    + intro P. apply R in P. discriminate.
    + intros _ P. apply R in P. discriminate.
Qed.

(* ---------- MeanLoss (no_groups = True) ---------- *)

Lemma no_groups_snd rows : map snd (no_groups rows) = repeat 0%Z (length rows).
Proof. unfold no_groups. induction rows as [|x rows IH]; cbn; [reflexivity | rewrite IH; reflexivity]. Qed.

Lemma zuniq_repeat0 n : zuniq (repeat 0%Z (S n)) = [0%Z].
Proof. induction n as [|n IH]; [reflexivity|]. change (zuniq (repeat 0%Z (S (S n)))) with (zinsert 0%Z (zuniq (repeat 0%Z (S n)))). rewrite IH. reflexivity. Qed.

Lemma losses_no_groups l rows h : losses l (no_groups rows) h = losses l rows h.
Proof.
  unfold losses, no_groups. revert h. induction rows as [|x rows IH]; intros [|y h]; cbn; try reflexivity.
  rewrite IH. reflexivity.
Qed.

Lemma filter_all_zero (vals : list Q) n :
  filter (fun t : Z * Q => (fst t =? 0)%Z) (combine (repeat 0%Z n) vals) = combine (repeat 0%Z n) vals.
Proof.
  revert vals. induction n as [|n IH]; intros [|v vals]; cbn; try reflexivity. rewrite IH. reflexivity.
Qed.

Lemma map_snd_combine_repeat (vals : list Q) n :
  length vals = n -> map snd (combine (repeat 0%Z n) vals) = vals.
Proof.
  revert vals. induction n as [|n IH]; intros [|v vals] H; cbn in *; try discriminate; try reflexivity.
  rewrite IH by lia. reflexivity.
Qed.

Lemma losses_length l rows h : length h = length rows -> length (losses l rows h) = length rows.
Proof.
  unfold losses. revert h. induction rows as [|x rows IH]; intros [|y h] H; cbn in *; try discriminate; try reflexivity.
  rewrite IH by lia. reflexivity.
Qed.

(* MeanLoss: a single constraint, whose value is the mean clipped loss over ALL rows *)
Theorem mean_loss_spec (l : loss) (rows : list lrow) (h : list Q) :
  rows <> [] -> length h = length rows ->
  mean_loss_index rows = [0%Z] /\
  mean_loss_gamma l rows h = [qsum (losses l rows h) / inject_nat (length rows)].
Proof.
  intros Hne Hl. unfold mean_loss_index, mean_loss_gamma, bgl_gamma, bgl_index.
  rewrite no_groups_snd. destruct rows as [|x rows]; [congruence|].
  cbn [length]. rewrite zuniq_repeat0. split; [reflexivity|]. cbn [map]. unfold group_mean.
  rewrite losses_no_groups, filter_all_zero.
  rewrite map_snd_combine_repeat by (apply losses_length; exact Hl).
  rewrite combine_length, repeat_length, (losses_length l _ h Hl), Nat.min_id. reflexivity.
Qed.
