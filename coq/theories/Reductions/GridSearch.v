(* Model of the fit loop of fairlearn.reductions._grid_search.grid_search.GridSearch (C09).
   Proof-free: the lemmas are in GridSearch_proofs.v.

   For every multiplier vector of the grid the code
     1. takes the signed weights of the constraints and ADDS the signed weights of the default
        objective unless the objective is in the span of the constraints
        (parity moments: ErrorRate, added; BoundedGroupLoss: MeanLoss, in the span, not added),
     2. classification: relabels y' = 1 * (weights > 0) and reweights weights.abs();
        regression: keeps y and the (non-negative) weights,
     3. trains a DummyClassifier(constant) when y' has a single value, else a deep copy of the
        user's estimator (here: the abstract learner `learn`),
     4. records objective.gamma(h).iloc[0] and constraints.gamma(h) of THAT predictor,
   and then selects best_idx_ = losses.index(min(losses)) with
   losses[i] = objective_weight * objectives_[i] + constraint_weight * gammas_[i].max();
   predict delegates to predictors_[best_idx_].

   signed weights, relabel, reweight, gamma, er_gamma, bgl_* are the definitions of Moments.v /
   Reduction.v (C06 / C07); tradeoff / select are those of Grid.v. *)
From Coq Require Import QArith ZArith List Bool.
From FL Require Import Num ListX Flat Grid Moments Reduction.
Import ListNotations.
Open Scope Q_scope.

(* ---------- losses.index(min(losses)) as the code writes it ---------- *)

(* Python's min of a list: None = ValueError on an empty list; the first minimal element *)
Definition py_min (l : list Q) : option Q := qmin1 l.
Definition py_max (l : list Q) : option Q := qmax1 l.

(* list.index(v): first position whose element equals v; None = ValueError *)
Fixpoint py_index_from (v : Q) (l : list Q) (i : nat) : option nat :=
  match l with
  | [] => None
  | x :: r => if Qeqb x v then Some i else py_index_from v r (S i)
  end.

Definition py_index (v : option Q) (l : list Q) : option nat :=
  match v with Some m => py_index_from m l 0 | None => None end.

Definition index_of_min (l : list Q) : option nat := py_index (py_min l) l.

(* len(np.unique(y_reduction)) == 1: the single value *)
Definition single_value (l : list Q) : option Q :=
  match l with
  | [] => None
  | y :: r => if forallb (Qeqb y) r then Some y else None
  end.

(* weights = self.constraints.signed_weights(lambda_vec) ; weights = weights + objective.signed_weights() *)
Definition grid_weights (k : kind) (r fp fn : Q) (rows : list row) (lam : list Q) : list Q :=
  vadd (signed_weights k r rows lam) (er_signed_weights fp fn rows).

(* MeanLoss(loss).gamma(h).iloc[0]: ConditionalLossMoment with no_groups = True, one group "all" *)
Definition mean_loss (l : loss) (rows : list lrow) (h : list Q) : Q :=
  qsum (Moments.losses l rows h) / inject_nat (length rows).

Section FitLoop.
  (* feature rows, the user's estimator after fit, its fit and its predict (on a whole matrix) *)
  Variables X Hyp : Type.
  Variable learn : list (X * Q * Q) -> Hyp.          (* (features, label, sample weight) per row *)
  Variable predict : Hyp -> list X -> list Q.

  (* current_estimator: DummyClassifier(strategy="constant", constant=c) or a fitted copy *)
  Inductive fitted := Dummy (c : Q) | Learned (h : Hyp).

  Definition fpredict (f : fitted) (xs : list X) : list Q :=
    match f with
    | Dummy c => map (fun _ => c) xs
    | Learned h => predict h xs
    end.

  Definition train (xs : list X) (yred w : list Q) : fitted :=
    match single_value yred with
    | Some c => Dummy c
    | None => Learned (learn (combine (combine xs yred) w))
    end.

  (* predictors_[i], objectives_[i], gammas_[i] *)
  Record point := mkPoint { p_fit : fitted; p_obj : Q; p_gamma : list Q }.

  (* ----- classification moments (UtilityParity; objective ErrorRate(fp, fn), not in the span) ----- *)
  Definition fit_point_cls (k : kind) (r fp fn : Q) (rows : list row) (xs : list X) (lam : list Q) : fitted :=
    let w := grid_weights k r fp fn rows lam in
    train xs (relabel w) (reweight w).

  Definition record_cls (k : kind) (r fp fn : Q) (rows : list row) (xs : list X) (f : fitted) : point :=
    let h := fpredict f xs in
    mkPoint f (er_gamma fp fn rows h) (gamma k r rows h).

  Definition fit_cls (k : kind) (r fp fn : Q) (rows : list row) (xs : list X) (grid : list (list Q))
    : list point :=
    map (fun lam => record_cls k r fp fn rows xs (fit_point_cls k r fp fn rows xs lam)) grid.

  (* ----- loss moments (BoundedGroupLoss; objective MeanLoss, in the span: nothing added) ----- *)
  Definition fit_point_loss (rows : list lrow) (xs : list X) (lam : list Q) : fitted :=
    train xs (map fst rows) (bgl_signed_weights rows lam).

  Definition record_loss (l : loss) (rows : list lrow) (xs : list X) (f : fitted) : point :=
    let h := fpredict f xs in
    mkPoint f (mean_loss l rows h) (bgl_gamma l rows h).

  Definition fit_loss (l : loss) (rows : list lrow) (xs : list X) (grid : list (list Q)) : list point :=
    map (fun lam => record_loss l rows xs (fit_point_loss rows xs lam)) grid.

  (* ----- selection and delegation ----- *)
  (* losses = [loss_fct(i) for i in range(len(self.objectives_))] *)
  Definition loss_list (cw : Q) (pts : list point) : list Q :=
    map (fun p => tradeoff cw (p_obj p) (p_gamma p)) pts.

  (* self.best_idx_ = losses.index(min(losses)) *)
  Definition best_idx (cw : Q) (pts : list point) : option nat := index_of_min (loss_list cw pts).

  (* Grid.select on the recorded columns: (index, loss value) *)
  Definition select_pts (cw : Q) (pts : list point) : option (nat * Q) :=
    select cw (map p_obj pts) (map p_gamma pts).

  (* GridSearch.predict: self.predictors_[self.best_idx_].predict(X) *)
  Definition gs_predict (cw : Q) (pts : list point) (xs' : list X) : option (list Q) :=
    match best_idx cw pts with
    | Some i => option_map (fun p => fpredict (p_fit p) xs') (nth_error pts i)
    | None => None
    end.
End FitLoop.

Arguments Dummy {Hyp} c.
Arguments Learned {Hyp} h.
Arguments fpredict {X Hyp} predict f xs.
Arguments train {X Hyp} learn xs yred w.
Arguments mkPoint {Hyp} p_fit p_obj p_gamma.
Arguments p_fit {Hyp} p.
Arguments p_obj {Hyp} p.
Arguments p_gamma {Hyp} p.
Arguments fit_point_cls {X Hyp} learn k r fp fn rows xs lam.
Arguments record_cls {X Hyp} predict k r fp fn rows xs f.
Arguments fit_cls {X Hyp} learn predict k r fp fn rows xs grid.
Arguments fit_point_loss {X Hyp} learn rows xs lam.
Arguments record_loss {X Hyp} predict l rows xs f.
Arguments fit_loss {X Hyp} learn predict l rows xs grid.
Arguments loss_list {Hyp} cw pts.
Arguments best_idx {Hyp} cw pts.
Arguments select_pts {Hyp} cw pts.
Arguments gs_predict {X Hyp} predict cw pts xs'.

(* ---------- a generic exact learner over ANY finite class given as a list ----------
   (shows that the premise of the best-response theorems is satisfiable for every finite class) *)
Section Enumerate.
  Variables X Hyp : Type.
  Variable predict : Hyp -> list X -> list Q.
  Variable cost : list Q -> list Q -> list Q -> Q.     (* weights, labels, predictions *)
  Variable h0 : Hyp.
  Variable class : list Hyp.

  Definition data_x (d : list (X * Q * Q)) : list X := map (fun t => fst (fst t)) d.
  Definition data_y (d : list (X * Q * Q)) : list Q := map (fun t => snd (fst t)) d.
  Definition data_w (d : list (X * Q * Q)) : list Q := map snd d.

  Definition enum_learn (d : list (X * Q * Q)) : Hyp :=
    match argmin_first (map (fun h => cost (data_w d) (data_y d) (predict h (data_x d))) class) with
    | Some (i, _) => nth i class h0
    | None => h0
    end.
End Enumerate.
Arguments enum_learn {X Hyp} predict cost h0 class d.

(* the weighted squared / absolute loss the regression oracle minimises *)
Definition wloss (l : loss) (ww yy h : list Q) : Q := dot ww (zipw (loss_eval l) yy h).

(* ---------- the learners of the correspondence run (harness.learners) ----------
   ExactLearner: per distinct feature row the label with the larger total weight, ties -> 0;
   features are cell codes (Z), the fitted state is the table cell -> label *)
Definition cell_tot (d : list (Z * Q * Q)) (c : Z) (lab : Q) : Q :=
  qsum (map snd (filter (fun t => (fst (fst t) =? c)%Z && Qeqb (snd (fst t)) lab) d)).

Definition exact_learn (d : list (Z * Q * Q)) : list (Z * Q) :=
  map (fun c => (c, if Qltb (cell_tot d c 0) (cell_tot d c 1) then 1 else 0))
      (zuniq (map (fun t => fst (fst t)) d)).

Definition table_predict (t : list (Z * Q)) (xs : list Z) : list Q :=
  map (fun x => match zassoc x t with Some v => v | None => 0 end) xs.

(* smallest |tot_1 - tot_0| over the cells: 0 = the vote of some cell is tied *)
Definition vote_margin (d : list (Z * Q * Q)) : Q :=
  qmin_list 1 (map (fun c => qabs (cell_tot d c 1 - cell_tot d c 0)) (zuniq (map (fun t => fst (fst t)) d))).

(* CellMeanRegressor: weighted mean of the targets per distinct feature row (0 when the cell
   has no weight); the fitted value is stored as a reduced fraction (same rational) *)
Definition cell_mean (d : list (Z * Q * Q)) (c : Z) : Q :=
  let sel := filter (fun t => (fst (fst t) =? c)%Z) d in
  let sw := qsum (map snd sel) in
  if Qltb 0 sw then Qred (qsum (map (fun t => snd t * snd (fst t)) sel) / sw) else 0.

Definition mean_learn (d : list (Z * Q * Q)) : list (Z * Q) :=
  map (fun c => (c, cell_mean d c)) (zuniq (map (fun t => fst (fst t)) d)).

(* ---------- GridSearch.fit end to end on the generated grid (parity moments) ----------
   The grid of Grid.v is laid out on the SORTED constraint index ('+' block, '-' block over the
   sorted (event, group) cells); Moments.index lists the cells in its own order.  pandas aligns
   by label: the multiplier of index entry (s, (e, g)) is the grid entry at the position of
   (s, e, g) in the sorted layout.  No control features here (GridSearch.fit passes none). *)
Definition gs_events (k : kind) (rows : list row) : list (option Z) :=
  map (fun rw => option_map snd (event_of k rw)) rows.
Definition gs_groups (rows : list row) : list Z := map rg rows.

Definition align_grid (k : kind) (rows : list row) (v : list Q) : list Q :=
  let cells := up_cells (gs_events k rows) (gs_groups rows) in
  map (fun j : idx =>
         let '(s, (e, g)) := j in
         match find_key [snd e; g] cells 0 with
         | Some p => nth (match s with Plus => p | Minus => length cells + p end)%nat v 0
         | None => 0
         end) (index k rows).

Definition gs_grid_cls (k : kind) (rows : list row) (gs : nat) (limit : Q) : option (list (list Q)) :=
  let events := gs_events k rows in
  let groups := gs_groups rows in
  option_map (map (align_grid k rows))
             (grid (up_m events groups) (up_cols events groups) (up_negs events groups) false gs limit).

(* fit with ErrorRate() (fp = fn = 1) and the exact learner; None = no grid *)
Definition gridsearch_cls (k : kind) (r cw : Q) (rows : list row) (xs : list Z) (gs : nat) (limit : Q)
  : option (list (list Q) * list (point (list (Z * Q))) * option (nat * Q)) :=
  match gs_grid_cls k rows gs limit with
  | None => None
  | Some g =>
      let pts := fit_cls exact_learn table_predict k r 1 1 rows xs g in
      Some (g, pts, select_pts cw pts)
  end.

(* margin of the vote at one grid point: 0 = some cell is tied (or has no weight at all), so that
   rounding can change the trained predictor *)
Definition margin_cls (k : kind) (r : Q) (rows : list row) (xs : list Z) (lam : list Q) : Q :=
  let w := grid_weights k r 1 1 rows lam in
  vote_margin (combine (combine xs (relabel w)) (reweight w)).

(* ---------- the same for BoundedGroupLoss (sorted group index on both sides) ---------- *)
Definition gridsearch_loss (l : loss) (cw : Q) (rows : list lrow) (xs : list Z) (gs : nat) (limit : Q)
  : option (list (list Q) * list (point (list (Z * Q))) * option (nat * Q)) :=
  let groups := map snd rows in
  match grid (bgl_m groups) (bgl_cols groups) (bgl_negs groups) true gs limit with
  | None => None
  | Some g =>
      let pts := fit_loss mean_learn table_predict l rows xs g in
      Some (g, pts, select_pts cw pts)
  end.

(* ---------- flattening for the correspondence run (nothing here is part of a theorem) ---------- *)
Definition is_dummy {Hyp} (f : fitted Hyp) : bool := match f with Dummy _ => true | Learned _ => false end.

(* index entry as (sign: 1 = '+', 0 = '-'; base event code; group code) *)
Definition enc_idx3 (j : idx) : list Z :=
  let '(s, (e, g)) := j in [match s with Plus => 1 | Minus => 0 end; snd e; g]%Z.

Definition run_cls (k : kind) (r cw : Q) (rows : list row) (xs : list Z) (gs : nat) (limit : Q) : list Z :=
  match gridsearch_cls k r cw rows xs gs limit with
  | None => [0%Z]
  | Some (g, pts, sel) =>
      1%Z :: enc_list enc_idx3 (index k rows)
        ++ enc_list (fun lp : list Q * point (list (Z * Q)) =>
                       let (lam, p) := lp in
                       enc_list enc_q lam ++ enc_bool (is_dummy (p_fit p))
                         ++ enc_q (margin_cls k r rows xs lam)
                         ++ enc_q (p_obj p) ++ enc_list enc_q (p_gamma p))
                    (combine g pts)
        ++ enc_opt (enc_pair enc_nat enc_q) sel
  end.

Definition run_loss (l : loss) (cw : Q) (rows : list lrow) (xs : list Z) (gs : nat) (limit : Q) : list Z :=
  match gridsearch_loss l cw rows xs gs limit with
  | None => [0%Z]
  | Some (g, pts, sel) =>
      1%Z :: enc_list enc_z (bgl_index rows)
        ++ enc_list (fun lp : list Q * point (list (Z * Q)) =>
                       let (lam, p) := lp in
                       enc_list enc_q lam ++ enc_bool (is_dummy (p_fit p))
                         ++ enc_q (p_obj p) ++ enc_list enc_q (p_gamma p))
                    (combine g pts)
        ++ enc_opt (enc_pair enc_nat enc_q) sel
  end.
