(* Wire glue of the second-phase C07 correspondence run (MomentsIO.v is shared with C06 and left untouched):
   evaluates ErrorRate.signed_weights(lambda), the single-label branch of _call_oracle and the unit weights of
   the loss moments on literal inputs.  Nothing here is part of a theorem statement. *)
From Coq Require Import QArith ZArith List Bool.
From FL Require Import Num ListX Flat Moments Reduction ReductionExt MomentsIO.
Import ListNotations.
Open Scope Z_scope.

(* parity cases: for every objective multiplier l the weights ErrorRate.signed_weights([l]); for every constraint
   multiplier the constant of the DummyClassifier branch (None = the estimator is trained) *)
Definition run_red_ext (k : kind) (db rb : option Q) (slack fp fn : Q) (rows : list row)
           (specs : list (list lamspec)) (ls : list Q) : list Z :=
  match config db rb slack with
  | None => [0]
  | Some (eps, r) =>
      1 :: enc_list enc_z er_index
        ++ enc_list (fun l => enc_qs (er_signed_weights_lam fp fn rows l)) ls
        ++ enc_list (fun spec =>
             let lam := align_lam k rows spec in
             enc_opt enc_q (dummy_constant (relabel (oracle_weights k r fp fn rows lam)))) specs
  end.

(* loss moments: signed_weights() and signed_weights(prob_attr) *)
Definition run_bgl_ext (rows : list lrow) : list Z :=
  enc_qs (bgl_signed_weights_opt rows None)
    ++ enc_qs (prob_attr rows)
    ++ enc_qs (bgl_signed_weights_opt rows (Some (prob_attr rows))).
