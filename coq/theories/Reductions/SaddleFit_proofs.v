(* C08 (extension) -- lemmas and theorems about SaddleFit.v *)
From Coq Require Import QArith ZArith List Bool Lia Lra Psatz.
From FL Require Import Num Saddle Saddle_proofs SaddleFit.
Import ListNotations.
Open Scope Q_scope.

(* ------------------------------------------------------------------ *)
(* eval_gap's loop is the generic for/break loop                        *)
(* ------------------------------------------------------------------ *)
Lemma L_low_loop_for_break H c prec nu Lv high lam lam' muls : forall cur,
  L_low_loop H c prec nu Lv high lam lam' muls cur =
  for_break (fun m cur => let cand := L_pt c (best_response H (vscale m lam)) lam' in
                          if Qltb cand cur then cand else cur)
            (fun cur' => Qltb (nu + prec) (gap_of Lv cur' high)) muls cur.
Proof.
  induction muls as [|m rest IH]; intro cur; cbn [L_low_loop for_break]; [reflexivity|].
  cbv zeta. rewrite IH. reflexivity.
Qed.

Lemma gap_code_for_break H c B prec nu muls Qw lam lam' :
  gap_of (L H c Qw lam')
         (for_break (fun m cur => let cand := L_pt c (best_response H (vscale m lam)) lam' in
                                  if Qltb cand cur then cand else cur)
                    (fun cur' => Qltb (nu + prec) (gap_of (L H c Qw lam') cur' (L_high H c B Qw)))
                    muls (L H c Qw lam'))
         (L_high H c B Qw)
  = gap_code H c B prec nu muls Qw lam lam'.
Proof. unfold gap_code, L_low_code. rewrite L_low_loop_for_break. reflexivity. Qed.

(* ------------------------------------------------------------------ *)
(* one iteration: the appended pair is one of the two candidates, whole *)
(* ------------------------------------------------------------------ *)
Lemma keep_pair_cases {A} (a : A) g lp :
  keep_pair a g lp = (a, g) \/ lp = Some (keep_pair a g lp).
Proof.
  unfold keep_pair. destruct lp as [[q gl]|]; [|left; reflexivity].
  cbn [fst snd]. destruct (Qltb g gl); [left|right]; reflexivity.
Qed.

Lemma keep_pair_gap {A} (a : A) g lp :
  snd (keep_pair a g lp) = keep_gap g (option_map snd lp).
Proof.
  unfold keep_pair, keep_gap. destruct lp as [[q gl]|]; cbn [option_map fst snd]; [|reflexivity].
  destruct (Qltb g gl); reflexivity.
Qed.

(* ------------------------------------------------------------------ *)
(* the object handed out                                               *)
(* ------------------------------------------------------------------ *)
(* `its` = the per-iteration pairs (Q_t, gap_t) in the order they were appended *)
Theorem returned_consistent {A} (d : A) prec (its : list (A * Q)) : its <> [] -> 0 <= prec ->
  let r := returned d prec (map snd its) (map fst its) in
  (ret_iter r < length its)%nat /\
  nth_error its (ret_iter r) = Some (ret_weights r, ret_gap r) /\
  In (ret_weights r, ret_gap r) its /\
  ret_gap r = selected_gap prec (map snd its) /\
  (forall p, In p its -> ret_gap r <= snd p + prec).
Proof.
  intros Hne Hp. cbv zeta. unfold returned, ret_iter, ret_gap, ret_weights. cbn [fst snd].
  assert (Hg : map snd its <> []) by (destruct its; [congruence | discriminate]).
  destruct (select_is_min prec (map snd its) Hg Hp) as [S1 [_ [S3 _]]]. cbv zeta in S1.
  rewrite map_length in S1.
  set (s := select prec (map snd its)) in *.
  assert (E : nth_error its s = Some (nth s (map fst its) d, nth s (map snd its) 0)).
  { rewrite (nth_error_nth' its (d, 0) S1). f_equal.
    change d with (fst (d, 0)) at 2. change 0 with (snd (d, 0)) at 3.
    rewrite !map_nth. destruct (nth s its (d, 0)); reflexivity. }
  split; [exact S1|]. split; [exact E|]. split; [apply nth_error_In with (n := s); exact E|].
  split; [reflexivity|].
  intros p Hp'. apply S3. apply in_map. exact Hp'.
Qed.

(* the certificate travels with the weights: if every appended pair (Q_t, gap_t) has gap_t = the gap
   eval_gap computes for Q_t (at the multiplier of that candidate, exact oracle), the two saddle-point
   bounds hold for the RETURNED weights_ with g = the RETURNED best_gap_ *)
Theorem returned_certificate H c B prec nu rest (its : list (list Q * Q)) Qstar :
  wf H c = true -> 0 < B -> 0 <= prec ->
  is_dist H Qstar = true -> feasible H c Qstar = true ->
  (forall h, In h H -> 0 <= err_h h <= 1) ->
  its <> [] ->
  (forall Qw g, In (Qw, g) its ->
     is_dist H Qw = true /\
     exists lam lam', all_nonneg lam' = true /\ compat H lam lam' = true /\
                      g == gap_code H c B prec nu (1 :: rest) Qw lam lam') ->
  let r := returned [] prec (map snd its) (map fst its) in
  err H (ret_weights r) <= err H Qstar + 2 * ret_gap r /\
  forall v, In v (viol H c (ret_weights r)) -> v <= (1 + 2 * ret_gap r) / B.
Proof.
  intros W HB Hp Ds F U Hne Hall r.
  destruct (returned_consistent (A := list Q) [] prec its Hne Hp) as [_ [_ [Hin _]]].
  cbv zeta in Hin. fold r in Hin.
  destruct (Hall _ _ Hin) as [D [lam [lam' [Hl [C E]]]]].
  destruct (saddle_bounds_for_code_gap H c B prec nu rest (ret_weights r) Qstar lam lam'
              W D Ds Hl HB C F U) as [B1 B2]. cbv zeta in B1, B2.
  split.
  - rewrite E. exact B1.
  - intros v Hv. specialize (B2 v Hv).
    assert (X : (1 + 2 * ret_gap r) / B == (1 + 2 * gap_code H c B prec nu (1 :: rest) (ret_weights r) lam lam') / B)
      by (rewrite E; reflexivity).
    rewrite X. exact B2.
Qed.

(* ------------------------------------------------------------------ *)
(* nu                                                                   *)
(* ------------------------------------------------------------------ *)
Lemma nu_used_spec v auto : nu_used (Some v) auto = v /\ nu_used None auto = auto.
Proof. split; reflexivity. Qed.

(* a run that was GIVEN nu = v (0 included) and stops before max_iter hands out a gap < v *)
Theorem early_stop_requested_nu (g : nat -> Q) v auto min_iter prec max_iter : 0 <= prec ->
  let gaps := run g (nu_used (Some v) auto) min_iter max_iter 0 in
  (length gaps < max_iter)%nat ->
  selected_gap prec gaps < v /\ (min_iter <= length gaps - 1)%nat.
Proof. intro Hp. exact (early_stop_below_nu g v min_iter prec max_iter Hp). Qed.

(* ------------------------------------------------------------------ *)
(* coordinates of the vector operations                                 *)
(* ------------------------------------------------------------------ *)
Lemma nth_vadd a : forall b j, length a = length b -> nth j (vadd a b) 0 == nth j a 0 + nth j b 0.
Proof.
  induction a as [|x a IH]; intros [|y b] j E; cbn [length] in E; try discriminate.
  - destruct j; cbn; lra.
  - rewrite vadd_cons. destruct j as [|j]; cbn [nth]; [apply Qred_correct | apply IH; lia].
Qed.

Lemma nth_vsub a : forall b j, length a = length b -> nth j (vsub a b) 0 == nth j a 0 - nth j b 0.
Proof.
  induction a as [|x a IH]; intros [|y b] j E; cbn [length] in E; try discriminate.
  - destruct j; cbn; lra.
  - rewrite vsub_cons. destruct j as [|j]; cbn [nth]; [apply Qred_correct | apply IH; lia].
Qed.

Lemma nth_vscale k a : forall j, nth j (vscale k a) 0 == k * nth j a 0.
Proof.
  induction a as [|x a IH]; intro j; cbn [vscale map].
  - destruct j; cbn; lra.
  - fold (vscale k a). destruct j as [|j]; cbn [nth]; [apply Qred_correct | apply IH].
Qed.

Lemma nth_zeros m : forall j, nth j (zeros m) 0 == 0.
Proof.
  induction m as [|m IH]; intro j; cbn [zeros repeat]; [destruct j; reflexivity|].
  fold (zeros m). destruct j as [|j]; cbn [nth]; [reflexivity | apply IH].
Qed.

Lemma nth_gfold c j ps : lens_ok c ps ->
  nth j (gfold c ps) 0 == wsum (fun h => nth j (gam_h h) 0) ps.
Proof.
  induction ps as [|p ps IH]; intro Hl; cbn [gfold wsum fold_right].
  - apply nth_zeros.
  - fold (gfold c ps). fold (wsum (fun h => nth j (gam_h h) 0) ps).
    assert (Hl' : lens_ok c ps) by (intros q Hq; apply Hl; right; exact Hq).
    rewrite nth_vadd.
    + rewrite nth_vscale, IH by exact Hl'. reflexivity.
    + rewrite length_vscale, gfold_length by exact Hl'. apply Hl. left. reflexivity.
Qed.

Lemma rdot_map_wsum (f : hyp -> Q) x : forall H, rdot x (map f H) == wsum f (combine x H).
Proof.
  induction x as [|q x IH]; intros [|h H]; try reflexivity.
  cbn [map combine wsum fold_right fst snd]. fold (wsum f (combine x H)).
  rewrite rdot_cons, IH. reflexivity.
Qed.

Lemma wsum_sub_const f k ps : wsum (fun h => f h - k) ps == wsum f ps - k * wtot ps.
Proof.
  induction ps as [|p ps IH]; cbn [wsum wtot fold_right]; [ring|].
  fold (wsum (fun h => f h - k) ps). fold (wsum f ps). fold (wtot ps). rewrite IH. ring.
Qed.

Lemma vmax_le_bound l z : 0 <= z -> (forall v, In v l -> v <= z) -> vmax l <= z.
Proof.
  intros Hz Hl. destruct l as [|x r]; cbn [vmax]; [exact Hz|].
  assert (G : forall d l', d <= z -> (forall v, In v l' -> v <= z) -> qmax_list d l' <= z).
  { intros d l' Hd. induction l' as [|y l' IH]; intro Hl'; cbn [qmax_list]; [exact Hd|].
    apply Qmaxq_lub; [apply Hl'; left; reflexivity | apply IH; intros v Hv; apply Hl'; right; exact Hv]. }
  apply G; [apply Hl; left; reflexivity | intros v Hv; apply Hl; right; exact Hv].
Qed.

(* ------------------------------------------------------------------ *)
(* the linear program of solve_linprog                                  *)
(* ------------------------------------------------------------------ *)
Section LPFacts.
  Variable H : list hyp.
  Variable c : list Q.
  Variable B : Q.

  Lemma lp_feasible_unpack x z : lp_feasible H c x z = true ->
    length x = length H /\ (forall q, In q x -> 0 <= q) /\ 0 <= z /\ rsum x == 1 /\
    forall j, (j < length c)%nat -> lp_row H c x j <= z.
  Proof.
    unfold lp_feasible. intro F.
    apply andb_true_iff in F. destruct F as [F F5].
    apply andb_true_iff in F. destruct F as [F F4].
    apply andb_true_iff in F. destruct F as [F F3].
    apply andb_true_iff in F. destruct F as [F1 F2].
    split; [apply Nat.eqb_eq; exact F1|]. split; [apply all_nonneg_In; exact F2|].
    split; [apply Qleb_true; exact F3|]. split; [apply Qeqb_true; exact F4|].
    intros j Hj. rewrite forallb_forall in F5.
    assert (Hin : In (lp_row H c x j) (lp_rows H c x)).
    { unfold lp_rows. apply in_map. apply in_seq. lia. }
    specialize (F5 _ Hin). apply Qleb_true in F5. lra.
  Qed.

  Lemma lp_feasible_pack x z :
    length x = length H -> (forall q, In q x -> 0 <= q) -> 0 <= z -> rsum x == 1 ->
    (forall j, (j < length c)%nat -> lp_row H c x j <= z) -> lp_feasible H c x z = true.
  Proof.
    intros F1 F2 F3 F4 F5. unfold lp_feasible.
    repeat (apply andb_true_iff; split).
    - apply Nat.eqb_eq. exact F1.
    - unfold all_nonneg. apply forallb_forall. intros q Hq. apply Qleb_true. auto.
    - apply Qleb_true. exact F3.
    - apply Qeqb_true. exact F4.
    - apply forallb_forall. intros r Hr. unfold lp_rows in Hr. apply in_map_iff in Hr.
      destruct Hr as [j [<- Hj]]. apply in_seq in Hj. apply Qleb_true.
      assert (lp_row H c x j <= z) by (apply F5; lia). lra.
  Qed.

  (* lp_weights_probability: every point the LP's constraints allow is a probability vector over the
     hypotheses found so far *)
  Theorem lp_weights_probability x z : lp_feasible H c x z = true -> is_dist H x = true.
  Proof.
    intro F. destruct (lp_feasible_unpack x z F) as [F1 [F2 [_ [F4 _]]]].
    unfold is_dist. repeat (apply andb_true_iff; split).
    - apply Nat.eqb_eq. exact F1.
    - unfold all_nonneg. apply forallb_forall. intros q Hq. apply Qleb_true. auto.
    - apply Qeqb_true. exact F4.
  Qed.

  (* row j of the LP, at a vector that sums to 1, is the j-th constraint violation gamma_j(x) - c_j *)
  Lemma lp_row_viol x j : wf H c = true -> rsum x == 1 -> length x = length H ->
    lp_row H c x j == nth j (viol H c x) 0.
  Proof.
    intros W S1 Lx. destruct (wf_unpack H c W) as [_ W2].
    assert (Hl : lens_ok c (combine x H)) by (apply lens_ok_combine; exact W2).
    unfold lp_row, viol. rewrite rdot_map_wsum, wsum_sub_const, wtot_combine by exact Lx.
    rewrite nth_vsub by (rewrite gammaQ_gfold; apply gfold_length; exact Hl).
    rewrite gammaQ_gfold, nth_gfold by exact Hl. rewrite S1. ring.
  Qed.

  Lemma viol_length x : wf H c = true -> length (viol H c x) = length c.
  Proof.
    intro W. destruct (wf_unpack H c W) as [_ W2]. unfold viol.
    assert (E : length (gammaQ H c x) = length c).
    { rewrite gammaQ_gfold. apply gfold_length. apply lens_ok_combine. exact W2. }
    rewrite length_vsub; exact E.
  Qed.

  Lemma lp_feasible_viol x z : wf H c = true -> lp_feasible H c x z = true ->
    forall v, In v (viol H c x) -> v <= z.
  Proof.
    intros W F v Hv. destruct (lp_feasible_unpack x z F) as [F1 [_ [_ [F4 F5]]]].
    destruct (In_nth _ _ 0 Hv) as [j [Hj E]]. rewrite viol_length in Hj by exact W.
    specialize (F5 j Hj). rewrite (lp_row_viol x j W F4 F1), E in F5. exact F5.
  Qed.

  (* at a feasible point the LP's objective is at least L_high of the weights *)
  Theorem lp_objective_ge_L_high x z : wf H c = true -> 0 <= B -> lp_feasible H c x z = true ->
    L_high H c B x <= lp_objective H B x z.
  Proof.
    intros W HB F. destruct (lp_feasible_unpack x z F) as [_ [_ [Hz _]]].
    assert (Hm : max_viol H c x <= z).
    { unfold max_viol. apply vmax_le_bound; [exact Hz | apply lp_feasible_viol; assumption]. }
    unfold L_high, lp_objective. cbv zeta. fold (err H x).
    destruct (Qltb 0 (max_viol H c x)) eqn:E.
    - rewrite Qred_correct. nra.
    - nra.
  Qed.

  (* every distribution, with z = the positive part of its largest violation, is a feasible point whose
     objective value is L_high of the distribution *)
  Lemma lp_dist_feasible Q' : wf H c = true -> is_dist H Q' = true ->
    lp_feasible H c Q' (Qmaxq 0 (max_viol H c Q')) = true /\
    lp_objective H B Q' (Qmaxq 0 (max_viol H c Q')) == L_high H c B Q'.
  Proof.
    intros W D. destruct (is_dist_unpack H Q' D) as [D1 [D2 D3]]. split.
    - apply lp_feasible_pack; try assumption; [apply Qmaxq_l|].
      intros j Hj. rewrite (lp_row_viol Q' j W D3 D1).
      assert (Hin : In (nth j (viol H c Q') 0) (viol H c Q')).
      { apply nth_In. rewrite viol_length by exact W. exact Hj. }
      pose proof (vmax_ge _ _ Hin) as G. fold (max_viol H c Q') in G.
      pose proof (Qmaxq_r 0 (max_viol H c Q')). lra.
    - unfold lp_objective, L_high. cbv zeta. fold (err H Q'). unfold Qmaxq.
      destruct (Qltb 0 (max_viol H c Q')) eqn:E.
      + apply Qltb_true in E. rewrite Qred_correct.
        destruct (Qleb 0 (max_viol H c Q')) eqn:E2; [reflexivity | apply Qleb_false in E2; lra].
      + apply Qltb_false in E.
        destruct (Qleb 0 (max_viol H c Q')) eqn:E2; [|ring].
        apply Qleb_true in E2. assert (X : max_viol H c Q' == 0) by lra. rewrite X. ring.
  Qed.

  (* lp_value_le_any_distribution: what solve_linprog minimises is L_high; an optimal answer has
     L_high (the Lagrangian at the lambda-player's best response) not above that of ANY distribution
     over the same hypotheses, and its objective value IS its L_high *)
  Theorem lp_value_le_any_distribution x z : wf H c = true -> 0 <= B -> lp_optimal H c B x z ->
    (forall Q', is_dist H Q' = true -> L_high H c B x <= L_high H c B Q') /\
    lp_objective H B x z == L_high H c B x.
  Proof.
    intros W HB [F O]. pose proof (lp_objective_ge_L_high x z W HB F) as G. split.
    - intros Q' D. destruct (lp_dist_feasible Q' W D) as [F' E'].
      specialize (O _ _ F'). lra.
    - apply Qle_antisym; [|exact G].
      destruct (lp_dist_feasible x W (lp_weights_probability x z F)) as [F' E'].
      specialize (O _ _ F'). lra.
  Qed.
End LPFacts.
