(* Lemmas and theorems about the model in Grid.v (C09). *)
From Coq Require Import QArith ZArith List Bool Lia Lqa Arith.
From FL Require Import Num ListX Grid.
Import ListNotations.

(* ====================================================================== *)
(* 1. pyrange and the `values` rule                                         *)
(* ====================================================================== *)
Open Scope Z_scope.

Lemma In_pyrange lo hi v : In v (pyrange lo hi) <-> lo <= v < hi.
Proof.
  unfold pyrange. rewrite in_map_iff. split.
  - intros [i [Hv Hi]]. apply in_seq in Hi. lia.
  - intros H. exists (Z.to_nat (v - lo)). split; [lia|]. apply in_seq. lia.
Qed.

Lemma length_pyrange lo hi : length (pyrange lo hi) = Z.to_nat (hi - lo).
Proof. unfold pyrange. rewrite map_length, seq_length. reflexivity. Qed.

Lemma NoDup_map_inj {A B} (f : A -> B) (l : list A) :
  (forall x y, In x l -> In y l -> f x = f y -> x = y) -> NoDup l -> NoDup (map f l).
Proof.
  intros Hinj Hnd. induction Hnd as [|x l Hx Hnd IH]; cbn; [constructor|].
  constructor.
  - intros Hin. apply in_map_iff in Hin. destruct Hin as [y [Hy Hyl]].
    assert (y = x) by (apply Hinj; [right; exact Hyl | left; reflexivity | exact Hy]).
    subst y. contradiction.
  - apply IH. intros a b Ha Hb. apply Hinj; right; assumption.
Qed.

Lemma NoDup_pyrange lo hi : NoDup (pyrange lo hi).
Proof.
  unfold pyrange. apply NoDup_map_inj; [|apply seq_NoDup].
  intros x y _ _ H. lia.
Qed.

(* what a value of coordinate `index` can be, given the remaining budget m >= 0 *)
Lemma values_bound is_last force neg m v :
  0 <= m -> In v (values is_last force neg m) ->
  Z.abs v <= m /\ (neg = false -> 0 <= v) /\ (is_last = true -> force = true -> Z.abs v = m).
Proof.
  intros Hm. unfold values.
  destruct (is_last && force) eqn:Elf.
  - apply andb_true_iff in Elf. destruct Elf as [-> ->].
    destruct (neg && (m >? 0)) eqn:En.
    + apply andb_true_iff in En. destruct En as [-> Hgt].
      intros [<- | [<- | []]]; (split; [lia | split; [discriminate | intros; lia]]).
    + intros [<- | []]. split; [lia | split; [intros; lia | intros; lia]].
  - intros Hin. apply In_pyrange in Hin.
    split; [destruct neg; lia | split].
    + intros ->. lia.
    + intros -> ->. discriminate.
Qed.

Lemma values_nodup is_last force neg m : 0 <= m -> NoDup (values is_last force neg m).
Proof.
  intros Hm. unfold values. destruct (is_last && force).
  - destruct (neg && (m >? 0)) eqn:En.
    + apply andb_true_iff in En. destruct En as [_ Hgt]. apply Z.gtb_lt in Hgt.
      constructor; [intros [H | []]; lia | constructor; [intros [] | constructor]].
    + constructor; [intros [] | constructor].
  - apply NoDup_pyrange.
Qed.

(* a coordinate that is not the forced last one ranges at least over 0..m *)
Lemma values_free_length is_last force neg m :
  0 <= m -> is_last && force = false ->
  (Z.to_nat (m + 1) <= length (values is_last force neg m))%nat.
Proof.
  intros Hm E. unfold values. rewrite E, length_pyrange. destruct neg; lia.
Qed.

Lemma values_nonempty is_last force neg m : 0 <= m -> values is_last force neg m <> [].
Proof.
  intros Hm. unfold values. destruct (is_last && force).
  - destruct (neg && (m >? 0)); discriminate.
  - intro H. apply (f_equal (@length Z)) in H. rewrite length_pyrange in H. cbn in H.
    destruct neg; lia.
Qed.

Lemma values_zero is_last force neg : values is_last force neg 0 = [0].
Proof. destruct is_last, force, neg; reflexivity. Qed.

(* ====================================================================== *)
(* 2. the integer lattice                                                   *)
(* ====================================================================== *)

(* sum of |c_i| *)
Definition l1 (c : list Z) : Z := fold_right (fun v a => Z.abs v + a) 0 c.

(* coordinates without a negative basis are >= 0 *)
Definition sign_ok (negs : list bool) (c : list Z) : Prop :=
  Forall2 (fun (neg : bool) v => neg = false -> 0 <= v) negs c.

Lemma lattice_cons neg rest force m :
  lattice (neg :: rest) force m =
  flat_map (fun v => map (cons v) (lattice rest force (step m v))) (values (is_nil rest) force neg m).
Proof. reflexivity. Qed.

Lemma in_lattice_cons neg rest force m c :
  In c (lattice (neg :: rest) force m) <->
  exists v c', c = v :: c' /\ In v (values (is_nil rest) force neg m) /\
               In c' (lattice rest force (step m v)).
Proof.
  rewrite lattice_cons, in_flat_map. split.
  - intros [v [Hv Hc]]. apply in_map_iff in Hc. destruct Hc as [c' [<- Hc']].
    exists v, c'. auto.
  - intros [v [c' [-> [Hv Hc']]]]. exists v. split; [exact Hv|].
    apply in_map. exact Hc'.
Qed.

Theorem lattice_l1 negs force m c :
  0 <= m -> In c (lattice negs force m) ->
  length c = length negs /\ l1 c <= m /\ (force = true -> negs <> [] -> l1 c = m) /\ sign_ok negs c.
Proof.
  revert m c. induction negs as [|neg rest IH]; intros m c Hm Hin.
  - destruct Hin as [<- | []]. cbn. repeat split; try lia; [congruence | constructor].
  - apply in_lattice_cons in Hin. destruct Hin as [v [c' [-> [Hv Hc']]]].
    destruct (values_bound _ _ _ _ _ Hm Hv) as [Habs [Hsign Hlast]].
    unfold step in Hc'. assert (Hm' : 0 <= m - Z.abs v) by lia.
    destruct (IH _ _ Hm' Hc') as [Hlen [Hle [Hforce Hs]]].
    cbn [length l1 fold_right]. fold (l1 c').
    split; [congruence | split; [lia | split]].
    + intros Hf _. destruct rest as [|neg' rest'].
      * destruct Hc' as [<- | []]. cbn. specialize (Hlast eq_refl Hf). lia.
      * assert (l1 c' = m - Z.abs v) by (apply Hforce; [exact Hf | discriminate]). lia.
    + constructor; assumption.
Qed.

Lemma NoDup_app_intro {A} (a b : list A) :
  NoDup a -> NoDup b -> (forall x, In x a -> In x b -> False) -> NoDup (a ++ b).
Proof.
  intros Ha Hb Hd. induction Ha as [|x a Hx Ha IH]; cbn; [exact Hb|].
  constructor.
  - rewrite in_app_iff. intros [H | H]; [contradiction | apply (Hd x); [left; reflexivity | exact H]].
  - apply IH. intros y Hy. apply Hd. right. exact Hy.
Qed.

Lemma NoDup_flat_map {A B} (f : A -> list B) (l : list A) :
  NoDup l -> (forall x, In x l -> NoDup (f x)) ->
  (forall x y b, In x l -> In y l -> In b (f x) -> In b (f y) -> x = y) ->
  NoDup (flat_map f l).
Proof.
  intros Hnd. induction Hnd as [|x l Hx Hnd IH]; intros Hf Hdisj; cbn; [constructor|].
  apply NoDup_app_intro.
  - apply Hf. left. reflexivity.
  - apply IH; [intros; apply Hf; right; assumption|].
    intros a b e Ha Hb. apply Hdisj; right; assumption.
  - intros b Hb1 Hb2. apply in_flat_map in Hb2. destruct Hb2 as [y [Hy Hby]].
    assert (x = y) by (apply (Hdisj x y b); [left; reflexivity | right; exact Hy | exact Hb1 | exact Hby]).
    subst y. contradiction.
Qed.

Theorem lattice_nodup negs force m : 0 <= m -> NoDup (lattice negs force m).
Proof.
  revert m. induction negs as [|neg rest IH]; intros m Hm.
  - cbn. constructor; [intros [] | constructor].
  - rewrite lattice_cons. apply NoDup_flat_map.
    + apply values_nodup. exact Hm.
    + intros v Hv. destruct (values_bound _ _ _ _ _ Hm Hv) as [Habs _].
      apply NoDup_map_inj; [intros a b _ _ H; congruence|].
      apply IH. unfold step. lia.
    + intros x y b _ _ Hbx Hby. apply in_map_iff in Hbx. apply in_map_iff in Hby.
      destruct Hbx as [cx [<- _]]. destruct Hby as [cy [Heq _]]. congruence.
Qed.

Lemma lattice_nonempty negs force m : 0 <= m -> (1 <= length (lattice negs force m))%nat.
Proof.
  revert m. induction negs as [|neg rest IH]; intros m Hm; [cbn; lia|].
  rewrite lattice_cons.
  destruct (values (is_nil rest) force neg m) as [|v vs] eqn:Ev.
  - exfalso. eapply values_nonempty; eauto.
  - assert (Hv : In v (values (is_nil rest) force neg m)) by (rewrite Ev; left; reflexivity).
    destruct (values_bound _ _ _ _ _ Hm Hv) as [Habs _].
    cbn [flat_map]. rewrite app_length, map_length.
    assert (1 <= length (lattice rest force (step m v)))%nat by (apply IH; unfold step; lia). lia.
Qed.

Lemma flat_map_length_ge {A B} (f : A -> list B) (l : list A) :
  (forall x, In x l -> (1 <= length (f x))%nat) -> (length l <= length (flat_map f l))%nat.
Proof.
  induction l as [|x l IH]; intros H; cbn; [lia|].
  rewrite app_length. assert (1 <= length (f x))%nat by (apply H; left; reflexivity).
  assert (length l <= length (flat_map f l))%nat by (apply IH; intros; apply H; right; assumption).
  lia.
Qed.

(* the lattice grows at least linearly in n, so the search for n_units terminates *)
Theorem lattice_grows negs force n :
  true_dim_pos negs force = true -> 0 <= n ->
  (Z.to_nat (n + 1) <= length (lattice negs force n))%nat.
Proof.
  intros Hd Hn. unfold true_dim_pos in Hd. apply Nat.leb_le in Hd.
  destruct negs as [|neg rest]; [destruct force; cbn in Hd; lia|].
  rewrite lattice_cons.
  assert (E : is_nil rest && force = false).
  { destruct rest; [|reflexivity]. destruct force; [cbn in Hd; lia | reflexivity]. }
  eapply Nat.le_trans; [apply (values_free_length (is_nil rest) force neg n Hn E)|].
  apply flat_map_length_ge. intros v Hv. rewrite map_length.
  destruct (values_bound _ _ _ _ _ Hn Hv) as [Habs _].
  apply lattice_nonempty. unfold step. lia.
Qed.

Lemma lattice_zero negs force : length (lattice negs force 0) = 1%nat.
Proof.
  induction negs as [|neg rest IH]; [reflexivity|].
  rewrite lattice_cons, values_zero. cbn [flat_map]. rewrite app_nil_r, map_length.
  exact IH.
Qed.

(* ====================================================================== *)
(* 3. the search for n_units                                                *)
(* ====================================================================== *)

Lemma n_units_from_spec negs force gs fuel start n :
  n_units_from values step negs force gs fuel start = Some n ->
  start <= n /\ (gs <= length (lattice negs force n))%nat /\
  (forall k, start <= k < n -> (length (lattice negs force k) < gs)%nat).
Proof.
  revert start. induction fuel as [|f IH]; intros start H; [discriminate|].
  cbn [n_units_from] in H. fold lattice in H.
  destruct (Nat.leb gs (length (lattice negs force start))) eqn:E.
  - injection H as <-. apply Nat.leb_le in E. split; [lia | split; [exact E | intros; lia]].
  - apply Nat.leb_gt in E. destruct (IH _ H) as [Hle [Hge Hmin]].
    split; [lia | split; [exact Hge|]]. intros k Hk.
    destruct (Z.eq_dec k start) as [-> | Hne]; [exact E | apply Hmin; lia].
Qed.

Lemma n_units_from_exists negs force gs fuel start k :
  start <= k < start + Z.of_nat fuel -> (gs <= length (lattice negs force k))%nat ->
  exists n, n_units_from values step negs force gs fuel start = Some n /\ n <= k.
Proof.
  revert start. induction fuel as [|f IH]; intros start Hk Hge; [lia|].
  cbn [n_units_from]. fold lattice.
  destruct (Nat.leb gs (length (lattice negs force start))) eqn:E.
  - exists start. split; [reflexivity | lia].
  - apply Nat.leb_gt in E.
    assert (k <> start) by (intros ->; lia).
    apply IH; [lia | exact Hge].
Qed.

(* n_units is the LEAST n >= 0 whose lattice has at least grid_size points *)
Theorem n_units_spec negs force gs n :
  n_units negs force gs = Some n ->
  0 <= n /\ (gs <= length (lattice negs force n))%nat /\
  (forall k, 0 <= k < n -> (length (lattice negs force k) < gs)%nat).
Proof. apply n_units_from_spec. Qed.

Theorem n_units_exists negs force gs :
  true_dim_pos negs force = true ->
  exists n, n_units negs force gs = Some n /\ 0 <= n <= Z.of_nat gs.
Proof.
  intros Hd.
  destruct (n_units_from_exists negs force gs (S gs) 0 (Z.of_nat gs)) as [n [Hn Hle]].
  - lia.
  - pose proof (lattice_grows negs force (Z.of_nat gs) Hd ltac:(lia)). lia.
  - exists n. split; [exact Hn|]. destruct (n_units_spec _ _ _ _ Hn). lia.
Qed.

Lemma n_units_pos negs force gs n :
  (2 <= gs)%nat -> n_units negs force gs = Some n -> 1 <= n.
Proof.
  intros Hgs Hn. destruct (n_units_spec _ _ _ _ Hn) as [H0 [Hge _]].
  destruct (Z.eq_dec n 0) as [-> | Hne]; [|lia].
  rewrite lattice_zero in Hge. lia.
Qed.

(* ====================================================================== *)
(* 4. vectors over Q: clip, unit columns, linear combinations              *)
(* ====================================================================== *)
Open Scope Q_scope.

Definition veq (a b : list Q) : Prop := Forall2 Qeq a b.

Lemma Qltb_true a b : Qltb a b = true <-> a < b.
Proof.
  unfold Qltb. rewrite negb_true_iff. split.
  - intro H. apply Qnot_le_lt. intro Hle. apply Qle_bool_iff in Hle. congruence.
  - intro H. destruct (Qle_bool b a) eqn:E; [|reflexivity]. apply Qle_bool_iff in E. exfalso. lra.
Qed.

Lemma clip0_cases c : (c < 0 /\ clip0 c = 0) \/ (0 <= c /\ clip0 c = c).
Proof.
  unfold clip0. destruct (Qltb c 0) eqn:E.
  - left. apply Qltb_true in E. auto.
  - right. split; [|reflexivity]. apply Qnot_lt_le. intro H. apply Qltb_true in H. congruence.
Qed.

Lemma clip0_nonneg c : 0 <= clip0 c.
Proof. destruct (clip0_cases c) as [[_ ->] | [H ->]]; lra. Qed.

Lemma clip0_comp a b : a == b -> clip0 a == clip0 b.
Proof.
  intro H. destruct (clip0_cases a) as [[Ha ->] | [Ha ->]], (clip0_cases b) as [[Hb ->] | [Hb ->]]; lra.
Qed.

Lemma qabs_cases c : (c < 0 /\ qabs c = - c) \/ (0 <= c /\ qabs c = c).
Proof.
  unfold qabs, Qleb. destruct (Qle_bool 0 c) eqn:E.
  - right. apply Qle_bool_iff in E. auto.
  - left. split; [|reflexivity]. apply Qnot_le_lt. intro H. apply Qle_bool_iff in H. congruence.
Qed.

Lemma clip0_abs c : clip0 c + clip0 (- c) == qabs c.
Proof.
  destruct (clip0_cases c) as [[Ha ->] | [Ha ->]], (clip0_cases (- c)) as [[Hb ->] | [Hb ->]],
    (qabs_cases c) as [[Hc ->] | [Hc ->]]; lra.
Qed.

(* indicator entry of a 0/1 basis column *)
Definition ind (o : option nat) (j : nat) : Q :=
  match o with Some p => if Nat.eqb j p then 1 else 0 | None => 0 end.

Lemma unit_vec_ind m o : unit_vec m o = map (ind o) (seq 0 m).
Proof. reflexivity. Qed.

Lemma ind_nonneg o j : 0 <= ind o j.
Proof. unfold ind. destruct o; [destruct (Nat.eqb j n)|]; lra. Qed.

Lemma vadd_length a b : length a = length b -> length (vadd a b) = length a.
Proof.
  revert b. induction a as [|x a IH]; intros [|y b] H; cbn in *; try lia.
  rewrite IH by lia. reflexivity.
Qed.

Lemma qsum_vadd a b : length a = length b -> qsum (vadd a b) == qsum a + qsum b.
Proof.
  revert b. induction a as [|x a IH]; intros [|y b] H; cbn in *; try lia; try lra.
  rewrite IH by lia. lra.
Qed.

Lemma nth_vadd a b j : length a = length b -> nth j (vadd a b) 0 == nth j a 0 + nth j b 0.
Proof.
  revert b j. induction a as [|x a IH]; intros [|y b] j H; cbn in *; try lia.
  - destruct j; lra.
  - destruct j; [lra | apply IH; lia].
Qed.

Lemma Forall_vadd_nonneg a b :
  Forall (fun x => 0 <= x) a -> Forall (fun x => 0 <= x) b -> Forall (fun x => 0 <= x) (vadd a b).
Proof.
  intros Ha. revert b. induction Ha as [|x a Hx Ha IH]; intros b Hb; cbn; [constructor|].
  destruct Hb as [|y b Hy Hb]; constructor; [lra | apply IH; exact Hb].
Qed.

Lemma vscale_length c v : length (vscale c v) = length v.
Proof. apply map_length. Qed.

Lemma qsum_vscale c v : qsum (vscale c v) == c * qsum v.
Proof. induction v as [|x v IH]; cbn; [lra | rewrite IH; lra]. Qed.

Lemma nth_vscale c v j : nth j (vscale c v) 0 == c * nth j v 0.
Proof.
  revert j. induction v as [|x v IH]; intros j; cbn; [destruct j; lra|].
  destruct j; [lra | apply IH].
Qed.

Lemma Forall_vscale_nonneg c v :
  0 <= c -> Forall (fun x => 0 <= x) v -> Forall (fun x => 0 <= x) (vscale c v).
Proof.
  intros Hc Hv. induction Hv as [|x v Hx Hv IH]; cbn; constructor; [|exact IH].
  apply Qmult_le_0_compat; assumption.
Qed.

Lemma unit_vec_length m o : length (unit_vec m o) = m.
Proof. unfold unit_vec. rewrite map_length, seq_length. reflexivity. Qed.

Lemma unit_vec_nonneg m o : Forall (fun x => 0 <= x) (unit_vec m o).
Proof.
  rewrite unit_vec_ind. apply Forall_forall. intros x Hx. apply in_map_iff in Hx.
  destruct Hx as [j [<- _]]. apply ind_nonneg.
Qed.

Lemma nth_map_seq (f : nat -> Q) s m j : (j < m)%nat -> nth j (map f (seq s m)) 0 = f (s + j)%nat.
Proof.
  revert s j. induction m as [|m IH]; intros s j Hj; [lia|].
  cbn [seq map]. destruct j as [|j]; cbn [nth]; [f_equal; lia|].
  rewrite IH by lia. f_equal. lia.
Qed.

Lemma nth_unit_vec m o j : (j < m)%nat -> nth j (unit_vec m o) 0 = ind o j.
Proof. intro H. rewrite unit_vec_ind, nth_map_seq by exact H. reflexivity. Qed.

Lemma qsum_ind_seq_miss p s m : (p < s)%nat -> qsum (map (ind (Some p)) (seq s m)) == 0.
Proof.
  revert s. induction m as [|m IH]; intros s H; cbn [seq map qsum]; [lra|].
  rewrite IH by lia. unfold ind. destruct (Nat.eqb s p) eqn:E; [apply Nat.eqb_eq in E; lia | lra].
Qed.

Lemma qsum_ind_seq_hit p s m : (s <= p < s + m)%nat -> qsum (map (ind (Some p)) (seq s m)) == 1.
Proof.
  revert s. induction m as [|m IH]; intros s H; [lia|]. cbn [seq map qsum].
  unfold ind at 1. destruct (Nat.eqb s p) eqn:E.
  - apply Nat.eqb_eq in E. rewrite qsum_ind_seq_miss by lia. lra.
  - apply Nat.eqb_neq in E. rewrite IH by lia. lra.
Qed.

Lemma qsum_unit_vec_some m p : (p < m)%nat -> qsum (unit_vec m (Some p)) == 1.
Proof. intro H. rewrite unit_vec_ind. apply qsum_ind_seq_hit. lia. Qed.

Lemma qsum_unit_vec_none m : qsum (unit_vec m None) == 0.
Proof.
  rewrite unit_vec_ind. generalize 0%nat. induction m as [|m IH]; intros s; cbn; [lra|].
  rewrite IH. lra.
Qed.

Lemma lincomb_length m cols coefs : length (lincomb m cols coefs) = m.
Proof.
  revert coefs. induction cols as [|[p q] cs IH]; intros coefs; cbn [lincomb]; [apply repeat_length|].
  destruct coefs as [|c r]; [apply repeat_length|].
  assert (H1 : length (vadd (vscale (clip0 c) (unit_vec m p)) (vscale (clip0 (- c)) (unit_vec m q))) = m).
  { rewrite vadd_length; rewrite !vscale_length, !unit_vec_length; reflexivity. }
  rewrite vadd_length; [exact H1 | rewrite H1, IH; reflexivity].
Qed.

Lemma repeat0_nonneg m : Forall (fun x => 0 <= x) (repeat 0 m).
Proof. induction m; cbn; constructor; [lra | assumption]. Qed.

Lemma lincomb_nonneg m cols coefs : Forall (fun x => 0 <= x) (lincomb m cols coefs).
Proof.
  revert coefs. induction cols as [|[p q] cs IH]; intros coefs; cbn [lincomb]; [apply repeat0_nonneg|].
  destruct coefs as [|c r]; [apply repeat0_nonneg|].
  repeat apply Forall_vadd_nonneg; try apply IH;
    apply Forall_vscale_nonneg; try apply clip0_nonneg; apply unit_vec_nonneg.
Qed.

(* entry j of the linear combination, written out *)
Fixpoint contrib (j : nat) (cols : list bcol) (coefs : list Q) : Q :=
  match cols, coefs with
  | (p, q) :: cs, c :: r => clip0 c * ind p j + clip0 (- c) * ind q j + contrib j cs r
  | _, _ => 0
  end.

Lemma nth_repeat0 j m : nth j (repeat 0 m) 0 = 0.
Proof. revert j. induction m; intros [|j]; cbn; auto. Qed.

Lemma nth_lincomb m cols coefs j :
  (j < m)%nat -> nth j (lincomb m cols coefs) 0 == contrib j cols coefs.
Proof.
  intro Hj. revert coefs. induction cols as [|[p q] cs IH]; intros coefs; cbn [lincomb contrib].
  - rewrite nth_repeat0. reflexivity.
  - destruct coefs as [|c r]; [rewrite nth_repeat0; reflexivity|].
    rewrite nth_vadd.
    2:{ rewrite vadd_length; rewrite ?vscale_length, ?unit_vec_length, ?lincomb_length; reflexivity. }
    rewrite nth_vadd by (rewrite !vscale_length, !unit_vec_length; reflexivity).
    rewrite !nth_vscale, !nth_unit_vec by exact Hj. rewrite IH. reflexivity.
Qed.

Lemma positions_cons p q cs : positions ((p, q) :: cs) = (opt_list p ++ opt_list q) ++ positions cs.
Proof. reflexivity. Qed.

Lemma ind_miss o j : ~ In j (opt_list o) -> ind o j = 0.
Proof.
  destruct o as [p|]; cbn; [|reflexivity]. intro H.
  destruct (Nat.eqb j p) eqn:E; [|reflexivity]. apply Nat.eqb_eq in E. exfalso. apply H. auto.
Qed.

Lemma contrib_miss j cols coefs : ~ In j (positions cols) -> contrib j cols coefs == 0.
Proof.
  revert coefs. induction cols as [|[p q] cs IH]; intros coefs H; cbn [contrib]; [reflexivity|].
  destruct coefs as [|c r]; [reflexivity|].
  rewrite positions_cons in H. rewrite !in_app_iff in H.
  rewrite (ind_miss p j), (ind_miss q j), IH by tauto. lra.
Qed.

(* a coefficient whose column has no negative part must be >= 0 *)
Definition coef_ok (col : bcol) (c : Q) : Prop := snd col = None -> 0 <= c.

Lemma contrib_head_eq j p q cs c c' r r' :
  c == c' ->
  contrib j ((p, q) :: cs) (c :: r) == contrib j ((p, q) :: cs) (c' :: r') ->
  contrib j cs r == contrib j cs r'.
Proof.
  intros Hc H. cbn [contrib] in H.
  assert (H1 : clip0 c == clip0 c') by (apply clip0_comp; exact Hc).
  assert (H2 : clip0 (- c) == clip0 (- c')) by (apply clip0_comp; rewrite Hc; reflexivity).
  rewrite H1, H2 in H. lra.
Qed.

Lemma NoDup_app_r {A} (a b : list A) : NoDup (a ++ b) -> NoDup b.
Proof. induction a as [|x a IH]; cbn; [auto|]. intro H. inversion H; auto. Qed.

Lemma lincomb_inj m cols coefs coefs' :
  NoDup (positions cols) -> Forall (fun x => (x < m)%nat) (positions cols) ->
  Forall (fun col : bcol => fst col <> None) cols ->
  length coefs = length cols -> length coefs' = length cols ->
  Forall2 coef_ok cols coefs -> Forall2 coef_ok cols coefs' ->
  (forall j, (j < m)%nat -> contrib j cols coefs == contrib j cols coefs') ->
  Forall2 Qeq coefs coefs'.
Proof.
  revert coefs coefs'. induction cols as [|[p q] cs IH]; intros coefs coefs' Hnd Hlt Hfst Hl Hl' Hok Hok' Heq.
  - destruct coefs, coefs'; cbn in *; try lia. constructor.
  - destruct coefs as [|c r], coefs' as [|c' r']; cbn in Hl, Hl'; try lia.
    rewrite positions_cons in Hnd, Hlt.
    inversion Hfst as [|? ? Hp Hfst']; subst. cbn in Hp.
    inversion Hok as [|? ? ? ? Hc Hok1]; subst. inversion Hok' as [|? ? ? ? Hc' Hok1']; subst.
    destruct p as [pp|]; [|congruence]. clear Hp.
    assert (Hpp_lt : (pp < m)%nat).
    { rewrite Forall_forall in Hlt. apply Hlt. cbn. left. reflexivity. }
    assert (Hpp : clip0 c == clip0 c').
    { specialize (Heq pp Hpp_lt). cbn [contrib] in Heq.
      cbn [opt_list app] in Hnd. inversion Hnd as [|? ? Hnin Hnd']; subst.
      rewrite in_app_iff in Hnin.
      rewrite (ind_miss q pp) in Heq by tauto.
      rewrite (contrib_miss pp cs r), (contrib_miss pp cs r') in Heq by tauto.
      unfold ind in Heq. rewrite Nat.eqb_refl in Heq. lra. }
    assert (Hcc : c == c').
    { destruct q as [qq|].
      - assert (Hqq_lt : (qq < m)%nat).
        { rewrite Forall_forall in Hlt. apply Hlt. cbn. right. left. reflexivity. }
        assert (Hqq : clip0 (- c) == clip0 (- c')).
        { specialize (Heq qq Hqq_lt). cbn [contrib] in Heq.
          cbn [opt_list app] in Hnd. inversion Hnd as [|? ? Hnin Hnd']; subst.
          inversion Hnd' as [|? ? Hnin2 Hnd'']; subst.
          assert (Hne : qq <> pp) by (intro; subst; apply Hnin; left; reflexivity).
          rewrite (contrib_miss qq cs r), (contrib_miss qq cs r') in Heq by assumption.
          unfold ind in Heq. rewrite Nat.eqb_refl in Heq.
          apply Nat.eqb_neq in Hne. rewrite Hne in Heq. lra. }
        destruct (clip0_cases c) as [[Ha Ea] | [Ha Ea]], (clip0_cases c') as [[Hb Eb] | [Hb Eb]],
          (clip0_cases (- c)) as [[Hd Ed] | [Hd Ed]], (clip0_cases (- c')) as [[He Ee] | [He Ee]];
          rewrite Ea, Eb in Hpp; rewrite Ed, Ee in Hqq; lra.
      - specialize (Hc eq_refl). specialize (Hc' eq_refl).
        destruct (clip0_cases c) as [[Ha Ea] | [Ha Ea]], (clip0_cases c') as [[Hb Eb] | [Hb Eb]];
          rewrite Ea, Eb in Hpp; lra. }
    constructor; [exact Hcc|].
    apply IH; try assumption; try lia.
    + apply NoDup_app_r in Hnd. exact Hnd.
    + apply Forall_app in Hlt. tauto.
    + intros j Hj. eapply contrib_head_eq; [exact Hcc | apply Heq; exact Hj].
Qed.

Lemma qsum_lincomb m cols coefs :
  Forall (fun x => (x < m)%nat) (positions cols) ->
  Forall (fun col : bcol => fst col <> None) cols ->
  length coefs = length cols -> Forall2 coef_ok cols coefs ->
  qsum (lincomb m cols coefs) == qsum (map qabs coefs).
Proof.
  revert coefs. induction cols as [|[p q] cs IH]; intros coefs Hlt Hfst Hl Hok.
  - destruct coefs; cbn in Hl; try lia. cbn. clear. induction m; cbn; lra.
  - destruct coefs as [|c r]; cbn in Hl; try lia.
    rewrite positions_cons in Hlt. apply Forall_app in Hlt. destruct Hlt as [Hlt1 Hlt2].
    inversion Hfst as [|? ? Hp Hfst']; subst. cbn in Hp.
    inversion Hok as [|? ? ? ? Hc Hok1]; subst.
    cbn [lincomb map qsum].
    rewrite qsum_vadd.
    2:{ rewrite vadd_length; rewrite ?vscale_length, ?unit_vec_length, ?lincomb_length; reflexivity. }
    rewrite qsum_vadd by (rewrite !vscale_length, !unit_vec_length; reflexivity).
    rewrite !qsum_vscale, IH by (try assumption; lia).
    destruct p as [pp|]; [|congruence].
    rewrite qsum_unit_vec_some.
    2:{ rewrite Forall_forall in Hlt1. apply Hlt1. left. reflexivity. }
    destruct q as [qq|].
    + rewrite qsum_unit_vec_some.
      2:{ rewrite Forall_forall in Hlt1. apply Hlt1. right. left. reflexivity. }
      rewrite <- (clip0_abs c). lra.
    + rewrite qsum_unit_vec_none. specialize (Hc eq_refl).
      destruct (clip0_cases c) as [[Ha Ea] | [Ha Ea]], (qabs_cases c) as [[Hb Eb] | [Hb Eb]];
        rewrite Ea, Eb; lra.
Qed.

(* ====================================================================== *)
(* 5. the guard, rescaling, and the grid theorem                           *)
(* ====================================================================== *)

Lemma nat_nodupb_NoDup l : nat_nodupb l = true -> NoDup l.
Proof.
  induction l as [|x r IH]; cbn; [constructor|]. intro H. apply andb_true_iff in H.
  destruct H as [Hx Hr]. constructor; [|apply IH; exact Hr].
  intro Hin. apply negb_true_iff in Hx.
  assert (existsb (Nat.eqb x) r = true) by (apply existsb_exists; exists x; split; [exact Hin | apply Nat.eqb_refl]).
  congruence.
Qed.

Lemma cols_okb_props m cols negs :
  cols_okb m cols negs = true ->
  length cols = length negs /\ Forall (fun x => (x < m)%nat) (positions cols) /\
  Forall (fun col : bcol => fst col <> None) cols /\
  Forall2 (fun (col : bcol) (neg : bool) => neg = true -> snd col <> None) cols negs.
Proof.
  revert negs. induction cols as [|[p q] cs IH]; intros [|neg ns] H; cbn in H; try discriminate.
  - repeat split; constructor.
  - apply andb_true_iff in H. destruct H as [Hc Hr]. destruct (IH _ Hr) as [Hl [Hlt [Hf Hn]]].
    unfold col_okb in Hc. cbn [fst snd] in Hc. rewrite !andb_true_iff in Hc.
    destruct Hc as [[[Hs Hp] Hq] Himp].
    split; [cbn; congruence | split; [|split]].
    + rewrite positions_cons. apply Forall_app. split; [|exact Hlt]. apply Forall_app. split.
      * destruct p as [pp|]; cbn; constructor; [apply Nat.ltb_lt; exact Hp | constructor].
      * destruct q as [qq|]; cbn; constructor; [apply Nat.ltb_lt; exact Hq | constructor].
    + constructor; [|exact Hf]. cbn. destruct p; [discriminate | discriminate].
    + constructor; [|exact Hn]. cbn. intros ->. destruct q; [discriminate | discriminate].
Qed.

Lemma scale_length limit n c : length (scale_coefs limit n c) = length c.
Proof. apply map_length. Qed.

Lemma unit_pos limit n : 0 < limit -> (1 <= n)%Z -> 0 < limit / inject_Z n.
Proof.
  intros Hl Hn. unfold Qdiv. apply Qmult_lt_0_compat; [exact Hl|].
  apply Qinv_lt_0_compat. change 0 with (inject_Z 0). rewrite <- Zlt_Qlt. lia.
Qed.

Lemma inject_nonneg z : (0 <= z)%Z -> 0 <= inject_Z z.
Proof. intro H. change 0 with (inject_Z 0). rewrite <- Zle_Qle. exact H. Qed.

Lemma qabs_scale z s : 0 < s -> qabs (inject_Z z * s) == inject_Z (Z.abs z) * s.
Proof.
  intro Hs. destruct (Z_lt_le_dec z 0) as [Hz | Hz].
  - rewrite Z.abs_neq by lia. rewrite inject_Z_opp.
    assert (Ha : 0 < - inject_Z z).
    { rewrite <- inject_Z_opp. change 0 with (inject_Z 0). rewrite <- Zlt_Qlt. lia. }
    assert (Hm : 0 < (- inject_Z z) * s) by (apply Qmult_lt_0_compat; assumption).
    destruct (qabs_cases (inject_Z z * s)) as [[H1 ->] | [H1 ->]]; lra.
  - rewrite Z.abs_eq by lia.
    assert (Hm : 0 <= inject_Z z * s).
    { apply Qmult_le_0_compat; [apply inject_nonneg; exact Hz | lra]. }
    destruct (qabs_cases (inject_Z z * s)) as [[H1 ->] | [H1 ->]]; lra.
Qed.

Lemma qsum_abs_scale limit n c :
  0 < limit -> (1 <= n)%Z ->
  qsum (map qabs (scale_coefs limit n c)) == inject_Z (l1 c) * (limit / inject_Z n).
Proof.
  intros Hl Hn. pose proof (unit_pos limit n Hl Hn) as Hs.
  induction c as [|z c IH]; unfold scale_coefs, l1 in *; cbn [map qsum fold_right] in *.
  - change (inject_Z 0) with 0. ring.
  - rewrite IH, qabs_scale by exact Hs. rewrite inject_Z_plus. ring.
Qed.

Lemma scale_coef_ok cols negs c limit n :
  Forall2 (fun (col : bcol) (neg : bool) => neg = true -> snd col <> None) cols negs ->
  sign_ok negs c -> 0 < limit -> (1 <= n)%Z ->
  Forall2 coef_ok cols (scale_coefs limit n c).
Proof.
  intros Hcn Hs Hl Hn. pose proof (unit_pos limit n Hl Hn) as Hpos.
  revert c Hs. induction Hcn as [|col neg cs ns Hc Hcn IH]; intros c Hs.
  - inversion Hs; subst. constructor.
  - inversion Hs as [|? z ? c' Hz Hs']; subst. cbn [scale_coefs map]. constructor.
    + intros Hnone. destruct neg; [exfalso; apply Hc; auto|].
      apply Qmult_le_0_compat; [apply inject_nonneg; apply Hz; reflexivity | lra].
    + apply IH. exact Hs'.
Qed.

Lemma scale_inj limit n c c' :
  0 < limit -> (1 <= n)%Z ->
  Forall2 Qeq (scale_coefs limit n c) (scale_coefs limit n c') -> c = c'.
Proof.
  intros Hl Hn. pose proof (unit_pos limit n Hl Hn) as Hpos.
  revert c'. induction c as [|z c IH]; intros [|z' c'] H; cbn in H; inversion H; subst; [reflexivity|].
  f_equal.
  - apply inject_Z_injective. eapply Qmult_inj_r; [|eassumption]. intro E. rewrite E in Hpos. lra.
  - apply IH. assumption.
Qed.

Lemma veq_nth a b j : veq a b -> nth j a 0 == nth j b 0.
Proof.
  intro H. revert j. induction H as [|x y a b Hxy H IH]; intros [|j]; cbn; try reflexivity; auto.
Qed.

Lemma In_firstn {A} k (l : list A) x : In x (firstn k l) -> In x l.
Proof.
  revert k. induction l as [|y l IH]; intros [|k]; cbn; try tauto.
  intros [H | H]; [left; exact H | right; eapply IH; exact H].
Qed.

Lemma NoDup_firstn {A} k (l : list A) : NoDup l -> NoDup (firstn k l).
Proof.
  intro H. revert k. induction H as [|x l Hx H IH]; intros [|k]; cbn; try constructor.
  - intro Hin. apply Hx. eapply In_firstn. exact Hin.
  - apply IH.
Qed.

Lemma FOP_map {A B} (R : B -> B -> Prop) (F : A -> B) (L : list A) :
  NoDup L -> (forall a b, In a L -> In b L -> a <> b -> R (F a) (F b)) ->
  ForallOrdPairs R (map F L).
Proof.
  intro Hnd. induction Hnd as [|x l Hx Hnd IH]; intros HR; cbn; constructor.
  - apply Forall_forall. intros y Hy. apply in_map_iff in Hy. destruct Hy as [b [<- Hb]].
    apply HR; [left; reflexivity | right; exact Hb | intros ->; contradiction].
  - apply IH. intros a b Ha Hb. apply HR; right; assumption.
Qed.

(* what every grid vector satisfies *)
Definition vector_ok (m : nat) (force : bool) (limit : Q) (v : list Q) : Prop :=
  length v = m /\ Forall (fun x => 0 <= x) v /\ qsum v <= limit /\ (force = true -> qsum v == limit).

Theorem grid_vectors m cols negs force gs limit :
  good_basis m cols negs = true -> true_dim_pos negs force = true ->
  (2 <= gs)%nat -> 0 < limit ->
  exists n g,
    n_units negs force gs = Some n /\ (1 <= n)%Z /\
    grid m cols negs force gs limit = Some g /\
    length g = gs /\
    ForallOrdPairs (fun a b => ~ veq a b) g /\
    Forall (vector_ok m force limit) g.
Proof.
  intros Hgood Hdim Hgs Hlim.
  unfold good_basis in Hgood. apply andb_true_iff in Hgood. destruct Hgood as [Hok Hnd].
  apply nat_nodupb_NoDup in Hnd.
  destruct (cols_okb_props _ _ _ Hok) as [Hlen [Hlt [Hfst Hneg]]].
  destruct (n_units_exists negs force gs Hdim) as [n [Hn Hrange]].
  pose proof (n_units_pos _ _ _ _ Hgs Hn) as Hn1.
  destruct (n_units_spec _ _ _ _ Hn) as [Hn0 [Hge _]].
  exists n. eexists. split; [exact Hn | split; [exact Hn1 | split]].
  { unfold grid, grid_with. fold n_units. rewrite Hn. fold lattice. reflexivity. }
  pose proof (unit_pos limit n Hlim Hn1) as Hs.
  split; [|split].
  - rewrite map_length, firstn_length_le by exact Hge. reflexivity.
  - apply FOP_map.
    + apply NoDup_firstn. apply lattice_nodup. lia.
    + intros a b Ha Hb Hab Hveq. apply In_firstn in Ha. apply In_firstn in Hb.
      destruct (lattice_l1 _ _ _ _ Hn0 Ha) as [Hla [_ [_ Hsa]]].
      destruct (lattice_l1 _ _ _ _ Hn0 Hb) as [Hlb [_ [_ Hsb]]].
      apply Hab. apply (scale_inj limit n); try assumption.
      apply (lincomb_inj m cols); try assumption.
      * rewrite scale_length. congruence.
      * rewrite scale_length. congruence.
      * eapply scale_coef_ok; eassumption.
      * eapply scale_coef_ok; eassumption.
      * intros j Hj. rewrite <- !nth_lincomb by exact Hj. apply veq_nth. exact Hveq.
  - apply Forall_forall. intros v Hv. apply in_map_iff in Hv. destruct Hv as [c [<- Hc]].
    apply In_firstn in Hc.
    destruct (lattice_l1 _ _ _ _ Hn0 Hc) as [Hlc [Hl1 [Hforce Hsc]]].
    assert (Hsum : qsum (lincomb m cols (scale_coefs limit n c)) == inject_Z (l1 c) * (limit / inject_Z n)).
    { rewrite qsum_lincomb; try assumption.
      - apply qsum_abs_scale; assumption.
      - rewrite scale_length. congruence.
      - eapply scale_coef_ok; eassumption. }
    assert (Hunit : inject_Z n * (limit / inject_Z n) == limit).
    { field. intro E. apply (inject_Z_injective n 0) in E. lia. }
    split; [apply lincomb_length | split; [apply lincomb_nonneg | split]].
    + rewrite Hsum. apply Qle_trans with (inject_Z n * (limit / inject_Z n)); [|rewrite Hunit; apply Qle_refl].
      apply Qmult_le_compat_r; [rewrite <- Zle_Qle; exact Hl1 | lra].
    + intros Hf. rewrite Hsum. rewrite Hforce; [exact Hunit | exact Hf|].
      intros ->. unfold true_dim_pos in Hdim. rewrite Hf in Hdim. cbn in Hdim. discriminate.
Qed.

(* the guard matters: a basis column that is identically zero (what the snapshot allocated for
   an (event, group) cell without samples before the repair) duplicates grid points *)
Example old_basis_duplicates :
  let events := [Some 0; Some 0; Some 1; Some 0; Some 1; Some 0; Some 0; Some 0]%Z in
  let groups := [0; 0; 1; 1; 2; 2; 1; 0]%Z in
  let cols := up_cols_old events groups in
  good_basis (up_m events groups) cols (map (fun _ => true) cols) = false /\
  match grid (up_m events groups) cols (map (fun _ => true) cols) false 9 2 with
  | Some g => nodup_qvecs g = false
  | None => False
  end.
Proof. vm_compute. split; reflexivity. Qed.

(* ====================================================================== *)
(* 6. selection                                                             *)
(* ====================================================================== *)

Lemma argmin_from_spec l : forall bi best i,
  let r := argmin_from bi best i l in
  snd r <= best /\ (forall x, In x l -> snd r <= x) /\
  ((fst r = bi /\ snd r = best /\ (forall x, In x l -> best <= x)) \/
   (exists k, fst r = (i + k)%nat /\ nth_error l k = Some (snd r) /\ snd r < best /\
              (forall k', (k' < k)%nat -> forall x, nth_error l k' = Some x -> snd r < x))).
Proof.
  induction l as [|x l IH]; intros bi best i; cbn zeta.
  - cbn. split; [lra | split; [intros ? [] | left; repeat split; intros ? []]].
  - cbn [argmin_from]. destruct (Qltb x best) eqn:E.
    + apply Qltb_true in E. specialize (IH i x (S i)). cbn zeta in IH.
      destruct IH as [Hle [Hall Hcase]].
      split; [lra | split].
      * intros y [<- | Hy]; [exact Hle | apply Hall; exact Hy].
      * right. destruct Hcase as [[Hi [Hv Hmin]] | [k [Hi [Hk [Hlt Hbefore]]]]].
        -- exists 0%nat. rewrite Hi, Hv. cbn. split; [f_equal; lia | split; [reflexivity | split; [exact E|]]].
           intros k' Hk'. lia.
        -- exists (S k). split; [rewrite Hi; lia | split; [exact Hk | split; [lra|]]].
           intros [|k'] Hk' y Hy; cbn in Hy.
           ++ injection Hy as <-. exact Hlt.
           ++ eapply Hbefore; [|exact Hy]. lia.
    + assert (Hge : best <= x).
      { apply Qnot_lt_le. intro H. apply Qltb_true in H. congruence. }
      specialize (IH bi best (S i)). cbn zeta in IH. destruct IH as [Hle [Hall Hcase]].
      split; [exact Hle | split].
      * intros y [<- | Hy]; [lra | apply Hall; exact Hy].
      * destruct Hcase as [[Hi [Hv Hmin]] | [k [Hi [Hk [Hlt Hbefore]]]]].
        -- left. split; [exact Hi | split; [exact Hv|]]. intros y [<- | Hy]; [exact Hge | apply Hmin; exact Hy].
        -- right. exists (S k). split; [rewrite Hi; lia | split; [exact Hk | split; [exact Hlt|]]].
           intros [|k'] Hk' y Hy; cbn in Hy.
           ++ injection Hy as <-. lra.
           ++ eapply Hbefore; [|exact Hy]. lia.
Qed.

(* losses.index(min(losses)): the returned index holds the returned value, no entry is smaller,
   and every earlier entry is strictly larger (first minimiser) *)
Theorem argmin_first_spec l i v :
  argmin_first l = Some (i, v) ->
  nth_error l i = Some v /\ (forall x, In x l -> v <= x) /\
  (forall j x, (j < i)%nat -> nth_error l j = Some x -> v < x).
Proof.
  destruct l as [|x0 l]; [discriminate|]. cbn [argmin_first]. intro H. injection H as H.
  pose proof (argmin_from_spec l 0%nat x0 1%nat) as S. cbn zeta in S. rewrite H in S. cbn [fst snd] in S.
  destruct S as [Hle [Hall Hcase]].
  destruct Hcase as [[-> [-> Hmin]] | [k [-> [Hk [Hlt Hbefore]]]]].
  - split; [reflexivity | split].
    + intros x [<- | Hx]; [lra | apply Hmin; exact Hx].
    + intros j x Hj. lia.
  - split; [exact Hk | split].
    + intros x [<- | Hx]; [lra | apply Hall; exact Hx].
    + intros [|j] x Hj Hx; cbn in Hx.
      * injection Hx as <-. exact Hlt.
      * eapply Hbefore; [|exact Hx]. lia.
Qed.

Lemma argmin_first_exists l : l <> [] -> exists i v, argmin_first l = Some (i, v).
Proof.
  destruct l as [|x l]; [congruence|]. intros _. cbn. destruct (argmin_from 0 x 1 l). eauto.
Qed.

Lemma losses_length w objs gammas :
  length objs = length gammas -> length (losses w objs gammas) = length objs.
Proof.
  revert gammas. induction objs as [|o objs IH]; intros [|g gs] H; cbn in *; try lia.
  rewrite IH by lia. reflexivity.
Qed.

Lemma nth_error_losses w objs gammas j o g :
  nth_error objs j = Some o -> nth_error gammas j = Some g ->
  nth_error (losses w objs gammas) j = Some (tradeoff w o g).
Proof.
  revert gammas j. induction objs as [|o' objs IH]; intros [|g' gs] [|j] Ho Hg; cbn in *; try discriminate.
  - congruence.
  - apply IH; assumption.
Qed.

(* Series.max(): an upper bound of the column that is attained *)
Lemma fold_max_spec r x : x <= fold_left Qmaxq r x /\ (forall y, In y r -> y <= fold_left Qmaxq r x) /\
                          (fold_left Qmaxq r x = x \/ In (fold_left Qmaxq r x) r).
Proof.
  revert x. induction r as [|y r IH]; intros x; cbn [fold_left].
  - split; [lra | split; [intros ? [] | left; reflexivity]].
  - destruct (IH (Qmaxq x y)) as [H1 [H2 H3]].
    assert (Hm : x <= Qmaxq x y /\ y <= Qmaxq x y /\ (Qmaxq x y = x \/ Qmaxq x y = y)).
    { unfold Qmaxq, Qleb. destruct (Qle_bool x y) eqn:E.
      - apply Qle_bool_iff in E. repeat split; try lra. right. reflexivity.
      - assert (y < x). { apply Qnot_le_lt. intro H. apply Qle_bool_iff in H. congruence. }
        repeat split; try lra. left. reflexivity. }
    destruct Hm as [Hx [Hy Hor]].
    split; [lra | split].
    + intros z [<- | Hz]; [lra | apply H2; exact Hz].
    + destruct H3 as [H3 | H3].
      * destruct Hor as [Hor | Hor]; [left; congruence | right; left; congruence].
      * right. right. exact H3.
Qed.

Theorem vmax_spec l : l <> [] -> In (vmax l) l /\ (forall y, In y l -> y <= vmax l).
Proof.
  destruct l as [|x r]; [congruence|]. intros _. cbn [vmax].
  destruct (fold_max_spec r x) as [H1 [H2 H3]]. split.
  - destruct H3 as [-> | H3]; [left; reflexivity | right; exact H3].
  - intros y [<- | Hy]; [exact H1 | apply H2; exact Hy].
Qed.

(* the selected index minimises (1-w)*objective + w*max(gamma) over ALL trained predictors, it
   is the first such index, and the returned value is the loss at that index *)
Theorem select_argmin w objs gammas :
  objs <> [] -> length objs = length gammas ->
  exists i v o g,
    select w objs gammas = Some (i, v) /\
    nth_error objs i = Some o /\ nth_error gammas i = Some g /\ v = tradeoff w o g /\
    (forall j o' g', nth_error objs j = Some o' -> nth_error gammas j = Some g' ->
                     v <= tradeoff w o' g') /\
    (forall j o' g', (j < i)%nat -> nth_error objs j = Some o' -> nth_error gammas j = Some g' ->
                     v < tradeoff w o' g').
Proof.
  intros Hne Hlen. unfold select.
  assert (Hl : losses w objs gammas <> []).
  { intro E. apply (f_equal (@length Q)) in E. rewrite losses_length in E by exact Hlen.
    destruct objs; [congruence | cbn in E; lia]. }
  destruct (argmin_first_exists _ Hl) as [i [v Hsel]].
  destruct (argmin_first_spec _ _ _ Hsel) as [Hi [Hmin Hfirst]].
  assert (Hilt : (i < length objs)%nat).
  { rewrite <- (losses_length w objs gammas Hlen). apply nth_error_Some. congruence. }
  destruct (nth_error objs i) as [o|] eqn:Eo; [|apply nth_error_None in Eo; lia].
  destruct (nth_error gammas i) as [g|] eqn:Eg; [|apply nth_error_None in Eg; lia].
  exists i, v, o, g. split; [exact Hsel | split; [exact Eo | split; [exact Eg | split; [|split]]]].
  - rewrite (nth_error_losses w _ _ _ _ _ Eo Eg) in Hi. congruence.
  - intros j o' g' Ho' Hg'. apply Hmin. eapply nth_error_In. eapply nth_error_losses; eassumption.
  - intros j o' g' Hj Ho' Hg'. eapply Hfirst; [exact Hj|]. eapply nth_error_losses; eassumption.
Qed.

(* ====================================================================== *)
(* 7. the basis the moments build satisfies the guard, for every dataset   *)
(* ====================================================================== *)

Lemma key_cmp_eq a b : key_cmp a b = Eq -> a = b.
Proof.
  revert b. induction a as [|x a IH]; intros [|y b] H; cbn in H; try discriminate; [reflexivity|].
  destruct (Z.compare x y) eqn:E; try discriminate.
  apply Z.compare_eq in E. subst y. f_equal. apply IH. exact H.
Qed.

Lemma key_eqb_true a b : key_eqb a b = true -> a = b.
Proof. unfold key_eqb. destruct (key_cmp a b) eqn:E; try discriminate. intros _. apply key_cmp_eq. exact E. Qed.

Lemma find_key_found k l s :
  kmem k l = true -> exists i, find_key k l s = Some (s + i)%nat /\ (i < length l)%nat.
Proof.
  revert s. induction l as [|k' l IH]; intros s H; cbn in H; [discriminate|].
  cbn [find_key]. destruct (key_eqb k k') eqn:E.
  - exists 0%nat. split; [f_equal; lia | cbn; lia].
  - cbn in H. destruct (IH (S s) H) as [i [Hi Hlt]]. exists (S i). split; [rewrite Hi; f_equal; lia | cbn; lia].
Qed.

Lemma find_key_inj k k' l s i :
  find_key k l s = Some i -> find_key k' l s = Some i -> k = k'.
Proof.
  revert s. induction l as [|x l IH]; intros s H H'; cbn in H, H'; [discriminate|].
  assert (Hge : forall kk ss j, find_key kk l ss = Some j -> (ss <= j)%nat).
  { clear. induction l as [|y l IH]; intros kk ss j H; cbn in H; [discriminate|].
    destruct (key_eqb kk y); [injection H as <-; lia | apply IH in H; lia]. }
  destruct (key_eqb k x) eqn:E, (key_eqb k' x) eqn:E'.
  - apply key_eqb_true in E. apply key_eqb_true in E'. congruence.
  - injection H as <-. apply Hge in H'. lia.
  - injection H' as <-. apply Hge in H. lia.
  - eapply IH; eassumption.
Qed.

Lemma first_uniq_acc_spec seen l :
  NoDup (first_uniq_acc seen l) /\ (forall x, In x (first_uniq_acc seen l) -> ~ In x seen).
Proof.
  revert seen. induction l as [|x l IH]; intros seen; cbn [first_uniq_acc].
  - split; [constructor | intros ? []].
  - assert (Hmem : forall y s, zmem y s = true <-> In y s).
    { clear. intros y s. induction s as [|z s IH]; cbn; [split; [discriminate | tauto]|].
      rewrite orb_true_iff, IH, Z.eqb_eq. split; intros [H | H]; auto. }
    destruct (zmem x seen) eqn:E.
    + apply IH.
    + destruct (IH (x :: seen)) as [Hnd Hnot]. split.
      * constructor; [|exact Hnd]. intro Hin. apply (Hnot x Hin). left. reflexivity.
      * intros y [<- | Hy].
        -- intro Hin. apply Hmem in Hin. congruence.
        -- intro Hin. apply (Hnot y Hy). right. exact Hin.
Qed.

Lemma first_uniq_nodup l : NoDup (first_uniq l).
Proof. apply first_uniq_acc_spec. Qed.

Lemma In_removelast {A} (l : list A) x : In x (removelast l) -> In x l.
Proof.
  induction l as [|y l IH]; cbn; [tauto|]. destruct l as [|z l]; [intros []|].
  intros [H | H]; [left; exact H | right; apply IH; exact H].
Qed.

Lemma NoDup_removelast {A} (l : list A) : NoDup l -> NoDup (removelast l).
Proof.
  intro H. induction H as [|x l Hx H IH]; cbn; [constructor|]. destruct l as [|z l]; [constructor|].
  constructor; [|exact IH]. intro Hin. apply Hx. apply In_removelast. exact Hin.
Qed.

Lemma up_candidates_nodup events groups : NoDup (up_candidates events groups).
Proof.
  unfold up_candidates. apply NoDup_flat_map.
  - apply first_uniq_nodup.
  - intros e _. apply NoDup_map_inj; [intros a b _ _ H; congruence|].
    apply NoDup_removelast. apply first_uniq_nodup.
  - intros x y b _ _ Hx Hy. apply in_map_iff in Hx. apply in_map_iff in Hy.
    destruct Hx as [g [<- _]]. destruct Hy as [g' [H _]]. congruence.
Qed.

(* columns built from found index positions *)
Definition pair_col (L i : nat) : bcol := (Some i, Some (L + i)%nat).

Lemma In_pair_positions L is x :
  In x (positions (map (pair_col L) is)) <-> exists j, In j is /\ (x = j \/ x = (L + j)%nat).
Proof.
  induction is as [|i is IH]; cbn [map]; [cbn; split; [tauto | intros [? [[] _]]]|].
  unfold pair_col at 1. rewrite positions_cons. cbn [opt_list app In]. rewrite IH. split.
  - intros [H | [H | [j [Hj Hx]]]]; [exists i | exists i | exists j]; cbn; auto.
  - intros [j [[<- | Hj] [Hx | Hx]]]; auto; right; right; exists j; auto.
Qed.

Lemma pair_positions_nodup L is :
  NoDup is -> Forall (fun i => (i < L)%nat) is -> NoDup (positions (map (pair_col L) is)).
Proof.
  intros Hnd Hlt. induction Hnd as [|i is Hi Hnd IH]; cbn [map]; [constructor|].
  inversion Hlt as [|? ? HiL Hlt']; subst. rewrite Forall_forall in Hlt'.
  unfold pair_col at 1. rewrite positions_cons. cbn [opt_list app].
  constructor; [|constructor; [|apply IH; apply Forall_forall; exact Hlt']].
  - intros [H | H]; [lia|]. apply In_pair_positions in H. destruct H as [j [Hj [-> | ->]]].
    + contradiction.
    + lia.
  - intro H. apply In_pair_positions in H. destruct H as [j [Hj [H | H]]].
    + apply Hlt' in Hj. lia.
    + assert (i = j) by lia. subst j. contradiction.
Qed.

Lemma pair_cols_okb L is :
  Forall (fun i => (i < L)%nat) is ->
  cols_okb (2 * L) (map (pair_col L) is) (map (fun _ => true) (map (pair_col L) is)) = true.
Proof.
  intro H. induction H as [|i is Hi H IH]; [reflexivity|]. cbn [map cols_okb]. rewrite IH, andb_true_r.
  unfold col_okb, pair_col. cbn [fst snd is_some opt_lt implb andb].
  assert (H1 : Nat.ltb i (2 * L) = true) by (apply Nat.ltb_lt; lia).
  assert (H2 : Nat.ltb (L + i) (2 * L) = true) by (apply Nat.ltb_lt; lia).
  rewrite H1, H2. reflexivity.
Qed.

Lemma NoDup_nat_nodupb l : NoDup l -> nat_nodupb l = true.
Proof.
  intro H. induction H as [|x l Hx H IH]; [reflexivity|]. cbn. rewrite IH, andb_true_r.
  apply negb_true_iff. destruct (existsb (Nat.eqb x) l) eqn:E; [|reflexivity].
  apply existsb_exists in E. destruct E as [y [Hy Hxy]]. apply Nat.eqb_eq in Hxy. subst y. contradiction.
Qed.

(* keys that are all present in `cells` become pair columns at distinct positions *)
Lemma found_cols cells ks :
  NoDup ks -> (forall k, In k ks -> kmem k cells = true) ->
  exists is, map (up_col_of cells) ks = map (pair_col (length cells)) is /\
             NoDup is /\ Forall (fun i => (i < length cells)%nat) is /\
             (forall i, In i is -> exists k, In k ks /\ find_key k cells 0 = Some i).
Proof.
  intros Hnd. induction Hnd as [|k ks Hk Hnd IH]; intros Hmem.
  - exists []. repeat split; try constructor. intros ? [].
  - destruct IH as [is [Hmap [Hndi [Hlt Hsrc]]]]; [intros; apply Hmem; right; assumption|].
    destruct (find_key_found k cells 0 (Hmem k (or_introl eq_refl))) as [i [Hi Hil]]. cbn in Hi.
    exists (i :: is). split; [|split; [|split]].
    + cbn [map]. rewrite Hmap. f_equal. unfold up_col_of, pair_col. rewrite Hi. reflexivity.
    + constructor; [|exact Hndi]. intro Hin. destruct (Hsrc i Hin) as [k' [Hk' Hf]].
      assert (k = k') by (eapply find_key_inj; eassumption). subst k'. contradiction.
    + constructor; assumption.
    + intros j [<- | Hj]; [exists k; split; [left; reflexivity | exact Hi]|].
      destruct (Hsrc j Hj) as [k' [Hk' Hf]]. exists k'. split; [right; exact Hk' | exact Hf].
Qed.

(* UtilityParity: whatever the data, the (repaired) basis satisfies the guard of grid_vectors *)
Theorem up_basis_good events groups :
  good_basis (up_m events groups) (up_cols events groups) (up_negs events groups) = true.
Proof.
  unfold good_basis, up_m, up_negs, up_cols.
  set (cells := up_cells events groups).
  destruct (found_cols cells (filter (fun k => kmem k cells) (up_candidates events groups))) as [is [Hmap [Hnd [Hlt _]]]].
  - apply NoDup_filter. apply up_candidates_nodup.
  - intros k Hk. apply filter_In in Hk. tauto.
  - rewrite Hmap. rewrite pair_cols_okb by exact Hlt.
    rewrite NoDup_nat_nodupb; [reflexivity|]. apply pair_positions_nodup; assumption.
Qed.

(* ---- ConditionalLossMoment (BoundedGroupLoss): '+' columns only ---- *)
Definition single_col (i : nat) : bcol := (Some i, None).

Lemma single_positions is : positions (map single_col is) = is.
Proof. induction is as [|i is IH]; [reflexivity|]. cbn [map]. unfold single_col at 1. rewrite positions_cons, IH. reflexivity. Qed.

Lemma single_cols_okb m is :
  Forall (fun i => (i < m)%nat) is ->
  cols_okb m (map single_col is) (map (fun _ => false) (map single_col is)) = true.
Proof.
  intro H. induction H as [|i is Hi H IH]; [reflexivity|]. cbn [map cols_okb]. rewrite IH, andb_true_r.
  unfold col_okb, single_col. cbn [fst snd is_some opt_lt implb andb].
  assert (H1 : Nat.ltb i m = true) by (apply Nat.ltb_lt; lia). rewrite H1. reflexivity.
Qed.

Lemma found_single cells (f : Z -> list Z) gs :
  NoDup gs -> (forall a b, f a = f b -> a = b) -> (forall g, In g gs -> kmem (f g) cells = true) ->
  exists is, map (fun g => (find_key (f g) cells 0, @None nat)) gs = map single_col is /\
             NoDup is /\ Forall (fun i => (i < length cells)%nat) is /\
             (forall i, In i is -> exists g, In g gs /\ find_key (f g) cells 0 = Some i).
Proof.
  intros Hnd Hinj. induction Hnd as [|g gs Hg Hnd IH]; intros Hmem.
  - exists []. repeat split; try constructor. intros ? [].
  - destruct IH as [is [Hmap [Hndi [Hlt Hsrc]]]]; [intros; apply Hmem; right; assumption|].
    destruct (find_key_found (f g) cells 0 (Hmem g (or_introl eq_refl))) as [i [Hi Hil]]. cbn in Hi.
    exists (i :: is). split; [|split; [|split]].
    + cbn [map]. rewrite Hmap, Hi. reflexivity.
    + constructor; [|exact Hndi]. intro Hin. destruct (Hsrc i Hin) as [g' [Hg' Hf]].
      assert (f g = f g') by (eapply find_key_inj; eassumption).
      assert (g = g') by (apply Hinj; assumption). subst g'. contradiction.
    + constructor; assumption.
    + intros j [<- | Hj]; [exists g; split; [left; reflexivity | exact Hi]|].
      destruct (Hsrc j Hj) as [g' [Hg' Hf]]. exists g'. split; [right; exact Hg' | exact Hf].
Qed.

Lemma In_zinsert x y l : In y (zinsert x l) <-> x = y \/ In y l.
Proof.
  induction l as [|z l IH]; cbn; [tauto|].
  destruct (x <? z)%Z eqn:E1; [cbn; tauto|]. destruct (x =? z)%Z eqn:E2.
  - apply Z.eqb_eq in E2. subst z. cbn. tauto.
  - cbn. rewrite IH. tauto.
Qed.

Lemma In_zuniq x l : In x (zuniq l) <-> In x l.
Proof.
  unfold zuniq. induction l as [|y l IH]; cbn [fold_right]; [tauto|].
  rewrite In_zinsert, IH. cbn. tauto.
Qed.

Lemma In_first_uniq_acc x seen l : In x (first_uniq_acc seen l) -> In x l.
Proof.
  revert seen. induction l as [|y l IH]; intros seen; cbn [first_uniq_acc]; [tauto|].
  destruct (zmem y seen); [intro H; right; eapply IH; exact H|].
  intros [<- | H]; [left; reflexivity | right; eapply IH; exact H].
Qed.

Lemma kmem_singletons x zs : In x zs -> kmem [x] (map (fun g => [g]) zs) = true.
Proof.
  induction zs as [|z zs IH]; cbn [map kmem In]; [tauto|]. intros [-> | H].
  - unfold key_eqb. cbn [key_cmp]. rewrite Z.compare_refl. reflexivity.
  - rewrite IH by exact H. apply orb_true_r.
Qed.

Theorem bgl_basis_good groups :
  good_basis (bgl_m groups) (bgl_cols groups) (bgl_negs groups) = true.
Proof.
  unfold good_basis, bgl_m, bgl_negs, bgl_cols.
  destruct (found_single (map (fun g => [g]) (zuniq groups)) (fun g => [g]) (first_uniq groups))
    as [is [Hmap [Hnd [Hlt _]]]].
  - apply first_uniq_nodup.
  - intros a b H. congruence.
  - intros g Hg. apply kmem_singletons. apply In_zuniq. eapply In_first_uniq_acc. exact Hg.
  - rewrite map_length in Hlt. rewrite Hmap, single_cols_okb by exact Hlt.
    rewrite single_positions. rewrite NoDup_nat_nodupb by exact Hnd. reflexivity.
Qed.

(* the grid theorem with the guard discharged: it holds for EVERY dataset whose basis has at least
   one column (parity moments) / at least two groups (loss moments) *)
Corollary grid_vectors_parity events groups gs limit :
  true_dim_pos (up_negs events groups) false = true -> (2 <= gs)%nat -> 0 < limit ->
  exists n g,
    n_units (up_negs events groups) false gs = Some n /\ (1 <= n)%Z /\
    grid (up_m events groups) (up_cols events groups) (up_negs events groups) false gs limit = Some g /\
    length g = gs /\ ForallOrdPairs (fun a b => ~ veq a b) g /\
    Forall (vector_ok (up_m events groups) false limit) g.
Proof. intros. apply grid_vectors; try assumption. apply up_basis_good. Qed.

Corollary grid_vectors_loss groups gs limit :
  true_dim_pos (bgl_negs groups) true = true -> (2 <= gs)%nat -> 0 < limit ->
  exists n g,
    n_units (bgl_negs groups) true gs = Some n /\ (1 <= n)%Z /\
    grid (bgl_m groups) (bgl_cols groups) (bgl_negs groups) true gs limit = Some g /\
    length g = gs /\ ForallOrdPairs (fun a b => ~ veq a b) g /\
    Forall (vector_ok (bgl_m groups) true limit) g.
Proof. intros. apply grid_vectors; try assumption. apply bgl_basis_good. Qed.
