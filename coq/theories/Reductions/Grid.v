(* Model of fairlearn.reductions._grid_search._grid_generator._GridGenerator, of the pos / neg
   basis built by UtilityParity.load_data and ConditionalLossMoment.load_data, and of the
   selection step of GridSearch.fit (C09).  Proof-free: the lemmas are in Grid_proofs.v.

   The functions follow the code, not the specification:
     accumulate_integer_grid  ->  lattice_with   (structural recursion over the remaining dimensions,
                                                 the `values` rule per coordinate)
     the `while True` loop    ->  n_units_with   (least n whose lattice has >= grid_size points;
                                                 the code starts from a floating-point guess and
                                                 counts upward -- the correspondence run confirms
                                                 case by case that both reach the same n)
     rescale / clip / .dot    ->  lincomb        (linear combination of the 0/1 basis columns)
     losses.index(min(losses))->  select                                                         *)
From Coq Require Import QArith ZArith List Bool.
From FL Require Import Num ListX.
Import ListNotations.

Open Scope Z_scope.

(* Python's range(lo, hi) (hi exclusive) *)
Definition pyrange (lo hi : Z) : list Z :=
  map (fun i => lo + Z.of_nat i) (seq 0 (Z.to_nat (hi - lo))).

(* the three `values` rules of accumulate_integer_grid; is_last <-> index == self.dim - 1,
   force <-> self.force_L1_norm, neg <-> self.neg_allowed[index].  translators/t_grid.py
   regenerates this term from the source (FLGen.Gen_grid.values). *)
Definition values (is_last force neg : bool) (max_val : Z) : list Z :=
  if is_last && force
  then (if neg && (max_val >? 0) then [- max_val; max_val] else [max_val])
  else pyrange (if neg then - max_val else 0) (max_val + 1).

(* budget handed to the next coordinate: max_val - abs(current_value) *)
Definition step (max_val current_value : Z) : Z := max_val - Z.abs current_value.

Definition is_nil {A} (l : list A) : bool := match l with [] => true | _ => false end.

Section Generator.
  (* the `values` rule and the budget update are parameters so that the theorems can be stated on
     the fragment regenerated from the source *)
  Variable vals : bool -> bool -> bool -> Z -> list Z.
  Variable stp : Z -> Z -> Z.

  (* build_integer_grid(n_units): negs = neg_allowed (one flag per coordinate, so dim = length negs);
     the accumulator lists the entries in the order of the nested loops *)
  Fixpoint lattice_with (negs : list bool) (force : bool) (max_val : Z) : list (list Z) :=
    match negs with
    | [] => [[]]
    | neg :: rest =>
        flat_map (fun v => map (cons v) (lattice_with rest force (stp max_val v)))
                 (vals (is_nil rest) force neg max_val)
    end.

  (* smallest n >= start (within fuel) such that len(int_grid) >= grid_size *)
  Fixpoint n_units_from (negs : list bool) (force : bool) (grid_size fuel : nat) (n : Z) : option Z :=
    match fuel with
    | O => None
    | S f => if Nat.leb grid_size (length (lattice_with negs force n)) then Some n
             else n_units_from negs force grid_size f (n + 1)
    end.

  Definition n_units_with (negs : list bool) (force : bool) (grid_size : nat) : option Z :=
    n_units_from negs force grid_size (S grid_size) 0.
End Generator.

Definition lattice := lattice_with values step.
Definition n_units := n_units_with values step.

(* ---------- rescaling and the pos / neg basis ---------- *)
Open Scope Q_scope.

(* pos_coefs[pos_coefs < 0] = 0.0 *)
Definition clip0 (q : Q) : Q := if Qltb q 0 then 0 else q.

(* accumulator entry * (float(grid_limit) / n_units) *)
Definition scale_coefs (limit : Q) (n : Z) (c : list Z) : list Q :=
  map (fun z => inject_Z z * (limit / inject_Z n)) c.

(* one basis column: position (in the sorted constraint index) of the single 1 of the pos_basis
   column and of the neg_basis column; None = the column is identically zero *)
Definition bcol := (option nat * option nat)%type.

Definition unit_vec (m : nat) (o : option nat) : list Q :=
  map (fun j => match o with Some p => if Nat.eqb j p then 1 else 0 | None => 0 end) (seq 0 m).

Fixpoint vadd (a b : list Q) : list Q :=
  match a, b with x :: a', y :: b' => (x + y) :: vadd a' b' | _, _ => [] end.

Definition vscale (c : Q) (v : list Q) : list Q := map (Qmult c) v.

(* pos_basis.dot(pos_coefs) + neg_basis.dot(neg_coefs) for ONE grid column (grid_offset = 0):
   coefficient c contributes max(c,0) on the '+' entry and max(-c,0) on the '-' entry *)
Fixpoint lincomb (m : nat) (cols : list bcol) (coefs : list Q) : list Q :=
  match cols, coefs with
  | (p, q) :: cs, c :: r =>
      vadd (vadd (vscale (clip0 c) (unit_vec m p)) (vscale (clip0 (- c)) (unit_vec m q)))
           (lincomb m cs r)
  | _, _ => repeat 0 m
  end.

Section GridOf.
  Variable vals : bool -> bool -> bool -> Z -> list Z.
  Variable stp : Z -> Z -> Z.
  (* _GridGenerator(...).grid as the list of its columns; None = the search for n_units ran out of
     fuel (impossible when the true dimension is >= 1: Grid_proofs.n_units_exists) *)
  Definition grid_with (m : nat) (cols : list bcol) (negs : list bool) (force : bool)
             (grid_size : nat) (limit : Q) : option (list (list Q)) :=
    match n_units_with vals stp negs force grid_size with
    | None => None
    | Some n => Some (map (fun c => lincomb m cols (scale_coefs limit n c))
                          (firstn grid_size (lattice_with vals stp negs force n)))
    end.
End GridOf.

Definition grid := grid_with values step.

(* ---------- the basis as the moments build it ---------- *)
Open Scope Z_scope.

(* Series.unique(): order of first appearance *)
Fixpoint first_uniq_acc (seen l : list Z) : list Z :=
  match l with
  | [] => []
  | x :: r => if zmem x seen then first_uniq_acc seen r else x :: first_uniq_acc (x :: seen) r
  end.
Definition first_uniq (l : list Z) : list Z := first_uniq_acc [] l.

Fixpoint find_key (k : list Z) (l : list (list Z)) (i : nat) : option nat :=
  match l with
  | [] => None
  | k' :: r => if key_eqb k k' then Some i else find_key k r (S i)
  end.

Fixpoint somes {A} (l : list (option A)) : list A :=
  match l with [] => [] | Some x :: r => x :: somes r | None :: r => somes r end.

(* UtilityParity.load_data: rows carry (event option, group); the constraint index is
   ('+' block, '-' block) x sorted present (event, group) cells; one basis column per
   (event in order of appearance) x (group in order of appearance, last one dropped) whose cell
   is present in the index (`if ("+", e, g) not in self.index: continue`) *)
Definition up_cells (events : list (option Z)) (groups : list Z) : list (list Z) :=
  kuniq (somes (map (fun eg => match fst eg with Some e => Some [e; snd eg] | None => None end)
                    (combine events groups))).

Definition up_candidates (events : list (option Z)) (groups : list Z) : list (list Z) :=
  flat_map (fun e => map (fun g => [e; g]) (removelast (first_uniq groups)))
           (first_uniq (somes events)).

Definition up_col_of (cells : list (list Z)) (k : list Z) : bcol :=
  let p := find_key k cells 0 in (p, option_map (fun i => (length cells + i)%nat) p).

Definition up_cols (events : list (option Z)) (groups : list Z) : list bcol :=
  let cells := up_cells events groups in
  map (up_col_of cells) (filter (fun k => kmem k cells) (up_candidates events groups)).

(* the rule of the snapshot before the repair: a column was allocated for absent cells too
   (identically zero column => duplicated grid points; see Grid_proofs.old_basis_duplicates) *)
Definition up_cols_old (events : list (option Z)) (groups : list Z) : list bcol :=
  let cells := up_cells events groups in
  map (up_col_of cells) (up_candidates events groups).

Definition up_m (events : list (option Z)) (groups : list Z) : nat :=
  (2 * length (up_cells events groups))%nat.

Definition up_negs (events : list (option Z)) (groups : list Z) : list bool :=
  map (fun _ => true) (up_cols events groups).

(* ConditionalLossMoment.load_data: index = sorted groups; one '+' column per group in order of
   appearance, no negative basis; GridSearch passes force_L1_norm = True for these moments *)
Definition bgl_cols (groups : list Z) : list bcol :=
  let idx := map (fun g => [g]) (zuniq groups) in
  map (fun g => (find_key [g] idx 0, None)) (first_uniq groups).
Definition bgl_m (groups : list Z) : nat := length (zuniq groups).
Definition bgl_negs (groups : list Z) : list bool := map (fun _ => false) (bgl_cols groups).

(* ---------- selection: losses.index(min(losses)) ---------- *)
Open Scope Q_scope.

(* Series.max() of a non-empty finite column *)
Definition vmax (l : list Q) : Q :=
  match l with [] => 0 | x :: r => fold_left Qmaxq r x end.

Definition tradeoff (w obj : Q) (gamma : list Q) : Q := (1 - w) * obj + w * vmax gamma.

Fixpoint losses (w : Q) (objs : list Q) (gammas : list (list Q)) : list Q :=
  match objs, gammas with
  | o :: objs', g :: gammas' => tradeoff w o g :: losses w objs' gammas'
  | _, _ => []
  end.

(* first index of the minimum: (index, value) of the best so far, scanning left to right *)
Fixpoint argmin_from (best_i : nat) (best : Q) (i : nat) (l : list Q) : nat * Q :=
  match l with
  | [] => (best_i, best)
  | x :: r => if Qltb x best then argmin_from i x (S i) r else argmin_from best_i best (S i) r
  end.

Definition argmin_first (l : list Q) : option (nat * Q) :=
  match l with [] => None | x :: r => Some (argmin_from 0%nat x 1%nat r) end.

Definition select (w : Q) (objs : list Q) (gammas : list (list Q)) : option (nat * Q) :=
  argmin_first (losses w objs gammas).

(* ---------- guard of the grid theorem, as a computable predicate ----------
   every basis column has its '+' entry inside the index, its '-' entry inside the index when
   negative coefficients are allowed for it, and no two columns share an index entry *)
Definition opt_lt (m : nat) (o : option nat) : bool :=
  match o with Some p => Nat.ltb p m | None => true end.
Definition is_some {A} (o : option A) : bool := match o with Some _ => true | None => false end.
Definition col_okb (m : nat) (col : bcol) (neg : bool) : bool :=
  is_some (fst col) && opt_lt m (fst col) && opt_lt m (snd col) && implb neg (is_some (snd col)).
Fixpoint cols_okb (m : nat) (cols : list bcol) (negs : list bool) : bool :=
  match cols, negs with
  | [], [] => true
  | c :: cs, n :: ns => col_okb m c n && cols_okb m cs ns
  | _, _ => false
  end.
Definition opt_list {A} (o : option A) : list A := match o with Some x => [x] | None => [] end.
Definition positions (cols : list bcol) : list nat :=
  flat_map (fun c => opt_list (fst c) ++ opt_list (snd c)) cols.
Fixpoint nat_nodupb (l : list nat) : bool :=
  match l with [] => true | x :: r => negb (existsb (Nat.eqb x) r) && nat_nodupb r end.
Definition good_basis (m : nat) (cols : list bcol) (negs : list bool) : bool :=
  cols_okb m cols negs && nat_nodupb (positions cols).

(* true dimension of the grid >= 1 (otherwise the code divides by zero / never terminates) *)
Definition true_dim_pos (negs : list bool) (force : bool) : bool :=
  Nat.leb (if force then 2 else 1) (length negs).

(* ---------- checkable predicates evaluated in the correspondence run ---------- *)
Definition qvec_eqb (a b : list Q) : bool :=
  Nat.eqb (length a) (length b) && forallb (fun xy => Qeqb (fst xy) (snd xy)) (combine a b).

Fixpoint nodup_qvecs (l : list (list Q)) : bool :=
  match l with
  | [] => true
  | x :: r => negb (existsb (qvec_eqb x) r) && nodup_qvecs r
  end.
