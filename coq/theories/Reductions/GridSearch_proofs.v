(* Theorems about GridSearch.v (C09): every recorded predictor is a best response of an exact
   learner to its multiplier (corollary of C07's cost_sensitive_equiv / loss_identity), the recorded
   objective / gamma are those of the recorded predictor, and predict delegates to the arg-min. *)
From Coq Require Import QArith ZArith List Bool Lia Lqa Setoid.
From FL Require Import Num ListX Grid Grid_proofs Moments Moments_proofs Reduction Reduction_proofs GridSearch.
Import ListNotations.
Open Scope Q_scope.

(* ====================================================================== *)
(* 1. losses.index(min(losses)) is the first arg-min                       *)
(* ====================================================================== *)

Lemma Qminq_cases a b : (a <= b /\ Qminq a b = a) \/ (b < a /\ Qminq a b = b).
Proof.
  unfold Qminq, Qleb. destruct (Qle_bool a b) eqn:E.
  - apply Qle_bool_iff in E. left. split; [exact E | reflexivity].
  - right. split; [|reflexivity]. apply Qnot_le_lt. intro H. apply Qle_bool_iff in H. congruence.
Qed.

Lemma fold_min_spec r x :
  fold_left Qminq r x <= x /\ (forall y, In y r -> fold_left Qminq r x <= y) /\
  (fold_left Qminq r x = x \/ In (fold_left Qminq r x) r).
Proof.
  revert x. induction r as [|y r IH]; intros x; cbn [fold_left].
  - split; [lra | split; [intros ? [] | left; reflexivity]].
  - destruct (IH (Qminq x y)) as [H1 [H2 H3]].
    destruct (Qminq_cases x y) as [[Hle Hm] | [Hlt Hm]]; rewrite Hm in *.
    + split; [exact H1 | split].
      * intros z [<- | Hz]; [lra | apply H2; exact Hz].
      * destruct H3 as [H3 | H3]; [left; exact H3 | right; right; exact H3].
    + split; [lra | split].
      * intros z [<- | Hz]; [exact H1 | apply H2; exact Hz].
      * destruct H3 as [H3 | H3]; [right; left; symmetry; exact H3 | right; right; exact H3].
Qed.

Lemma py_min_spec l m : py_min l = Some m -> In m l /\ (forall y, In y l -> m <= y).
Proof.
  destruct l as [|x r]; [discriminate|]. unfold py_min, qmin1. intros [= <-].
  destruct (fold_min_spec r x) as [H1 [H2 H3]]. split.
  - destruct H3 as [-> | H3]; [left; reflexivity | right; exact H3].
  - intros y [<- | Hy]; [exact H1 | apply H2; exact Hy].
Qed.

Lemma Qeqb_true a b : Qeqb a b = true <-> a == b.
Proof. unfold Qeqb. apply Qeq_bool_iff. Qed.

Lemma Qeqb_false a b : Qeqb a b = false <-> ~ a == b.
Proof.
  split.
  - intros E H. apply Qeqb_true in H. congruence.
  - intro H. destruct (Qeqb a b) eqn:E; [|reflexivity]. apply Qeqb_true in E. contradiction.
Qed.

Lemma py_index_from_first v l : forall s i x,
  nth_error l i = Some x -> x == v ->
  (forall j y, (j < i)%nat -> nth_error l j = Some y -> ~ y == v) ->
  py_index_from v l s = Some (s + i)%nat.
Proof.
  induction l as [|a l IH]; intros s [|i] x Hx Hv Hb; cbn in Hx; try discriminate.
  - injection Hx as ->. cbn [py_index_from].
    assert (E : Qeqb x v = true) by (apply Qeqb_true; exact Hv). rewrite E. f_equal. lia.
  - cbn [py_index_from].
    assert (E : Qeqb a v = false) by (apply Qeqb_false; apply (Hb 0%nat a); [lia | reflexivity]).
    rewrite E. rewrite (IH (S s) i x Hx Hv).
    + f_equal. lia.
    + intros j y Hj Hy. apply (Hb (S j) y); [lia | exact Hy].
Qed.

(* the code's losses.index(min(losses)) is the index returned by the left-to-right scan of Grid.v *)
Theorem index_of_min_argmin l : index_of_min l = option_map fst (argmin_first l).
Proof.
  destruct l as [|x0 l0]; [reflexivity|].
  set (l := x0 :: l0).
  destruct (argmin_first_exists l ltac:(discriminate)) as [i [v Hsel]].
  rewrite Hsel. cbn [option_map fst].
  destruct (argmin_first_spec _ _ _ Hsel) as [Hi [Hmin Hfirst]].
  unfold index_of_min. destruct (py_min l) as [m|] eqn:Em; [|discriminate].
  destruct (py_min_spec _ _ Em) as [Hin Hle]. cbn [py_index].
  assert (Hvm : v == m).
  { apply Qle_antisym; [apply Hmin; exact Hin | apply Hle; eapply nth_error_In; exact Hi]. }
  rewrite (py_index_from_first m l 0%nat i v Hi Hvm); [reflexivity|].
  intros j y Hj Hy Heq. specialize (Hfirst j y Hj Hy). lra.
Qed.

(* ====================================================================== *)
(* 2. records, selection, delegation (by construction of the model)         *)
(* ====================================================================== *)

Lemma nth_error_map' {A B} (f : A -> B) l i : nth_error (map f l) i = option_map f (nth_error l i).
Proof. revert i. induction l as [|a l IH]; intros [|i]; cbn; auto. Qed.

Section Records.
  Variables X Hyp : Type.
  Variable learn : list (X * Q * Q) -> Hyp.
  Variable predict : Hyp -> list X -> list Q.

  Theorem fit_cls_length k r fp fn rows xs grid :
    length (fit_cls learn predict k r fp fn rows xs grid) = length grid.
  Proof. unfold fit_cls. apply map_length. Qed.

  Theorem fit_loss_length l rows xs grid :
    length (fit_loss learn predict l rows xs grid) = length grid.
  Proof. unfold fit_loss. apply map_length. Qed.

  (* one record per multiplier vector, in grid order; its predictor was trained on the relabelled /
     reweighted data of THAT vector and objective / gamma are those of its own predictions *)
  Theorem records_true_cls k r fp fn rows xs grid i p :
    nth_error (fit_cls learn predict k r fp fn rows xs grid) i = Some p ->
    exists lam, nth_error grid i = Some lam /\
      p_fit p = fit_point_cls learn k r fp fn rows xs lam /\
      p_obj p = er_gamma fp fn rows (fpredict predict (p_fit p) xs) /\
      p_gamma p = gamma k r rows (fpredict predict (p_fit p) xs).
  Proof.
    unfold fit_cls. rewrite nth_error_map'. destruct (nth_error grid i) as [lam|]; [|discriminate].
    cbn [option_map]. intros [= <-]. exists lam. repeat split; reflexivity.
  Qed.

  Theorem records_true_loss l rows xs grid i p :
    nth_error (fit_loss learn predict l rows xs grid) i = Some p ->
    exists lam, nth_error grid i = Some lam /\
      p_fit p = fit_point_loss learn rows xs lam /\
      p_obj p = mean_loss l rows (fpredict predict (p_fit p) xs) /\
      p_gamma p = bgl_gamma l rows (fpredict predict (p_fit p) xs).
  Proof.
    unfold fit_loss. rewrite nth_error_map'. destruct (nth_error grid i) as [lam|]; [|discriminate].
    cbn [option_map]. intros [= <-]. exists lam. repeat split; reflexivity.
  Qed.

  Lemma losses_pts cw (pts : list (point Hyp)) :
    Grid.losses cw (map p_obj pts) (map p_gamma pts) = loss_list cw pts.
  Proof. induction pts as [|p pts IH]; cbn; [reflexivity | rewrite IH; reflexivity]. Qed.

  Theorem best_idx_select cw (pts : list (point Hyp)) :
    best_idx cw pts = option_map fst (select_pts cw pts).
  Proof.
    unfold best_idx, select_pts, select. rewrite losses_pts. apply index_of_min_argmin.
  Qed.

  (* predict delegates to the predictor at best_idx_, which is the first arg-min of the trade-off
     loss computed from the recorded objective / gamma *)
  Theorem select_delegates cw (pts : list (point Hyp)) xs' :
    pts <> [] ->
    exists i v p,
      select_pts cw pts = Some (i, v) /\ best_idx cw pts = Some i /\ nth_error pts i = Some p /\
      gs_predict predict cw pts xs' = Some (fpredict predict (p_fit p) xs') /\
      v = tradeoff cw (p_obj p) (p_gamma p) /\
      (forall q, In q pts -> v <= tradeoff cw (p_obj q) (p_gamma q)) /\
      (forall j q, (j < i)%nat -> nth_error pts j = Some q -> v < tradeoff cw (p_obj q) (p_gamma q)).
  Proof.
    intro Hne.
    assert (Hobj : map p_obj pts <> []) by (destruct pts; [congruence | discriminate]).
    assert (Hlen : length (map p_obj pts) = length (map p_gamma pts)) by (rewrite !map_length; reflexivity).
    destruct (select_argmin cw _ _ Hobj Hlen) as (i & v & o & g & Hsel & Ho & Hg & Hv & Hmin & Hfirst).
    rewrite nth_error_map' in Ho. rewrite nth_error_map' in Hg.
    destruct (nth_error pts i) as [p|] eqn:Ep; [|discriminate]. cbn [option_map] in Ho, Hg.
    injection Ho as <-. injection Hg as <-.
    assert (Hb : best_idx cw pts = Some i).
    { rewrite best_idx_select. unfold select_pts. rewrite Hsel. reflexivity. }
    exists i, v, p. split; [exact Hsel | split; [exact Hb | split; [exact Ep | split; [|split; [exact Hv | split]]]]].
    - unfold gs_predict. rewrite Hb, Ep. reflexivity.
    - intros q Hq. apply In_nth_error in Hq. destruct Hq as [j Hj].
      apply (Hmin j); rewrite nth_error_map', Hj; reflexivity.
    - intros j q Hj Hq. apply (Hfirst j); [exact Hj | |]; rewrite nth_error_map', Hq; reflexivity.
  Qed.
End Records.

(* ====================================================================== *)
(* 3. best response, classification                                         *)
(* ====================================================================== *)

Lemma vadd_comm a b : Forall2 Qeq (vadd a b) (vadd b a).
Proof.
  unfold vadd. revert b. induction a as [|x a IH]; intros [|y b]; cbn [zipw]; constructor.
  - ring.
  - apply IH.
Qed.

Lemma grid_weights_oracle k r fp fn rows lam :
  Forall2 Qeq (grid_weights k r fp fn rows lam) (oracle_weights k r fp fn rows lam).
Proof. unfold grid_weights, oracle_weights. apply vadd_comm. Qed.

Lemma oracle_weights_length k r fp fn rows lam : length (oracle_weights k r fp fn rows lam) = length rows.
Proof.
  unfold oracle_weights, vadd, er_signed_weights, signed_weights, vmul.
  rewrite !zipw_length, !map_length, lincomb_length by apply Umat_lengths. lia.
Qed.

Lemma Forall2_length' {A B} (R : A -> B -> Prop) a b : Forall2 R a b -> length a = length b.
Proof. induction 1; cbn; congruence. Qed.

Lemma grid_weights_length k r fp fn rows lam : length (grid_weights k r fp fn rows lam) = length rows.
Proof. rewrite (Forall2_length' _ _ _ (grid_weights_oracle k r fp fn rows lam)). apply oracle_weights_length. Qed.

(* the order induced by the relabelled / reweighted problem only depends on the weights up to == *)
Lemma w01_order_ext (w w' h h' : list Q) :
  Forall2 Qeq w w' -> hard h -> hard h' -> length h = length w -> length h' = length w ->
  (w01 (reweight w) (relabel w) h <= w01 (reweight w) (relabel w) h'
   <-> w01 (reweight w') (relabel w') h <= w01 (reweight w') (relabel w') h').
Proof.
  intros E H1 H2 L1 L2. pose proof (Forall2_length' _ _ _ E) as Lw.
  rewrite !w01_hard by (auto; congruence).
  rewrite (dot_ext _ _ h E), (dot_ext _ _ h' E). split; intro H; lra.
Qed.

Lemma relabel_hard w : hard (relabel w).
Proof.
  unfold hard, relabel. induction w as [|x w IH]; cbn [map]; constructor; [|exact IH].
  destruct (Qltb 0 x); [right | left]; reflexivity.
Qed.

Lemma relabel_length w : length (relabel w) = length w.
Proof. apply map_length. Qed.
Lemma reweight_length w : length (reweight w) = length w.
Proof. apply map_length. Qed.

Lemma qabs_nonneg x : 0 <= qabs x.
Proof. destruct (qabs_spec x) as [P N]. destruct (Qlt_le_dec x 0); [rewrite N by lra | rewrite P by lra]; lra. Qed.

Lemma reweight_nonneg w : Forall (fun x => 0 <= x) (reweight w).
Proof. unfold reweight. induction w; cbn [map]; constructor; [apply qabs_nonneg | assumption]. Qed.

Lemma w01_nonneg ww yy h : Forall (fun x => 0 <= x) ww -> 0 <= w01 ww yy h.
Proof.
  unfold w01. generalize (combine yy h) as l. intros l H. revert l.
  induction H as [|x ww Hx H IH]; intros [|t l]; cbn [zipw qsum]; try lra.
  specialize (IH l). destruct (Qeqb (fst t) (snd t)); nra.
Qed.

Lemma single_value_spec l c :
  single_value l = Some c -> In c l /\ Forall (fun y => y == c) l.
Proof.
  destruct l as [|y r]; [discriminate|]. cbn [single_value].
  destruct (forallb (Qeqb y) r) eqn:E; [|discriminate]. intros [= <-].
  split; [left; reflexivity|]. constructor; [reflexivity|].
  rewrite forallb_forall in E. apply Forall_forall. intros z Hz.
  symmetry. apply Qeqb_true. apply E. exact Hz.
Qed.

(* a constant prediction equal to every label has weighted error 0 *)
Lemma w01_const_zero {X} ww yy c (xs : list X) :
  Forall (fun y => y == c) yy -> w01 ww yy (map (fun _ => c) xs) == 0.
Proof.
  unfold w01. intro H. revert ww xs. induction H as [|y yy Hy H IH]; intros [|x ww] [|a xs];
    cbn [map combine zipw qsum]; try reflexivity.
  cbn [fst snd]. assert (E : Qeqb y c = true) by (apply Qeqb_true; exact Hy). rewrite E.
  rewrite IH. ring.
Qed.

Lemma hard_const {X} c (xs : list X) : c == 0 \/ c == 1 -> hard (map (fun _ => c) xs).
Proof. intro H. unfold hard. induction xs; cbn [map]; constructor; assumption. Qed.

Lemma dot_bound_split k r eps rows lam h :
  dot lam (vsub (gamma k r rows h) (bound eps k rows))
  == dot lam (gamma k r rows h) - dot lam (bound eps k rows).
Proof. apply dot_vsub. apply bound_length. Qed.

Section BestResponse.
  Variables X Hyp : Type.
  Variable learn : list (X * Q * Q) -> Hyp.
  Variable predict : Hyp -> list X -> list Q.

  (* an exact cost-sensitive learner over the class H on the feature rows xs: for binary labels and
     non-negative weights it returns a member of H whose weighted 0/1 error is minimal over H *)
  Definition exact_learner (H : Hyp -> Prop) (xs : list X) : Prop :=
    forall yy ww, length yy = length xs -> length ww = length xs ->
      hard yy -> Forall (fun w => 0 <= w) ww ->
      let h := learn (combine (combine xs yy) ww) in
      H h /\ forall h', H h' -> w01 ww yy (predict h xs) <= w01 ww yy (predict h' xs).

  (* the class consists of hard (0/1) predictors returning one prediction per row *)
  Definition hard_class (H : Hyp -> Prop) (xs : list X) : Prop :=
    forall h, H h -> hard (predict h xs) /\ length (predict h xs) = length xs.

  (* the predictor trained for one multiplier vector minimises the relabelled / reweighted problem
     over H (a DummyClassifier is trained only when it has error 0) *)
  Lemma fit_point_cls_min (H : Hyp -> Prop) k r fp fn rows xs lam :
    rows <> [] -> length xs = length rows -> hard_class H xs -> exact_learner H xs ->
    let w := grid_weights k r fp fn rows lam in
    let f := fit_point_cls learn k r fp fn rows xs lam in
    hard (fpredict predict f xs) /\ length (fpredict predict f xs) = length rows /\
    ((exists h, f = Learned h /\ H h) \/ (exists c, f = Dummy c /\ (c == 0 \/ c == 1))) /\
    forall h', H h' ->
      w01 (reweight w) (relabel w) (fpredict predict f xs) <= w01 (reweight w) (relabel w) (predict h' xs).
  Proof.
    intros Hne Lx HC HL w f. unfold f, fit_point_cls. fold w. unfold train.
    assert (Lw : length w = length rows) by apply grid_weights_length.
    destruct (single_value (relabel w)) as [c|] eqn:E.
    - destruct (single_value_spec _ _ E) as [Hin Hall]. cbn [fpredict].
      assert (Hc : c == 0 \/ c == 1).
      { pose proof (relabel_hard w) as Hh. unfold hard in Hh. rewrite Forall_forall in Hh. apply Hh. exact Hin. }
      split; [apply hard_const; exact Hc | split; [rewrite map_length; exact Lx | split]].
      + right. exists c. split; [reflexivity | exact Hc].
      + intros h' _. rewrite (w01_const_zero _ _ _ _ Hall). apply w01_nonneg, reweight_nonneg.
    - cbn [fpredict].
      destruct (HL (relabel w) (reweight w)) as [HH Hmin].
      + rewrite relabel_length. congruence.
      + rewrite reweight_length. congruence.
      + apply relabel_hard.
      + apply reweight_nonneg.
      + destruct (HC _ HH) as [Hh Hl].
        split; [exact Hh | split; [congruence | split]].
        * left. eexists. split; [reflexivity | exact HH].
        * exact Hmin.
  Qed.

  (* MAIN (classification): with an exact cost-sensitive learner over H, every recorded predictor
     is hard, and minimises objective + lambda . gamma -- written with the RECORDED objective /
     gamma on the left -- and the Lagrangian objective + lambda . (gamma - bound) over H *)
  Theorem grid_best_response (H : Hyp -> Prop) k r eps fp fn rows xs grid :
    rows <> [] -> binary_rows rows -> length xs = length rows ->
    hard_class H xs -> exact_learner H xs ->
    forall i lam p,
      nth_error grid i = Some lam ->
      nth_error (fit_cls learn predict k r fp fn rows xs grid) i = Some p ->
      hard (fpredict predict (p_fit p) xs) /\
      ((exists h, p_fit p = Learned h /\ H h) \/ (exists c, p_fit p = Dummy c /\ (c == 0 \/ c == 1))) /\
      forall h', H h' ->
        p_obj p + dot lam (p_gamma p)
          <= er_gamma fp fn rows (predict h' xs) + dot lam (gamma k r rows (predict h' xs)) /\
        lagrangian k r eps fp fn rows lam (fpredict predict (p_fit p) xs)
          <= lagrangian k r eps fp fn rows lam (predict h' xs).
  Proof.
    intros Hne Hb Lx HC HL i lam p Hlam Hp.
    destruct (records_true_cls _ _ learn predict _ _ _ _ _ _ _ _ _ Hp) as (lam' & Hlam' & Hfit & Hobj & Hgam).
    assert (lam' = lam) by congruence. subst lam'.
    destruct (fit_point_cls_min H k r fp fn rows xs lam Hne Lx HC HL) as (Hh & Hl & Hmem & Hmin).
    rewrite <- Hfit in Hh, Hl, Hmem, Hmin.
    split; [exact Hh | split; [exact Hmem|]].
    intros h' Hh'. destruct (HC _ Hh') as [Hh1 Hl1].
    assert (Lag : lagrangian k r eps fp fn rows lam (fpredict predict (p_fit p) xs)
                  <= lagrangian k r eps fp fn rows lam (predict h' xs)).
    { apply (cost_sensitive_equiv k r eps fp fn rows lam _ _ Hne Hb Hh Hh1 Hl ltac:(congruence)).
      apply (w01_order_ext _ _ _ _ (grid_weights_oracle k r fp fn rows lam) Hh Hh1).
      - rewrite grid_weights_length. exact Hl.
      - rewrite grid_weights_length. congruence.
      - apply Hmin. exact Hh'. }
    split; [|exact Lag].
    unfold lagrangian in Lag. rewrite !dot_bound_split in Lag. rewrite Hobj, Hgam. lra.
  Qed.
End BestResponse.

(* ====================================================================== *)
(* 4. best response, loss moments (BoundedGroupLoss)                        *)
(* ====================================================================== *)

Lemma Qleb_comp a a' b b' : a == a' -> b == b' -> Qleb a b = Qleb a' b'.
Proof.
  intros Ea Eb. unfold Qleb. destruct (Qle_bool a b) eqn:E1, (Qle_bool a' b') eqn:E2; try reflexivity.
  - apply Qle_bool_iff in E1. rewrite Ea, Eb in E1. apply Qle_bool_iff in E1. congruence.
  - apply Qle_bool_iff in E2. rewrite <- Ea, <- Eb in E2. apply Qle_bool_iff in E2. congruence.
Qed.

Lemma clip_comp lo hi x y : x == y -> clip lo hi x == clip lo hi y.
Proof.
  intro E. unfold clip, Qminq, Qmaxq.
  rewrite (Qleb_comp x y lo lo E ltac:(reflexivity)).
  destruct (Qleb y lo).
  - reflexivity.
  - rewrite (Qleb_comp x y hi hi E ltac:(reflexivity)). destruct (Qleb y hi); [exact E | reflexivity].
Qed.

Lemma loss_eval_same l y c : y == c -> loss_eval l y c == 0.
Proof.
  intro E. destruct l as [lo hi | lo hi]; cbn [loss_eval]; cbv zeta;
    pose proof (clip_comp lo hi y c E) as C.
  - setoid_replace (clip lo hi y - clip lo hi c) with 0 by lra. ring.
  - destruct (qabs_spec (clip lo hi y - clip lo hi c)) as [P _]. rewrite P by lra. lra.
Qed.

Lemma loss_eval_nonneg l y p : 0 <= loss_eval l y p.
Proof.
  destruct l as [lo hi | lo hi]; cbn [loss_eval]; cbv zeta.
  - generalize (clip lo hi y - clip lo hi p) as d. intro d. nra.
  - apply qabs_nonneg.
Qed.

Lemma losses_zipw l (rows : list lrow) h :
  Moments.losses l rows h = zipw (loss_eval l) (map fst rows) h.
Proof.
  unfold Moments.losses. revert h. induction rows as [|rw rows IH]; intros [|p h]; cbn [map zipw]; try reflexivity.
  rewrite IH. reflexivity.
Qed.

Lemma wloss_nonneg l ww yy h : Forall (fun x => 0 <= x) ww -> 0 <= wloss l ww yy h.
Proof.
  unfold wloss. intro H. revert yy h. induction H as [|x ww Hx H IH]; intros [|y yy] [|p h];
    cbn [zipw dot]; try lra.
  specialize (IH yy h). pose proof (loss_eval_nonneg l y p). nra.
Qed.

Lemma wloss_const_zero {X} l ww yy c (xs : list X) :
  Forall (fun y => y == c) yy -> wloss l ww yy (map (fun _ => c) xs) == 0.
Proof.
  unfold wloss. intro H. revert ww xs. induction H as [|y yy Hy H IH]; intros [|x ww] [|a xs];
    cbn [map zipw dot]; try reflexivity.
  rewrite IH, (loss_eval_same l y c Hy). ring.
Qed.

Lemma zassoc_combine_In {V} g idx (b : list V) a : zassoc g (combine idx b) = Some a -> In a b.
Proof.
  revert b. induction idx as [|i idx IH]; intros [|x b]; cbn [combine zassoc]; try discriminate.
  destruct (g =? i)%Z; [intros [= <-]; left; reflexivity | intro H; right; apply IH; exact H].
Qed.

Lemma inject_nat_nonneg n : 0 <= inject_nat n.
Proof. unfold inject_nat. change 0 with (inject_Z 0). rewrite <- Zle_Qle. lia. Qed.

Lemma Qdiv_nonneg a b : 0 <= a -> 0 <= b -> 0 <= a / b.
Proof.
  intros Ha Hb. unfold Qdiv. apply Qmult_le_0_compat; [exact Ha|].
  destruct (Qeq_dec b 0) as [E|E].
  - rewrite E. cbn. lra.
  - apply Qlt_le_weak, Qinv_lt_0_compat. destruct (Qlt_le_dec 0 b); [assumption|]. exfalso. apply E. lra.
Qed.

Lemma zipw_div_nonneg a b :
  Forall (fun x => 0 <= x) a -> Forall (fun x => 0 <= x) b -> Forall (fun x => 0 <= x) (zipw Qdiv a b).
Proof.
  intro Ha. revert b. induction Ha as [|x a Hx Ha IH]; intros b Hb; destruct Hb as [|y b Hy Hb];
    cbn [zipw]; constructor.
  - apply Qdiv_nonneg; assumption.
  - apply IH. exact Hb.
Qed.

Lemma prob_attr_nonneg rows : Forall (fun x => 0 <= x) (prob_attr rows).
Proof.
  unfold prob_attr. apply Forall_forall. intros x Hx. apply in_map_iff in Hx.
  destruct Hx as (g & <- & _). apply Qdiv_nonneg; apply inject_nat_nonneg.
Qed.

(* non-negative multipliers give non-negative sample weights *)
Lemma bgl_signed_weights_nonneg rows lam :
  Forall (fun x => 0 <= x) lam -> Forall (fun x => 0 <= x) (bgl_signed_weights rows lam).
Proof.
  intro Hl. unfold bgl_signed_weights. apply Forall_forall. intros x Hx. apply in_map_iff in Hx.
  destruct Hx as (rw & <- & _).
  destruct (zassoc (snd rw) _) as [a|] eqn:E; [|lra].
  apply zassoc_combine_In in E.
  pose proof (zipw_div_nonneg lam (prob_attr rows) Hl (prob_attr_nonneg rows)) as F.
  rewrite Forall_forall in F. apply F. exact E.
Qed.

Lemma bgl_signed_weights_length rows lam : length (bgl_signed_weights rows lam) = length rows.
Proof. unfold bgl_signed_weights. apply map_length. Qed.

Section BestResponseLoss.
  Variables X Hyp : Type.
  Variable learn : list (X * Q * Q) -> Hyp.
  Variable predict : Hyp -> list X -> list Q.

  (* an exact weighted-loss regressor over H for the moment's loss *)
  Definition exact_regressor (l : loss) (H : Hyp -> Prop) (xs : list X) : Prop :=
    forall yy ww, length yy = length xs -> length ww = length xs ->
      Forall (fun w => 0 <= w) ww ->
      let h := learn (combine (combine xs yy) ww) in
      H h /\ forall h', H h' -> wloss l ww yy (predict h xs) <= wloss l ww yy (predict h' xs).

  Definition sized_class (H : Hyp -> Prop) (xs : list X) : Prop :=
    forall h, H h -> length (predict h xs) = length xs.

  (* MAIN (loss moments): the objective is in the span, so the best response minimises lambda . gamma;
     written with the RECORDED gamma on the left *)
  Theorem grid_best_response_loss (H : Hyp -> Prop) l rows xs grid :
    length xs = length rows -> sized_class H xs -> exact_regressor l H xs ->
    forall i lam p,
      Forall (fun x => 0 <= x) lam ->
      nth_error grid i = Some lam ->
      nth_error (fit_loss learn predict l rows xs grid) i = Some p ->
      length (fpredict predict (p_fit p) xs) = length rows /\
      ((exists h, p_fit p = Learned h /\ H h) \/ (exists c, p_fit p = Dummy c)) /\
      forall h', H h' -> dot lam (p_gamma p) <= dot lam (bgl_gamma l rows (predict h' xs)).
  Proof.
    intros Lx HC HL i lam p Hpos Hlam Hp.
    destruct (records_true_loss _ _ learn predict _ _ _ _ _ _ Hp) as (lam' & Hlam' & Hfit & _ & Hgam).
    assert (lam' = lam) by congruence. subst lam'.
    set (w := bgl_signed_weights rows lam) in *.
    assert (Hw : Forall (fun x => 0 <= x) w) by (apply bgl_signed_weights_nonneg; exact Hpos).
    assert (Lw : length w = length rows) by apply bgl_signed_weights_length.
    assert (Key : length (fpredict predict (p_fit p) xs) = length rows /\
                  ((exists h, p_fit p = Learned h /\ H h) \/ (exists c, p_fit p = Dummy c)) /\
                  forall h', H h' -> wloss l w (map fst rows) (fpredict predict (p_fit p) xs)
                                     <= wloss l w (map fst rows) (predict h' xs)).
    { rewrite Hfit. unfold fit_point_loss, train. fold w.
      destruct (single_value (map fst rows)) as [c|] eqn:E.
      - destruct (single_value_spec _ _ E) as [_ Hall]. cbn [fpredict].
        split; [rewrite map_length; exact Lx | split; [right; eexists; reflexivity|]].
        intros h' _. rewrite (wloss_const_zero l w _ c xs Hall). apply wloss_nonneg. exact Hw.
      - cbn [fpredict].
        destruct (HL (map fst rows) w) as [HH Hmin]; [rewrite map_length; symmetry; exact Lx | rewrite Lw; symmetry; exact Lx | exact Hw|].
        split; [rewrite (HC _ HH); exact Lx | split; [left; eexists; split; [reflexivity | exact HH] | exact Hmin]]. }
    destruct Key as (Hl & Hmem & Hmin). split; [exact Hl | split; [exact Hmem|]].
    intros h' Hh'. specialize (Hmin h' Hh'). unfold wloss in Hmin. rewrite <- !losses_zipw in Hmin.
    rewrite Hgam.
    rewrite (loss_identity l rows lam _ Hl), (loss_identity l rows lam _ ltac:(rewrite (HC _ Hh'); exact Lx)).
    fold w.
    assert (Hc : 0 <= 1 / inject_nat (length rows)) by (apply Qdiv_nonneg; [lra | apply inject_nat_nonneg]).
    nra.
  Qed.
End BestResponseLoss.

(* ====================================================================== *)
(* 5. the premise is satisfiable: enumeration is an exact learner            *)
(* ====================================================================== *)

Lemma combine_fst_fst {X} (xs : list X) (yy ww : list Q) :
  length yy = length xs -> length ww = length xs ->
  data_x X (combine (combine xs yy) ww) = xs /\
  data_y X (combine (combine xs yy) ww) = yy /\
  data_w X (combine (combine xs yy) ww) = ww.
Proof.
  unfold data_x, data_y, data_w. revert yy ww.
  induction xs as [|x xs IH]; intros [|y yy] [|w ww] L1 L2; try discriminate; cbn [combine map fst snd].
  - repeat split; reflexivity.
  - destruct (IH yy ww ltac:(cbn in L1; lia) ltac:(cbn in L2; lia)) as (A & B & C).
    rewrite A, B, C. repeat split; reflexivity.
Qed.

Section EnumSound.
  Variables X Hyp : Type.
  Variable predict : Hyp -> list X -> list Q.
  Variable cost : list Q -> list Q -> list Q -> Q.
  Variable h0 : Hyp.
  Variable class : list Hyp.

  (* enum_learn returns a member of the (non-empty) class with minimal cost on the data it is given *)
  Theorem enum_learn_min xs yy ww :
    class <> [] -> length yy = length xs -> length ww = length xs ->
    let h := enum_learn predict cost h0 class (combine (combine xs yy) ww) in
    In h class /\ forall h', In h' class -> cost ww yy (predict h xs) <= cost ww yy (predict h' xs).
  Proof.
    intros Hne L1 L2. cbv zeta. unfold enum_learn.
    destruct (combine_fst_fst xs yy ww L1 L2) as (A & B & C). rewrite A, B, C.
    set (F := fun h => cost ww yy (predict h xs)).
    assert (Hl : map F class <> []) by (destruct class; [congruence | discriminate]).
    destruct (argmin_first_exists _ Hl) as [i [v Hsel]]. rewrite Hsel.
    destruct (argmin_first_spec _ _ _ Hsel) as [Hi [Hmin _]].
    rewrite nth_error_map' in Hi. destruct (nth_error class i) as [h|] eqn:Eh; [|discriminate].
    cbn [option_map] in Hi. injection Hi as Hv.
    rewrite (nth_error_nth _ _ h0 Eh). split; [eapply nth_error_In; exact Eh|].
    intros h' Hh'. fold (F h) (F h'). rewrite Hv. apply Hmin. apply in_map. exact Hh'.
  Qed.
End EnumSound.

Theorem enum_exact_learner {X Hyp} (predict : Hyp -> list X -> list Q) h0 class xs :
  class <> [] -> exact_learner X Hyp (enum_learn predict w01 h0 class) predict (fun h => In h class) xs.
Proof.
  intros Hne yy ww L1 L2 _ _. apply (enum_learn_min X Hyp predict w01 h0 class xs yy ww Hne L1 L2).
Qed.

Theorem enum_exact_regressor {X Hyp} (predict : Hyp -> list X -> list Q) l h0 class xs :
  class <> [] -> exact_regressor X Hyp (enum_learn predict (wloss l) h0 class) predict l (fun h => In h class) xs.
Proof.
  intros Hne yy ww L1 L2 _. apply (enum_learn_min X Hyp predict (wloss l) h0 class xs yy ww Hne L1 L2).
Qed.
