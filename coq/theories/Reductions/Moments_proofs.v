(* Lemmas and theorems about Moments.v (C06). *)
From Coq Require Import QArith ZArith List Bool Lia Lqa Setoid.
From FL Require Import Num ListX Moments.
Import ListNotations.
Open Scope Q_scope.

(* ---------- boolean equalities ---------- *)

Lemma oz_eqb_eq a b : oz_eqb a b = true <-> a = b.
Proof.
  destruct a as [x|], b as [y|]; cbn; try (split; congruence).
  rewrite Z.eqb_eq. split; [intros ->; reflexivity | intros [= ->]; reflexivity].
Qed.

Lemma ev_eqb_eq (a b : event) : ev_eqb a b = true <-> a = b.
Proof.
  destruct a as [a1 a2], b as [b1 b2]. unfold ev_eqb. cbn [fst snd].
  rewrite andb_true_iff, oz_eqb_eq, Z.eqb_eq.
  split; [intros [-> ->]; reflexivity | intros [= -> ->]; auto].
Qed.

Lemma pair_eqb_eq (a b : event * Z) : pair_eqb a b = true <-> a = b.
Proof.
  destruct a as [a1 a2], b as [b1 b2]. unfold pair_eqb. cbn [fst snd].
  rewrite andb_true_iff, ev_eqb_eq, Z.eqb_eq.
  split; [intros [-> ->]; reflexivity | intros [= -> ->]; auto].
Qed.

Lemma pmem_In p l : pmem p l = true <-> In p l.
Proof.
  induction l as [|q l IH]; cbn; [split; [discriminate | tauto]|].
  rewrite orb_true_iff, pair_eqb_eq, IH. split; intros [H|H]; auto.
Qed.

Lemma in_event_iff k e rw : in_event k e rw = true <-> event_of k rw = Some e.
Proof.
  unfold in_event. destruct (event_of k rw) as [e'|].
  - rewrite ev_eqb_eq. split; [intros ->; reflexivity | intros [= ->]; reflexivity].
  - split; discriminate.
Qed.

Lemma in_eg_iff k e g rw : in_eg k e g rw = true <-> event_of k rw = Some e /\ rg rw = g.
Proof.
  unfold in_eg, in_group. rewrite andb_true_iff, in_event_iff, Z.eqb_eq. tauto.
Qed.

(* ---------- the index ---------- *)

Lemma pairs_of_In k rows e g :
  In (e, g) (pairs_of k rows) <-> exists rw, In rw rows /\ event_of k rw = Some e /\ rg rw = g.
Proof.
  induction rows as [|r rs IH]; cbn [pairs_of].
  - split; [intros [] | intros (rw & [] & _)].
  - destruct (event_of k r) as [e'|] eqn:E.
    + destruct (pmem (e', rg r) (pairs_of k rs)) eqn:M.
      * rewrite IH. split.
        -- intros (rw & H1 & H2). exists rw. split; [right; exact H1 | exact H2].
        -- intros (rw & [<-|H1] & H2 & H3).
           ++ apply pmem_In in M. rewrite E in H2. injection H2 as ->. subst g. apply IH. exact M.
           ++ exists rw. auto.
      * cbn [In]. rewrite IH. split.
        -- intros [[= <- <-]|(rw & H1 & H2)].
           ++ exists r. split; [left; reflexivity | split; [exact E | reflexivity]].
           ++ exists rw. split; [right; exact H1 | exact H2].
        -- intros (rw & [<-|H1] & H2 & H3).
           ++ left. rewrite E in H2. injection H2 as ->. subst g. reflexivity.
           ++ right. exists rw. auto.
    + rewrite IH. split.
      * intros (rw & H1 & H2). exists rw. split; [right; exact H1 | exact H2].
      * intros (rw & [<-|H1] & H2 & H3); [rewrite E in H2; discriminate | exists rw; auto].
Qed.

Lemma pairs_of_NoDup k rows : NoDup (pairs_of k rows).
Proof.
  induction rows as [|r rs IH]; cbn [pairs_of]; [constructor|].
  destruct (event_of k r) as [e'|]; [|exact IH].
  destruct (pmem (e', rg r) (pairs_of k rs)) eqn:M; [exact IH|].
  constructor; [|exact IH]. intro H. apply pmem_In in H. congruence.
Qed.

Lemma index_In k rows s p : In (s, p) (index k rows) <-> In p (pairs_of k rows).
Proof.
  unfold index. rewrite in_app_iff, !in_map_iff. split.
  - intros [(q & [= _ ->] & H)|(q & [= _ ->] & H)]; exact H.
  - intro H. destruct s; [left | right]; exists p; auto.
Qed.

Lemma index_NoDup k rows : NoDup (index k rows).
Proof.
  unfold index. pose proof (pairs_of_NoDup k rows) as ND.
  induction (pairs_of k rows) as [|p l IH].
  - constructor.
  - inversion ND as [|? ? Hn ND']; subst. specialize (IH ND').
    cbn [map app]. constructor.
    + rewrite in_app_iff. intros [H|H].
      * apply in_map_iff in H. destruct H as (q & [= ->] & H). contradiction.
      * cbn [In] in H. destruct H as [H|H]; [discriminate|].
        apply in_map_iff in H. destruct H as (q & [= ] & _).
    + assert (G : NoDup (map (pair Plus) l ++ (Minus, p) :: map (pair Minus) l)).
      { apply NoDup_Add with (a := (Minus, p)) (l := map (pair Plus) l ++ map (pair Minus) l).
        - apply Add_app.
        - split; [exact IH|]. rewrite in_app_iff. intros [H|H].
          + apply in_map_iff in H. destruct H as (q & [= ] & _).
          + apply in_map_iff in H. destruct H as (q & [= ->] & H). contradiction. }
      exact G.
Qed.

(* index_exact: exactly one '+' and one '-' entry for every (event, group) pair that occurs *)
Theorem index_exact (k : kind) (rows : list row) :
  NoDup (index k rows) /\
  forall s e g, In (s, (e, g)) (index k rows) <->
                exists rw, In rw rows /\ event_of k rw = Some e /\ rg rw = g.
Proof.
  split; [apply index_NoDup|]. intros s e g. rewrite index_In. apply pairs_of_In.
Qed.

(* rows outside the conditioned label class have no event, whatever the control value *)
Lemma event_none_iff k rw :
  event_of k rw = None <->
  match k with TPR => ry rw <> 1%Z | FPR => ry rw <> 0%Z | _ => False end.
Proof.
  unfold event_of, base_event. destruct k; try (split; [discriminate | tauto]).
  - destruct (ry rw =? 1)%Z eqn:E; [apply Z.eqb_eq in E | apply Z.eqb_neq in E];
      split; try discriminate; try tauto.
  - destruct (ry rw =? 0)%Z eqn:E; [apply Z.eqb_eq in E | apply Z.eqb_neq in E];
      split; try discriminate; try tauto.
Qed.

Lemma event_some k rw e :
  event_of k rw = Some e -> fst e = rc rw /\
  match k with DP | ERP => snd e = all_code | _ => snd e = ry rw end.
Proof.
  unfold event_of, base_event. destruct k.
  - intros [= <-]. auto.
  - destruct (ry rw =? 1)%Z; [intros [= <-]; auto | discriminate].
  - destruct (ry rw =? 0)%Z; [intros [= <-]; auto | discriminate].
  - intros [= <-]. auto.
  - intros [= <-]. auto.
Qed.

(* ---------- sums ---------- *)

Definition sum_on (p : row -> bool) (rows : list row) (u : list Q) : Q :=
  qsum (map snd (filter (fun t => p (fst t)) (combine rows u))).
Definition cnt (p : row -> bool) (rows : list row) : Q := inject_nat (count_if p rows).
(* mean of u over the rows satisfying p *)
Definition mean_on (p : row -> bool) (rows : list row) (u : list Q) : Q := sum_on p rows u / cnt p rows.

Lemma sum_on_cons p x rows y u :
  sum_on p (x :: rows) (y :: u) = if p x then y + sum_on p rows u else sum_on p rows u.
Proof. unfold sum_on. cbn. destruct (p x); reflexivity. Qed.

Lemma sum_on_nil_r p rows : sum_on p rows [] = 0.
Proof. unfold sum_on. destruct rows; reflexivity. Qed.

Lemma dot_nil_r a : dot a [] = 0.
Proof. destruct a; reflexivity. Qed.

Lemma dot_ind_combo (f : row -> Q) p1 p2 A B rows u :
  (forall rw, f rw == A * ind (p1 rw) + B * ind (p2 rw)) ->
  dot (map f rows) u == A * sum_on p1 rows u + B * sum_on p2 rows u.
Proof.
  intro H. revert u. induction rows as [|x rows IH]; intro u.
  - cbn. unfold sum_on. cbn. ring.
  - destruct u as [|y u].
    + cbn [map]. rewrite dot_nil_r, !sum_on_nil_r. ring.
    + cbn [map dot]. rewrite !sum_on_cons, IH, H. unfold ind.
      destruct (p1 x), (p2 x); ring.
Qed.

Lemma inject_nat_pos n : (0 < n)%nat -> 0 < inject_nat n.
Proof.
  intro H. unfold inject_nat, inject_Z, Qlt. cbn. lia.
Qed.

Lemma count_if_pos {A} (p : A -> bool) l x : In x l -> p x = true -> (0 < count_if p l)%nat.
Proof.
  unfold count_if. induction l as [|y l IH]; [intros []|].
  intros [->|H] Hp; cbn.
  - rewrite Hp. cbn. lia.
  - destruct (p y); cbn; [lia | auto].
Qed.

Lemma uentry_combo k r s e g pe peg rw :
  uentry k r s e g pe peg rw ==
  match s with
  | Plus => (/ pe) * ind (in_event k e rw) + (- r * / peg) * ind (in_eg k e g rw)
  | Minus => (- r * / pe) * ind (in_event k e rw) + (/ peg) * ind (in_eg k e g rw)
  end.
Proof.
  unfold uentry, in_eg, ind, Qdiv.
  destruct s, (in_event k e rw), (in_group g rw); cbn [andb]; ring.
Qed.

Lemma gamma_is_map k r rows h : gamma k r rows h = map (gamma_at k r rows h) (index k rows).
Proof. unfold gamma, Umat, gamma_at. rewrite map_map. reflexivity. Qed.

Lemma gamma_length k r rows h : length (gamma k r rows h) = length (index k rows).
Proof. rewrite gamma_is_map. apply map_length. Qed.

(* gamma_spec: the '+' entry is r * mean_{e,g}(u) - mean_e(u), the '-' entry r * mean_e(u) - mean_{e,g}(u),
   u = utility of the (soft) prediction; for every ratio r and every prediction vector *)
Theorem gamma_spec (k : kind) (r : Q) (rows : list row) (h : list Q) (e : event) (g : Z) :
  In (e, g) (pairs_of k rows) ->
  let u := pred k rows h in
  gamma_at k r rows h (Plus, (e, g))
    == r * mean_on (in_eg k e g) rows u - mean_on (in_event k e) rows u /\
  gamma_at k r rows h (Minus, (e, g))
    == r * mean_on (in_event k e) rows u - mean_on (in_eg k e g) rows u.
Proof.
  intros Hin u.
  apply pairs_of_In in Hin. destruct Hin as (rw & Hrw & He & Hg).
  assert (Hce : 0 < cnt (in_event k e) rows).
  { apply inject_nat_pos, (count_if_pos _ _ rw Hrw). apply in_event_iff. exact He. }
  assert (Hceg : 0 < cnt (in_eg k e g) rows).
  { apply inject_nat_pos, (count_if_pos _ _ rw Hrw). apply in_eg_iff. auto. }
  assert (Hn : 0 < nrows rows).
  { apply inject_nat_pos. destruct rows; [destruct Hrw | cbn; lia]. }
  unfold gamma_at, ucol, mean_on, prob_event, prob_group_event. fold u.
  fold (cnt (in_event k e) rows) (cnt (in_eg k e g) rows).
  split.
  - rewrite (dot_ind_combo _ (in_event k e) (in_eg k e g) _ _ rows u
               (fun rw0 => uentry_combo k r Plus e g _ _ rw0)).
    field. repeat split; apply Qnot_eq_sym, Qlt_not_eq; assumption.
  - rewrite (dot_ind_combo _ (in_event k e) (in_eg k e g) _ _ rows u
               (fun rw0 => uentry_combo k r Minus e g _ _ rw0)).
    field. repeat split; apply Qnot_eq_sym, Qlt_not_eq; assumption.
Qed.

(* the utility of the prediction: the prediction itself, or |h - y| for error-rate parity *)
Lemma pred_default k rows h :
  k <> ERP -> length h = length rows -> Forall2 Qeq (pred k rows h) h.
Proof.
  intros Hk. revert h. induction rows as [|x rows IH]; intros [|y h] Hl; try discriminate; cbn.
  - constructor.
  - constructor; [|apply IH; cbn in Hl; lia].
    unfold udiff, u1, u0. destruct k; try contradiction; ring.
Qed.

Lemma qabs_spec x : (0 <= x -> qabs x == x) /\ (x <= 0 -> qabs x == - x).
Proof.
  unfold qabs, Qleb. destruct (Qle_bool 0 x) eqn:B.
  - apply Qle_bool_iff in B. split; intro; lra.
  - assert (~ 0 <= x) by (rewrite <- Qle_bool_iff; congruence). split; intro; lra.
Qed.

Lemma pred_erp_hard rows h :
  length h = length rows ->
  Forall (fun rw => ry rw = 0%Z \/ ry rw = 1%Z) rows ->
  Forall (fun x => x == 0 \/ x == 1) h ->
  Forall2 (fun p t => p == qabs (snd t - inject_Z (ry (fst t)))) (pred ERP rows h) (combine rows h).
Proof.
  revert h. induction rows as [|x rows IH]; intros [|y h] Hl Hy Hh; try discriminate; cbn.
  - constructor.
  - inversion Hy as [|? ? Hy1 Hy2]; inversion Hh as [|? ? Hh1 Hh2]; subst.
    constructor; [|apply IH; auto].
    cbn [fst snd]. unfold udiff, u1, u0.
    destruct (qabs_spec (y - 0)) as [P0 N0]; destruct (qabs_spec (y - 1)) as [P1 N1].
    destruct Hy1 as [-> | ->], Hh1 as [E | E];
      change (inject_Z 0) with 0; change (inject_Z 1) with 1;
      try (rewrite P0 by lra; lra); try (rewrite N0 by lra; lra);
      try (rewrite P1 by lra; lra); try (rewrite N1 by lra; lra).
Qed.

(* no_event_rows_inert: predictions on rows without an event change no entry of gamma *)
Definition agree_on_events (k : kind) (rows : list row) (h h' : list Q) : Prop :=
  Forall (fun t => event_of k (fst t) <> None -> fst (snd t) == snd (snd t))
         (combine rows (combine h h')).

Lemma uentry_no_event k r s e g pe peg rw :
  event_of k rw = None -> uentry k r s e g pe peg rw == 0.
Proof.
  intro H. unfold uentry, in_event. rewrite H. unfold ind, Qdiv. destruct s; ring.
Qed.

Theorem no_event_rows_inert (k : kind) (r : Q) (rows : list row) (h h' : list Q) (j : idx) :
  length h = length rows -> length h' = length rows ->
  agree_on_events k rows h h' ->
  gamma_at k r rows h j == gamma_at k r rows h' j.
Proof.
  intros L1 L2 HA. unfold gamma_at, ucol. destruct j as [s [e g]].
  set (pe := prob_event k rows e). set (peg := prob_group_event k rows e g).
  clearbody pe peg.
  assert (D : dot (map (uentry k r s e g pe peg) rows) (pred k rows h)
              == dot (map (uentry k r s e g pe peg) rows) (pred k rows h')).
  { clear - L1 L2 HA. unfold agree_on_events in HA. revert h h' L1 L2 HA.
    induction rows as [|x rows IH]; intros [|y h] [|y' h'] L1 L2 HA; try discriminate;
      unfold pred; cbn [map dot zipw].
    - reflexivity.
    - fold (pred k rows h) (pred k rows h').
      inversion HA as [|? ? H1 H2]; subst. cbn [fst snd] in H1.
      rewrite (IH h h') by (cbn in *; auto; lia).
      destruct (event_of k x) eqn:E.
      + rewrite H1 by discriminate. reflexivity.
      + rewrite (uentry_no_event _ _ _ _ _ _ _ _ E). ring. }
  rewrite D. reflexivity.
Qed.

(* bound_const *)
Theorem bound_const (eps : Q) (k : kind) (rows : list row) :
  length (bound eps k rows) = length (index k rows) /\ Forall (fun b => b = eps) (bound eps k rows).
Proof.
  unfold bound. split; [apply map_length|].
  induction (index k rows); cbn; constructor; auto.
Qed.


(* ---------- strata ---------- *)

Definition in_stratum (c : option Z) (rw : row) : bool := oz_eqb (rc rw) c.
Definition restrict_rows (c : option Z) (rows : list row) : list row := filter (in_stratum c) rows.
Definition restrict_vec (c : option Z) (rows : list row) (h : list Q) : list Q :=
  map snd (filter (fun t => in_stratum c (fst t)) (combine rows h)).

Lemma sum_on_restrict k c p rows h :
  (forall rw, p rw = true -> in_stratum c rw = true) ->
  sum_on p rows (pred k rows h)
  = sum_on p (restrict_rows c rows) (pred k (restrict_rows c rows) (restrict_vec c rows h)).
Proof.
  intro Hp. revert h. induction rows as [|x rows IH]; intro h.
  - reflexivity.
  - destruct h as [|y h].
    + unfold restrict_vec. cbn [combine filter map]. unfold pred. cbn [zipw].
      rewrite sum_on_nil_r. destruct (restrict_rows c (x :: rows)); [reflexivity|].
      cbn [zipw]. rewrite sum_on_nil_r. reflexivity.
    + unfold restrict_rows, restrict_vec, pred. cbn [combine filter zipw fst].
      fold (pred k rows h). rewrite sum_on_cons.
      destruct (in_stratum c x) eqn:K.
      * cbn [map snd zipw]. fold (restrict_rows c rows) (restrict_vec c rows h).
        fold (pred k (restrict_rows c rows) (restrict_vec c rows h)).
        rewrite sum_on_cons, IH. reflexivity.
      * fold (restrict_rows c rows) (restrict_vec c rows h).
        fold (pred k (restrict_rows c rows) (restrict_vec c rows h)).
        destruct (p x) eqn:P; [apply Hp in P; congruence|]. apply IH.
Qed.

Lemma cnt_restrict c p rows :
  (forall rw, p rw = true -> in_stratum c rw = true) ->
  cnt p rows = cnt p (restrict_rows c rows).
Proof.
  intro Hp. unfold cnt, count_if, restrict_rows. f_equal.
  induction rows as [|x rows IH]; [reflexivity|]. cbn [filter].
  destruct (in_stratum c x) eqn:K; cbn [filter].
  - destruct (p x); cbn [length]; rewrite IH; reflexivity.
  - destruct (p x) eqn:P; [apply Hp in P; congruence | exact IH].
Qed.

(* strata_independent: the entries of a control stratum are those of the moment loaded on that stratum alone *)
Theorem strata_independent (k : kind) (r : Q) (rows : list row) (h : list Q) (s : sign) (e : event) (g : Z) :
  In (e, g) (pairs_of k rows) ->
  let c := fst e in
  gamma_at k r rows h (s, (e, g))
  == gamma_at k r (restrict_rows c rows) (restrict_vec c rows h) (s, (e, g)).
Proof.
  intros Hin c.
  assert (He : forall rw, in_event k e rw = true -> in_stratum c rw = true).
  { intros rw H. apply in_event_iff in H. apply event_some in H. destruct H as [H _].
    unfold in_stratum, c. apply oz_eqb_eq. auto. }
  assert (Heg : forall rw, in_eg k e g rw = true -> in_stratum c rw = true).
  { intros rw H. apply He. unfold in_eg in H. apply andb_true_iff in H. tauto. }
  assert (Hin' : In (e, g) (pairs_of k (restrict_rows c rows))).
  { apply pairs_of_In in Hin. destruct Hin as (rw & A & B & C). apply pairs_of_In.
    exists rw. split; [|auto]. apply filter_In. split; [exact A|].
    apply He. apply in_event_iff. exact B. }
  destruct (gamma_spec k r rows h e g Hin) as [P M].
  destruct (gamma_spec k r _ (restrict_vec c rows h) e g Hin') as [P' M'].
  cbv zeta in P, M, P', M'. unfold mean_on in *.
  rewrite <- (sum_on_restrict k c _ rows h He), <- (sum_on_restrict k c _ rows h Heg),
    <- (cnt_restrict c _ rows He), <- (cnt_restrict c _ rows Heg) in P', M'.
  destruct s; [rewrite P, P' | rewrite M, M']; reflexivity.
Qed.


(* ---------- BoundedGroupLoss ---------- *)

Lemma Qleb_le a b : Qleb a b = true <-> a <= b.
Proof. unfold Qleb. apply Qle_bool_iff. Qed.

Lemma clip_range lo hi x : lo <= hi -> lo <= clip lo hi x /\ clip lo hi x <= hi.
Proof.
  intro H. unfold clip, Qminq, Qmaxq.
  destruct (Qleb x lo) eqn:A.
  - apply Qleb_le in A. destruct (Qleb lo hi) eqn:B; [split; lra|].
    assert (~ lo <= hi) by (rewrite <- Qleb_le; congruence). contradiction.
  - assert (A' : ~ x <= lo) by (rewrite <- Qleb_le; congruence).
    destruct (Qleb x hi) eqn:B.
    + apply Qleb_le in B. split; lra.
    + split; lra.
Qed.

(* the clipped loss lies in [0, loss.max] *)
Lemma loss_range (l : loss) (y p : Q) :
  (match l with Square lo hi | Absolute lo hi => lo <= hi end) ->
  0 <= loss_eval l y p /\ loss_eval l y p <= loss_max l.
Proof.
  destruct l as [lo hi|lo hi]; intro H; cbn [loss_eval loss_max];
    destruct (clip_range lo hi y H) as [Y1 Y2]; destruct (clip_range lo hi p H) as [P1 P2].
  - cbv zeta. set (d := clip lo hi y - clip lo hi p).
    assert (D1 : - (hi - lo) <= d) by (unfold d; lra).
    assert (D2 : d <= hi - lo) by (unfold d; lra).
    split; nra.
  - destruct (qabs_spec (clip lo hi y - clip lo hi p)) as [A1 A2].
    destruct (qabs_spec (hi - lo)) as [B1 _]. rewrite B1 by lra.
    destruct (Qlt_le_dec (clip lo hi y - clip lo hi p) 0) as [C|C].
    + rewrite A2 by lra. split; lra.
    + rewrite A1 by lra. split; lra.
Qed.

(* bgl_gamma_spec: one entry per group that occurs (in sorted order); the entry of group g is the mean of the
   clipped loss over the rows of g *)
Theorem bgl_gamma_spec (l : loss) (rows : list lrow) (h : list Q) :
  bgl_gamma l rows h
  = map (fun g => let sel := filter (fun t => (fst t =? g)%Z) (combine (map snd rows) (losses l rows h)) in
                  qsum (map snd sel) / inject_nat (length sel)) (bgl_index rows)
  /\ losses l rows h = zipw (fun rw p => loss_eval l (fst rw) p) rows h.
Proof. split; reflexivity. Qed.

Lemma zinsert_In x y l : In y (zinsert x l) <-> y = x \/ In y l.
Proof.
  induction l as [|z l IH]; cbn [zinsert].
  - cbn. intuition.
  - destruct (x <? z)%Z; [cbn; intuition|].
    destruct (x =? z)%Z eqn:E.
    + apply Z.eqb_eq in E. subst z. cbn. intuition.
    + cbn [In]. rewrite IH. intuition.
Qed.

Lemma zuniq_In y l : In y (zuniq l) <-> In y l.
Proof.
  unfold zuniq. induction l as [|x l IH]; cbn [fold_right]; [tauto|].
  rewrite zinsert_In, IH. cbn. intuition.
Qed.

(* the index of BoundedGroupLoss is exactly the set of groups that occur *)
Theorem bgl_index_exact (rows : list lrow) (g : Z) :
  In g (bgl_index rows) <-> exists rw, In rw rows /\ snd rw = g.
Proof.
  unfold bgl_index. rewrite zuniq_In, in_map_iff. split; intros (rw & A & B); exists rw; auto.
Qed.

(* ---------- the shapes the source translator (t_moments) must regenerate: props/C06.v restates these with the
   generated definitions in place of the inlined expressions; `exact` then checks convertibility ---------- *)

Lemma src_uentry k r s e g pe peg rw :
  uentry k r s e g pe peg rw =
  let es := ind (in_event k e rw) in
  let ges := es * ind (in_group g rw) in
  match s with
  | Plus => es / pe + (- r) * ges / peg
  | Minus => (- r) * es / pe + ges / peg
  end.
Proof. reflexivity. Qed.

Lemma src_event_of k rw :
  event_of k rw = match base_event k (ry rw) with Some b => Some (rc rw, b) | None => None end.
Proof. reflexivity. Qed.

Lemma src_base_event y :
  base_event DP y = Some 2%Z /\
  base_event TPR y = (if (y =? 1)%Z then Some y else None) /\
  base_event FPR y = (if (y =? 0)%Z then Some y else None) /\
  base_event EO y = Some y /\
  base_event ERP y = Some 2%Z.
Proof. repeat split. Qed.

Lemma src_utilities rw :
  (u0 DP rw = 0 /\ u1 DP rw = 1) /\ (u0 TPR rw = 0 /\ u1 TPR rw = 1) /\ (u0 FPR rw = 0 /\ u1 FPR rw = 1) /\
  (u0 EO rw = 0 /\ u1 EO rw = 1) /\ (u0 ERP rw = inject_Z (ry rw) /\ u1 ERP rw = 1 - inject_Z (ry rw)).
Proof. repeat split. Qed.

Lemma src_pred k rows h :
  pred k rows h = zipw (fun rw hi => udiff k rw * hi + u0 k rw) rows h.
Proof. reflexivity. Qed.

Lemma src_gamma_at k r rows h j :
  gamma_at k r rows h j = - dot (ucol k r rows j) (pred k rows h) / nrows rows.
Proof. reflexivity. Qed.

Lemma src_prob k rows e g :
  prob_event k rows e = inject_nat (count_if (in_event k e) rows) / nrows rows /\
  prob_group_event k rows e g = inject_nat (count_if (in_eg k e g) rows) / nrows rows.
Proof. split; reflexivity. Qed.
