(* Extension of the C07 model (Reduction.v is left untouched: GridSearch.v / C09 build on it):
   the optional argument of ConditionalLossMoment.signed_weights, ErrorRate's one-entry index and the
   single-label (DummyClassifier) branch of _Lagrangian._call_oracle.  Proof-free; theorems are in
   ReductionExt_proofs.v. *)
From Coq Require Import QArith ZArith List Bool.
From FL Require Import Num ListX Moments Reduction.
Import ListNotations.
Open Scope Q_scope.

(* ErrorRate.load_data: self._index = [_ALL]  (code 2 = "all", as for the base events) *)
Definition er_index : list Z := [all_code].

(* ErrorRate.__init__ with costs=None *)
Definition er_default_costs : Q * Q := (1, 1).

(* ConditionalLossMoment.signed_weights(lambda_vec=None):
     adjust = pd.Series(1.0, index=self.index)   if lambda_vec is None
            = lambda_vec / self.prob_attr        otherwise
     return self.tags.apply(lambda row: adjust[row[group_id]], axis=1) *)
Definition bgl_signed_weights_opt (rows : list lrow) (lam : option (list Q)) : list Q :=
  let adjust := match lam with
                | None => map (fun _ => 1) (bgl_index rows)
                | Some lambda_vec => zipw Qdiv lambda_vec (prob_attr rows)
                end in
  map (fun rw => match zassoc (snd rw) (combine (bgl_index rows) adjust) with Some a => a | None => 0 end) rows.

(* np.unique on numbers: sorted, duplicates (Qeq) removed *)
Fixpoint qinsert (x : Q) (l : list Q) : list Q :=
  match l with
  | [] => [x]
  | y :: r => if Qltb x y then x :: l else if Qeqb x y then l else y :: qinsert x r
  end.
Definition quniq (l : list Q) : list Q := fold_right qinsert [] l.

(* _call_oracle: redY_unique = np.unique(redY); if len(redY_unique) == 1 the estimator is
   DummyClassifier(strategy="constant", constant=redY_unique[0]) and the user's estimator is not trained.
   Some c = that constant; None = the estimator is cloned and fitted *)
Definition dummy_constant (redY : list Q) : option Q :=
  let redY_unique := quniq redY in
  if Nat.eqb (length redY_unique) 1 then nth_error redY_unique 0 else None.

(* the constant hypothesis *)
Definition const_h (c : Q) (n : nat) : list Q := repeat c n.
