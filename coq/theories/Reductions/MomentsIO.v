(* Wire glue of the C06 / C07 correspondence runs: evaluates the models of Moments.v and
   Reduction.v on literal inputs and flattens the results (Flat.v).  Nothing here is part of a
   theorem statement; index entries are emitted in canonical form
   (sign, row ids in the event, row ids in the event and the group). *)
From Coq Require Import QArith ZArith List Bool.
From FL Require Import Num ListX Flat Moments Reduction.
Import ListNotations.
Open Scope Z_scope.

Fixpoint ids_from {A} (p : A -> bool) (l : list A) (i : nat) : list nat :=
  match l with
  | [] => []
  | x :: r => if p x then i :: ids_from p r (S i) else ids_from p r (S i)
  end.

Definition enc_sign (s : sign) : list Z := match s with Plus => [1] | Minus => [0] end.

Definition enc_idx (k : kind) (rows : list row) (j : idx) : list Z :=
  let '(s, (e, g)) := j in
  enc_sign s ++ enc_list enc_nat (ids_from (in_event k e) rows 0)
             ++ enc_list enc_nat (ids_from (in_eg k e g) rows 0).

Definition enc_qs (l : list Q) : list Z := enc_list enc_q l.

(* multipliers are given as (sign code, id of a row in the (event, group) cell, value); the model
   vector is aligned with the model's own index; cells not mentioned get 0 *)
Definition lamspec := (Z * nat * Q)%type.

Definition sign_code (s : sign) : Z := match s with Plus => 1 | Minus => 0 end.

Definition dummy_row : row := mkRow (-1) (-1) None.

Fixpoint find_lam (k : kind) (rows : list row) (j : idx) (spec : list lamspec) : Q :=
  match spec with
  | [] => 0%Q
  | (sc, i, v) :: rest =>
      let '(s, (e, g)) := j in
      if (sc =? sign_code s) && Nat.ltb i (length rows) && in_eg k e g (nth i rows dummy_row)
      then v else find_lam k rows j rest
  end.

Definition align_lam (k : kind) (rows : list row) (spec : list lamspec) : list Q :=
  map (fun j => find_lam k rows j spec) (index k rows).

(* C06, parity moments *)
Definition run_parity (k : kind) (db rb : option Q) (slack : Q) (rows : list row)
           (hs : list (list Q)) : list Z :=
  match config db rb slack with
  | None => [0]
  | Some (eps, r) =>
      1 :: enc_q eps ++ enc_q r
        ++ enc_list (enc_idx k rows) (index k rows)
        ++ enc_list (fun h => enc_qs (gamma k r rows h)) hs
        ++ enc_qs (bound eps k rows)
  end.

Definition run_er (fp fn : Q) (rows : list row) (hs : list (list Q)) : list Z :=
  enc_list (fun h => enc_q (er_gamma fp fn rows h)) hs ++ enc_qs (er_signed_weights fp fn rows).

Definition run_bgl (l : loss) (ub : option Q) (rows : list lrow) (hs : list (list Q))
           (lams : list (list Q)) : list Z :=
  enc_list enc_z (bgl_index rows)
    ++ enc_list (fun h => enc_qs (bgl_gamma l rows h)) hs
    ++ enc_opt enc_qs (bgl_bound ub rows)
    ++ enc_q (loss_max l)
    ++ enc_list (fun lam => enc_qs (bgl_signed_weights rows lam)) lams.

(* C07, parity moments *)
Definition run_red (k : kind) (db rb : option Q) (slack fp fn : Q) (rows : list row)
           (specs : list (list lamspec)) : list Z :=
  match config db rb slack with
  | None => [0]
  | Some (eps, r) =>
      let m := length (pairs_of k rows) in
      1 :: enc_list (enc_idx k rows) (index k rows)
        ++ enc_list (fun spec =>
             let lam := align_lam k rows spec in
             let w := oracle_weights k r fp fn rows lam in
             enc_qs lam
               ++ enc_qs (signed_weights k r rows lam)
               ++ enc_qs (project_lambda r m lam)
               ++ enc_qs w ++ enc_qs (relabel w) ++ enc_qs (reweight w)
               ++ enc_opt enc_qs (reweight_eg w)) specs
  end.
