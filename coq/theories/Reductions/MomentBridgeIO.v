(* Wire glue of the C06 correspondence run for the MetricFrame bridge (MomentBridge.v), MeanLoss and the
   ErrorRate cost check.  Kept apart from MomentsIO.v so that the C07 run does not depend on the metric
   models.  Nothing here is part of a theorem statement. *)
From Coq Require Import QArith ZArith List Bool.
From FL Require Import Num ListX Flat Moments MomentsIO MomentBridge.
Import ListNotations.
Open Scope Z_scope.

(* for every hard predictor (the harness passes 0/1 vectors only) and every entry of the index, in index
   order: by_group[control level, group] - overall[control level] of the matching rate *)
Definition run_bridge (k : kind) (rows : list row) (hb : list (list Q)) : list Z :=
  enc_list (fun h => enc_list (fun j => enc_opt enc_ext (bridge_entry k rows h j)) (index k rows)) hb.

(* run_parity followed by the bridge block (hb = [] unless the ratio is 1) *)
Definition run_parity_bridge (k : kind) (db rb : option Q) (slack : Q) (rows : list row)
           (hs hb : list (list Q)) : list Z :=
  run_parity k db rb slack rows hs ++ run_bridge k rows hb.

(* MeanLoss = ConditionalLossMoment(no_groups=True) *)
Definition run_mean_loss (l : loss) (rows : list lrow) (hs : list (list Q)) : list Z :=
  enc_list enc_z (mean_loss_index rows)
    ++ enc_list (fun h => enc_qs (mean_loss_gamma l rows h)) hs
    ++ enc_q (loss_max l).

(* ErrorRate(costs=...) constructor, then gamma with the accepted costs *)
Definition run_er_config (costs : option (bool * Q * Q)) : list Z :=
  enc_opt (fun p => enc_q (fst p) ++ enc_q (snd p)) (er_config costs).
