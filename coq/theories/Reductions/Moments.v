(* Model of fairlearn.reductions._moments (C06): UtilityParity.load_data / gamma / bound and the
   event construction of its five subclasses, _merge_event_and_control_columns, ErrorRate.gamma,
   ConditionalLossMoment (BoundedGroupLoss) gamma / bound.  Proof-free; lemmas and theorems are
   in Moments_proofs.v.  The functions follow the code's algorithm (a matrix U built column by
   column, gamma = -U^T pred / n), not the specification. *)
From Coq Require Import QArith ZArith List Bool.
From FL Require Import Num ListX.
Import ListNotations.
Open Scope Q_scope.

(* ---------- small vector helpers ---------- *)

Fixpoint zipw {A B C} (f : A -> B -> C) (a : list A) (b : list B) : list C :=
  match a, b with
  | x :: a', y :: b' => f x y :: zipw f a' b'
  | _, _ => []
  end.

Definition vadd : list Q -> list Q -> list Q := zipw Qplus.
Definition vsub : list Q -> list Q -> list Q := zipw Qminus.
Definition vmul : list Q -> list Q -> list Q := zipw Qmult.

Definition ind (b : bool) : Q := if b then 1 else 0.

(* ---------- data ---------- *)

(* one training row after _validate_and_reformat_input: binary label, group code, control code
   (None = no control features / null control value) *)
Record row := mkRow { ry : Z; rg : Z; rc : option Z }.

Inductive kind := DP | TPR | FPR | EO | ERP.

(* an event = (control stratum, base event); base events: 0 = "label=0", 1 = "label=1", 2 = "all" *)
Definition event := (option Z * Z)%type.
Definition all_code : Z := 2%Z.

(* the base_event column of the five load_data methods; None = NaN (`.where(y == c)`) *)
Definition base_event (k : kind) (y : Z) : option Z :=
  match k with
  | DP | ERP => Some all_code
  | TPR => if (y =? 1)%Z then Some y else None
  | FPR => if (y =? 0)%Z then Some y else None
  | EO => Some y
  end.

(* _combine_event_and_control: the control value is prefixed only to a non-null event;
   a null event stays null *)
Definition event_of (k : kind) (r : row) : option event :=
  match base_event k (ry r) with
  | Some b => Some (rc r, b)
  | None => None
  end.

Definition oz_eqb (a b : option Z) : bool :=
  match a, b with
  | Some x, Some y => (x =? y)%Z
  | None, None => true
  | _, _ => false
  end.

Definition ev_eqb (a b : event) : bool := oz_eqb (fst a) (fst b) && (snd a =? snd b)%Z.

Definition pair_eqb (a b : event * Z) : bool := ev_eqb (fst a) (fst b) && (snd a =? snd b)%Z.

(* tags[event] == e ; tags[group_id] == g *)
Definition in_event (k : kind) (e : event) (r : row) : bool :=
  match event_of k r with Some e' => ev_eqb e' e | None => false end.
Definition in_group (g : Z) (r : row) : bool := (rg r =? g)%Z.
Definition in_eg (k : kind) (e : event) (g : Z) (r : row) : bool := in_event k e r && in_group g r.

Fixpoint pmem (p : event * Z) (l : list (event * Z)) : bool :=
  match l with [] => false | q :: l' => pair_eqb p q || pmem p l' end.

(* the (event, group) pairs that occur: index of tags.groupby([event, group_id]).size()
   (rows with a null event are dropped by groupby).  Order: last occurrence first; the harness
   compares index-keyed values through canonical keys, never by position. *)
Fixpoint pairs_of (k : kind) (rows : list row) : list (event * Z) :=
  match rows with
  | [] => []
  | r :: rs =>
      let rest := pairs_of k rs in
      match event_of k r with
      | Some e => if pmem (e, rg r) rest then rest else (e, rg r) :: rest
      | None => rest
      end
  end.

Inductive sign := Plus | Minus.
Definition idx := (sign * (event * Z))%type.

(* pd.concat([pge, pge], keys=["+", "-"]).index *)
Definition index (k : kind) (rows : list row) : list idx :=
  map (pair Plus) (pairs_of k rows) ++ map (pair Minus) (pairs_of k rows).

Definition nrows (rows : list row) : Q := inject_nat (length rows).

Definition prob_event (k : kind) (rows : list row) (e : event) : Q :=
  inject_nat (count_if (in_event k e) rows) / nrows rows.
Definition prob_group_event (k : kind) (rows : list row) (e : event) (g : Z) : Q :=
  inject_nat (count_if (in_eg k e g) rows) / nrows rows.

(* one entry of a column of U, as the loop body of load_data writes it:
   event_select = 1 * (tags[event] == e); group_event_select = event_select * (tags[group_id] == g) *)
Definition uentry (k : kind) (r : Q) (s : sign) (e : event) (g : Z) (pe peg : Q) (rw : row) : Q :=
  let es := ind (in_event k e rw) in
  let ges := es * ind (in_group g rw) in
  match s with
  | Plus => es / pe + (- r) * ges / peg
  | Minus => (- r) * es / pe + ges / peg
  end.

Definition ucol (k : kind) (r : Q) (rows : list row) (j : idx) : list Q :=
  let '(s, (e, g)) := j in
  let pe := prob_event k rows e in
  let peg := prob_group_event k rows e g in
  map (uentry k r s e g pe peg) rows.

(* U as the list of its columns, in index order *)
Definition Umat (k : kind) (r : Q) (rows : list row) : list (list Q) :=
  map (ucol k r rows) (index k rows).

(* utilities[:,0], utilities[:,1]: (0,1) by default, (y, 1-y) for error-rate parity *)
Definition u0 (k : kind) (rw : row) : Q :=
  match k with ERP => inject_Z (ry rw) | _ => 0 end.
Definition u1 (k : kind) (rw : row) : Q :=
  match k with ERP => 1 - inject_Z (ry rw) | _ => 1 end.
Definition udiff (k : kind) (rw : row) : Q := u1 k rw - u0 k rw.

(* pred = utility_diff * predictions + utilities[:,0] *)
Definition pred (k : kind) (rows : list row) (h : list Q) : list Q :=
  zipw (fun rw hi => udiff k rw * hi + u0 k rw) rows h.

(* g_signed = -U.T.dot(pred) / total_samples, aligned with index *)
Definition gamma (k : kind) (r : Q) (rows : list row) (h : list Q) : list Q :=
  let p := pred k rows h in
  map (fun col => - (dot col p) / nrows rows) (Umat k r rows).

Definition gamma_at (k : kind) (r : Q) (rows : list row) (h : list Q) (j : idx) : Q :=
  - (dot (ucol k r rows j) (pred k rows h)) / nrows rows.

(* pd.Series(self.eps, index=self.index) *)
Definition bound (eps : Q) (k : kind) (rows : list row) : list Q :=
  map (fun _ => eps) (index k rows).

(* UtilityParity.__init__: (eps, ratio); None = ValueError *)
Definition config (db rb : option Q) (slack : Q) : option (Q * Q) :=
  match db, rb with
  | None, None => Some (1 # 100, 1)
  | Some d, None => Some (d, 1)
  | None, Some r => if Qltb 0 r && Qleb r 1 then Some (slack, r) else None
  | Some _, Some _ => None
  end.

(* ---------- ErrorRate ---------- *)

Definition er_gamma (fp fn : Q) (rows : list row) (h : list Q) : Q :=
  let se := zipw (fun rw hi => inject_Z (ry rw) - hi) rows h in
  let total_fn := qsum (map (fun s => s * fn) (filter (fun s => Qltb 0 s) se)) in
  let total_fp := qsum (map (fun s => (- s) * fp) (filter (fun s => Qltb s 0) se)) in
  (total_fn + total_fp) / nrows rows.

(* ---------- ConditionalLossMoment / BoundedGroupLoss ---------- *)

Inductive loss := Square (lo hi : Q) | Absolute (lo hi : Q).

(* np.clip(x, lo, hi) = minimum(maximum(x, lo), hi) *)
Definition clip (lo hi x : Q) : Q := Qminq (Qmaxq x lo) hi.

Definition loss_eval (l : loss) (y p : Q) : Q :=
  match l with
  | Square lo hi => let d := clip lo hi y - clip lo hi p in d * d
  | Absolute lo hi => qabs (clip lo hi y - clip lo hi p)
  end.

(* SquareLoss.max / AbsoluteLoss.max *)
Definition loss_max (l : loss) : Q :=
  match l with
  | Square lo hi => (hi - lo) * (hi - lo)
  | Absolute lo hi => qabs (hi - lo)
  end.

(* regression rows: (label, group code) *)
Definition lrow := (Q * Z)%type.

(* groupby(group_id) index: sorted distinct codes *)
Definition bgl_index (rows : list lrow) : list Z := zuniq (map snd rows).

Definition losses (l : loss) (rows : list lrow) (h : list Q) : list Q :=
  zipw (fun rw p => loss_eval l (fst rw) p) rows h.

Definition group_mean (gs : list Z) (vals : list Q) (g : Z) : Q :=
  let sel := filter (fun t => (fst t =? g)%Z) (combine gs vals) in
  qsum (map snd sel) / inject_nat (length sel).

(* tags.groupby(group_id).mean()[loss] *)
Definition bgl_gamma (l : loss) (rows : list lrow) (h : list Q) : list Q :=
  map (group_mean (map snd rows) (losses l rows h)) (bgl_index rows).

(* None = ValueError("No Upper Bound") *)
Definition bgl_bound (ub : option Q) (rows : list lrow) : option (list Q) :=
  match ub with None => None | Some b => Some (map (fun _ => b) (bgl_index rows)) end.

Definition prob_attr (rows : list lrow) : list Q :=
  map (fun g => inject_nat (count_if (fun rw => (snd rw =? g)%Z) rows) / inject_nat (length rows))
      (bgl_index rows).
