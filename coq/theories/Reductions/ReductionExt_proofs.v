(* Theorems about ReductionExt.v and further theorems about Reduction.v (C07, second phase):
   source shapes for translators/t_reduction.py, unit weights of the loss moments, linearity of the three
   signed_weights in the multiplier, optimality of the constant classifier in the single-label branch. *)
From Coq Require Import QArith ZArith List Bool Lia Lqa Setoid.
From FL Require Import Num ListX Moments Moments_proofs Reduction Reduction_proofs ReductionExt.
Import ListNotations.
Open Scope Q_scope.

(* ---------- the shapes translators/t_reduction.py must regenerate; props/C07.v restates them with the generated
   definitions in place of the inlined expressions, `exact` then checks convertibility ---------- *)

Lemma src_project_lambda r m lam :
  project_lambda r m lam =
  if Qeqb r 1 then
    let lambda_pos := zipw (fun a b => a - b) (firstn m lam) (skipn m lam) in
    let lambda_neg := map (fun a => - a) lambda_pos in
    let lambda_pos := map (fun a => if Qltb a 0 then 0 else a) lambda_pos in
    let lambda_neg := map (fun a => if Qltb a 0 then 0 else a) lambda_neg in
    lambda_pos ++ lambda_neg
  else lam.
Proof. reflexivity. Qed.

Lemma src_error_rate fp fn rows h l :
  er_default_costs = (1, 1) /\ er_index = [2%Z] /\
  er_gamma fp fn rows h =
    (let signed_errors := zipw (fun rw p => inject_Z (ry rw) - p) rows h in
     (qsum (map (fun s => s * fn) (filter (fun s => Qltb 0 s) signed_errors))
      + qsum (map (fun s => (- s) * fp) (filter (fun s => Qltb s 0) signed_errors))) / nrows rows) /\
  er_signed_weights fp fn rows = map (fun rw => - fp + (fp + fn) * inject_Z (ry rw)) rows /\
  er_signed_weights_lam fp fn rows l = map (fun w => l * w) (er_signed_weights fp fn rows).
Proof. repeat split; reflexivity. Qed.

Lemma src_loss_weights rows lam :
  prob_attr rows
  = map (fun g => inject_nat (count_if (fun rw : lrow => (snd rw =? g)%Z) rows) / inject_nat (length rows))
        (bgl_index rows) /\
  bgl_signed_weights_opt rows lam
  = (let adjust := match lam with
                   | None => map (fun _ => 1) (bgl_index rows)
                   | Some lambda_vec => zipw (fun l p => l / p) lambda_vec (prob_attr rows)
                   end in
     map (fun rw => match zassoc (snd rw) (combine (bgl_index rows) adjust) with Some a => a | None => 0 end) rows) /\
  forall l, bgl_signed_weights rows l = bgl_signed_weights_opt rows (Some l).
Proof. repeat split; destruct lam; reflexivity. Qed.

Lemma src_call_oracle k r fp fn rows lam w :
  oracle_weights k r fp fn rows lam
  = zipw (fun o c => o + c) (er_signed_weights fp fn rows) (signed_weights k r rows lam) /\
  relabel w = map (fun x => ind (Qltb 0 x)) w /\
  reweight w = map (fun x => qabs x) w /\
  reweight_eg w
  = (let redW := map (fun x => qabs x) w in
     let s := qsum redW in
     if Qeqb s 0 then None else Some (map (fun a => inject_nat (length w) * a / s) redW)) /\
  dummy_constant w
  = (let redY_unique := quniq w in
     if Nat.eqb (length redY_unique) 1 then nth_error redY_unique 0 else None).
Proof. repeat split; reflexivity. Qed.

(* ---------- vectors ---------- *)

Definition veq : list Q -> list Q -> Prop := Forall2 Qeq.

Lemma veq_refl a : veq a a.
Proof. induction a; constructor; [reflexivity | assumption]. Qed.

Lemma dot_zero_r x n : dot x (repeat 0 n) == 0.
Proof.
  revert n. induction x as [|p x IH]; intros [|n]; cbn [repeat dot]; try reflexivity.
  rewrite IH. ring.
Qed.

(* two vectors of the same length with the same product against every test vector are entry-wise equal *)
Lemma dot_ext_veq u v :
  length u = length v -> (forall x, dot u x == dot v x) -> veq u v.
Proof.
  revert v. induction u as [|p u IH]; intros [|q v] L H; try discriminate; constructor.
  - specialize (H (1 :: repeat 0 (length u))). cbn [dot] in H.
    rewrite !dot_zero_r in H. lra.
  - apply IH; [cbn in L; lia|]. intro x. specialize (H (0 :: x)). cbn [dot] in H. lra.
Qed.

Lemma veq_dot u v x : veq u v -> dot u x == dot v x.
Proof. apply dot_ext. Qed.

Lemma dot_vmul u v x : dot (vmul u v) x == dot v (vmul u x).
Proof.
  unfold vmul. revert v x. induction u as [|a u IH]; intros [|b v] [|c x]; cbn [zipw dot]; try reflexivity.
  rewrite IH. ring.
Qed.

Lemma signed_weights_length k r rows lam : length (signed_weights k r rows lam) = length rows.
Proof.
  unfold signed_weights, vmul. rewrite zipw_length, map_length, lincomb_length by apply Umat_lengths. lia.
Qed.

(* (signed_weights lam) . x = lam . G(x), with G independent of lam *)
Lemma dot_signed_weights k r rows lam x :
  dot (signed_weights k r rows lam) x
  == dot lam (map (fun c => dot c (vmul (map (udiff k) rows) x)) (Umat k r rows)).
Proof.
  unfold signed_weights. rewrite dot_vmul. apply dot_lincomb, Umat_lengths.
Qed.

Lemma vadd_length a b : length a = length b -> length (vadd a b) = length a.
Proof. intro L. unfold vadd. rewrite zipw_length. lia. Qed.

(* ---------- linearity of UtilityParity.signed_weights in the multiplier ---------- *)

Theorem signed_weights_add (k : kind) (r : Q) (rows : list row) (a b : list Q) :
  length a = length b ->
  veq (signed_weights k r rows (vadd a b)) (vadd (signed_weights k r rows a) (signed_weights k r rows b)).
Proof.
  intro L. apply dot_ext_veq.
  - rewrite vadd_length by (rewrite !signed_weights_length; reflexivity).
    rewrite !signed_weights_length. reflexivity.
  - intro x. rewrite dot_vadd by (rewrite !signed_weights_length; reflexivity).
    rewrite !dot_signed_weights. apply dot_vadd. exact L.
Qed.

Theorem signed_weights_scale (k : kind) (r : Q) (rows : list row) (c : Q) (a : list Q) :
  veq (signed_weights k r rows (map (Qmult c) a)) (map (Qmult c) (signed_weights k r rows a)).
Proof.
  apply dot_ext_veq.
  - rewrite map_length, !signed_weights_length. reflexivity.
  - intro x. rewrite !dot_scale, !dot_signed_weights. apply dot_scale.
Qed.

Theorem signed_weights_zero (k : kind) (r : Q) (rows : list row) (m : nat) :
  veq (signed_weights k r rows (repeat 0 m)) (repeat 0 (length rows)).
Proof.
  apply dot_ext_veq.
  - rewrite signed_weights_length, repeat_length. reflexivity.
  - intro x. rewrite dot_signed_weights, !dot_repeat0. reflexivity.
Qed.

(* ---------- ErrorRate.signed_weights(lambda) ---------- *)

Theorem er_signed_weights_lam_linear (fp fn : Q) (rows : list row) (l1 l2 : Q) :
  veq (er_signed_weights_lam fp fn rows (l1 + l2))
      (vadd (er_signed_weights_lam fp fn rows l1) (er_signed_weights_lam fp fn rows l2)) /\
  veq (er_signed_weights_lam fp fn rows 0) (repeat 0 (length rows)) /\
  er_signed_weights_lam fp fn rows 1 = map (Qmult 1) (er_signed_weights fp fn rows).
Proof.
  unfold er_signed_weights_lam, er_signed_weights, vadd. rewrite !map_map. split; [|split; [|reflexivity]].
  - induction rows as [|x rows IH]; cbn [map zipw]; constructor; [ring | exact IH].
  - induction rows as [|x rows IH]; cbn [map repeat length]; constructor; [ring | exact IH].
Qed.

(* ---------- ConditionalLossMoment.signed_weights ---------- *)

Lemma zassoc_const (g : Z) (c : Q) idx :
  In g idx -> zassoc g (combine idx (map (fun _ => c) idx)) = Some c.
Proof.
  induction idx as [|i idx IH]; [intros []|]. intro H. cbn [map combine zassoc].
  destruct (g =? i)%Z eqn:E; [reflexivity|].
  destruct H as [->|H]; [rewrite Z.eqb_refl in E; discriminate | apply IH; exact H].
Qed.

(* signed_weights() without a multiplier: every row has weight 1 (no row falls outside the index) *)
Theorem bgl_unit_weights (rows : list lrow) :
  bgl_signed_weights_opt rows None = map (fun _ => 1) rows.
Proof.
  unfold bgl_signed_weights_opt. apply map_ext_in. intros rw Hin.
  rewrite zassoc_const; [reflexivity|]. apply bgl_index_exact. exists rw. split; [exact Hin | reflexivity].
Qed.

Lemma dot_ones {A} (rows : list A) v : length v = length rows -> dot (map (fun _ => 1) rows) v == qsum v.
Proof.
  revert v. induction rows as [|x rows IH]; intros [|y v] L; try discriminate; cbn [map dot qsum]; [reflexivity|].
  rewrite IH by (cbn in L; lia). ring.
Qed.

(* with these weights (1/n) sum_i w_i loss_i is the overall mean loss: the objective MeanLoss hands to the learner *)
Theorem mean_loss_identity (l : loss) (rows : list lrow) (h : list Q) :
  length h = length rows ->
  (1 / inject_nat (length rows)) * dot (bgl_signed_weights_opt rows None) (losses l rows h)
  == qsum (losses l rows h) / inject_nat (length rows).
Proof.
  intro L. rewrite bgl_unit_weights, dot_ones.
  - unfold Qdiv. ring.
  - unfold losses. rewrite zipw_length, L. apply Nat.min_id.
Qed.

Lemma glookup_div_add g idx a b p :
  length a = length b ->
  glookup g (combine idx (zipw Qdiv (vadd a b) p))
  == glookup g (combine idx (zipw Qdiv a p)) + glookup g (combine idx (zipw Qdiv b p)).
Proof.
  unfold glookup, vadd.
  revert a b p. induction idx as [|i idx IH]; intros [|x a] [|y b] [|q p] L; try discriminate;
    cbn [zipw combine zassoc]; try ring.
  destruct (g =? i)%Z; [unfold Qdiv; ring | apply IH; cbn in L; lia].
Qed.

Lemma glookup_div_scale g idx c a p :
  glookup g (combine idx (zipw Qdiv (map (Qmult c) a) p)) == c * glookup g (combine idx (zipw Qdiv a p)).
Proof.
  unfold glookup.
  revert a p. induction idx as [|i idx IH]; intros [|x a] [|q p]; cbn [map zipw combine zassoc]; try ring.
  destruct (g =? i)%Z; [unfold Qdiv; ring | apply IH].
Qed.

Lemma glookup_div_zero g idx m p : glookup g (combine idx (zipw Qdiv (repeat 0 m) p)) == 0.
Proof.
  unfold glookup.
  revert m p. induction idx as [|i idx IH]; intros [|m] [|q p]; cbn [repeat zipw combine zassoc]; try reflexivity.
  destruct (g =? i)%Z; [unfold Qdiv; ring | apply IH].
Qed.

Lemma bgl_sw_glookup rows lam :
  bgl_signed_weights rows lam
  = map (fun rw : lrow => glookup (snd rw) (combine (bgl_index rows) (zipw Qdiv lam (prob_attr rows)))) rows.
Proof. reflexivity. Qed.

Theorem bgl_signed_weights_add (rows : list lrow) (a b : list Q) :
  length a = length b ->
  veq (bgl_signed_weights rows (vadd a b)) (vadd (bgl_signed_weights rows a) (bgl_signed_weights rows b)).
Proof.
  intro L. rewrite !bgl_sw_glookup.
  generalize (bgl_index rows) as idx. generalize (prob_attr rows) as p. intros p idx.
  unfold vadd at 2. induction rows as [|rw rows IH]; cbn [map zipw]; constructor; [|exact IH].
  apply glookup_div_add. exact L.
Qed.

Theorem bgl_signed_weights_scale (rows : list lrow) (c : Q) (a : list Q) :
  veq (bgl_signed_weights rows (map (Qmult c) a)) (map (Qmult c) (bgl_signed_weights rows a)).
Proof.
  rewrite !bgl_sw_glookup.
  generalize (bgl_index rows) as idx. generalize (prob_attr rows) as p. intros p idx.
  induction rows as [|rw rows IH]; cbn [map]; constructor; [|exact IH].
  apply glookup_div_scale.
Qed.

Theorem bgl_signed_weights_zero (rows : list lrow) (m : nat) :
  veq (bgl_signed_weights rows (repeat 0 m)) (repeat 0 (length rows)).
Proof.
  rewrite bgl_sw_glookup.
  generalize (bgl_index rows) as idx. generalize (prob_attr rows) as p. intros p idx.
  induction rows as [|rw rows IH]; cbn [map repeat length]; constructor; [|exact IH].
  apply glookup_div_zero.
Qed.

(* the multiplier prob_attr (= default_objective_lambda_vec) gives the unit weights of signed_weights() *)
Lemma glookup_self_div g idx (p : list Q) :
  length p = length idx -> In g idx -> Forall (fun x => ~ x == 0) p ->
  glookup g (combine idx (zipw Qdiv p p)) == 1.
Proof.
  unfold glookup.
  revert p. induction idx as [|i idx IH]; intros [|q p] L Hin Hp; try discriminate; [destruct Hin|].
  cbn [zipw combine zassoc]. inversion Hp as [|? ? Hq Hp']; subst.
  destruct (g =? i)%Z eqn:E.
  - field. exact Hq.
  - apply IH; [cbn in L; lia | | exact Hp'].
    destruct Hin as [->|H]; [rewrite Z.eqb_refl in E; discriminate | exact H].
Qed.

Lemma prob_attr_nonzero rows : Forall (fun x => ~ x == 0) (prob_attr rows).
Proof.
  unfold prob_attr. apply Forall_forall. intros x Hx. apply in_map_iff in Hx. destruct Hx as (g & <- & Hg).
  apply bgl_index_exact in Hg. destruct Hg as (rw & Hin & Hs).
  assert (C : (0 < count_if (fun rw0 : lrow => (snd rw0 =? g)%Z) rows)%nat).
  { apply (count_if_pos _ rows rw Hin). rewrite Hs. apply Z.eqb_refl. }
  assert (N : (0 < length rows)%nat) by (destruct rows; [destruct Hin | cbn; lia]).
  pose proof (inject_nat_pos _ C) as P1. pose proof (inject_nat_pos _ N) as P2.
  intro Z0. cbv beta in Z0.
  assert (H : 0 < inject_nat (count_if (fun rw0 : lrow => (snd rw0 =? g)%Z) rows) / inject_nat (length rows))
    by (apply Qlt_shift_div_l; lra).
  rewrite Z0 in H. apply (Qlt_irrefl 0). exact H.
Qed.

Theorem bgl_default_objective_weights (rows : list lrow) :
  veq (bgl_signed_weights rows (prob_attr rows)) (bgl_signed_weights_opt rows None).
Proof.
  rewrite bgl_unit_weights, bgl_sw_glookup.
  assert (H : forall rw, In rw rows ->
              glookup (snd rw) (combine (bgl_index rows) (zipw Qdiv (prob_attr rows) (prob_attr rows))) == 1).
  { intros rw Hin. apply glookup_self_div.
    - unfold prob_attr. apply map_length.
    - apply bgl_index_exact. exists rw. split; [exact Hin | reflexivity].
    - apply prob_attr_nonzero. }
  revert H. generalize (combine (bgl_index rows) (zipw Qdiv (prob_attr rows) (prob_attr rows))) as tbl.
  intro tbl. induction rows as [|rw rows IH]; intro H; cbn [map]; constructor.
  - apply H. left. reflexivity.
  - apply IH. intros rw' Hin. apply H. right. exact Hin.
Qed.

(* ---------- the single-label branch of _call_oracle ---------- *)

Lemma qinsert_keeps x z l : In z l -> In z (qinsert x l).
Proof.
  induction l as [|y l IH]; [intros []|]. intro H. cbn [qinsert].
  destruct (Qltb x y); [right; exact H|].
  destruct (Qeqb x y); [exact H|].
  destruct H as [->|H]; [left; reflexivity | right; apply IH; exact H].
Qed.

Lemma qinsert_rep x l : exists y, In y (qinsert x l) /\ x == y.
Proof.
  induction l as [|z l IH]; cbn [qinsert].
  - exists x. split; [left; reflexivity | reflexivity].
  - destruct (Qltb x z); [exists x; split; [left; reflexivity | reflexivity]|].
    destruct (Qeqb x z) eqn:E.
    + exists z. split; [left; reflexivity | apply Qeq_bool_iff; exact E].
    + destruct IH as (y & Hy & Exy). exists y. split; [right; exact Hy | exact Exy].
Qed.

Lemma quniq_rep x l : In x l -> exists y, In y (quniq l) /\ x == y.
Proof.
  unfold quniq. induction l as [|z l IH]; [intros []|]. cbn [fold_right]. intros [->|H].
  - apply qinsert_rep.
  - destruct (IH H) as (y & Hy & E). exists y. split; [apply qinsert_keeps; exact Hy | exact E].
Qed.

Lemma dummy_constant_all (yy : list Q) (c : Q) :
  dummy_constant yy = Some c -> Forall (fun y => y == c) yy.
Proof.
  unfold dummy_constant. intro H. cbv zeta in H.
  destruct (quniq yy) as [|u [|u' us]] eqn:U; cbn in H; try discriminate.
  injection H as ->. apply Forall_forall. intros y Hy.
  destruct (quniq_rep y yy Hy) as (z & Hz & E). rewrite U in Hz. destruct Hz as [<-|[]]. exact E.
Qed.

Lemma w01_const_zero ww yy c :
  Forall (fun y => y == c) yy -> w01 ww yy (const_h c (length yy)) == 0.
Proof.
  unfold w01, const_h. intro H. revert ww. induction H as [|y yy Hy H IH]; intros [|w ww]; cbn [length repeat combine zipw qsum];
    try reflexivity.
  cbn [fst snd]. rewrite IH.
  assert (E : Qeqb y c = true) by (apply Qeq_bool_iff; exact Hy). rewrite E. ring.
Qed.

Lemma w01_nonneg ww yy h : Forall (fun w => 0 <= w) ww -> 0 <= w01 ww yy h.
Proof.
  unfold w01. generalize (combine yy h) as l. intros l H. revert l.
  induction H as [|w ww Hw H IH]; intros [|t l]; cbn [zipw qsum]; try lra.
  specialize (IH l). destruct (Qeqb (fst t) (snd t)); nra.
Qed.

Lemma reweight_nonneg w : Forall (fun x => 0 <= x) (reweight w).
Proof.
  unfold reweight. induction w as [|x w IH]; cbn [map]; constructor; [|exact IH].
  destruct (qabs_spec x) as [P N]. destruct (Qlt_le_dec x 0); [rewrite N by lra | rewrite P by lra]; lra.
Qed.

(* when the relabelled data carry one label c only, _call_oracle returns the constant classifier c without
   training; that classifier has weighted error 0, so it solves the cost-sensitive problem exactly *)
Theorem dummy_optimal (w h : list Q) (c : Q) :
  dummy_constant (relabel w) = Some c ->
  w01 (reweight w) (relabel w) (const_h c (length w)) == 0 /\
  w01 (reweight w) (relabel w) (const_h c (length w)) <= w01 (reweight w) (relabel w) h.
Proof.
  intro H. apply dummy_constant_all in H.
  assert (Z0 : w01 (reweight w) (relabel w) (const_h c (length w)) == 0).
  { replace (length w) with (length (relabel w)) by (unfold relabel; apply map_length).
    apply w01_const_zero. exact H. }
  split; [exact Z0|]. rewrite Z0. apply w01_nonneg, reweight_nonneg.
Qed.

Lemma relabel_binary w : Forall (fun y => y == 0 \/ y == 1) (relabel w).
Proof.
  unfold relabel. induction w as [|x w IH]; cbn [map]; constructor; [|exact IH].
  destruct (Qltb 0 x); [right | left]; reflexivity.
Qed.

Lemma dummy_constant_in (yy : list Q) (c : Q) :
  dummy_constant yy = Some c -> yy <> [] /\ exists y, In y yy /\ y == c.
Proof.
  intro H. pose proof (dummy_constant_all yy c H) as A.
  destruct yy as [|y yy]; [discriminate|]. split; [discriminate|].
  exists y. split; [left; reflexivity|]. inversion A; assumption.
Qed.

(* ... hence it minimises objective + lambda.(gamma - bound) over all hard hypotheses *)
Theorem dummy_minimises_lagrangian (k : kind) (r eps fp fn : Q) (rows : list row) (lam h : list Q) (c : Q) :
  binary_rows rows -> hard h -> length h = length rows ->
  let w := oracle_weights k r fp fn rows lam in
  dummy_constant (relabel w) = Some c ->
  lagrangian k r eps fp fn rows lam (const_h c (length rows)) <= lagrangian k r eps fp fn rows lam h.
Proof.
  intros Hb Hh Lh w H.
  assert (Lw : length w = length rows).
  { unfold w, oracle_weights, vadd, er_signed_weights. rewrite zipw_length, map_length, signed_weights_length. lia. }
  destruct (dummy_constant_in _ _ H) as (Hne & y & Hy & Eyc).
  assert (Hc : c == 0 \/ c == 1).
  { pose proof (relabel_binary w) as B. rewrite Forall_forall in B. specialize (B y Hy).
    destruct B as [B|B]; [left | right]; rewrite <- Eyc; exact B. }
  assert (Hrows : rows <> []).
  { intro E. apply Hne. unfold relabel. destruct w; [reflexivity|]. rewrite E in Lw. discriminate. }
  assert (Hconst : hard (const_h c (length rows))).
  { unfold hard, const_h. apply Forall_forall. intros x Hx. apply repeat_spec in Hx. subst x. exact Hc. }
  apply (cost_sensitive_equiv k r eps fp fn rows lam (const_h c (length rows)) h Hrows Hb Hconst Hh).
  - unfold const_h. apply repeat_length.
  - exact Lh.
  - fold w. rewrite <- Lw. apply dummy_optimal. exact H.
Qed.

(* ---------- the linearity statements as restated in props/C07.v ---------- *)

Theorem signed_weights_linear (k : kind) (r : Q) (rows : list row) (c : Q) (a b : list Q) (m : nat) :
  (length a = length b ->
   Forall2 Qeq (signed_weights k r rows (vadd a b)) (vadd (signed_weights k r rows a) (signed_weights k r rows b))) /\
  Forall2 Qeq (signed_weights k r rows (map (Qmult c) a)) (map (Qmult c) (signed_weights k r rows a)) /\
  Forall2 Qeq (signed_weights k r rows (repeat 0 m)) (repeat 0 (length rows)).
Proof.
  split; [apply signed_weights_add | split; [apply signed_weights_scale | apply signed_weights_zero]].
Qed.

Theorem bgl_signed_weights_linear (rows : list lrow) (c : Q) (a b : list Q) (m : nat) :
  (length a = length b ->
   Forall2 Qeq (bgl_signed_weights rows (vadd a b)) (vadd (bgl_signed_weights rows a) (bgl_signed_weights rows b))) /\
  Forall2 Qeq (bgl_signed_weights rows (map (Qmult c) a)) (map (Qmult c) (bgl_signed_weights rows a)) /\
  Forall2 Qeq (bgl_signed_weights rows (repeat 0 m)) (repeat 0 (length rows)).
Proof.
  split; [apply bgl_signed_weights_add | split; [apply bgl_signed_weights_scale | apply bgl_signed_weights_zero]].
Qed.
