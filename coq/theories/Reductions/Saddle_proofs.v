(* C08 -- lemmas and theorems about the model in Saddle.v *)
From Coq Require Import QArith ZArith List Bool Lia Lra Psatz.
From FL Require Import Num Saddle.
Import ListNotations.
Open Scope Q_scope.

(* ------------------------------------------------------------------ *)
(* boolean tests                                                       *)
(* ------------------------------------------------------------------ *)
Lemma Qleb_true a b : Qleb a b = true <-> a <= b.
Proof. unfold Qleb. apply Qle_bool_iff. Qed.

Lemma Qleb_false a b : Qleb a b = false -> b < a.
Proof.
  intro Hf. apply Qnot_le_lt. intro Hle. apply Qleb_true in Hle. congruence.
Qed.

Lemma Qltb_true a b : Qltb a b = true <-> a < b.
Proof.
  unfold Qltb. split.
  - intro Hn. apply negb_true_iff in Hn. apply Qnot_le_lt. intro Hle.
    apply Qle_bool_iff in Hle. congruence.
  - intro Hlt. apply negb_true_iff. destruct (Qle_bool b a) eqn:E; [|reflexivity].
    apply Qle_bool_iff in E. lra.
Qed.

Lemma Qltb_false a b : Qltb a b = false -> b <= a.
Proof.
  unfold Qltb. intro Hn. apply negb_false_iff in Hn. apply Qle_bool_iff. exact Hn.
Qed.

Lemma Qeqb_true a b : Qeqb a b = true <-> a == b.
Proof. unfold Qeqb. apply Qeq_bool_iff. Qed.

Lemma Qmaxq_l a b : a <= Qmaxq a b.
Proof. unfold Qmaxq. destruct (Qleb a b) eqn:E; [apply Qleb_true in E; lra | lra]. Qed.
Lemma Qmaxq_r a b : b <= Qmaxq a b.
Proof. unfold Qmaxq. destruct (Qleb a b) eqn:E; [lra | apply Qleb_false in E; lra]. Qed.
Lemma Qmaxq_lub a b m : a <= m -> b <= m -> Qmaxq a b <= m.
Proof. unfold Qmaxq. destruct (Qleb a b); auto. Qed.
Lemma Qminq_l a b : Qminq a b <= a.
Proof. unfold Qminq. destruct (Qleb a b) eqn:E; [lra | apply Qleb_false in E; lra]. Qed.
Lemma Qminq_r a b : Qminq a b <= b.
Proof. unfold Qminq. destruct (Qleb a b) eqn:E; [apply Qleb_true in E; lra | lra]. Qed.
Lemma Qminq_cases a b : Qminq a b = a \/ Qminq a b = b.
Proof. unfold Qminq. destruct (Qleb a b); auto. Qed.

Lemma all_nonneg_In l : all_nonneg l = true -> forall x, In x l -> 0 <= x.
Proof.
  unfold all_nonneg. intros Hl x Hx. rewrite forallb_forall in Hl. apply Qleb_true. auto.
Qed.

Lemma all_le_In l b : all_le l b = true -> forall x, In x l -> x <= b.
Proof.
  unfold all_le. intros Hl x Hx. rewrite forallb_forall in Hl. apply Qleb_true. auto.
Qed.

(* ------------------------------------------------------------------ *)
(* max / min of lists                                                  *)
(* ------------------------------------------------------------------ *)
Lemma qmax_list_ge_d d l : d <= qmax_list d l.
Proof.
  induction l as [|x r IH]; cbn [qmax_list]; [lra|].
  pose proof (Qmaxq_r x (qmax_list d r)). lra.
Qed.

Lemma qmax_list_ge d l x : In x l -> x <= qmax_list d l.
Proof.
  induction l as [|y r IH]; cbn [qmax_list In]; [tauto|].
  intros [->|Hin].
  - apply Qmaxq_l.
  - pose proof (Qmaxq_r y (qmax_list d r)). specialize (IH Hin). lra.
Qed.

Lemma vmax_ge l x : In x l -> x <= vmax l.
Proof.
  destruct l as [|y r]; cbn [vmax In]; [tauto|].
  intros [->|Hin]; [apply qmax_list_ge_d | apply qmax_list_ge; exact Hin].
Qed.

Lemma qmin_list_le_d d l : qmin_list d l <= d.
Proof.
  induction l as [|x r IH]; cbn [qmin_list]; [lra|].
  pose proof (Qminq_r x (qmin_list d r)). lra.
Qed.

Lemma qmin_list_le d l x : In x l -> qmin_list d l <= x.
Proof.
  induction l as [|y r IH]; cbn [qmin_list In]; [tauto|].
  intros [->|Hin].
  - apply Qminq_l.
  - pose proof (Qminq_r y (qmin_list d r)). specialize (IH Hin). lra.
Qed.

Lemma qmin_list_in d l : qmin_list d l = d \/ In (qmin_list d l) l.
Proof.
  induction l as [|y r IH]; cbn [qmin_list In]; [auto|].
  destruct (Qminq_cases y (qmin_list d r)) as [E|E]; rewrite E; [auto|].
  destruct IH as [IH|IH]; auto.
Qed.

Lemma vmin_le l x : In x l -> vmin l <= x.
Proof.
  destruct l as [|y r]; cbn [vmin In]; [tauto|].
  intros [->|Hin]; [apply qmin_list_le_d | apply qmin_list_le; exact Hin].
Qed.

Lemma vmin_in l : l <> [] -> In (vmin l) l.
Proof.
  destruct l as [|y r]; [congruence|]. intros _. cbn [vmin In].
  destruct (qmin_list_in y r); auto.
Qed.

(* ------------------------------------------------------------------ *)
(* rdot / rsum / vector operations                                     *)
(* ------------------------------------------------------------------ *)
Lemma rdot_nil_r a : rdot a [] = 0.
Proof. destruct a; reflexivity. Qed.

Lemma rdot_cons x a y b : rdot (x :: a) (y :: b) == x * y + rdot a b.
Proof. cbn [rdot]. apply Qred_correct. Qed.

Lemma rsum_cons x l : rsum (x :: l) == x + rsum l.
Proof. cbn [rsum]. apply Qred_correct. Qed.

Lemma rdot_comm a : forall b, rdot a b == rdot b a.
Proof.
  induction a as [|x a IH]; intros [|y b]; try reflexivity.
  rewrite !rdot_cons, IH. ring.
Qed.

Lemma length_vadd a b : length a = length b -> length (vadd a b) = length a.
Proof. intro E. unfold vadd. rewrite map_length, combine_length. lia. Qed.
Lemma length_vsub a b : length a = length b -> length (vsub a b) = length a.
Proof. intro E. unfold vsub. rewrite map_length, combine_length. lia. Qed.
Lemma length_vscale k a : length (vscale k a) = length a.
Proof. unfold vscale. apply map_length. Qed.
Lemma length_zeros m : length (zeros m) = m.
Proof. unfold zeros. apply repeat_length. Qed.

Lemma vadd_cons x a y b : vadd (x :: a) (y :: b) = Qred (x + y) :: vadd a b.
Proof. reflexivity. Qed.
Lemma vsub_cons x a y b : vsub (x :: a) (y :: b) = Qred (x - y) :: vsub a b.
Proof. reflexivity. Qed.

Lemma rdot_vscale k a : forall lam, rdot lam (vscale k a) == k * rdot lam a.
Proof.
  induction a as [|x a IH]; intros [|l lam]; cbn [vscale map]; try (cbn [rdot]; ring).
  fold (vscale k a). rewrite !rdot_cons, IH, Qred_correct. ring.
Qed.

Lemma rdot_vadd a : forall b lam, length a = length b ->
  rdot lam (vadd a b) == rdot lam a + rdot lam b.
Proof.
  induction a as [|x a IH]; intros [|y b] lam E; cbn [length] in E; try discriminate.
  - cbn [vadd combine map]. rewrite !rdot_nil_r. ring.
  - destruct lam as [|l lam]; [cbn [rdot]; ring|].
    rewrite vadd_cons, !rdot_cons, Qred_correct, IH by lia. ring.
Qed.

Lemma rdot_vsub a : forall b lam, length a = length b ->
  rdot lam (vsub a b) == rdot lam a - rdot lam b.
Proof.
  induction a as [|x a IH]; intros [|y b] lam E; cbn [length] in E; try discriminate.
  - cbn [vsub combine map]. rewrite !rdot_nil_r. ring.
  - destruct lam as [|l lam]; [cbn [rdot]; ring|].
    rewrite vsub_cons, !rdot_cons, Qred_correct, IH by lia. ring.
Qed.

Lemma rdot_zeros m : forall lam, rdot lam (zeros m) == 0.
Proof.
  induction m as [|m IH]; intros [|l lam]; cbn [zeros repeat]; try (cbn [rdot]; ring).
  fold (zeros m). rewrite rdot_cons, IH. ring.
Qed.

(* sum_j lam_j v_j <= M * sum_j lam_j when lam >= 0, every v_j <= M, M >= 0 *)
Lemma rdot_le_bound M : 0 <= M -> forall lam v,
  (forall x, In x lam -> 0 <= x) -> (forall x, In x v -> x <= M) ->
  rdot lam v <= M * rsum lam.
Proof.
  intros HM. induction lam as [|l lam IH]; intros v Hl Hv.
  - cbn. lra.
  - assert (Hl0 : 0 <= l) by (apply Hl; left; reflexivity).
    assert (Hrest : 0 <= rsum lam).
    { clear IH Hv. induction lam as [|z lam IHl]; [cbn; lra|].
      rewrite rsum_cons. assert (0 <= z) by (apply Hl; right; left; reflexivity).
      assert (0 <= rsum lam) by (apply IHl; intros x [->|Hx]; apply Hl; [left|right; right]; auto). lra. }
    destruct v as [|x v].
    + rewrite rdot_nil_r, rsum_cons. nra.
    + rewrite rdot_cons, rsum_cons.
      assert (Hx : x <= M) by (apply Hv; left; reflexivity).
      assert (IH' : rdot lam v <= M * rsum lam).
      { apply IH; intros z Hz; [apply Hl|apply Hv]; right; exact Hz. }
      nra.
Qed.

Lemma rsum_nonneg l : (forall x, In x l -> 0 <= x) -> 0 <= rsum l.
Proof.
  induction l as [|z l IH]; intro Hl; [cbn; lra|].
  rewrite rsum_cons. assert (0 <= z) by (apply Hl; left; reflexivity).
  assert (0 <= rsum l) by (apply IH; intros x Hx; apply Hl; right; exact Hx). lra.
Qed.

(* ------------------------------------------------------------------ *)
(* weighted sums over (weight, hypothesis) pairs                       *)
(* ------------------------------------------------------------------ *)
Definition wsum (f : hyp -> Q) (ps : list (Q * hyp)) : Q :=
  fold_right (fun p acc => fst p * f (snd p) + acc) 0 ps.
Definition wtot (ps : list (Q * hyp)) : Q := fold_right (fun p acc => fst p + acc) 0 ps.

Lemma wsum_ext f g ps : (forall p, In p ps -> f (snd p) == g (snd p)) -> wsum f ps == wsum g ps.
Proof.
  induction ps as [|p ps IH]; intro E; cbn [wsum fold_right]; [reflexivity|].
  fold (wsum f ps). fold (wsum g ps).
  rewrite IH by (intros q Hq; apply E; right; exact Hq).
  rewrite (E p) by (left; reflexivity). reflexivity.
Qed.

Lemma wsum_affine f g k ps :
  wsum (fun h => f h + g h - k) ps == wsum f ps + wsum g ps - k * wtot ps.
Proof.
  induction ps as [|p ps IH]; cbn [wsum wtot fold_right]; [ring|].
  fold (wsum (fun h => f h + g h - k) ps). fold (wsum f ps). fold (wsum g ps). fold (wtot ps).
  rewrite IH. ring.
Qed.

Lemma wsum_ge f m ps :
  (forall p, In p ps -> 0 <= fst p) -> (forall p, In p ps -> m <= f (snd p)) ->
  m * wtot ps <= wsum f ps.
Proof.
  induction ps as [|p ps IH]; intros Hw Hf; cbn [wsum wtot fold_right]; [lra|].
  fold (wsum f ps). fold (wtot ps).
  assert (0 <= fst p) by (apply Hw; left; reflexivity).
  assert (m <= f (snd p)) by (apply Hf; left; reflexivity).
  assert (m * wtot ps <= wsum f ps) by (apply IH; intros q Hq; [apply Hw|apply Hf]; right; exact Hq).
  nra.
Qed.

Lemma wsum_le f m ps :
  (forall p, In p ps -> 0 <= fst p) -> (forall p, In p ps -> f (snd p) <= m) ->
  wsum f ps <= m * wtot ps.
Proof.
  induction ps as [|p ps IH]; intros Hw Hf; cbn [wsum wtot fold_right]; [lra|].
  fold (wsum f ps). fold (wtot ps).
  assert (0 <= fst p) by (apply Hw; left; reflexivity).
  assert (f (snd p) <= m) by (apply Hf; left; reflexivity).
  assert (wsum f ps <= m * wtot ps) by (apply IH; intros q Hq; [apply Hw|apply Hf]; right; exact Hq).
  nra.
Qed.

Lemma wtot_combine Qw : forall H : list hyp, length Qw = length H -> wtot (combine Qw H) == rsum Qw.
Proof.
  induction Qw as [|q Qw IH]; intros [|h H] E; cbn [length] in E; try discriminate; [reflexivity|].
  cbn [combine wtot fold_right fst]. fold (wtot (combine Qw H)).
  rewrite rsum_cons, IH by lia. reflexivity.
Qed.

(* ------------------------------------------------------------------ *)
(* the Lagrangian is the weighted average of the point Lagrangians      *)
(* ------------------------------------------------------------------ *)
Section Facts.
  Variable H : list hyp.
  Variable c : list Q.
  Variable B : Q.

  Definition gfold (ps : list (Q * hyp)) : list Q :=
    fold_right (fun p acc => vadd (vscale (fst p) (gam_h (snd p))) acc) (zeros (length c)) ps.

  Lemma gammaQ_gfold Qw : gammaQ H c Qw = gfold (combine Qw H).
  Proof. reflexivity. Qed.

  Definition lens_ok (ps : list (Q * hyp)) : Prop :=
    forall p, In p ps -> length (gam_h (snd p)) = length c.

  Lemma gfold_length ps : lens_ok ps -> length (gfold ps) = length c.
  Proof.
    induction ps as [|p ps IH]; intro Hl; cbn [gfold fold_right].
    - apply length_zeros.
    - fold (gfold ps).
      assert (E : length (gfold ps) = length c) by (apply IH; intros q Hq; apply Hl; right; exact Hq).
      rewrite length_vadd; rewrite length_vscale; [|rewrite E]; apply Hl; left; reflexivity.
  Qed.

  Lemma rdot_gfold lam ps : lens_ok ps ->
    rdot lam (gfold ps) == wsum (fun h => rdot lam (gam_h h)) ps.
  Proof.
    induction ps as [|p ps IH]; intro Hl; cbn [gfold wsum fold_right].
    - apply rdot_zeros.
    - fold (gfold ps). fold (wsum (fun h => rdot lam (gam_h h)) ps).
      assert (Hl' : lens_ok ps) by (intros q Hq; apply Hl; right; exact Hq).
      rewrite rdot_vadd.
      + rewrite rdot_vscale, IH by exact Hl'. reflexivity.
      + rewrite length_vscale, gfold_length by exact Hl'. apply Hl. left. reflexivity.
  Qed.

  Lemma err_wsum Qw : err H Qw == wsum err_h (combine Qw H).
  Proof.
    unfold err. generalize H. induction Qw as [|q Qw IH]; intros [|h H']; try reflexivity.
    cbn [map combine wsum fold_right fst snd]. fold (wsum err_h (combine Qw H')).
    rewrite rdot_cons, IH. reflexivity.
  Qed.

  Lemma wf_unpack : wf H c = true -> H <> [] /\ forall h, In h H -> length (gam_h h) = length c.
  Proof.
    unfold wf. intro W. apply andb_true_iff in W. destruct W as [W1 W2]. split.
    - intro E. rewrite E in W1. discriminate.
    - intros h Hh. rewrite forallb_forall in W2. apply Nat.eqb_eq. auto.
  Qed.

  Lemma is_dist_unpack Qw : is_dist H Qw = true ->
    length Qw = length H /\ (forall x, In x Qw -> 0 <= x) /\ rsum Qw == 1.
  Proof.
    unfold is_dist. intro D. apply andb_true_iff in D. destruct D as [D D3].
    apply andb_true_iff in D. destruct D as [D1 D2].
    repeat split; [apply Nat.eqb_eq; exact D1 | apply all_nonneg_In; exact D2 | apply Qeqb_true; exact D3].
  Qed.

  Lemma lens_ok_combine Qw : (forall h, In h H -> length (gam_h h) = length c) -> lens_ok (combine Qw H).
  Proof. intros W p Hp. apply W. destruct p as [q h]. apply in_combine_r in Hp. exact Hp. Qed.

  Lemma L_pt_eq h lam : length (gam_h h) = length c ->
    L_pt c h lam == err_h h + rdot lam (gam_h h) - rdot lam c.
  Proof.
    intro E. unfold L_pt. rewrite Qred_correct, rdot_vsub by exact E. ring.
  Qed.

  Lemma L_eq Qw lam : wf H c = true ->
    L H c Qw lam == err H Qw + rdot lam (gammaQ H c Qw) - rdot lam c.
  Proof.
    intro W. destruct (wf_unpack W) as [_ W2]. unfold L, viol.
    rewrite Qred_correct, rdot_vsub; [ring|].
    rewrite gammaQ_gfold. apply gfold_length. apply lens_ok_combine. exact W2.
  Qed.

  (* the Lagrangian of a distribution is the average of the Lagrangians of its members *)
  Lemma L_average Qw lam : wf H c = true -> is_dist H Qw = true ->
    L H c Qw lam == wsum (fun h => L_pt c h lam) (combine Qw H).
  Proof.
    intros W D. destruct (wf_unpack W) as [_ W2]. destruct (is_dist_unpack _ D) as [D1 [D2 D3]].
    rewrite L_eq by exact W. rewrite gammaQ_gfold, rdot_gfold by (apply lens_ok_combine; exact W2).
    rewrite err_wsum.
    rewrite (wsum_ext (fun h => L_pt c h lam) (fun h => err_h h + rdot lam (gam_h h) - rdot lam c)).
    - rewrite wsum_affine, wtot_combine by exact D1. rewrite D3. ring.
    - intros [q h] Hp. apply L_pt_eq. apply W2. apply in_combine_r in Hp. exact Hp.
  Qed.

  Lemma combine_weights_nonneg Qw : (forall x, In x Qw -> 0 <= x) ->
    forall p, In p (combine Qw H) -> 0 <= fst p.
  Proof. intros D [q h] Hp. apply D. apply in_combine_l in Hp. exact Hp. Qed.

  (* ---------------- L_low ---------------- *)
  Lemma L_low_true_le_pt lam' h : In h H -> L_low_true H c lam' <= L_pt c h lam'.
  Proof.
    intro Hh. unfold L_low_true. apply vmin_le. apply in_map_iff. exists h. auto.
  Qed.

  Lemma L_low_true_attained lam' : H <> [] -> exists h, In h H /\ L_low_true H c lam' = L_pt c h lam'.
  Proof.
    intro Hne. unfold L_low_true.
    assert (Hm : map (fun h => L_pt c h lam') H <> []) by (destruct H; [congruence|discriminate]).
    apply vmin_in in Hm. apply in_map_iff in Hm. destruct Hm as [h [E Hh]]. exists h. auto.
  Qed.

  (* L_low_is_min, first half: the minimum over the class is below the Lagrangian of EVERY distribution *)
  Theorem L_low_is_min Q' lam' : wf H c = true -> is_dist H Q' = true ->
    L_low_true H c lam' <= L H c Q' lam'.
  Proof.
    intros W D. destruct (is_dist_unpack _ D) as [D1 [D2 D3]].
    rewrite (L_average Q' lam' W D).
    pose proof (wsum_ge (fun h => L_pt c h lam') (L_low_true H c lam') (combine Q' H)
                        (combine_weights_nonneg Q' D2)) as G.
    rewrite wtot_combine, D3 in G by exact D1.
    assert (G' : L_low_true H c lam' * 1 <= wsum (fun h => L_pt c h lam') (combine Q' H)).
    { apply G. intros [q h] Hp. apply L_low_true_le_pt. apply in_combine_r in Hp. exact Hp. }
    lra.
  Qed.

  (* best response: an exact minimiser of `value` over the class *)
  Lemma argmin_from_spec (f : hyp -> Q) r : forall b,
    let a := argmin_from f b r in
    (a = b \/ In a r) /\ f a <= f b /\ forall h, In h r -> f a <= f h.
  Proof.
    induction r as [|x r IH]; intro b; cbn [argmin_from fold_left].
    - split; [auto|]. split; [lra|]. intros h [].
    - fold (argmin_from f (if Qltb (f x) (f b) then x else b) r).
      specialize (IH (if Qltb (f x) (f b) then x else b)). cbv zeta in IH.
      destruct IH as [I1 [I2 I3]].
      destruct (Qltb (f x) (f b)) eqn:E.
      + apply Qltb_true in E. split; [|split].
        * destruct I1 as [->|I1]; [right; left; reflexivity | right; right; exact I1].
        * lra.
        * intros h [<-|Hh]; [exact I2 | apply I3; exact Hh].
      + apply Qltb_false in E. split; [|split].
        * destruct I1 as [->|I1]; [left; reflexivity | right; right; exact I1].
        * exact I2.
        * intros h [<-|Hh]; [lra | apply I3; exact Hh].
  Qed.

  Lemma best_response_in lam : H <> [] -> In (best_response H lam) H.
  Proof.
    unfold best_response. destruct H as [|h0 r]; [congruence|]. intros _.
    destruct (argmin_from_spec (value lam) r h0) as [[->|I] _]; [left; reflexivity | right; exact I].
  Qed.

  Lemma best_response_min lam h : In h H -> value lam (best_response H lam) <= value lam h.
  Proof.
    unfold best_response. destruct H as [|h0 r]; [intros []|].
    destruct (argmin_from_spec (value lam) r h0) as [_ [I2 I3]].
    intros [<-|Hh]; [exact I2 | apply I3; exact Hh].
  Qed.

  (* the loop of eval_gap: the result is below the starting value, and above any lower bound of
     the starting value and of the Lagrangian on the class *)
  Lemma L_low_loop_le prec nu Lv high lam lam' muls : forall cur,
    L_low_loop H c prec nu Lv high lam lam' muls cur <= cur.
  Proof.
    induction muls as [|m rest IH]; intro cur; cbn [L_low_loop]; [lra|].
    set (cand := L_pt c (best_response H (vscale m lam)) lam').
    assert (Hc : (if Qltb cand cur then cand else cur) <= cur).
    { destruct (Qltb cand cur) eqn:E; [apply Qltb_true in E; lra | lra]. }
    destruct (Qltb (nu + prec) _); [exact Hc|].
    specialize (IH (if Qltb cand cur then cand else cur)). lra.
  Qed.

  Lemma L_low_loop_ge prec nu Lv high lam lam' muls lo : H <> [] ->
    (forall h, In h H -> lo <= L_pt c h lam') -> forall cur, lo <= cur ->
    lo <= L_low_loop H c prec nu Lv high lam lam' muls cur.
  Proof.
    intros Hne Hlo. induction muls as [|m rest IH]; intros cur Hcur; cbn [L_low_loop]; [exact Hcur|].
    set (cand := L_pt c (best_response H (vscale m lam)) lam').
    assert (Hcand : lo <= cand) by (apply Hlo; apply best_response_in; exact Hne).
    assert (Hc : lo <= (if Qltb cand cur then cand else cur)) by (destruct (Qltb cand cur); assumption).
    destruct (Qltb (nu + prec) _); [exact Hc|]. apply IH. exact Hc.
  Qed.

  Lemma L_low_loop_le_first prec nu Lv high lam lam' m rest cur :
    L_low_loop H c prec nu Lv high lam lam' (m :: rest) cur
      <= L_pt c (best_response H (vscale m lam)) lam'.
  Proof.
    cbn [L_low_loop].
    set (cand := L_pt c (best_response H (vscale m lam)) lam').
    assert (Hc : (if Qltb cand cur then cand else cur) <= cand).
    { destruct (Qltb cand cur) eqn:E; [lra | apply Qltb_false in E; lra]. }
    destruct (Qltb (nu + prec) _); [exact Hc|].
    pose proof (L_low_loop_le prec nu Lv high lam lam' rest (if Qltb cand cur then cand else cur)). lra.
  Qed.

  (* L_low as computed never goes below the true minimum over the class, nor above L *)
  Theorem L_low_code_ge_true prec nu muls Qw lam lam' : wf H c = true -> is_dist H Qw = true ->
    L_low_true H c lam' <= L_low_code H c B prec nu muls Qw lam lam'.
  Proof.
    intros W D. destruct (wf_unpack W) as [Hne _]. unfold L_low_code.
    apply L_low_loop_ge; [exact Hne | intros h Hh; apply L_low_true_le_pt; exact Hh |].
    apply L_low_is_min; assumption.
  Qed.

  Theorem L_low_code_le_L prec nu muls Qw lam lam' :
    L_low_code H c B prec nu muls Qw lam lam' <= L H c Qw lam'.
  Proof. unfold L_low_code. apply L_low_loop_le. Qed.

  (* when lam and its projection act identically on the class, the best response to 1*lam is an exact
     minimiser of the Lagrangian at lam' *)
  Lemma value_vscale1 lam h : value (vscale 1 lam) h == value lam h.
  Proof. unfold value. rewrite !Qred_correct, rdot_vscale. ring. Qed.

  Lemma compat_unpack lam lam' : compat H lam lam' = true ->
    forall h, In h H -> rdot (gam_h h) lam == rdot lam' (gam_h h).
  Proof.
    unfold compat. intros C h Hh. rewrite forallb_forall in C. apply Qeqb_true. auto.
  Qed.

  Lemma L_pt_value lam lam' h : wf H c = true -> compat H lam lam' = true -> In h H ->
    L_pt c h lam' == value lam h - rdot lam' c.
  Proof.
    intros W C Hh. destruct (wf_unpack W) as [_ W2].
    rewrite L_pt_eq by (apply W2; exact Hh). unfold value.
    rewrite Qred_correct, (compat_unpack _ _ C h Hh). ring.
  Qed.

  Theorem L_low_code_exact prec nu rest Qw lam lam' :
    wf H c = true -> is_dist H Qw = true -> compat H lam lam' = true ->
    L_low_code H c B prec nu (1 :: rest) Qw lam lam' == L_low_true H c lam'.
  Proof.
    intros W D C. destruct (wf_unpack W) as [Hne W2].
    apply Qle_antisym; [|apply L_low_code_ge_true; assumption].
    unfold L_low_code.
    eapply Qle_trans; [apply L_low_loop_le_first|].
    destruct (L_low_true_attained lam' Hne) as [h [Hh E]]. rewrite E.
    set (br := best_response H (vscale 1 lam)).
    assert (Hbr : In br H) by (apply best_response_in; exact Hne).
    rewrite (L_pt_value lam lam' br W C Hbr), (L_pt_value lam lam' h W C Hh).
    pose proof (best_response_min (vscale 1 lam) h Hh) as M. fold br in M.
    rewrite !value_vscale1 in M. lra.
  Qed.

  (* ---------------- L_high ---------------- *)
  Lemma err_le_L_high Qw : 0 <= B -> err H Qw <= L_high H c B Qw.
  Proof.
    intro HB. unfold L_high. cbv zeta.
    destruct (Qltb 0 (max_viol H c Qw)) eqn:E; [|lra].
    apply Qltb_true in E. rewrite Qred_correct. nra.
  Qed.

  Lemma viol_le_L_high Qw v : 0 <= B -> In v (viol H c Qw) ->
    B * v <= L_high H c B Qw - err H Qw.
  Proof.
    intros HB Hv. pose proof (vmax_ge _ _ Hv) as M. fold (max_viol H c Qw) in M.
    unfold L_high. cbv zeta.
    destruct (Qltb 0 (max_viol H c Qw)) eqn:E.
    - rewrite Qred_correct. nra.
    - apply Qltb_false in E. nra.
  Qed.

  (* L_high_is_max: L_high dominates the Lagrangian at every admissible multiplier *)
  Theorem L_high_is_max Qw lam :
    all_nonneg lam = true -> rsum lam <= B -> L H c Qw lam <= L_high H c B Qw.
  Proof.
    intros Hl Hs. pose proof (all_nonneg_In _ Hl) as Hl'.
    pose proof (rsum_nonneg _ Hl') as Hs0.
    pose proof (Qmaxq_l 0 (max_viol H c Qw)) as HM.
    pose proof (Qmaxq_r 0 (max_viol H c Qw)) as HM2.
    assert (Hb : rdot lam (viol H c Qw) <= Qmaxq 0 (max_viol H c Qw) * rsum lam).
    { apply rdot_le_bound; [exact HM | exact Hl' |].
      intros x Hx. pose proof (vmax_ge _ _ Hx) as G. fold (max_viol H c Qw) in G. lra. }
    unfold L. rewrite Qred_correct. unfold L_high. cbv zeta.
    unfold Qmaxq in Hb, HM, HM2.
    destruct (Qltb 0 (max_viol H c Qw)) eqn:E.
    - apply Qltb_true in E. rewrite Qred_correct.
      destruct (Qleb 0 (max_viol H c Qw)) eqn:E2; [|apply Qleb_false in E2; lra]. nra.
    - apply Qltb_false in E.
      destruct (Qleb 0 (max_viol H c Qw)) eqn:E2; nra.
  Qed.

  (* ---------------- the gap ---------------- *)
  Lemma gap_of_parts Lv low high g : gap_of Lv low high <= g -> Lv - low <= g /\ high - Lv <= g.
  Proof.
    unfold gap_of. intro G. pose proof (Qmaxq_l (Lv - low) (high - Lv)).
    pose proof (Qmaxq_r (Lv - low) (high - Lv)). split; lra.
  Qed.

  Lemma gap_of_antimono Lv low low' high : low <= low' -> gap_of Lv low' high <= gap_of Lv low high.
  Proof.
    intro Hl. unfold gap_of. apply Qmaxq_lub.
    - pose proof (Qmaxq_l (Lv - low) (high - Lv)). lra.
    - apply Qmaxq_r.
  Qed.

  (* gap_is_duality_gap: the true gap bounds both saddle-point violations of (Q, lam'):
     no distribution has a smaller Lagrangian at lam' by more than the gap, and no admissible
     multiplier has a larger Lagrangian at Q by more than the gap *)
  Theorem gap_is_duality_gap Qw lam' g :
    wf H c = true -> is_dist H Qw = true -> gap_true H c B Qw lam' <= g ->
    (forall Q', is_dist H Q' = true -> L H c Qw lam' <= L H c Q' lam' + g) /\
    (forall lam, all_nonneg lam = true -> rsum lam <= B -> L H c Qw lam <= L H c Qw lam' + g).
  Proof.
    intros W D G. apply gap_of_parts in G. destruct G as [G1 G2]. split.
    - intros Q' D'. pose proof (L_low_is_min Q' lam' W D'). lra.
    - intros lam Hl Hs. pose proof (L_high_is_max Qw lam Hl Hs). lra.
  Qed.

  (* the gap the code computes is never above the true gap, and equals it for an exact oracle *)
  Theorem gap_code_le_true prec nu muls Qw lam lam' : wf H c = true -> is_dist H Qw = true ->
    gap_code H c B prec nu muls Qw lam lam' <= gap_true H c B Qw lam'.
  Proof.
    intros W D. unfold gap_code, gap_true. apply gap_of_antimono. apply L_low_code_ge_true; assumption.
  Qed.

  Theorem gap_code_ge_true prec nu rest Qw lam lam' :
    wf H c = true -> is_dist H Qw = true -> compat H lam lam' = true ->
    gap_true H c B Qw lam' <= gap_code H c B prec nu (1 :: rest) Qw lam lam'.
  Proof.
    intros W D C. unfold gap_code, gap_true. apply gap_of_antimono.
    rewrite (L_low_code_exact prec nu rest Qw lam lam' W D C). lra.
  Qed.

  Lemma gap_true_nonneg Qw lam' : wf H c = true -> is_dist H Qw = true -> 0 <= gap_true H c B Qw lam'.
  Proof.
    intros W D. pose proof (L_low_is_min Qw lam' W D). unfold gap_true, gap_of.
    pose proof (Qmaxq_l (L H c Qw lam' - L_low_true H c lam') (L_high H c B Qw - L H c Qw lam')). lra.
  Qed.

  (* ---------------- the two guarantees ---------------- *)
  Lemma rdot_nonneg_nonpos lam v :
    (forall x, In x lam -> 0 <= x) -> (forall x, In x v -> x <= 0) -> rdot lam v <= 0.
  Proof.
    intros Hl Hv. pose proof (rdot_le_bound 0 (Qle_refl 0) lam v Hl Hv). lra.
  Qed.

  Lemma L_feasible_le_err Qs lam' : all_nonneg lam' = true -> feasible H c Qs = true ->
    L H c Qs lam' <= err H Qs.
  Proof.
    intros Hl F. unfold L. rewrite Qred_correct.
    pose proof (rdot_nonneg_nonpos lam' (viol H c Qs) (all_nonneg_In _ Hl) (all_le_In _ _ F)). lra.
  Qed.

  Theorem saddle_error_bound Qw Qs lam' g :
    wf H c = true -> is_dist H Qw = true -> is_dist H Qs = true ->
    all_nonneg lam' = true -> 0 <= B ->
    feasible H c Qs = true ->
    gap_true H c B Qw lam' <= g ->
    err H Qw <= err H Qs + 2 * g.
  Proof.
    intros W D Ds Hl HB F G. apply gap_of_parts in G. destruct G as [G1 G2].
    pose proof (L_low_is_min Qs lam' W Ds). pose proof (L_feasible_le_err Qs lam' Hl F).
    pose proof (err_le_L_high Qw HB). lra.
  Qed.

  Theorem saddle_constraint_bound Qw Qs lam' g :
    wf H c = true -> is_dist H Qw = true -> is_dist H Qs = true ->
    all_nonneg lam' = true -> 0 < B ->
    feasible H c Qs = true ->
    0 <= err H Qw -> err H Qs <= 1 ->
    gap_true H c B Qw lam' <= g ->
    forall v, In v (viol H c Qw) -> v <= (1 + 2 * g) / B.
  Proof.
    intros W D Ds Hl HB F He0 He1 G v Hv.
    assert (HB0 : 0 <= B) by lra.
    pose proof (saddle_error_bound Qw Qs lam' g W D Ds Hl HB0 F G) as E.
    apply gap_of_parts in G. destruct G as [G1 G2].
    pose proof (L_low_is_min Qs lam' W Ds). pose proof (L_feasible_le_err Qs lam' Hl F).
    pose proof (viol_le_L_high Qw v HB0 Hv).
    apply Qle_shift_div_l; [exact HB|]. lra.
  Qed.

  (* errors in [0,1] on the class give errors in [0,1] for every distribution *)
  Lemma err_in_unit Qw : (forall h, In h H -> 0 <= err_h h <= 1) -> is_dist H Qw = true ->
    0 <= err H Qw <= 1.
  Proof.
    intros U D. destruct (is_dist_unpack _ D) as [D1 [D2 D3]].
    rewrite err_wsum.
    pose proof (wsum_ge err_h 0 (combine Qw H) (combine_weights_nonneg Qw D2)) as G0.
    pose proof (wsum_le err_h 1 (combine Qw H) (combine_weights_nonneg Qw D2)) as G1.
    rewrite wtot_combine, D3 in G0, G1 by exact D1.
    split.
    - assert (0 * 1 <= wsum err_h (combine Qw H)); [|lra].
      apply G0. intros [q h] Hp. apply U. apply in_combine_r in Hp. exact Hp.
    - assert (wsum err_h (combine Qw H) <= 1 * 1); [|lra].
      apply G1. intros [q h] Hp. apply U. apply in_combine_r in Hp. exact Hp.
  Qed.

  (* the form that applies to the number fit reports: g = the gap the code computes (best_gap_), exact oracle *)
  Theorem saddle_bounds_for_code_gap prec nu rest Qw Qs lam lam' :
    wf H c = true -> is_dist H Qw = true -> is_dist H Qs = true ->
    all_nonneg lam' = true -> 0 < B -> compat H lam lam' = true ->
    feasible H c Qs = true ->
    (forall h, In h H -> 0 <= err_h h <= 1) ->
    let g := gap_code H c B prec nu (1 :: rest) Qw lam lam' in
    err H Qw <= err H Qs + 2 * g /\ forall v, In v (viol H c Qw) -> v <= (1 + 2 * g) / B.
  Proof.
    intros W D Ds Hl HB C F U g.
    pose proof (gap_code_ge_true prec nu rest Qw lam lam' W D C) as G. fold g in G.
    split.
    - apply (saddle_error_bound Qw Qs lam' g); try assumption. lra.
    - apply (saddle_constraint_bound Qw Qs lam' g); try assumption.
      + apply (err_in_unit Qw U D).
      + apply (err_in_unit Qs U Ds).
  Qed.
End Facts.

(* ------------------------------------------------------------------ *)
(* choice of the returned iterate                                      *)
(* ------------------------------------------------------------------ *)
Lemma last_index_le_spec thr l : forall i acc,
  let r := last_index_le thr l i acc in
  (r = acc /\ forall k, (k < length l)%nat -> thr < nth k l 0) \/
  (exists k, r = (i + k)%nat /\ (k < length l)%nat /\ nth k l 0 <= thr /\
             forall k', (k < k' < length l)%nat -> thr < nth k' l 0).
Proof.
  induction l as [|x l IH]; intros i acc; cbn [last_index_le].
  - left. split; [reflexivity|]. intros k Hk. cbn in Hk. lia.
  - specialize (IH (S i) (if Qleb x thr then i else acc)). cbv zeta in IH.
    destruct IH as [[E A]|[k [E [K [V A]]]]].
    + destruct (Qleb x thr) eqn:Ex.
      * right. exists 0%nat. apply Qleb_true in Ex. repeat split; cbn [length nth]; try lia; try exact Ex.
        intros k' Hk'. destruct k' as [|k']; [lia|]. cbn [nth]. apply A. cbn [length] in Hk'. lia.
      * left. split; [exact E|]. intros k Hk. destruct k as [|k]; cbn [nth].
        -- apply Qleb_false in Ex. exact Ex.
        -- apply A. cbn [length] in Hk. lia.
    + right. exists (S k). cbn [length nth]. repeat split; try lia; try exact V.
      intros k' Hk'. destruct k' as [|k']; [lia|]. cbn [nth]. apply A. lia.
Qed.

Lemma In_nth_lt (l : list Q) x : In x l -> exists k, (k < length l)%nat /\ nth k l 0 = x.
Proof. intro Hx. destruct (In_nth l x 0 Hx) as [k [K E]]. exists k. auto. Qed.

(* select_is_min: the iterate handed out is in range, its gap is within the precision of the smallest
   recorded gap, and it is the LAST such iterate *)
Theorem select_is_min prec gaps : gaps <> [] -> 0 <= prec ->
  let s := select prec gaps in
  (s < length gaps)%nat /\
  selected_gap prec gaps <= vmin gaps + prec /\
  (forall x, In x gaps -> selected_gap prec gaps <= x + prec) /\
  (forall j, (s < j < length gaps)%nat -> vmin gaps + prec < nth j gaps 0).
Proof.
  intros Hne Hp. cbv zeta. unfold selected_gap, select.
  destruct (last_index_le_spec (vmin gaps + prec) gaps 0 0) as [[_ A]|[k [E [K [V A]]]]].
  - exfalso. destruct (In_nth_lt gaps (vmin gaps) (vmin_in gaps Hne)) as [k [K E]].
    specialize (A k K). rewrite E in A. lra.
  - cbv zeta in E. rewrite E. cbn [Nat.add]. repeat split; [exact K | exact V | | exact A].
    intros x Hx. pose proof (vmin_le gaps x Hx). lra.
Qed.

(* keep_gap is the smaller of the two candidate gaps *)
Lemma keep_gap_le gEG gLP : keep_gap gEG gLP <= gEG /\ forall g, gLP = Some g -> keep_gap gEG gLP <= g.
Proof.
  unfold keep_gap. destruct gLP as [g|]; [|split; [lra|discriminate]].
  destruct (Qltb gEG g) eqn:E; split; try lra.
  - intros g' [= <-]. apply Qltb_true in E. lra.
  - apply Qltb_false in E. lra.
  - intros g' [= <-]. lra.
Qed.

(* ------------------------------------------------------------------ *)
(* the early stop                                                       *)
(* ------------------------------------------------------------------ *)
Section LoopFacts.
  Variable g : nat -> Q.
  Variable nu : Q.
  Variable min_iter : nat.

  Lemma run_spec fuel : forall t,
    let l := run g nu min_iter fuel t in
    (length l <= fuel)%nat /\ (fuel <> 0%nat -> l <> []) /\
    (forall k, (k < length l)%nat -> nth k l 0 = g (t + k)%nat) /\
    (forall k, (S k < length l)%nat -> stop_now g nu min_iter (t + k) = false) /\
    ((length l < fuel)%nat -> stop_now g nu min_iter (t + (length l - 1)) = true).
  Proof.
    induction fuel as [|f IH]; intro t; cbn [run].
    - cbv zeta. cbn [length]. split; [lia|]. split; [congruence|]. split; [intros k Hk; lia|].
      split; intros; lia.
    - cbv zeta. destruct (stop_now g nu min_iter t) eqn:E.
      + cbn [length]. split; [lia|]. split; [discriminate|]. split; [|split].
        * intros k Hk. assert (k = 0%nat) by lia. subst. cbn [nth]. f_equal. lia.
        * intros k Hk. lia.
        * intros _. replace (t + (1 - 1))%nat with t by lia. exact E.
      + specialize (IH (S t)). cbv zeta in IH. destruct IH as [I1 [I2 [I3 [I4 I5]]]].
        cbn [length]. split; [lia|]. split; [discriminate|]. split; [|split].
        * intros k Hk. destruct k as [|k]; cbn [nth]; [f_equal; lia|].
          rewrite I3 by lia. f_equal. lia.
        * intros k Hk. destruct k as [|k]; [replace (t + 0)%nat with t by lia; exact E|].
          replace (t + S k)%nat with (S t + k)%nat by lia. apply I4. lia.
        * intro Hlt. assert (Hl : (length (run g nu min_iter f (S t)) < f)%nat) by lia.
          specialize (I5 Hl).
          assert (Hpos : (0 < length (run g nu min_iter f (S t)))%nat).
          { destruct f as [|f']; [lia|]. cbn [run length]. lia. }
          replace (t + (S (length (run g nu min_iter f (S t))) - 1))%nat
            with (S t + (length (run g nu min_iter f (S t)) - 1))%nat by lia.
          exact I5.
  Qed.

  (* early_stop_below_nu: if the loop ran fewer than max_iter iterations, then it ran more than
     _MIN_ITER of them and the gap of the iterate handed out is strictly below nu *)
  Theorem early_stop_below_nu prec max_iter : 0 <= prec ->
    let gaps := run g nu min_iter max_iter 0 in
    (length gaps < max_iter)%nat ->
    selected_gap prec gaps < nu /\ (min_iter <= length gaps - 1)%nat.
  Proof.
    intros Hp gaps Hlt.
    destruct (run_spec max_iter 0%nat) as [R1 [R2 [R3 [_ R5]]]]. fold gaps in R1, R2, R3, R5.
    specialize (R5 Hlt). cbn [Nat.add] in R5.
    assert (Hne : gaps <> []) by (apply R2; lia).
    assert (Hpos : (0 < length gaps)%nat) by (destruct gaps; [congruence | cbn; lia]).
    unfold stop_now in R5. apply andb_true_iff in R5. destruct R5 as [S1 S2].
    apply Qltb_true in S1. apply Nat.leb_le in S2. split; [|exact S2].
    destruct (select_is_min prec gaps Hne Hp) as [Q1 [Q2 [_ Q4]]]. cbv zeta in Q1, Q4.
    set (last := (length gaps - 1)%nat) in *.
    assert (Hlast : nth last gaps 0 = g last).
    { rewrite R3 by (unfold last; lia). reflexivity. }
    destruct (Nat.eq_dec (select prec gaps) last) as [E|NE].
    - unfold selected_gap. rewrite E, Hlast. exact S1.
    - assert (Hj : (select prec gaps < last < length gaps)%nat) by (unfold last in *; lia).
      specialize (Q4 last Hj). rewrite Hlast in Q4. lra.
  Qed.
End LoopFacts.

(* ------------------------------------------------------------------ *)
(* weights handed out by the EG branch                                 *)
(* ------------------------------------------------------------------ *)
Lemma rsum_scaled s l : ~ s == 0 -> rsum (map (fun x => Qred (x / s)) l) == rsum l / s.
Proof.
  intro Hs. induction l as [|x l IH]; cbn [map].
  - cbn. field. exact Hs.
  - rewrite !rsum_cons, IH, Qred_correct. field. exact Hs.
Qed.

Theorem weights_probability counts :
  (forall x, In x counts -> 0 <= x) -> 0 < rsum counts ->
  (forall x, In x (eg_weights counts) -> 0 <= x) /\ rsum (eg_weights counts) == 1.
Proof.
  intros Hc Hs. unfold eg_weights. split.
  - intros x Hx. apply in_map_iff in Hx. destruct Hx as [y [<- Hy]]. rewrite Qred_correct.
    apply Qle_shift_div_l; [exact Hs|]. specialize (Hc y Hy). lra.
  - rewrite rsum_scaled by lra. field. lra.
Qed.

(* ------------------------------------------------------------------ *)
(* project_lambda for ratio = 1                                        *)
(* ------------------------------------------------------------------ *)
Lemma clip0_nonneg x : 0 <= clip0 x.
Proof. unfold clip0. destruct (Qltb x 0) eqn:E; [lra | apply Qltb_false in E; exact E]. Qed.

Lemma clip0_diff d : clip0 d - clip0 (- d) == d.
Proof.
  unfold clip0. destruct (Qltb d 0) eqn:E1; destruct (Qltb (- d) 0) eqn:E2;
    try apply Qltb_true in E1; try apply Qltb_true in E2;
    try apply Qltb_false in E1; try apply Qltb_false in E2; lra.
Qed.

Lemma clip0_abs_le d x y : d == x - y -> 0 <= x -> 0 <= y -> clip0 d + clip0 (- d) <= x + y.
Proof.
  intros Hd Hx Hy. unfold clip0. destruct (Qltb d 0) eqn:E1; destruct (Qltb (- d) 0) eqn:E2;
    try apply Qltb_true in E1; try apply Qltb_true in E2;
    try apply Qltb_false in E1; try apply Qltb_false in E2; lra.
Qed.

Lemma rdot_app a : forall c b d, length a = length c ->
  rdot (a ++ b) (c ++ d) == rdot a c + rdot b d.
Proof.
  induction a as [|x a IH]; intros [|y c] b d E; cbn [length] in E; try discriminate.
  - cbn [app rdot]. ring.
  - cbn [app]. rewrite !rdot_cons, IH by lia. ring.
Qed.

Lemma rsum_app a b : rsum (a ++ b) == rsum a + rsum b.
Proof.
  induction a as [|x a IH]; cbn [app]; [cbn [rsum]; ring|].
  rewrite !rsum_cons, IH. ring.
Qed.

Lemma firstn_length_app {A} (p n : list A) : firstn (length p) (p ++ n) = p.
Proof. induction p as [|x p IH]; cbn; [destruct n; reflexivity | rewrite IH; reflexivity]. Qed.
Lemma skipn_length_app {A} (p n : list A) : skipn (length p) (p ++ n) = n.
Proof. induction p as [|x p IH]; cbn; [reflexivity | exact IH]. Qed.

Lemma div2_double_len k : Nat.div2 (k + k) = k.
Proof. replace (k + k)%nat with (2 * k)%nat by lia. apply Nat.div2_double. Qed.

Lemma project_r1_split p n : length p = length n ->
  project_r1 (p ++ n) = map clip0 (vsub p n) ++ map (fun x => clip0 (- x)) (vsub p n).
Proof.
  intro E. unfold project_r1. cbv zeta. rewrite app_length, <- E, div2_double_len.
  rewrite firstn_length_app, skipn_length_app. reflexivity.
Qed.

Lemma project_core p : forall n gp gn,
  length p = length n -> length gp = length p -> length gn = length p ->
  (forall pr, In pr (combine gp gn) -> snd pr == - fst pr) ->
  rdot (map clip0 (vsub p n)) gp + rdot (map (fun x => clip0 (- x)) (vsub p n)) gn
    == rdot p gp + rdot n gn.
Proof.
  induction p as [|x p IH]; intros [|y n] [|a gp] [|b gn] E1 E2 E3 Hg; cbn [length] in *; try discriminate.
  - cbn. ring.
  - rewrite vsub_cons. cbn [map]. rewrite !rdot_cons.
    assert (Hb : b == - a) by (apply (Hg (a, b)); left; reflexivity).
    assert (IH' : rdot (map clip0 (vsub p n)) gp + rdot (map (fun z => clip0 (- z)) (vsub p n)) gn
                  == rdot p gp + rdot n gn).
    { apply IH; try lia. intros pr Hpr. apply Hg. right. exact Hpr. }
    pose proof (clip0_diff (Qred (x - y))) as Hc. rewrite (Qred_correct (x - y)) in Hc at 3.
    assert (K : (clip0 (Qred (x - y)) - clip0 (- Qred (x - y))) * a == (x - y) * a)
      by (rewrite Hc; reflexivity).
    rewrite Hb. lra.
Qed.

(* the projected multiplier acts on every antisymmetric gamma exactly as the original one *)
Theorem project_r1_keeps_gamma p n gp gn :
  length p = length n -> length gp = length p -> length gn = length p ->
  (forall pr, In pr (combine gp gn) -> snd pr == - fst pr) ->
  rdot (project_r1 (p ++ n)) (gp ++ gn) == rdot (p ++ n) (gp ++ gn).
Proof.
  intros E1 E2 E3 Hg. rewrite project_r1_split by exact E1.
  rewrite !rdot_app.
  - apply project_core; assumption.
  - lia.
  - rewrite map_length, length_vsub by exact E1. lia.
Qed.

Lemma antisym_unpack g : antisym g = true ->
  let m := Nat.div2 (length g) in
  length g = (m + m)%nat /\ g = firstn m g ++ skipn m g /\
  length (firstn m g) = m /\ length (skipn m g) = m /\
  forall pr, In pr (combine (firstn m g) (skipn m g)) -> snd pr == - fst pr.
Proof.
  unfold antisym. cbv zeta. intro A. apply andb_true_iff in A. destruct A as [A1 A2].
  apply Nat.eqb_eq in A1.
  assert (E : length g = (Nat.div2 (length g) + Nat.div2 (length g))%nat) by lia.
  split; [exact E|]. split; [symmetry; apply firstn_skipn|].
  split; [rewrite firstn_length; lia|]. split; [rewrite skipn_length; lia|].
  intros pr Hpr. rewrite forallb_forall in A2. apply Qeqb_true. apply A2. exact Hpr.
Qed.

Theorem project_r1_compat lam g : length lam = length g -> antisym g = true ->
  rdot (project_r1 lam) g == rdot lam g.
Proof.
  intros El A. destruct (antisym_unpack g A) as [G1 [G2 [G3 [G4 G5]]]]. cbv zeta in *.
  set (m := Nat.div2 (length g)) in *.
  pose proof (firstn_skipn m lam) as L2.
  assert (L3 : length (firstn m lam) = m) by (rewrite firstn_length; lia).
  assert (L4 : length (skipn m lam) = m) by (rewrite skipn_length; lia).
  remember (firstn m lam) as p. remember (skipn m lam) as n.
  remember (firstn m g) as gp. remember (skipn m g) as gn.
  rewrite <- L2, G2. apply project_r1_keeps_gamma; try lia. exact G5.
Qed.

Theorem compat_of_antisym H lam :
  (forall h, In h H -> antisym (gam_h h) = true /\ length (gam_h h) = length lam) ->
  compat H lam (project_r1 lam) = true.
Proof.
  intro A. unfold compat. apply forallb_forall. intros h Hh. apply Qeqb_true.
  destruct (A h Hh) as [A1 A2].
  rewrite (rdot_comm (gam_h h) lam). symmetry. apply project_r1_compat; [symmetry; exact A2 | exact A1].
Qed.

Theorem project_r1_nonneg lam : all_nonneg (project_r1 lam) = true.
Proof.
  unfold all_nonneg. apply forallb_forall. intros x Hx. apply Qleb_true.
  unfold project_r1 in Hx. cbv zeta in Hx. apply in_app_or in Hx.
  destruct Hx as [Hx|Hx]; apply in_map_iff in Hx; destruct Hx as [y [<- _]]; apply clip0_nonneg.
Qed.

Lemma project_norm_core p : forall n, length p = length n ->
  (forall x, In x p -> 0 <= x) -> (forall x, In x n -> 0 <= x) ->
  rsum (map clip0 (vsub p n)) + rsum (map (fun x => clip0 (- x)) (vsub p n)) <= rsum p + rsum n.
Proof.
  induction p as [|x p IH]; intros [|y n] E Hp Hn; cbn [length] in E; try discriminate E.
  - cbn [vsub combine map rsum]. lra.
  - rewrite vsub_cons. cbn [map]. rewrite !rsum_cons.
    assert (IH' : rsum (map clip0 (vsub p n)) + rsum (map (fun z => clip0 (- z)) (vsub p n))
                  <= rsum p + rsum n).
    { apply IH; [lia | intros z Hz; apply Hp; right; exact Hz | intros z Hz; apply Hn; right; exact Hz]. }
    pose proof (clip0_abs_le (Qred (x - y)) x y (Qred_correct (x - y))
                             (Hp x (or_introl eq_refl)) (Hn y (or_introl eq_refl))). lra.
Qed.

(* the projection does not increase the norm: sum lam' <= sum lam <= B *)
Theorem project_r1_norm lam : length lam = (2 * Nat.div2 (length lam))%nat ->
  all_nonneg lam = true -> rsum (project_r1 lam) <= rsum lam.
Proof.
  intros E Hl. pose proof (all_nonneg_In _ Hl) as Hl'.
  set (m := Nat.div2 (length lam)) in *.
  pose proof (firstn_skipn m lam) as L2.
  assert (L3 : length (firstn m lam) = m) by (rewrite firstn_length; lia).
  assert (L4 : length (skipn m lam) = m) by (rewrite skipn_length; lia).
  assert (Hp : forall x, In x (firstn m lam) -> 0 <= x).
  { intros x Hx. apply Hl'. rewrite <- L2. apply in_or_app. left. exact Hx. }
  assert (Hn : forall x, In x (skipn m lam) -> 0 <= x).
  { intros x Hx. apply Hl'. rewrite <- L2. apply in_or_app. right. exact Hx. }
  remember (firstn m lam) as p. remember (skipn m lam) as n.
  rewrite <- L2. rewrite project_r1_split by lia. rewrite !rsum_app.
  apply project_norm_core; [lia | exact Hp | exact Hn].
Qed.
