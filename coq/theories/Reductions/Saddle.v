(* C08 -- the saddle-point certificate of ExponentiatedGradient.
   Abstract, self-contained model of
     fairlearn/reductions/_exponentiated_gradient/_lagrangian.py
        _Lagrangian._eval, eval_gap, best_h (exact oracle), _GapResult.gap
     fairlearn/reductions/_exponentiated_gradient/exponentiated_gradient.py
        the choice of the returned iterate and the early-stop rule of fit
     fairlearn/reductions/_moments/utility_parity.py  project_lambda
   A finite hypothesis class is a list of records (err_h, gam_h): the error and the
   constraint vector gamma(h) of each hypothesis as NUMBERS.  A randomised classifier is
   a weight list over the class.  The multiplicative-weights update (uses exp) is not
   modelled: every statement is about whatever iterate was produced.
   Proof-free: lemmas and theorems are in Saddle_proofs.v. *)
From Coq Require Import QArith ZArith List Bool.
From FL Require Import Num.
Import ListNotations.
Open Scope Q_scope.

Record hyp : Type := mkHyp { err_h : Q; gam_h : list Q }.

(* ---------- small vector helpers ---------- *)
(* Qred only normalises the representation (Qred q == q); without it the denominators of the exact
   images of the implementation's floats multiply up and evaluation takes minutes *)
Definition vadd (a b : list Q) : list Q := map (fun p => Qred (fst p + snd p)) (combine a b).
Definition vsub (a b : list Q) : list Q := map (fun p => Qred (fst p - snd p)) (combine a b).
Definition vscale (k : Q) (a : list Q) : list Q := map (fun x => Qred (k * x)) a.

Fixpoint rdot (a b : list Q) : Q :=
  match a, b with
  | x :: a', y :: b' => Qred (x * y + rdot a' b')
  | _, _ => 0
  end.

Fixpoint rsum (l : list Q) : Q :=
  match l with [] => 0 | x :: r => Qred (x + rsum r) end.
Definition zeros (m : nat) : list Q := repeat 0 m.

Definition all_nonneg (l : list Q) : bool := forallb (Qleb 0) l.
Definition all_le (l : list Q) (b : Q) : bool := forallb (fun x => Qleb x b) l.

(* max / min of a non-empty list (0 on the empty list; every use is guarded) *)
Definition vmax (l : list Q) : Q := match l with [] => 0 | x :: r => qmax_list x r end.
Definition vmin (l : list Q) : Q := match l with [] => 0 | x :: r => qmin_list x r end.

(* constants of the source (regenerated into FLGen.Gen_egconst and compared in props/C08.v) *)
Definition std_precision : Q := 1 # 100000000.          (* _PRECISION = 1e-8 *)
Definition std_min_iter : nat := 5%nat.                  (* _MIN_ITER *)
Definition std_muls : list Q := [1; 2; 5; 10].           (* for mul in [1.0, 2.0, 5.0, 10.0] *)

Section Saddle.
  Variable H : list hyp.        (* the enumerated hypothesis class *)
  Variable c : list Q.          (* constraints.bound() *)
  Variable B : Q.               (* 1 / eps *)

  (* every gamma vector has one entry per constraint; the class is non-empty *)
  Definition wf : bool :=
    negb (Nat.eqb (length H) 0) && forallb (fun h => Nat.eqb (length (gam_h h)) (length c)) H.

  (* Q is a probability vector over the class *)
  Definition is_dist (Qw : list Q) : bool :=
    Nat.eqb (length Qw) (length H) && all_nonneg Qw && Qeqb (rsum Qw) 1.

  (* ----- _eval, for a weight vector: error = errors[Q.index].dot(Q), gamma = gammas[Q.index].dot(Q) *)
  Definition err (Qw : list Q) : Q := rdot Qw (map err_h H).

  Definition gammaQ (Qw : list Q) : list Q :=
    fold_right (fun p acc => vadd (vscale (fst p) (gam_h (snd p))) acc)
               (zeros (length c)) (combine Qw H).

  Definition viol (Qw : list Q) : list Q := vsub (gammaQ Qw) c.      (* gamma - bound() *)

  (* L = error + np.sum(lambda_vec * (gamma - bound)) *)
  Definition L (Qw lam : list Q) : Q := Qred (err Qw + rdot lam (viol Qw)).

  Definition max_viol (Qw : list Q) : Q := vmax (viol Qw).           (* (gamma - bound).max() *)

  (* L_high = error; if max_constraint > 0: L_high += B * max_constraint *)
  Definition L_high (Qw : list Q) : Q :=
    let mv := max_viol Qw in
    if Qltb 0 mv then Qred (err Qw + B * mv) else err Qw.

  (* _eval(pd.Series({h_idx: 1.0}), lam): the Lagrangian of one hypothesis *)
  Definition L_pt (h : hyp) (lam : list Q) : Q := Qred (err_h h + rdot lam (vsub (gam_h h) c)).

  (* ----- best_h with an exact oracle: arg-min over the class of h_error + h_gamma.dot(lambda_vec) *)
  Definition value (lam : list Q) (h : hyp) : Q := Qred (err_h h + rdot (gam_h h) lam).

  Definition argmin_from (f : hyp -> Q) (h0 : hyp) (r : list hyp) : hyp :=
    fold_left (fun b h => if Qltb (f h) (f b) then h else b) r h0.

  Definition best_response (lam : list Q) : hyp :=
    match H with
    | [] => mkHyp 0 []
    | h0 :: r => argmin_from (value lam) h0 r
    end.

  (* ----- _GapResult.gap *)
  Definition gap_of (Lv low high : Q) : Q := Qmaxq (Lv - low) (high - Lv).

  (* ----- eval_gap: result.L_low starts at L; for mul in muls: candidate = L of the best response to
     mul * lambda_hat, evaluated at lambda_hat (projected inside _eval: lam' is the projected vector);
     keep the smaller; `if result.gap() > nu + _PRECISION: break` *)
  Fixpoint L_low_loop (prec nu Lv high : Q) (lam lam' : list Q) (muls : list Q) (cur : Q) : Q :=
    match muls with
    | [] => cur
    | m :: rest =>
        let cand := L_pt (best_response (vscale m lam)) lam' in
        let cur' := if Qltb cand cur then cand else cur in
        if Qltb (nu + prec) (gap_of Lv cur' high) then cur'
        else L_low_loop prec nu Lv high lam lam' rest cur'
    end.

  Definition L_low_code (prec nu : Q) (muls : list Q) (Qw lam lam' : list Q) : Q :=
    L_low_loop prec nu (L Qw lam') (L_high Qw) lam lam' muls (L Qw lam').

  Definition gap_code (prec nu : Q) (muls : list Q) (Qw lam lam' : list Q) : Q :=
    gap_of (L Qw lam') (L_low_code prec nu muls Qw lam lam') (L_high Qw).

  (* ----- the specification side: the true minimum of the Lagrangian over the class at lam' *)
  Definition L_low_true (lam' : list Q) : Q := vmin (map (fun h => L_pt h lam') H).

  Definition gap_true (Qw lam' : list Q) : Q :=
    gap_of (L Qw lam') (L_low_true lam') (L_high Qw).

  (* lam and its projection act identically on every gamma of the class (so a best response to lam
     is a best response to lam'); decidable, evaluated on every correspondence case *)
  Definition compat (lam lam' : list Q) : bool :=
    forallb (fun h => Qeqb (rdot (gam_h h) lam) (rdot lam' (gam_h h))) H.

  (* Q* meets every constraint *)
  Definition feasible (Qs : list Q) : bool := all_le (viol Qs) 0.
End Saddle.

(* ---------- UtilityParity.project_lambda for ratio = 1: the vector is the "+" block followed by the
   "-" block; lambda_pos = lam+ - lam-, lambda_neg = -lambda_pos, negatives clipped to 0 ---------- *)
Definition clip0 (x : Q) : Q := if Qltb x 0 then 0 else x.

Definition project_r1 (lam : list Q) : list Q :=
  let m := Nat.div2 (length lam) in
  let p := firstn m lam in
  let n := skipn m lam in
  let lpos := vsub p n in
  map clip0 lpos ++ map (fun x => clip0 (- x)) lpos.

Definition project (ratio_is_one : bool) (lam : list Q) : list Q :=
  if ratio_is_one then project_r1 lam else lam.

(* gamma of a ratio = 1 parity moment: the "-" block is the negated "+" block *)
Definition antisym (g : list Q) : bool :=
  let m := Nat.div2 (length g) in
  Nat.eqb (length g) (2 * m) &&
  forallb (fun p => Qeqb (snd p) (- fst p)) (combine (firstn m g) (skipn m g)).

(* ---------- choice of the returned iterate in fit:
   gaps_best = gaps_series[gaps_series <= gaps_series.min() + _PRECISION]; best_iter_ = gaps_best.index[-1] *)
Fixpoint last_index_le (thr : Q) (l : list Q) (i acc : nat) : nat :=
  match l with
  | [] => acc
  | x :: r => last_index_le thr r (S i) (if Qleb x thr then i else acc)
  end.

Definition select (prec : Q) (gaps : list Q) : nat :=
  last_index_le (vmin gaps + prec) gaps 0 0.

Definition selected_gap (prec : Q) (gaps : list Q) : Q := nth (select prec gaps) gaps 0.

(* keep values from exponentiated gradient or linear programming: `if gap_EG < gap_LP` (None = inf) *)
Definition keep_gap (gap_EG : Q) (gap_LP : option Q) : Q :=
  match gap_LP with
  | None => gap_EG
  | Some g => if Qltb gap_EG g then gap_EG else g
  end.

(* ---------- control flow of the loop of fit: iteration t records gaps[t] (whatever its value) and
   breaks when gaps[t] < nu and t >= _MIN_ITER; at most max_iter iterations ---------- *)
Section Loop.
  Variable g : nat -> Q.       (* the gap recorded at iteration t of this run *)
  Variable nu : Q.
  Variable min_iter : nat.

  Definition stop_now (t : nat) : bool := Qltb (g t) nu && Nat.leb min_iter t.

  Fixpoint run (fuel t : nat) : list Q :=
    match fuel with
    | O => []
    | S f => g t :: (if stop_now t then [] else run f (S t))
    end.
End Loop.

(* Q_EG = Qsum / Qsum.sum() *)
Definition eg_weights (counts : list Q) : list Q := map (fun x => Qred (x / rsum counts)) counts.

(* _pmf_predict, positive column: pred[weights_.index].dot(weights_); preds: one row of outputs per example *)
Definition pmf_pos (Qw : list Q) (rows : list (list Q)) : list Q := map (fun r => rdot r Qw) rows.

(* ---------- everything the correspondence run reads, for one (Q, lambda_hat) ---------- *)
Record report : Type := mkReport {
  r_wf : bool; r_dist : bool; r_lam_ok : bool; r_compat : bool;
  r_err : Q; r_maxviol : Q; r_L : Q; r_Lhigh : Q; r_Llow_code : Q; r_Llow_true : Q;
  r_gap_code : Q; r_gap_true : Q; r_proj : list Q }.

Definition evaluate (H : list hyp) (c : list Q) (B : Q) (ratio_is_one : bool) (nu : Q)
           (Qw lam : list Q) : report :=
  let lam' := project ratio_is_one lam in
  mkReport (wf H c) (is_dist H Qw)
           (all_nonneg lam' && Qleb (rsum lam') B && Nat.eqb (length lam') (length c))
           (compat H lam lam')
           (err H Qw) (max_viol H c Qw) (L H c Qw lam') (L_high H c B Qw)
           (L_low_code H c B std_precision nu std_muls Qw lam lam') (L_low_true H c lam')
           (gap_code H c B std_precision nu std_muls Qw lam lam') (gap_true H c B Qw lam')
           lam'.
