(* Bridge between the constraint moments (Moments.v, C06) and the disaggregated metrics
   (BaseRates.v C14 / Fairness.v C03): the objects the last clause of C06 talks about --
   "for r = 1 the '+' entries coincide with MetricFrame by_group - overall of the matching rate".
   Definitions only (proof-free, evaluated by the correspondence run through MomentsIO.run_bridge);
   the theorems are in MomentBridge_proofs.v.

   Moments.row and BaseRates.row are different records, so the metric side is NOT imported:
   its names are written qualified. *)
From Coq Require Import QArith ZArith List Bool.
From FL Require Import Num ListX Moments.
From FL Require BaseRates Fairness.
Import ListNotations.
Open Scope Q_scope.

(* ---------- guards ---------- *)

(* labels after enforce_binary_labels *)
Definition binary_labels (rows : list row) : Prop :=
  Forall (fun rw => ry rw = 0%Z \/ ry rw = 1%Z) rows.
(* a hard classifier: h(X) in {0,1} *)
Definition hard (h : list Q) : Prop := Forall (fun x => x == 0 \/ x == 1) h.
(* every row carries the control value c (c = None: no control features) *)
Definition single_stratum (c : option Z) (rows : list row) : Prop :=
  Forall (fun rw => rc rw = c) rows.

(* ---------- the MetricFrame side ---------- *)

(* the y_pred column handed to MetricFrame: the hard prediction as a label code *)
Definition hardz (h : list Q) : list Z := map (fun x => if Qeqb x 1 then 1%Z else 0%Z) h.

(* the rate whose disparity the moment `k` measures on the event with base code `bv`
   (0 = "label=0", 1 = "label=1", 2 = "all"); None = the moment has no such event *)
Definition matching_metric (k : kind) (bv : Z) : option Fairness.base :=
  match k with
  | DP => if (bv =? all_code)%Z then Some Fairness.BSel else None
  | TPR => if (bv =? 1)%Z then Some Fairness.BTpr else None
  | FPR => if (bv =? 0)%Z then Some Fairness.BFpr else None
  | EO => if (bv =? 1)%Z then Some Fairness.BTpr
          else if (bv =? 0)%Z then Some Fairness.BFpr else None
  | ERP => if (bv =? all_code)%Z then Some Fairness.BZol else None
  end.

(* MetricFrame(metrics=b, y_true=y, y_pred=h(X), sensitive_features=g), unit weights: C03's model *)
Definition mf_of (b : Fairness.base) (rows : list row) (h : list Q) : option Fairness.frame :=
  Fairness.metric_frame b (map ry rows) (hardz h) (map rg rows) None.

(* by_group[g]: the cells are in the order of the sorted distinct group codes *)
Definition frame_at (sf : list Z) (f : Fairness.frame) (g : Z) : option ext :=
  zassoc g (combine (zuniq sf) (Fairness.fr_cells f)).

(* by_group[g] - overall *)
Definition mf_gap (b : Fairness.base) (rows : list row) (h : list Q) (g : Z) : option ext :=
  match mf_of b rows h with
  | None => None
  | Some f =>
      match frame_at (map rg rows) f g with
      | None => None
      | Some q => Some (ext_sub q (Fairness.fr_overall f))
      end
  end.

(* the first-principles rate each base metric is proved to equal (BaseRates_proofs / Fairness_proofs) *)
Definition spec_of (b : Fairness.base) : list BaseRates.row -> Q :=
  match b with
  | Fairness.BSel => BaseRates.sel_spec 1
  | Fairness.BTpr => BaseRates.tpr_spec 1
  | Fairness.BTnr => BaseRates.tnr_spec 1
  | Fairness.BFpr => BaseRates.fpr_spec 1
  | Fairness.BFnr => BaseRates.fnr_spec 1
  | Fairness.BAcc => Fairness.acc_spec
  | Fairness.BZol => Fairness.zol_spec
  end.

(* the rows MetricFrame sees: (y_true, y_pred, weight 1) *)
Definition mk (t : row * Z) : BaseRates.row := BaseRates.mkrow (ry (fst t)) (snd t) 1.
Definition metric_rows (rows : list row) (h : list Q) : list BaseRates.row :=
  map mk (combine rows (hardz h)).
Definition metric_rows_of (g : Z) (rows : list row) (h : list Q) : list BaseRates.row :=
  map mk (filter (fun t => in_group g (fst t)) (combine rows (hardz h))).

(* ---------- control features: MetricFrame(..., control_features=c) reports one block per control level ---------- *)

(* the rows / predictions of control stratum c (Moments_proofs.restrict_rows / restrict_vec, restated here
   so that the correspondence run does not depend on a proofs file; equal by reflexivity) *)
Definition stratum_rows (c : option Z) (rows : list row) : list row :=
  filter (fun rw => oz_eqb (rc rw) c) rows.
Definition stratum_vec (c : option Z) (rows : list row) (h : list Q) : list Q :=
  map snd (filter (fun t => oz_eqb (rc (fst t)) c) (combine rows h)).

(* what the index entry j of moment k is compared with: by_group[c, g] - overall[c] of the matching rate *)
Definition bridge_entry (k : kind) (rows : list row) (h : list Q) (j : idx) : option ext :=
  let '(_, ((c, bv), g)) := j in
  match matching_metric k bv with
  | None => None
  | Some b => mf_gap b (stratum_rows c rows) (stratum_vec c rows h) g
  end.

(* ---------- ErrorRate with costs (the objective of the reductions) ---------- *)

(* ErrorRate.__init__ cost validation, as the code chains it: costs = None -> (1, 1); otherwise
   isinstance(dict) and keys == {"fp","fn"} (`keys_ok`) and fp >= 0 and fn >= 0 and fp + fn > 0;
   None = ValueError *)
Definition er_config (costs : option (bool * Q * Q)) : option (Q * Q) :=
  match costs with
  | None => Some (1, 1)
  | Some (keys_ok, fp, fn) =>
      if keys_ok && Qleb 0 fp && Qleb 0 fn && Qltb 0 (fp + fn)
      then Some (fp, fn) else None
  end.

(* ---------- MeanLoss = ConditionalLossMoment(no_groups=True) ---------- *)

(* sf_train = y_train.apply(lambda v: _ALL): every row in the single group "all" (code 0 here) *)
Definition no_groups (rows : list lrow) : list lrow := map (fun rw => (fst rw, 0%Z)) rows.
Definition mean_loss_index (rows : list lrow) : list Z := bgl_index (no_groups rows).
Definition mean_loss_gamma (l : loss) (rows : list lrow) (h : list Q) : list Q :=
  bgl_gamma l (no_groups rows) h.
