(* Model of the reduction step (C07): signed_weights of the three moment families,
   UtilityParity.project_lambda, and the relabel / reweight lines of _Lagrangian._call_oracle
   and GridSearch.fit.  Proof-free; theorems are in Reduction_proofs.v. *)
From Coq Require Import QArith ZArith List Bool.
From FL Require Import Num ListX Moments.
Import ListNotations.
Open Scope Q_scope.

(* U.dot(lambda_vec): linear combination of the columns of U *)
Fixpoint lincomb (n : nat) (cols : list (list Q)) (lam : list Q) : list Q :=
  match cols, lam with
  | c :: cs, l :: ls => vadd (map (Qmult l) c) (lincomb n cs ls)
  | _, _ => repeat 0 n
  end.

(* UtilityParity.signed_weights: utility_diff * U.dot(lambda_vec) *)
Definition signed_weights (k : kind) (r : Q) (rows : list row) (lam : list Q) : list Q :=
  vmul (map (udiff k) rows) (lincomb (length rows) (Umat k r rows) lam).

(* ErrorRate.signed_weights(): -fp + (fp + fn) * label ; with a multiplier: lambda[all] * weights *)
Definition er_signed_weights (fp fn : Q) (rows : list row) : list Q :=
  map (fun rw => - fp + (fp + fn) * inject_Z (ry rw)) rows.
Definition er_signed_weights_lam (fp fn : Q) (rows : list row) (l : Q) : list Q :=
  map (Qmult l) (er_signed_weights fp fn rows).

(* ConditionalLossMoment.signed_weights: adjust = lambda / prob_attr ; row -> adjust[group] *)
Definition bgl_signed_weights (rows : list lrow) (lam : list Q) : list Q :=
  let adjust := combine (bgl_index rows) (zipw Qdiv lam (prob_attr rows)) in
  map (fun rw => match zassoc (snd rw) adjust with Some a => a | None => 0 end) rows.

(* UtilityParity.project_lambda; lam is aligned with index = '+' block ++ '-' block *)
Definition max0 (x : Q) : Q := if Qltb x 0 then 0 else x.

Definition project_lambda (r : Q) (m : nat) (lam : list Q) : list Q :=
  if Qeqb r 1 then
    let lp := firstn m lam in
    let lm := skipn m lam in
    let lambda_pos := vsub lp lm in
    let lambda_neg := map Qopp lambda_pos in
    map max0 lambda_pos ++ map max0 lambda_neg
  else lam.

(* ---------- the oracle call ---------- *)

(* self.obj.signed_weights() + self.constraints.signed_weights(lambda_vec) *)
Definition oracle_weights (k : kind) (r fp fn : Q) (rows : list row) (lam : list Q) : list Q :=
  vadd (er_signed_weights fp fn rows) (signed_weights k r rows lam).

(* redY = 1 * (signed_weights > 0) *)
Definition relabel (w : list Q) : list Q := map (fun x => if Qltb 0 x then 1 else 0) w.
(* GridSearch: weights.abs() *)
Definition reweight (w : list Q) : list Q := map qabs w.
(* _call_oracle: n * |w| / sum |w|  (NaN when every weight is 0: None) *)
Definition reweight_eg (w : list Q) : option (list Q) :=
  let a := map qabs w in
  let s := qsum a in
  if Qeqb s 0 then None else Some (map (fun x => inject_nat (length w) * x / s) a).

(* weighted 0/1 error of hard predictions h against labels yy with weights ww *)
Definition w01 (ww yy h : list Q) : Q :=
  qsum (zipw (fun w yh => w * (if Qeqb (fst yh) (snd yh) then 0 else 1)) ww (combine yy h)).

(* the Lagrangian pieces *)
Definition lam_gamma (k : kind) (r : Q) (rows : list row) (lam h : list Q) : Q :=
  dot lam (gamma k r rows h).

Definition lagrangian (k : kind) (r eps fp fn : Q) (rows : list row) (lam h : list Q) : Q :=
  er_gamma fp fn rows h + dot lam (vsub (gamma k r rows h) (bound eps k rows)).
