(* Expression trees for the pure statements of CorrelationRemover.fit / .transform (C15).
   translators/t_corr.py regenerates such trees from /repo (coq/gen/Gen_corr.v); props/C15.v states that
   their value IS the model's fit_split / transform_split.  Proof-free. *)
From Coq Require Import QArith List.
From FL Require Import Num CorrRemover.
Import ListNotations.
Open Scope Q_scope.

Inductive ex : Type :=
| XUse | XSens                 (* X_use, X_sensitive = self._split_X(X) *)
| SelfMean | SelfBeta | Alpha  (* self.sensitive_mean_, self.beta_, self.alpha *)
| Const (q : Q)                (* numeric literal *)
| EmptyRow                     (* np.array([]) *)
| MeanAxis0 (e : ex)           (* e.mean(axis=0): one mean per column *)
| MeanAll (e : ex)             (* e.mean(): ONE scalar over all entries (the e03cf38 defect) *)
| Sub (a b : ex) | Add (a b : ex) | Mul (a b : ex)     (* numpy broadcasting *)
| Dot (a b : ex)               (* a.dot(b) / np.dot(a, b) / a @ b *)
| Atleast2d (e : ex)           (* np.atleast_2d(e): identity on a matrix *)
| IfNoCols (c a b : ex)        (* a if c.shape[1] == 0 else b *)
| Lstsq (a b : ex).            (* np.linalg.lstsq(a, b, rcond=None)[0] *)

Inductive val : Type :=
| VS (q : Q)                          (* scalar *)
| VR (r : list Q)                     (* 1-d array: one entry per column *)
| VM (M : mat)                        (* n x m array, by columns *)
| VB (b : list vec)                   (* coefficient array, by rows (layout of beta_) *)
| VP (C : mat) (b : list vec).        (* product C . b, not yet materialised *)

Record env := { e_use : mat; e_sens : mat; e_mean : list Q; e_beta : list vec; e_alpha : Q }.

Definition no_cols (M : mat) : bool := match M with [] => true | _ => false end.

Fixpoint eval (E : env) (e : ex) : option val :=
  match e with
  | XUse => Some (VM (e_use E))
  | XSens => Some (VM (e_sens E))
  | SelfMean => Some (VR (e_mean E))
  | SelfBeta => Some (VB (e_beta E))
  | Alpha => Some (VS (e_alpha E))
  | Const q => Some (VS q)
  | EmptyRow => Some (VR [])
  | MeanAxis0 a => match eval E a with Some (VM M) => Some (VR (map mean M)) | _ => None end
  | MeanAll a => match eval E a with Some (VM M) => Some (VS (mean_all M)) | _ => None end
  | Sub a b =>
      match eval E a, eval E b with
      | Some (VM M), Some (VR r) => Some (VM (shift_cols r M))          (* row broadcast over the rows *)
      | Some (VM M), Some (VS s) => Some (VM (map (vshift s) M))        (* scalar broadcast *)
      | Some (VM M), Some (VP C b) =>
          Some (VM (mapi_from (fun j x => vsub x (lincomb (bcol j b) C x)) 0 M))
      | Some (VM A), Some (VM B) => Some (VM (msub A B))
      | Some (VS x), Some (VS y) => Some (VS (x - y))
      | _, _ => None
      end
  | Add a b =>
      match eval E a, eval E b with
      | Some (VM A), Some (VM B) => Some (VM (mmap2 vadd A B))
      | Some (VS x), Some (VS y) => Some (VS (x + y))
      | _, _ => None
      end
  | Mul a b =>
      match eval E a, eval E b with
      | Some (VS s), Some (VM M) => Some (VM (map (vscale s) M))
      | Some (VM M), Some (VS s) => Some (VM (map (vscale s) M))
      | Some (VS x), Some (VS y) => Some (VS (x * y))
      | _, _ => None
      end
  | Dot a b => match eval E a, eval E b with Some (VM C), Some (VB b) => Some (VP C b) | _, _ => None end
  | Atleast2d a => match eval E a with Some (VM M) => Some (VM M) | _ => None end
  | IfNoCols c a b => match eval E c with
                      | Some (VM M) => if no_cols M then eval E a else eval E b
                      | _ => None
                      end
  | Lstsq a b => match eval E a, eval E b with
                 | Some (VM A), Some (VM B) => match solve_beta A B with Some s => Some (VB s) | None => None end
                 | _, _ => None
                 end
  end.

(* fit: the two attributes it stores, from the expressions assigned to them *)
Definition eval_fit (Xuse Xs : mat) (mean_e beta_e : ex) : option fitted :=
  let E := {| e_use := Xuse; e_sens := Xs; e_mean := []; e_beta := []; e_alpha := 0 |} in
  match eval E mean_e, eval E beta_e with
  | Some (VR m), Some (VB b) => Some {| f_mean := m; f_beta := b |}
  | _, _ => None
  end.

(* transform: the returned expression *)
Definition eval_transform (f : fitted) (alpha : Q) (Xuse Xs : mat) (ret_e : ex) : option mat :=
  let E := {| e_use := Xuse; e_sens := Xs; e_mean := f_mean f; e_beta := f_beta f; e_alpha := alpha |} in
  match eval E ret_e with Some (VM M) => Some M | _ => None end.

(* what the model says the source is *)
Definition model_mean_ex : ex := IfNoCols XSens EmptyRow (MeanAxis0 XSens).
Definition model_centre_ex : ex := Sub XSens model_mean_ex.
Definition model_beta_ex : ex := Lstsq model_centre_ex XUse.
Definition model_filtered_ex : ex := Sub XUse (Dot (Sub XSens SelfMean) SelfBeta).
Definition model_return_ex : ex :=
  Add (Mul Alpha (Atleast2d model_filtered_ex)) (Mul (Sub (Const 1) Alpha) (Atleast2d XUse)).
