(* C20 -- proofs about the validation model (Validate.v).
   Strategy: characterise acceptance of every decision function exactly (Accept <-> the input is
   well formed); every "defect => rejected" theorem is then a corollary, and the converse
   direction gives valid_accepted ("reject everything" is not a model of the code). *)
From Coq Require Import ZArith QArith List Bool Lia Arith.
From FL Require Import Num Validate.
Import ListNotations.
Open Scope Z_scope.

Definition rejects (v : verdict) : Prop := exists k, v = Reject k.

Lemma rejects_iff v : rejects v <-> v <> Accept.
Proof.
  split.
  - intros [k Hk] H. rewrite Hk in H. discriminate.
  - destruct v as [|k]; [intros H; contradiction H; reflexivity | intros _; exists k; reflexivity].
Qed.

Lemma andthen_accept a b : andthen a b = Accept <-> a = Accept /\ b = Accept.
Proof.
  destruct a as [|k]; cbn; split.
  - intros H; split; [reflexivity | exact H].
  - intros [_ H]; exact H.
  - discriminate.
  - intros [H _]; discriminate.
Qed.

Lemma check_accept ok k : check ok k = Accept <-> ok = true.
Proof. destruct ok; cbn; split; intros H; try reflexivity; discriminate. Qed.

Lemma check_reject ok k : ok = false -> check ok k = Reject k.
Proof. intros ->. reflexivity. Qed.

Lemma not_accept_rejects v : (v = Accept -> False) -> rejects v.
Proof. intros H. apply rejects_iff. exact H. Qed.

(* ------------------------------------------------------------------ *)
(* shared validation                                                   *)
(* ------------------------------------------------------------------ *)

Definition is_binary (v : Z) : Prop := v = 0 \/ v = 1.

Lemma binary_spec v : binary v = true <-> is_binary v.
Proof.
  unfold binary, is_binary. rewrite orb_true_iff, !Z.eqb_eq. reflexivity.
Qed.

Definition wf_input (expect_sf enforce_binary : bool) (d : data) : Prop :=
  exists ys, d_y d = Some ys /\ ys <> [] /\
    (enforce_binary = true -> Forall is_binary ys) /\
    d_x d <> O /\ length ys = d_x d /\
    match d_sf d with Some s => length s = d_x d | None => expect_sf = false end /\
    match d_cf d with Some c => length c = d_x d | None => True end.

Lemma length_zero_nil {A} (l : list A) : Nat.eqb (length l) 0 = false <-> l <> [].
Proof.
  destruct l; cbn; split; intros H; try discriminate; try reflexivity.
  contradiction H; reflexivity.
Qed.

Lemma forallb_binary ys : forallb binary ys = true <-> Forall is_binary ys.
Proof.
  rewrite forallb_forall, Forall_forall. split; intros H x Hx; apply binary_spec, H, Hx.
Qed.

Theorem validate_input_accept_iff es eb d :
  validate_input es eb d = Accept <-> wf_input es eb d.
Proof.
  unfold validate_input, wf_input.
  destruct (d_y d) as [ys|].
  2:{ split; [discriminate | intros [ys [H _]]; discriminate]. }
  rewrite !andthen_accept, !check_accept.
  rewrite negb_true_iff, length_zero_nil, negb_true_iff, Nat.eqb_neq, Nat.eqb_eq.
  split.
  - intros (H1 & H2 & H3 & H4 & H5 & H6).
    exists ys. split; [reflexivity|]. split; [exact H1|].
    split.
    { intros ->. cbn in H2. apply forallb_binary. exact H2. }
    split; [exact H3|]. split; [exact H4|]. split.
    + destruct (d_sf d) as [s|].
      * apply check_accept, Nat.eqb_eq in H5. exact H5.
      * apply check_accept, negb_true_iff in H5. exact H5.
    + destruct (d_cf d) as [c|]; [|exact I].
      cbn in H6. apply check_accept, Nat.eqb_eq in H6. exact H6.
  - intros (ys' & E & H1 & H2 & H3 & H4 & H5 & H6). inversion E; subst ys'.
    split; [exact H1|]. split.
    { destruct eb; cbn; [|reflexivity]. apply forallb_binary, H2. reflexivity. }
    split; [exact H3|]. split; [exact H4|]. split.
    + destruct (d_sf d) as [s|]; apply check_accept.
      * apply Nat.eqb_eq. exact H5.
      * rewrite H5. reflexivity.
    + destruct (d_cf d) as [c|]; cbn; [|reflexivity].
      apply check_accept, Nat.eqb_eq. exact H6.
Qed.

(* lengths of the arguments that are given *)
Definition olen (o : option (list Z)) : list nat :=
  match o with Some l => [length l] | None => [] end.

Definition arg_lengths (d : data) : list nat :=
  d_x d :: olen (d_y d) ++ olen (d_sf d) ++ olen (d_cf d).

Lemma input_accept_lengths es eb d :
  validate_input es eb d = Accept -> forall a, In a (arg_lengths d) -> a = d_x d.
Proof.
  intros H a Ha. apply validate_input_accept_iff in H.
  destruct H as (ys & E & _ & _ & _ & H4 & H5 & H6).
  unfold arg_lengths in Ha. rewrite E in Ha. cbn in Ha.
  destruct Ha as [Ha|[Ha|Ha]]; [symmetry; exact Ha | subst a; exact H4 |].
  apply in_app_or in Ha. destruct Ha as [Ha|Ha].
  - destruct (d_sf d) as [s|]; cbn in Ha; [|contradiction].
    destruct Ha as [Ha|[]]. subst a. exact H5.
  - destruct (d_cf d) as [c|]; cbn in Ha; [|contradiction].
    destruct Ha as [Ha|[]]. subst a. exact H6.
Qed.

Theorem input_length_mismatch_rejected es eb d a b :
  In a (arg_lengths d) -> In b (arg_lengths d) -> a <> b -> rejects (validate_input es eb d).
Proof.
  intros Ha Hb Hab. apply not_accept_rejects. intros H.
  pose proof (input_accept_lengths _ _ _ H a Ha).
  pose proof (input_accept_lengths _ _ _ H b Hb). congruence.
Qed.

(* an offending label at ANY position *)
Lemma nonbinary_at_position ys i :
  (i < length ys)%nat -> ~ is_binary (nth i ys 0) -> ~ Forall is_binary ys.
Proof.
  revert i. induction ys as [|y r IH]; intros i Hi Hn HF.
  - cbn in Hi. lia.
  - inversion HF as [|? ? Hy Hr]; subst. destruct i as [|i].
    + cbn in Hn. contradiction.
    + cbn in Hi, Hn. apply (IH i); [lia | exact Hn | exact Hr].
Qed.

Theorem input_nonbinary_rejected es d ys i :
  d_y d = Some ys -> (i < length ys)%nat -> nth i ys 0 <> 0 -> nth i ys 0 <> 1 ->
  validate_input es true d = Reject KNonBinary \/ validate_input es true d = Reject KEmptyY.
Proof.
  intros E Hi H0 H1. unfold validate_input. rewrite E.
  destruct ys as [|y r]; [cbn in Hi; lia|]. left. cbn [length Nat.eqb negb check andthen].
  assert (Hf : forallb binary (y :: r) = false).
  { destruct (forallb binary (y :: r)) eqn:Ef; [|reflexivity].
    apply forallb_binary in Ef. exfalso.
    apply (nonbinary_at_position (y :: r) i Hi); [|exact Ef].
    intros [A|A]; contradiction. }
  rewrite Hf. reflexivity.
Qed.

Theorem input_missing_sensitive_rejected eb d :
  d_sf d = None -> rejects (validate_input true eb d).
Proof.
  intros E. apply not_accept_rejects. intros H. apply validate_input_accept_iff in H.
  destruct H as (ys & _ & _ & _ & _ & _ & H5 & _). rewrite E in H5. discriminate.
Qed.

(* ------------------------------------------------------------------ *)
(* moments                                                             *)
(* ------------------------------------------------------------------ *)

Lemma load_accept_input m d :
  validate_load m d = Accept -> validate_input true (is_classification m) d = Accept.
Proof.
  unfold validate_load. destruct (d_cf d); [destruct (takes_control m)|]; intros H;
    try exact H; discriminate.
Qed.

Lemma load_accept_iff m d :
  validate_load m d = Accept <->
  wf_input true (is_classification m) d /\ (d_cf d <> None -> takes_control m = true).
Proof.
  unfold validate_load. destruct (d_cf d) as [c|] eqn:E.
  - destruct (takes_control m) eqn:Et.
    + rewrite validate_input_accept_iff. split; [intros H; split; [exact H | reflexivity] | intros [H _]; exact H].
    + split; [discriminate | intros [_ H]]. assert (Some c <> None) as N by discriminate.
      apply H in N. discriminate.
  - rewrite validate_input_accept_iff. split; [intros H; split; [exact H|] | intros [H _]; exact H].
    intros N. contradiction N. reflexivity.
Qed.

Lemma load_default_objective m d : validate_load (default_objective m) d = validate_load m d.
Proof. destruct m; reflexivity. Qed.

Theorem load_length_mismatch_rejected m d a b :
  In a (arg_lengths d) -> In b (arg_lengths d) -> a <> b -> rejects (validate_load m d).
Proof.
  intros Ha Hb Hab. apply not_accept_rejects. intros H. apply load_accept_input in H.
  destruct (input_length_mismatch_rejected true (is_classification m) d a b Ha Hb Hab) as [k Hk].
  congruence.
Qed.

Theorem load_nonbinary_rejected m d ys i :
  is_classification m = true -> d_y d = Some ys -> (i < length ys)%nat ->
  nth i ys 0 <> 0 -> nth i ys 0 <> 1 -> rejects (validate_load m d).
Proof.
  intros Hm E Hi H0 H1. apply not_accept_rejects. intros H. apply load_accept_input in H.
  rewrite Hm in H.
  destruct (input_nonbinary_rejected true d ys i E Hi H0 H1) as [A|A]; congruence.
Qed.

Theorem load_missing_sensitive_rejected m d : d_sf d = None -> rejects (validate_load m d).
Proof.
  intros E. apply not_accept_rejects. intros H. apply load_accept_input in H.
  destruct (input_missing_sensitive_rejected (is_classification m) d E) as [k Hk]. congruence.
Qed.

(* Q comparisons *)
Lemma Qleb_spec a b : Qleb a b = true <-> (a <= b)%Q.
Proof. unfold Qleb. apply Qle_bool_iff. Qed.

Lemma Qltb_spec a b : Qltb a b = true <-> (a < b)%Q.
Proof.
  unfold Qltb. rewrite negb_true_iff. split.
  - intros H. apply Qnot_le_lt. intros L. apply Qle_bool_iff in L. congruence.
  - intros H. destruct (Qle_bool b a) eqn:E; [|reflexivity].
    apply Qle_bool_iff in E. exfalso. exact (Qlt_not_le _ _ H E).
Qed.

Lemma ratio_in_range_spec r :
  ratio_in_range r = true <-> exists q, r = Fin q /\ (0 < q)%Q /\ (q <= 1)%Q.
Proof.
  unfold ratio_in_range. destruct r as [q| | |]; cbn.
  - rewrite andb_true_iff, Qltb_spec, Qleb_spec. split.
    + intros [A B]. exists q. auto.
    + intros (q' & E & A & B). inversion E; subst. auto.
  - split; [discriminate | intros (q & E & _); discriminate].
  - split; [discriminate | intros (q & E & _); discriminate].
  - split; [discriminate | intros (q & E & _); discriminate].
Qed.

Theorem bounds_accept_iff b :
  validate_bounds b = Accept <->
  ratio_bound b = None \/
  (difference_bound b = None /\ exists q, ratio_bound b = Some (Fin q) /\ (0 < q)%Q /\ (q <= 1)%Q).
Proof.
  unfold validate_bounds. destruct (difference_bound b) as [x|], (ratio_bound b) as [r|].
  - split; [discriminate | intros [H|[H _]]; discriminate].
  - split; [left; reflexivity | reflexivity].
  - rewrite check_accept, ratio_in_range_spec. split.
    + intros (q & E & A & B). right. split; [reflexivity|]. exists q. subst r. auto.
    + intros [H|[_ (q & E & A & B)]]; [discriminate|]. inversion E. exists q. auto.
  - split; [left; reflexivity | reflexivity].
Qed.

Theorem both_bounds_rejected b x y :
  difference_bound b = Some x -> ratio_bound b = Some y -> validate_bounds b = Reject KBothBounds.
Proof. intros E1 E2. unfold validate_bounds. rewrite E1, E2. reflexivity. Qed.

Theorem ratio_out_of_range_rejected b r :
  ratio_bound b = Some r -> (forall q, r = Fin q -> ~ ((0 < q)%Q /\ (q <= 1)%Q)) ->
  rejects (validate_bounds b).
Proof.
  intros E H. apply not_accept_rejects. intros A. apply bounds_accept_iff in A.
  destruct A as [A|[_ (q & A & B & C)]]; [congruence|].
  rewrite E in A. inversion A. apply (H q); auto.
Qed.

(* costs *)
Lemma ext_leb0_fin q : ext_leb (Fin 0) (Fin q) = true <-> (0 <= q)%Q.
Proof. cbn. apply Qleb_spec. Qed.

Theorem costs_accept_iff items :
  validate_costs (CostsDict items) = Accept <->
  length items = 2%nat /\ exists fp fn, lookup key_fp items = Some fp /\ lookup key_fn items = Some fn /\
    ext_leb (Fin 0) fp = true /\ ext_leb (Fin 0) fn = true /\ ext_ltb (Fin 0) (ext_add fp fn) = true.
Proof.
  cbn [validate_costs]. rewrite check_accept. unfold costs_ok, keys_ok.
  destruct (lookup key_fp items) as [fp|], (lookup key_fn items) as [fn|];
    rewrite ?andb_false_r; try (split; [discriminate | intros (_ & a & c & E1 & E2 & _); discriminate]).
  rewrite !andb_true_iff, Nat.eqb_eq. split.
  - intros [[L _] [[A B] C]]. split; [exact L|]. exists fp, fn. auto.
  - intros (L & a & c & E1 & E2 & A & B & C). inversion E1; inversion E2; subst. auto.
Qed.

Theorem costs_wrong_keys_rejected items :
  length items <> 2%nat \/ lookup key_fp items = None \/ lookup key_fn items = None ->
  validate_costs (CostsDict items) = Reject KBadCosts.
Proof.
  intros H. cbn [validate_costs]. apply check_reject.
  destruct (costs_ok items) eqn:E; [|reflexivity]. exfalso.
  assert (A : validate_costs (CostsDict items) = Accept) by (cbn; rewrite E; reflexivity).
  apply costs_accept_iff in A. destruct A as (L & fp & fn & E1 & E2 & _).
  destruct H as [H|[H|H]]; congruence.
Qed.

Theorem costs_negative_rejected items k q :
  k = key_fp \/ k = key_fn -> lookup k items = Some (Fin q) -> (q < 0)%Q ->
  validate_costs (CostsDict items) = Reject KBadCosts.
Proof.
  intros Hk El Hq. cbn [validate_costs]. apply check_reject.
  destruct (costs_ok items) eqn:E; [|reflexivity]. exfalso.
  assert (A : validate_costs (CostsDict items) = Accept) by (cbn; rewrite E; reflexivity).
  apply costs_accept_iff in A. destruct A as (L & fp & fn & E1 & E2 & A & B & _).
  destruct Hk as [-> | ->].
  - rewrite El in E1. inversion E1; subst. apply ext_leb0_fin in A. exact (Qlt_not_le _ _ Hq A).
  - rewrite El in E2. inversion E2; subst. apply ext_leb0_fin in B. exact (Qlt_not_le _ _ Hq B).
Qed.

Theorem costs_both_zero_rejected items a b :
  lookup key_fp items = Some (Fin a) -> lookup key_fn items = Some (Fin b) -> (a == 0)%Q -> (b == 0)%Q ->
  validate_costs (CostsDict items) = Reject KBadCosts.
Proof.
  intros E1 E2 Ha Hb. cbn [validate_costs]. apply check_reject.
  destruct (costs_ok items) eqn:E; [|reflexivity]. exfalso.
  assert (A : validate_costs (CostsDict items) = Accept) by (cbn; rewrite E; reflexivity).
  apply costs_accept_iff in A. destruct A as (L & fp & fn & F1 & F2 & _ & _ & C).
  rewrite E1 in F1. rewrite E2 in F2. inversion F1; inversion F2; subst.
  cbn in C. apply Qltb_spec in C. rewrite Ha, Hb in C. apply (Qlt_irrefl 0). exact C.
Qed.

Theorem costs_nan_rejected items k :
  k = key_fp \/ k = key_fn -> lookup k items = Some NaN ->
  validate_costs (CostsDict items) = Reject KBadCosts.
Proof.
  intros Hk El. cbn [validate_costs]. apply check_reject.
  destruct (costs_ok items) eqn:E; [|reflexivity]. exfalso.
  assert (A : validate_costs (CostsDict items) = Accept) by (cbn; rewrite E; reflexivity).
  apply costs_accept_iff in A. destruct A as (L & fp & fn & E1 & E2 & A & B & _).
  destruct Hk as [-> | ->].
  - rewrite El in E1. inversion E1; subst. discriminate.
  - rewrite El in E2. inversion E2; subst. destruct fp; discriminate.
Qed.

(* ------------------------------------------------------------------ *)
(* reductions                                                          *)
(* ------------------------------------------------------------------ *)

Lemma weight_in_range_spec w :
  weight_in_range w = true <-> exists q, w = Fin q /\ (0 <= q)%Q /\ (q <= 1)%Q.
Proof.
  unfold weight_in_range. destruct w as [q| | |]; cbn.
  - rewrite andb_true_iff, !Qleb_spec. split.
    + intros [A B]. exists q. auto.
    + intros (q' & E & A & B). inversion E; subst. auto.
  - split; [discriminate | intros (q & E & _); discriminate].
  - split; [discriminate | intros (q & E & _); discriminate].
  - split; [discriminate | intros (q & E & _); discriminate].
Qed.

Lemma reduction_fit_accept_load r :
  validate_reduction_fit r = Accept ->
  exists m, r_constraints r = Some m /\ validate_load m (r_data r) = Accept.
Proof.
  unfold validate_reduction_fit. destruct (r_constraints r) as [m|]; [|discriminate].
  intros H. apply andthen_accept in H. exists m. split; [reflexivity | apply H].
Qed.

Lemma reduction_accept_fit r : validate_reduction r = Accept -> validate_reduction_fit r = Accept.
Proof. unfold validate_reduction. intros H. apply andthen_accept in H. apply H. Qed.

Theorem reduction_length_mismatch_rejected r a b :
  In a (arg_lengths (r_data r)) -> In b (arg_lengths (r_data r)) -> a <> b ->
  rejects (validate_reduction_fit r) /\ rejects (validate_reduction r).
Proof.
  intros Ha Hb Hab.
  assert (F : rejects (validate_reduction_fit r)).
  { apply not_accept_rejects. intros H. apply reduction_fit_accept_load in H.
    destruct H as (m & _ & H).
    destruct (load_length_mismatch_rejected m _ a b Ha Hb Hab) as [k Hk]. congruence. }
  split; [exact F|]. apply not_accept_rejects. intros H. apply reduction_accept_fit in H.
  destruct F as [k Hk]. congruence.
Qed.

Theorem reduction_nonbinary_rejected r m ys i :
  r_constraints r = Some m -> is_classification m = true ->
  d_y (r_data r) = Some ys -> (i < length ys)%nat -> nth i ys 0 <> 0 -> nth i ys 0 <> 1 ->
  rejects (validate_reduction_fit r) /\ rejects (validate_reduction r).
Proof.
  intros Em Hm E Hi H0 H1.
  assert (F : rejects (validate_reduction_fit r)).
  { apply not_accept_rejects. intros H. apply reduction_fit_accept_load in H.
    destruct H as (m' & Em' & H). rewrite Em in Em'. inversion Em'; subst m'.
    destruct (load_nonbinary_rejected m _ ys i Hm E Hi H0 H1) as [k Hk]. congruence. }
  split; [exact F|]. apply not_accept_rejects. intros H. apply reduction_accept_fit in H.
  destruct F as [k Hk]. congruence.
Qed.

Theorem reduction_missing_sensitive_rejected r :
  d_sf (r_data r) = None -> rejects (validate_reduction_fit r) /\ rejects (validate_reduction r).
Proof.
  intros E.
  assert (F : rejects (validate_reduction_fit r)).
  { apply not_accept_rejects. intros H. apply reduction_fit_accept_load in H.
    destruct H as (m & _ & H).
    destruct (load_missing_sensitive_rejected m _ E) as [k Hk]. congruence. }
  split; [exact F|]. apply not_accept_rejects. intros H. apply reduction_accept_fit in H.
  destruct F as [k Hk]. congruence.
Qed.

Theorem reduction_missing_y_rejected r :
  d_y (r_data r) = None \/ d_y (r_data r) = Some [] ->
  rejects (validate_reduction_fit r) /\ rejects (validate_reduction r).
Proof.
  intros E.
  assert (F : rejects (validate_reduction_fit r)).
  { apply not_accept_rejects. intros H. apply reduction_fit_accept_load in H.
    destruct H as (m & _ & H). apply load_accept_input, validate_input_accept_iff in H.
    destruct H as (ys & Ey & Hn & _). destruct E as [E|E]; rewrite E in Ey; [discriminate|].
    inversion Ey; subst. contradiction Hn; reflexivity. }
  split; [exact F|]. apply not_accept_rejects. intros H. apply reduction_accept_fit in H.
  destruct F as [k Hk]. congruence.
Qed.

Theorem constraint_weight_rejected r :
  r_est r = GridSearch -> (forall q, r_cw r = Fin q -> ~ ((0 <= q)%Q /\ (q <= 1)%Q)) ->
  rejects (validate_gs_ctor r) /\ rejects (validate_reduction r).
Proof.
  intros Eg H.
  assert (F : rejects (validate_gs_ctor r)).
  { apply not_accept_rejects. unfold validate_gs_ctor.
    destruct (r_constraints r); [|discriminate]. destruct (r_rule_ok r); [|discriminate].
    intros A. apply check_accept, weight_in_range_spec in A. destruct A as (q & E & A & B).
    apply (H q E). auto. }
  split; [exact F|]. apply not_accept_rejects. unfold validate_reduction. rewrite Eg.
  intros A. apply andthen_accept in A. destruct F as [k Hk]. destruct A as [A _]. congruence.
Qed.

Theorem reduction_valid_accepted r m :
  r_constraints r = Some m -> r_objective r = None ->
  (r_est r = GridSearch -> r_rule_ok r = true /\ exists q, r_cw r = Fin q /\ (0 <= q)%Q /\ (q <= 1)%Q) ->
  wf_input true (is_classification m) (r_data r) ->
  (d_cf (r_data r) <> None -> takes_control m = true) ->
  validate_reduction r = Accept.
Proof.
  intros Em Eo Hg Hw Hc.
  assert (L : validate_load m (r_data r) = Accept) by (apply load_accept_iff; split; assumption).
  unfold validate_reduction. apply andthen_accept. split.
  - destruct (r_est r) eqn:Ee; [reflexivity|]. destruct (Hg eq_refl) as [Hr Hq].
    unfold validate_gs_ctor. rewrite Em, Hr. apply check_accept, weight_in_range_spec. exact Hq.
  - unfold validate_reduction_fit. rewrite Em, Eo. apply andthen_accept. split; [exact L|].
    destruct (r_est r); rewrite load_default_objective; exact L.
Qed.

(* ------------------------------------------------------------------ *)
(* ThresholdOptimizer                                                  *)
(* ------------------------------------------------------------------ *)

Lemma str_eqb_eq a b : str_eqb a b = true <-> a = b.
Proof.
  revert b. induction a as [|x a IH]; intros [|y b]; cbn; split; intros H;
    try reflexivity; try discriminate.
  - apply andb_true_iff in H. destruct H as [H1 H2]. apply Z.eqb_eq in H1. apply IH in H2. congruence.
  - inversion H; subst. apply andb_true_iff. split; [apply Z.eqb_refl | apply IH; reflexivity].
Qed.

Lemma smem_spec s l : smem s l = true <-> exists x, s = Some x /\ In x l.
Proof.
  destruct s as [x|]; cbn.
  - rewrite existsb_exists. split.
    + intros (y & Hy & E). apply str_eqb_eq in E. subst y. exists x. auto.
    + intros (y & E & Hy). inversion E as [E']. subst y. exists x. split; [exact Hy | apply str_eqb_eq; reflexivity].
  - split; [discriminate | intros (x & E & _); discriminate].
Qed.

(* the combination is in the tables, read the way the if / elif chain reads them *)
Definition supported (T : tables) (c o : option str) : Prop :=
  exists cs os, c = Some cs /\ o = Some os /\
    ((In cs (t_simple T) /\ In os (t_obj_simple T)) \/
     (~ In cs (t_simple T) /\ cs = t_eo T /\ In os (t_obj_eo T))).

Lemma smem_false s l : smem s l = false <-> forall x, s = Some x -> ~ In x l.
Proof.
  split.
  - intros H x E Hin. assert (smem s l = true) by (apply smem_spec; exists x; auto). congruence.
  - intros H. destruct (smem s l) eqn:E; [|reflexivity]. apply smem_spec in E.
    destruct E as (x & E & Hin). exfalso. exact (H x E Hin).
Qed.

Theorem check_combo_accept_iff T c o : check_combo T c o = Accept <-> supported T c o.
Proof.
  unfold check_combo, supported.
  destruct (smem c (t_simple T)) eqn:Es.
  - rewrite check_accept, smem_spec. apply smem_spec in Es. destruct Es as (cs & Ec & Hc). split.
    + intros (os & Eo & Ho). exists cs, os. auto.
    + intros (cs' & os & Ec' & Eo & [[_ Ho]|[Hn _]]).
      * exists os. auto.
      * exfalso. apply Hn. congruence.
  - destruct (seq_opt c (t_eo T)) eqn:Ee.
    + rewrite check_accept, smem_spec. destruct c as [cs|]; [|discriminate]. cbn in Ee.
      apply str_eqb_eq in Ee. split.
      * intros (os & Eo & Ho). exists cs, os. split; [reflexivity|]. split; [exact Eo|]. right.
        split; [|auto]. apply (proj1 (smem_false _ _) Es). reflexivity.
      * intros (cs' & os & Ec' & Eo & [[Hc _]|[_ [_ Ho]]]).
        -- exfalso. inversion Ec'; subst cs'. exact (proj1 (smem_false _ _) Es cs eq_refl Hc).
        -- exists os. auto.
    + split; [discriminate|]. intros (cs & os & Ec & Eo & [[Hc _]|[_ [He _]]]).
      * exfalso. exact (proj1 (smem_false _ _) Es cs Ec Hc).
      * subst c. cbn in Ee. rewrite He in Ee. assert (str_eqb (t_eo T) (t_eo T) = true) by (apply str_eqb_eq; reflexivity).
        congruence.
Qed.

Lemma check_combo_kinds T c o :
  check_combo T c o = Accept \/ check_combo T c o = Reject KConstraint \/ check_combo T c o = Reject KObjective.
Proof.
  unfold check_combo. destruct (smem c (t_simple T)).
  - destruct (smem o (t_obj_simple T)); cbn; auto.
  - destruct (seq_opt c (t_eo T)); [destruct (smem o (t_obj_eo T)); cbn; auto | auto].
Qed.

(* groups *)
Lemma zinsert'_In x y l : In y (zinsert' x l) <-> y = x \/ In y l.
Proof.
  induction l as [|z r IH]; cbn.
  - split; [intros [H|[]]; auto | intros [H|[]]; auto].
  - destruct (x <? z) eqn:E1; [cbn; split; intros H; intuition|].
    destruct (x =? z) eqn:E2.
    + apply Z.eqb_eq in E2. subst z. cbn. split; intros H; intuition.
    + cbn. rewrite IH. split; intros H; intuition.
Qed.

Lemma groups_In g s : In g (groups s) <-> In g s.
Proof.
  induction s as [|x r IH]; cbn; [reflexivity|].
  rewrite zinsert'_In, IH. split; intros [H|H]; auto.
Qed.

Definition has_label (s ys : list Z) (g l : Z) : Prop :=
  exists i, nth_error s i = Some g /\ nth_error ys i = Some l.

Lemma combine_nth_error {A B} (s : list A) (t : list B) i a b :
  nth_error (combine s t) i = Some (a, b) <-> nth_error s i = Some a /\ nth_error t i = Some b.
Proof.
  revert t i. induction s as [|x s IH]; intros [|y t] [|i]; cbn; split; intros H;
    try discriminate; try (destruct H; discriminate).
  - inversion H; auto.
  - destruct H as [H1 H2]. inversion H1; inversion H2; reflexivity.
  - apply IH. exact H.
  - apply IH. exact H.
Qed.

Lemma group_has_spec s ys g l : group_has s ys g l = true <-> has_label s ys g l.
Proof.
  unfold group_has, has_label. rewrite existsb_exists. split.
  - intros ([a b] & Hin & E). cbn in E. apply andb_true_iff in E. destruct E as [E1 E2].
    apply Z.eqb_eq in E1, E2. subst. apply In_nth_error in Hin. destruct Hin as [i Hi].
    exists i. apply combine_nth_error. exact Hi.
  - intros (i & H1 & H2). exists (g, l). split.
    + apply (nth_error_In _ i). apply combine_nth_error. auto.
    + cbn. rewrite !Z.eqb_refl. reflexivity.
Qed.

Lemma groups_ok_spec d s ys :
  d_sf d = Some s -> d_y d = Some ys ->
  (groups_ok d = true <-> forall g, In g s -> has_label s ys g 0 /\ has_label s ys g 1).
Proof.
  intros Es Ey. unfold groups_ok. rewrite Es, Ey. rewrite forallb_forall. split.
  - intros H g Hg. apply (proj2 (groups_In g s)) in Hg. apply H in Hg. unfold group_ok in Hg.
    apply andb_true_iff in Hg. rewrite !group_has_spec in Hg. exact Hg.
  - intros H g Hg. apply (proj1 (groups_In g s)) in Hg. apply H in Hg. unfold group_ok.
    apply andb_true_iff. rewrite !group_has_spec. exact Hg.
Qed.

Theorem to_accept_iff T i :
  validate_threshold_optimizer T i = Accept <->
  to_estimator i = true /\ supported T (to_constraints i) (to_objective i) /\
  d_cf (to_data i) = None /\ wf_input true true (to_data i) /\ groups_ok (to_data i) = true.
Proof.
  unfold validate_threshold_optimizer.
  rewrite !andthen_accept, !check_accept, check_combo_accept_iff, validate_input_accept_iff.
  split.
  - intros (A & B & C & D & E). repeat split; try assumption.
    destruct (d_cf (to_data i)); [discriminate | reflexivity].
  - intros (A & B & C & D & E). repeat split; try assumption. rewrite C. reflexivity.
Qed.

Theorem to_length_mismatch_rejected T i a b :
  In a (arg_lengths (to_data i)) -> In b (arg_lengths (to_data i)) -> a <> b ->
  rejects (validate_threshold_optimizer T i).
Proof.
  intros Ha Hb Hab. apply not_accept_rejects. intros H. apply to_accept_iff in H.
  destruct H as (_ & _ & _ & H & _). apply validate_input_accept_iff in H.
  destruct (input_length_mismatch_rejected true true _ a b Ha Hb Hab) as [k Hk]. congruence.
Qed.

Theorem to_nonbinary_rejected T i ys n :
  d_y (to_data i) = Some ys -> (n < length ys)%nat -> nth n ys 0 <> 0 -> nth n ys 0 <> 1 ->
  rejects (validate_threshold_optimizer T i).
Proof.
  intros E Hn H0 H1. apply not_accept_rejects. intros H. apply to_accept_iff in H.
  destruct H as (_ & _ & _ & H & _). apply validate_input_accept_iff in H.
  destruct (input_nonbinary_rejected true _ ys n E Hn H0 H1) as [A|A]; congruence.
Qed.

Theorem to_missing_sensitive_rejected T i :
  d_sf (to_data i) = None -> rejects (validate_threshold_optimizer T i).
Proof.
  intros E. apply not_accept_rejects. intros H. apply to_accept_iff in H.
  destruct H as (_ & _ & _ & H & _). apply validate_input_accept_iff in H.
  destruct (input_missing_sensitive_rejected true _ E) as [k Hk]. congruence.
Qed.

Theorem to_control_features_rejected T i c :
  d_cf (to_data i) = Some c -> rejects (validate_threshold_optimizer T i).
Proof.
  intros E. apply not_accept_rejects. intros H. apply to_accept_iff in H.
  destruct H as (_ & _ & H & _). congruence.
Qed.

(* a group lacking one of the two labels, whatever the positions of its rows *)
Theorem to_degenerate_group_rejected T i s ys g l :
  d_sf (to_data i) = Some s -> d_y (to_data i) = Some ys -> In g s -> l = 0 \/ l = 1 ->
  (forall n, nth_error s n = Some g -> nth_error ys n <> Some l) ->
  rejects (validate_threshold_optimizer T i).
Proof.
  intros Es Ey Hg Hl Hno. apply not_accept_rejects. intros H. apply to_accept_iff in H.
  destruct H as (_ & _ & _ & _ & H). pose proof (proj1 (groups_ok_spec _ s ys Es Ey) H) as H'.
  destruct (H' g Hg) as [(n0 & A0 & B0) (n1 & A1 & B1)].
  destruct Hl as [-> | ->]; [exact (Hno n0 A0 B0) | exact (Hno n1 A1 B1)].
Qed.

(* with nothing else wrong the kind is the degenerate-labels one *)
Theorem to_degenerate_kind T i s ys g l :
  to_estimator i = true -> supported T (to_constraints i) (to_objective i) ->
  d_cf (to_data i) = None -> wf_input true true (to_data i) ->
  d_sf (to_data i) = Some s -> d_y (to_data i) = Some ys -> In g s -> l = 0 \/ l = 1 ->
  (forall n, nth_error s n = Some g -> nth_error ys n <> Some l) ->
  validate_threshold_optimizer T i = Reject KDegenerate.
Proof.
  intros He Hs Hc Hw Es Ey Hg Hl Hno. unfold validate_threshold_optimizer.
  rewrite He. cbn [check andthen].
  apply check_combo_accept_iff in Hs. rewrite Hs. cbn [andthen]. rewrite Hc. cbn [andthen].
  apply validate_input_accept_iff in Hw. rewrite Hw. cbn [andthen]. apply check_reject.
  destruct (groups_ok (to_data i)) eqn:E; [|reflexivity]. exfalso.
  pose proof (proj1 (groups_ok_spec _ s ys Es Ey) E) as E'.
  destruct (E' g Hg) as [(n0 & A0 & B0) (n1 & A1 & B1)].
  destruct Hl as [-> | ->]; [exact (Hno n0 A0 B0) | exact (Hno n1 A1 B1)].
Qed.

Lemma andthen_reject a b k : andthen a b = Reject k -> a = Reject k \/ b = Reject k.
Proof. destruct a; cbn; auto. Qed.

Lemma check_reject_inv ok k k' : check ok k = Reject k' -> k' = k.
Proof. destruct ok; cbn; intros H; [discriminate | inversion H; reflexivity]. Qed.

(* the shared validation never answers with a constraint / objective kind *)
Lemma input_reject_kinds es eb d k :
  validate_input es eb d = Reject k -> k <> KConstraint /\ k <> KObjective.
Proof.
  unfold validate_input. destruct (d_y d) as [ys|]; [|intros H; inversion H; split; discriminate].
  intros H.
  do 4 (apply andthen_reject in H; destruct H as [H|H];
        [apply check_reject_inv in H; subst k; split; discriminate|]).
  apply andthen_reject in H. destruct H as [H|H].
  - destruct (d_sf d); apply check_reject_inv in H; subst k; split; discriminate.
  - unfold check_len in H. destruct (d_cf d); [apply check_reject_inv in H; subst k; split; discriminate | discriminate].
Qed.

Theorem to_unsupported_combo_rejected T i :
  to_estimator i = true ->
  ((validate_threshold_optimizer T i = Reject KConstraint \/
    validate_threshold_optimizer T i = Reject KObjective) <->
   ~ supported T (to_constraints i) (to_objective i)).
Proof.
  intros He. unfold validate_threshold_optimizer. rewrite He. cbn [check andthen].
  rewrite <- check_combo_accept_iff.
  destruct (check_combo_kinds T (to_constraints i) (to_objective i)) as [E|[E|E]]; rewrite E; cbn [andthen].
  - split; [|intros H; contradiction H; reflexivity].
    (* accepted combination: the later checks never answer KConstraint / KObjective *)
    destruct (d_cf (to_data i)); cbn [andthen]; [intros [H|H]; discriminate|].
    intros H N. clear N.
    destruct (validate_input true true (to_data i)) as [|k] eqn:Ev; cbn [andthen] in H.
    + unfold check in H. destruct (groups_ok (to_data i)); destruct H; discriminate.
    + destruct (input_reject_kinds _ _ _ _ Ev) as [K1 K2].
      destruct H as [H|H]; inversion H; congruence.
  - split; [discriminate | auto].
  - split; [discriminate | auto].
Qed.

Theorem to_unsupported_rejects T i :
  ~ supported T (to_constraints i) (to_objective i) -> rejects (validate_threshold_optimizer T i).
Proof.
  intros H. apply not_accept_rejects. intros A. apply to_accept_iff in A. apply H, A.
Qed.

Theorem to_valid_accepted T i s ys :
  to_estimator i = true -> supported T (to_constraints i) (to_objective i) ->
  d_cf (to_data i) = None -> d_sf (to_data i) = Some s -> d_y (to_data i) = Some ys ->
  ys <> [] -> Forall is_binary ys -> length ys = d_x (to_data i) -> length s = d_x (to_data i) ->
  (forall g, In g s -> has_label s ys g 0 /\ has_label s ys g 1) ->
  validate_threshold_optimizer T i = Accept.
Proof.
  intros He Hs Hc Es Ey Hn Hb Ly Ls Hg. apply to_accept_iff.
  split; [exact He|]. split; [exact Hs|]. split; [exact Hc|]. split.
  - exists ys. rewrite Es, Hc. repeat split; auto.
    rewrite <- Ly. destruct ys; [contradiction Hn; reflexivity | discriminate].
  - apply (proj2 (groups_ok_spec _ s ys Es Ey)). exact Hg.
Qed.

(* ------------------------------------------------------------------ *)
(* MetricFrame                                                         *)
(* ------------------------------------------------------------------ *)

Lemma fname_eqb_eq a b : fname_eqb a b = true <-> a = b.
Proof.
  destruct a, b; cbn; rewrite ?Z.eqb_eq; split; intros H; try discriminate; try congruence.
Qed.

Lemma has_dup_spec seen l :
  has_dup seen l = false <-> NoDup l /\ (forall x, In x l -> ~ In x seen).
Proof.
  revert seen. induction l as [|x r IH]; intros seen; cbn.
  - split; [intros _; split; [constructor | intros x []] | reflexivity].
  - destruct (existsb (fname_eqb x) seen) eqn:E.
    + split; [discriminate|]. intros [_ H]. exfalso. apply existsb_exists in E.
      destruct E as (y & Hy & Ey). apply fname_eqb_eq in Ey. subst y. apply (H x); auto.
    + rewrite IH. split.
      * intros [Hnd Hs]. split.
        -- constructor; [|exact Hnd]. intros Hin. apply (Hs x Hin). left. reflexivity.
        -- intros y [Hy|Hy] Hin.
           ++ subst y. assert (existsb (fname_eqb x) seen = true); [|congruence].
              apply existsb_exists. exists x. split; [exact Hin | apply fname_eqb_eq; reflexivity].
           ++ apply (Hs y Hy). right. exact Hin.
      * intros [Hnd Hs]. inversion Hnd as [|? ? Hx Hr]; subst. split; [exact Hr|].
        intros y Hy [Hin|Hin]; [subst y; contradiction|]. apply (Hs y); auto.
Qed.

Lemma has_dup_nodup l : has_dup [] l = false <-> NoDup l.
Proof. rewrite has_dup_spec. split; [intros [H _]; exact H | intros H; split; [exact H | intros x _ []]]. Qed.

Definition ncols (f : feats) : nat := length (declared_names 0 f).

Definition feat_lengths (f : feats) : list nat := if Nat.eqb (ncols f) 0 then [] else [f_len f].

Definition wf_feats (f : feats) (n : nat) : Prop :=
  match f_kind f with
  | FList => f_len f <> O /\ f_len f = n
  | FListNonScalar => False
  | FArray k => k = O \/ f_len f = n
  | FSeries nm => f_len f = n /\ match nm with Some x => is_string x = true | None => True end
  | FFrame names => Forall (fun x => is_string x = true) names /\ (names = [] \/ f_len f = n)
  end.

Lemma frame_cols_accept names len n :
  frame_cols names len n = Accept <->
  Forall (fun x => is_string x = true) names /\ (names = [] \/ len = n).
Proof.
  induction names as [|x r IH]; cbn.
  - split; [intros _; split; [constructor | left; reflexivity] | reflexivity].
  - rewrite !andthen_accept, !check_accept, IH, Nat.eqb_eq. split.
    + intros (A & B & C & _). split; [constructor; assumption | right; exact B].
    + intros [A [B|B]]; [discriminate|]. inversion A; subst. auto.
Qed.

Theorem process_features_accept_iff f n : process_features f n = Accept <-> wf_feats f n.
Proof.
  unfold process_features, wf_feats. destruct (f_kind f) as [| |k|nm|names].
  - rewrite andthen_accept, !check_accept, negb_true_iff, Nat.eqb_neq, Nat.eqb_eq. reflexivity.
  - split; [discriminate | intros []].
  - destruct k; [split; auto|]. rewrite check_accept, Nat.eqb_eq. split; [auto | intros [H|H]; [discriminate | exact H]].
  - rewrite andthen_accept, check_accept, Nat.eqb_eq. destruct nm as [x|].
    + rewrite check_accept. reflexivity.
    + split; [intros [H _]; auto | intros [H _]; auto].
  - apply frame_cols_accept.
Qed.

Lemma wf_feats_names base f n x :
  wf_feats f n -> In x (declared_names base f) -> is_string x = true.
Proof.
  unfold wf_feats, declared_names. destruct (f_kind f) as [| |k|nm|names]; intros H Hin.
  - destruct Hin as [<-|[]]. reflexivity.
  - destruct H.
  - apply in_map_iff in Hin. destruct Hin as (i & <- & _). reflexivity.
  - destruct nm as [y|]; destruct Hin as [<-|[]]; [apply H | reflexivity].
  - destruct H as [H _]. rewrite Forall_forall in H. apply H, Hin.
Qed.

Lemma wf_feats_length f n a : wf_feats f n -> In a (feat_lengths f) -> a = n.
Proof.
  unfold wf_feats, feat_lengths, ncols, declared_names.
  destruct (f_kind f) as [| |k|nm|names]; intros H Hin.
  - cbn in Hin. destruct Hin as [<-|[]]. apply H.
  - destruct H.
  - unfold seq0 in Hin. rewrite map_length, seq_length in Hin. destruct k; cbn in Hin; [contradiction|].
    destruct Hin as [<-|[]]. destruct H as [H|H]; [discriminate | exact H].
  - destruct nm; cbn in Hin; destruct Hin as [<-|[]]; apply H.
  - destruct names; cbn in Hin; [contradiction|]. destruct Hin as [<-|[]].
    destruct H as [_ [H|H]]; [discriminate | exact H].
Qed.

Definition mf_names (i : mf_in) : list fname := declared_names 0 (m_sf i) ++ cf_names i.

Definition mf_lengths (i : mf_in) : list nat :=
  m_ytrue i :: m_ypred i :: m_params i ++ feat_lengths (m_sf i) ++
  match m_cf i with Some c => feat_lengths c | None => [] end.

Theorem mf_accept_iff i :
  validate_metric_frame i = Accept <->
  m_ytrue i = m_ypred i /\ Forall (fun k => k = m_ytrue i) (m_params i) /\
  wf_feats (m_sf i) (m_ytrue i) /\
  match m_cf i with Some c => wf_feats c (m_ytrue i) | None => True end /\
  NoDup (mf_names i) /\ declared_names 0 (m_sf i) <> [].
Proof.
  unfold validate_metric_frame, mf_names.
  rewrite !andthen_accept, !check_accept, Nat.eqb_eq, process_features_accept_iff,
    !negb_true_iff, has_dup_nodup, length_zero_nil.
  assert (P : forallb (fun k => Nat.eqb k (m_ytrue i)) (m_params i) = true <->
              Forall (fun k => k = m_ytrue i) (m_params i)).
  { rewrite forallb_forall, Forall_forall. split; intros H x Hx; apply Nat.eqb_eq, H, Hx. }
  rewrite P. destruct (m_cf i) as [c|].
  - rewrite process_features_accept_iff. reflexivity.
  - split; intros (A & B & C & D & E & F); repeat split; auto.
Qed.

Theorem mf_length_mismatch_rejected i a b :
  In a (mf_lengths i) -> In b (mf_lengths i) -> a <> b -> rejects (validate_metric_frame i).
Proof.
  intros Ha Hb Hab. apply not_accept_rejects. intros H. apply mf_accept_iff in H.
  destruct H as (A & B & C & D & _).
  assert (L : forall x, In x (mf_lengths i) -> x = m_ytrue i).
  { intros x Hx. unfold mf_lengths in Hx. destruct Hx as [Hx|[Hx|Hx]]; [congruence | congruence |].
    apply in_app_or in Hx. destruct Hx as [Hx|Hx].
    - rewrite Forall_forall in B. apply B, Hx.
    - apply in_app_or in Hx. destruct Hx as [Hx|Hx].
      + apply (wf_feats_length _ _ _ C Hx).
      + destruct (m_cf i) as [c|]; [|contradiction]. apply (wf_feats_length _ _ _ D Hx). }
  rewrite (L a Ha), (L b Hb) in Hab. contradiction Hab. reflexivity.
Qed.

Theorem mf_nonstring_name_rejected i c :
  In (NNonStr c) (mf_names i) -> rejects (validate_metric_frame i).
Proof.
  intros Hin. apply not_accept_rejects. intros H. apply mf_accept_iff in H.
  destruct H as (_ & _ & C & D & _). unfold mf_names in Hin. apply in_app_or in Hin.
  destruct Hin as [Hin|Hin].
  - pose proof (wf_feats_names 0 _ _ _ C Hin) as S. discriminate.
  - unfold cf_names in Hin. destruct (m_cf i) as [cf|]; [|contradiction].
    pose proof (wf_feats_names 1 _ _ _ D Hin) as S. discriminate.
Qed.

Theorem mf_duplicate_name_rejected i :
  ~ NoDup (mf_names i) -> rejects (validate_metric_frame i).
Proof.
  intros Hd. apply not_accept_rejects. intros H. apply mf_accept_iff in H.
  destruct H as (_ & _ & _ & _ & N & _). exact (Hd N).
Qed.

(* the same name in the sensitive and in the control features *)
Theorem mf_shared_name_rejected i x :
  In x (declared_names 0 (m_sf i)) -> In x (cf_names i) -> rejects (validate_metric_frame i).
Proof.
  intros H1 H2. apply mf_duplicate_name_rejected. intros N. unfold mf_names in N.
  apply in_split in H1. destruct H1 as (l1 & l2 & E). rewrite E in N.
  rewrite <- app_assoc in N. apply NoDup_remove_2 in N. apply N.
  apply in_or_app. right. cbn. apply in_or_app. right. exact H2.
Qed.

(* ------------------------------------------------------------------ *)
(* CorrelationRemover, predict                                         *)
(* ------------------------------------------------------------------ *)

Lemma zmem'_spec x l : zmem' x l = true <-> In x l.
Proof.
  induction l as [|y r IH]; cbn; [split; [discriminate | intros []]|].
  rewrite orb_true_iff, Z.eqb_eq, IH. split; intros [H|H]; auto.
Qed.

Theorem cr_accept_iff i :
  validate_correlation_remover i = Accept <->
  (forall c, In c (c_ids i) -> In c (c_columns i)) /\ c_rows i <> O.
Proof.
  unfold validate_correlation_remover.
  rewrite andthen_accept, !check_accept, forallb_forall, negb_true_iff, Nat.eqb_neq.
  split; intros [A B]; split; try exact B; intros c Hc; apply zmem'_spec, A, Hc.
Qed.

Theorem cr_missing_column_rejected i c :
  In c (c_ids i) -> ~ In c (c_columns i) -> validate_correlation_remover i = Reject KMissingColumn.
Proof.
  intros Hc Hn. unfold validate_correlation_remover.
  destruct (forallb (fun c0 => zmem' c0 (c_columns i)) (c_ids i)) eqn:E; [|reflexivity].
  exfalso. rewrite forallb_forall in E. apply Hn, zmem'_spec, E, Hc.
Qed.

Theorem predict_before_fit_rejected e : validate_predict e false = Reject KNotFitted.
Proof. reflexivity. Qed.

Theorem predict_after_fit_accepted e : validate_predict e true = Accept.
Proof. reflexivity. Qed.

(* ------------------------------------------------------------------ *)
(* moments: valid inputs are accepted                                  *)
(* ------------------------------------------------------------------ *)

Theorem load_valid_accepted m d ys s :
  d_y d = Some ys -> d_sf d = Some s -> ys <> [] ->
  (is_classification m = true -> Forall is_binary ys) ->
  length ys = d_x d -> length s = d_x d ->
  match d_cf d with Some c => length c = d_x d /\ takes_control m = true | None => True end ->
  validate_load m d = Accept.
Proof.
  intros Ey Es Hn Hb Ly Ls Hc. apply load_accept_iff. split.
  - exists ys. rewrite Es. repeat split; auto.
    + rewrite <- Ly. destruct ys; [contradiction Hn; reflexivity | discriminate].
    + destruct (d_cf d); [apply Hc | exact I].
  - destruct (d_cf d); [intros _; apply Hc | intros N; contradiction N; reflexivity].
Qed.
