(* C19 -- estimator life cycle.  One state machine per estimator family, carrying exactly the
   hidden state the code in /repo has:

     ThresholdOptimizer   : nothing hidden (params, fitted rule)
     GridSearch           : Moment.data_loaded on the user's constraints object (set by load_data,
                            deep-copied by sklearn.clone; no longer asserted)
     ExponentiatedGradient: the same flag + the constructor parameter `nu`, which fit OVERWRITES
                            when it is None (exponentiated_gradient.py: `self.nu = ...`)
     CorrelationRemover   : _n_features_in_ (a refit with another width raises ValueError)
     adversarial          : classes_ / backendEngine_ / warm_start (re-initialisation rule) and, when the
                            networks are given as torch Modules, those objects themselves (trained in place)

   Operations: Fit D | Predict | Pickle (round trip, continue with the restored object) |
   Clone (sklearn.clone, continue with the clone).  Training is an abstract deterministic
   function (Section variable).  An observation is
       (call returned normally and, for Fit, returned the estimator itself;
        get_params; fitted model; exception).
   The defects that were repaired in /repo are switches of the same definitions
   (latch / returns_self / fixed) so that the theorems demonstrably separate old and new code.
   Proof-free; lemmas are in Lifecycle_proofs.v. *)
From Coq Require Import ZArith List Bool.
From FL Require Import Num Flat.
Import ListNotations.
Open Scope Z_scope.

Inductive op (D : Type) : Type :=
| Fit (d : D)
| Predict
| Pickle
| Clone.
Arguments Fit {D} d.
Arguments Predict {D}.
Arguments Pickle {D}.
Arguments Clone {D}.

Inductive exn : Type := NotFitted | AssertionErr | ValueErr.

Record obs (P M : Type) : Type := mkObs {
  o_self : bool;          (* returned normally; for Fit: the returned object is the estimator *)
  o_params : P;           (* get_params(deep=False) of the current object *)
  o_model : option M;     (* fitted state of the current object *)
  o_exc : option exn }.
Arguments mkObs {P M}.
Arguments o_self {P M}.
Arguments o_params {P M}.
Arguments o_model {P M}.
Arguments o_exc {P M}.

(* ---------------------------------------------------------------- generic runner *)
Section Run.
  Variables (S D O : Type).
  Variable step : S -> op D -> S * O.

  Fixpoint run (s : S) (h : list (op D)) : S :=
    match h with
    | [] => s
    | o :: r => run (fst (step s o)) r
    end.

  Fixpoint trace (s : S) (h : list (op D)) : list O :=
    match h with
    | [] => []
    | o :: r => snd (step s o) :: trace (fst (step s o)) r
    end.

  (* observation of one more operation after a history *)
  Definition after (s : S) (h : list (op D)) (o : op D) : O := snd (step (run s h) o).
End Run.
Arguments run {S D O}.
Arguments trace {S D O}.
Arguments after {S D O}.

(* ---------------------------------------------------------------- ThresholdOptimizer *)
Section Simple.
  Variables (P D M : Type).
  Variable train : P -> D -> M.

  Record sst : Type := mkS { s_par : P; s_fit : option M }.

  Definition s_init (p : P) : sst := mkS p None.
  Definition s_ok (s : sst) : obs P M := mkObs true (s_par s) (s_fit s) None.
  Definition s_raise (s : sst) (e : exn) : obs P M := mkObs false (s_par s) (s_fit s) (Some e).

  Definition s_step (s : sst) (o : op D) : sst * obs P M :=
    match o with
    | Fit d => let s' := mkS (s_par s) (Some (train (s_par s) d)) in (s', s_ok s')
    | Predict => match s_fit s with
                 | Some _ => (s, s_ok s)
                 | None => (s, s_raise s NotFitted)
                 end
    | Pickle => (s, s_ok s)
    | Clone => let s' := s_init (s_par s) in (s', s_ok s')
    end.
End Simple.
Arguments mkS {P M}.
Arguments s_par {P M}.
Arguments s_fit {P M}.
Arguments s_init {P M}.
Arguments s_step {P D M}.

(* ---------------------------------------------------------------- GridSearch *)
(* latch        : Moment.load_data asserts `data_loaded is False` (code before 3d8a404)
   returns_self : fit ends with `return self` (code since 252532f) *)
Section Grid.
  Variables (P D M : Type).
  Variable train : P -> D -> M.
  Variables (latch returns_self : bool).

  Record gst : Type := mkG { g_par : P; g_fit : option M; g_loaded : bool }.

  Definition g_init (p : P) : gst := mkG p None false.
  Definition g_ok (s : gst) : obs P M := mkObs true (g_par s) (g_fit s) None.
  Definition g_raise (s : gst) (e : exn) : obs P M := mkObs false (g_par s) (g_fit s) (Some e).

  Definition g_step (s : gst) (o : op D) : gst * obs P M :=
    match o with
    | Fit d =>
        if latch && g_loaded s then (s, g_raise s AssertionErr)
        else let s' := mkG (g_par s) (Some (train (g_par s) d)) true in
             (s', mkObs returns_self (g_par s') (g_fit s') None)
    | Predict => match g_fit s with
                 | Some _ => (s, g_ok s)
                 | None => (s, g_raise s NotFitted)
                 end
    | Pickle => (s, g_ok s)
    (* clone deep-copies the constraints object, loaded flag included *)
    | Clone => let s' := mkG (g_par s) None (g_loaded s) in (s', g_ok s')
    end.
End Grid.
Arguments mkG {P M}.
Arguments g_par {P M}.
Arguments g_fit {P M}.
Arguments g_loaded {P M}.
Arguments g_init {P M}.
Arguments g_step {P D M}.

(* the code as it is now / as it was *)
Definition gs_step {P D M} (train : P -> D -> M) := g_step train false true.
Definition gs_step_old {P D M} (train : P -> D -> M) := g_step train true false.

(* ---------------------------------------------------------------- ExponentiatedGradient *)
(* params = (everything but nu, nu).  fit: `if self.nu is None: self.nu = <computed from h(X), y>`;
   every later use reads self.nu, so the value computed in the FIRST fit is reused by refits and
   travels through get_params into clones. *)
Section EG.
  Variables (P N D M : Type).
  Variable nu_of : P -> D -> N.
  Variable train : P -> N -> D -> M.
  Variable latch : bool.

  Record est : Type := mkE { e_par : P; e_nu : option N; e_fit : option M; e_loaded : bool }.

  Definition e_init (p : P) (nu : option N) : est := mkE p nu None false.
  Definition e_params (s : est) : P * option N := (e_par s, e_nu s).
  Definition e_ok (s : est) : obs (P * option N) M := mkObs true (e_params s) (e_fit s) None.
  Definition e_raise (s : est) (e : exn) : obs (P * option N) M :=
    mkObs false (e_params s) (e_fit s) (Some e).

  Definition e_step (s : est) (o : op D) : est * obs (P * option N) M :=
    match o with
    | Fit d =>
        if latch && e_loaded s then (s, e_raise s AssertionErr)
        else let v := match e_nu s with Some v => v | None => nu_of (e_par s) d end in
             let s' := mkE (e_par s) (Some v) (Some (train (e_par s) v d)) true in
             (s', e_ok s')
    | Predict => match e_fit s with
                 | Some _ => (s, e_ok s)
                 | None => (s, e_raise s NotFitted)
                 end
    | Pickle => (s, e_ok s)
    (* clone(est) rebuilds the object from est.get_params: the CURRENT nu, no fitted state *)
    | Clone => let s' := mkE (e_par s) (e_nu s) None (e_loaded s) in (s', e_ok s')
    end.

  (* data of the first Fit of a history *)
  Fixpoint first_fit (h : list (op D)) : option D :=
    match h with
    | [] => None
    | Fit d :: _ => Some d
    | _ :: r => first_fit r
    end.
End EG.
Arguments mkE {P N M}.
Arguments e_par {P N M}.
Arguments e_nu {P N M}.
Arguments e_fit {P N M}.
Arguments e_loaded {P N M}.
Arguments e_init {P N M}.
Arguments e_params {P N M}.
Arguments e_step {P N D M}.
Arguments first_fit {D}.

Definition eg_step {P N D M} (nu_of : P -> D -> N) (train : P -> N -> D -> M) :=
  e_step nu_of train false.
Definition eg_step_old {P N D M} (nu_of : P -> D -> N) (train : P -> N -> D -> M) :=
  e_step nu_of train true.

(* ---------------------------------------------------------------- CorrelationRemover *)
Section CorrRem.
  Variables (P D M : Type).
  Variable width : D -> Z.              (* number of columns of X *)
  Variable train : P -> D -> M.

  Record cst : Type := mkC { c_par : P; c_fit : option M; c_width : option Z }.

  Definition c_init (p : P) : cst := mkC p None None.
  Definition c_ok (s : cst) : obs P M := mkObs true (c_par s) (c_fit s) None.
  Definition c_raise (s : cst) (e : exn) : obs P M := mkObs false (c_par s) (c_fit s) (Some e).

  Definition c_fit_ok (s : cst) (d : D) : cst * obs P M :=
    let s' := mkC (c_par s) (Some (train (c_par s) d)) (Some (width d)) in (s', c_ok s').

  Definition c_step (s : cst) (o : op D) : cst * obs P M :=
    match o with
    | Fit d => match c_width s with
               | None => c_fit_ok s d
               | Some w => if w =? width d then c_fit_ok s d else (s, c_raise s ValueErr)
               end
    | Predict => match c_fit s with
                 | Some _ => (s, c_ok s)
                 | None => (s, c_raise s NotFitted)
                 end
    | Pickle => (s, c_ok s)
    | Clone => let s' := c_init (c_par s) in (s', c_ok s')
    end.

  Definition same_width (w : Z) (o : op D) : Prop :=
    match o with Fit d => width d = w | _ => True end.
End CorrRem.
Arguments mkC {P M}.
Arguments c_par {P M}.
Arguments c_fit {P M}.
Arguments c_width {P M}.
Arguments c_init {P M}.
Arguments c_step {P D M}.
Arguments same_width {D}.

(* ---------------------------------------------------------------- adversarial estimators *)
(* fixed = true : `first_call = not hasattr(self, "classes_") or not self.warm_start` (since e8b1939)
   fixed = false: `first_call = not hasattr(self, "classes_")`                        (before)
   first_call -> __setup: new random_state_, new BackendEngine (fresh networks, optimizers). *)
Section Adv.
  Variables (P D M : Type).
  Variable ws : P -> bool.                     (* the warm_start parameter *)
  Variable user_net : P -> option M.           (* predictor/adversary given as torch Modules (their state as
                                                  constructed by the user); None = given as lists of layer sizes *)
  Variable init_net : P -> D -> M.             (* seeded initialisation for the shapes of D (list specification) *)
  Variable train_from : P -> M -> D -> M.      (* epochs x batches of train_step from a state *)
  Variable fixed : bool.

  (* a_mod: current state of the user-supplied Module objects.  BackendEngine.__init_model__ returns the
     parameter object itself, so fit trains it IN PLACE; sklearn.clone deep-copies it, trained weights included *)
  Record ast : Type := mkA { a_par : P; a_net : option M; a_classes : bool; a_mod : option M }.

  Definition a_init (p : P) : ast := mkA p None false (user_net p).
  Definition a_params (s : ast) : P * option M := (a_par s, a_mod s).
  Definition a_ok (s : ast) : obs (P * option M) M := mkObs true (a_params s) (a_net s) None.
  Definition a_raise (s : ast) (e : exn) : obs (P * option M) M :=
    mkObs false (a_params s) (a_net s) (Some e).

  Definition a_step (s : ast) (o : op D) : ast * obs (P * option M) M :=
    match o with
    | Fit d =>
        let first := negb (a_classes s) || (fixed && negb (ws (a_par s))) in
        let start := if first then match a_mod s with Some m => m | None => init_net (a_par s) d end
                     else match a_net s with Some m => m | None => init_net (a_par s) d end in
        let trained := train_from (a_par s) start d in
        let s' := mkA (a_par s) (Some trained) true
                      (match a_mod s with Some _ => Some trained | None => None end) in
        (s', a_ok s')
    | Predict => match a_net s with
                 | Some _ => (s, a_ok s)
                 | None => (s, a_raise s NotFitted)
                 end
    | Pickle => (s, a_ok s)   (* the torch engine is not picklable: never generated for this family *)
    | Clone => let s' := mkA (a_par s) None false (a_mod s) in (s', a_ok s')
    end.
End Adv.
Arguments mkA {P M}.
Arguments a_par {P M}.
Arguments a_net {P M}.
Arguments a_classes {P M}.
Arguments a_mod {P M}.
Arguments a_init {P M}.
Arguments a_params {P M}.
Arguments a_step {P D M}.

Definition adv_step {P D M} (ws : P -> bool) (init_net : P -> D -> M) (train_from : P -> M -> D -> M) :=
  a_step ws init_net train_from true.
Definition adv_step_old {P D M} (ws : P -> bool) (init_net : P -> D -> M) (train_from : P -> M -> D -> M) :=
  a_step ws init_net train_from false.

(* ================================================================ symbolic instance
   Used by the correspondence run: parameters and data sets are integer codes, training is the
   FREE (injective) function, so the value computed for `o_model` names exactly which fresh fit
   the real estimator has to coincide with. *)
Definition sym_train (p d : Z) : Z * Z := (p, d).

(* nu: (0, code) = value given to the constructor; (1, d) = value fit computes on data set d *)
Definition sym_nu_of (p d : Z) : Z * Z := (1, d).
Definition sym_train_eg (p : Z) (v : Z * Z) (d : Z) : Z * (Z * Z) * Z := (p, v, d).

(* adversarial: (data the networks were initialised for, data sets trained on since) *)
(* parameters: (code, (warm_start, networks given as user Modules)) *)
Definition sym_init_net (p : Z * (bool * bool)) (d : Z) : Z * list Z := (d, []).
Definition sym_train_from (p : Z * (bool * bool)) (m : Z * list Z) (d : Z) : Z * list Z := (fst m, snd m ++ [d]).
Definition sym_ws (p : Z * (bool * bool)) : bool := fst (snd p).
Definition sym_user_net (p : Z * (bool * bool)) : option (Z * list Z) :=
  if snd (snd p) then Some (0, []) else None.

Definition sym_width (ws : list Z) (d : Z) : Z := nth (Z.to_nat d) ws 0.

Definition enc_exn (e : exn) : list Z :=
  match e with NotFitted => [1] | AssertionErr => [2] | ValueErr => [3] end.

Definition enc_obs {P M} (fp : P -> list Z) (fm : M -> list Z) (o : obs P M) : list Z :=
  enc_bool (o_self o) ++ fp (o_params o) ++ enc_opt fm (o_model o) ++ enc_opt enc_exn (o_exc o).

Definition enc_zz (x : Z * Z) : list Z := [fst x; snd x].

Definition run_simple (p : Z) (hs : list (list (op Z))) : list Z :=
  enc_list (fun h => enc_list (enc_obs enc_z enc_zz) (trace (s_step sym_train) (s_init p) h)) hs.

Definition run_grid (p : Z) (hs : list (list (op Z))) : list Z :=
  enc_list (fun h => enc_list (enc_obs enc_z enc_zz) (trace (gs_step sym_train) (g_init p) h)) hs.

Definition enc_eg_params (x : Z * option (Z * Z)) : list Z := fst x :: enc_opt enc_zz (snd x).
Definition enc_eg_model (m : Z * (Z * Z) * Z) : list Z :=
  [fst (fst m); fst (snd (fst m)); snd (snd (fst m)); snd m].

Definition run_eg (p : Z) (nu : option (Z * Z)) (hs : list (list (op Z))) : list Z :=
  enc_list (fun h => enc_list (enc_obs enc_eg_params enc_eg_model)
                       (trace (eg_step sym_nu_of sym_train_eg) (e_init p nu) h)) hs.

Definition run_corr (p : Z) (ws : list Z) (hs : list (list (op Z))) : list Z :=
  enc_list (fun h => enc_list (enc_obs enc_z enc_zz)
                       (trace (c_step (sym_width ws) sym_train) (c_init p) h)) hs.

Definition enc_adv_model (m : Z * list Z) : list Z := fst m :: enc_list enc_z (snd m).
Definition enc_adv_params (x : (Z * (bool * bool)) * option (Z * list Z)) : list Z :=
  fst (fst x) :: enc_bool (fst (snd (fst x))) ++ enc_bool (snd (snd (fst x))) ++ enc_opt enc_adv_model (snd x).

Definition run_adv (p : Z * (bool * bool)) (hs : list (list (op Z))) : list Z :=
  enc_list (fun h => enc_list (enc_obs enc_adv_params enc_adv_model)
                       (trace (adv_step sym_ws sym_init_net sym_train_from)
                              (a_init sym_user_net p) h)) hs.
