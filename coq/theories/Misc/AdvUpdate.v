(* Model of the per-tensor update of fairlearn.adversarial.*Engine.train_step (C16).
   A parameter tensor is a matrix over Q (list of rows; a bias vector is a one-row matrix).
   The statements between the backward passes and the optimiser step are a term of the small
   expression language below (regenerated from BOTH engines by translators/t_adv.py); `eval`
   gives a term its value.  No square root is computed: the Euclidean norm of dLA/dW is an
   input `s` of `eval` (the theorems say what is assumed of it).  Division by an exact zero
   and a norm of anything but dLA/dW have no value (None) -- in floating point: NaN.
   Proof-free: lemmas are in AdvUpdate_proofs.v. *)
From Coq Require Import QArith List Bool.
From FL Require Import Num Flat.
Import ListNotations.
Open Scope Q_scope.

Definition vec := list Q.
Definition mat := list vec.

(* ---------- entry-wise operations (shapes are truncated to the common part) ---------- *)

Fixpoint vmap2 (f : Q -> Q -> Q) (a b : vec) : vec :=
  match a, b with
  | x :: a', y :: b' => f x y :: vmap2 f a' b'
  | _, _ => []
  end.

Fixpoint mmap2 (f : Q -> Q -> Q) (A B : mat) : mat :=
  match A, B with
  | a :: A', b :: B' => vmap2 f a b :: mmap2 f A' B'
  | _, _ => []
  end.

Definition mmap (f : Q -> Q) (A : mat) : mat := map (map f) A.

Definition msub : mat -> mat -> mat := mmap2 Qminus.
Definition madd : mat -> mat -> mat := mmap2 Qplus.
Definition mmul : mat -> mat -> mat := mmap2 Qmult.             (* A * B, torch.mul, tf.multiply *)
Definition mscale (c : Q) : mat -> mat := mmap (fun x => c * x). (* scalar * tensor *)
Definition mdiv (A : mat) (c : Q) : mat := mmap (fun x => x / c) A. (* tensor / scalar *)

(* sums reduce the running fraction at every step (Qred: same rational number, == by Qred_correct);
   this only keeps the integers small when the model is executed *)
Fixpoint rsum (l : list Q) : Q :=
  match l with [] => 0 | x :: r => Qred (x + rsum r) end.

Fixpoint rdot (a b : vec) : Q :=
  match a, b with
  | x :: a', y :: b' => Qred (x * y + rdot a' b')
  | _, _ => 0
  end.

(* sum of all entries: torch.sum / tf.reduce_sum *)
Definition msum (A : mat) : Q := rsum (map rsum A).

(* Frobenius inner product  sum_ij A_ij * B_ij *)
Fixpoint frob (A B : mat) : Q :=
  match A, B with
  | a :: A', b :: B' => Qred (rdot a b + frob A' B')
  | _, _ => 0
  end.

(* torch.inner(A, B): the matrix of ALL row-by-row dot products  (A_i . B_j)_ij *)
Definition minner (A B : mat) : mat := map (fun a => map (fun b => rdot a b) B) A.
(* torch.sum(torch.inner(A, B)): what the torch engine used before /repo commit b4dd69e *)
Definition allpairs (A B : mat) : Q := msum (minner A B).

(* ---------- the documented update ---------- *)

(* g = gP - proj_{gA}(gP) - alpha*gA, with the squared norm n2 of gA as a parameter *)
Definition combine_n2 (gP gA : mat) (alpha n2 : Q) : mat :=
  msub (msub gP (mscale (frob gA gP / n2) gA)) (mscale alpha gA).

(* closed form used for execution: n2 = <gA, gA> *)
Definition combine (gP gA : mat) (alpha : Q) : mat := combine_n2 gP gA alpha (frob gA gA).

(* plain SGD step (no momentum, no weight decay) *)
Definition sgd (W g : mat) (lr : Q) : mat := msub W (mscale lr g).

(* what the search oracle measures: <g + alpha*gA, gA> *)
Definition orth_residual (g gA : mat) (alpha : Q) : Q := frob (madd g (mscale alpha gA)) gA.

(* ---------- expression language of the engine statements ---------- *)

Inductive var : Type :=
| GP      (* dLP/dW for this tensor  (dW_LP[i]) *)
| GA.     (* dLA/dW for this tensor  (dW_LA[i]; for an adversary tensor: dLA/dU) *)

Inductive sx : Type :=            (* scalar expressions *)
| SAlpha                          (* self.base.alpha *)
| STiny (wide : bool)             (* finfo(<dtype>).tiny; wide = of a dtype WIDER than the tensor's:
                                     x + tiny_wide = x for every x of the tensor dtype, 0 included *)
| SNorm (t : tx)                  (* torch.norm / tf.norm: Euclidean norm of all entries *)
| SAdd (a b : sx)
| SSum (t : tx)                   (* torch.sum / tf.reduce_sum *)
with tx : Type :=                 (* tensor expressions *)
| Var (v : var)
| Sub (a b : tx)
| Scale (c : sx) (t : tx)         (* scalar * tensor, either order *)
| Div (t : tx) (c : sx)           (* tensor / scalar *)
| Mul (a b : tx)                  (* entry-wise product *)
| Inner (a b : tx).               (* torch.inner *)

Definition FrobInner (a b : tx) : sx := SSum (Mul a b).
Definition AllPairsInnerSum (a b : tx) : sx := SSum (Inner a b).

Section Eval.
  Variables (s tiny alpha : Q) (gP gA : mat).

  Fixpoint eval (t : tx) : option mat :=
    match t with
    | Var GP => Some gP
    | Var GA => Some gA
    | Sub a b => match eval a, eval b with Some x, Some y => Some (msub x y) | _, _ => None end
    | Scale c a => match eval_s c, eval a with Some k, Some x => Some (mscale k x) | _, _ => None end
    | Div a c => match eval a, eval_s c with
                 | Some x, Some k => if Qeqb k 0 then None else Some (mdiv x k)
                 | _, _ => None
                 end
    | Mul a b => match eval a, eval b with Some x, Some y => Some (mmul x y) | _, _ => None end
    | Inner a b => match eval a, eval b with Some x, Some y => Some (minner x y) | _, _ => None end
    end
  with eval_s (e : sx) : option Q :=
    match e with
    | SAlpha => Some alpha
    | STiny wide => Some (if wide then 0 else tiny)
    | SNorm (Var GA) => Some s        (* the only norm the model can be given *)
    | SNorm _ => None
    | SAdd a b => match eval_s a, eval_s b with Some x, Some y => Some (x + y) | _, _ => None end
    | SSum t => match eval t with Some x => Some (msum x) | None => None end
    end.
End Eval.

(* ---------- the terms the engines are expected to contain ---------- *)

Definition unit_term (wide : bool) : tx := Div (Var GA) (SAdd (SNorm (Var GA)) (STiny wide)).

(* _pytorch_engine.py:
     unit = dW_LA[i] / (torch.norm(dW_LA[i]) + torch.finfo(dW_LA[i].dtype).tiny)
     proj = torch.sum(unit * dW_LP[i]);  p.grad = dW_LP[i] - proj * unit - alpha * dW_LA[i] *)
Definition std_torch_term (wide : bool) : tx :=
  Sub (Sub (Var GP) (Scale (SSum (Mul (unit_term wide) (Var GP))) (unit_term wide)))
      (Scale SAlpha (Var GA)).

(* _tensorflow_engine.py: proj = tf.reduce_sum(tf.multiply(dW_LP[i], unit)) *)
Definition std_tf_term (wide : bool) : tx :=
  Sub (Sub (Var GP) (Scale (SSum (Mul (Var GP) (unit_term wide))) (unit_term wide)))
      (Scale SAlpha (Var GA)).

(* the torch engine before commit b4dd69e: proj = torch.sum(torch.inner(unit, dW_LP[i])) *)
Definition old_torch_term (wide : bool) : tx :=
  Sub (Sub (Var GP) (Scale (SSum (Inner (unit_term wide) (Var GP))) (unit_term wide)))
      (Scale SAlpha (Var GA)).

(* an adversary tensor keeps the gradient the backward pass / tape gave it *)
Definition std_adv_term : tx := Var GA.

(* ---------- helpers for the correspondence run ---------- *)

Definition mzerob (A : mat) : bool := forallb (forallb (fun x => Qeqb x 0)) A.

(* result for one predictor tensor: the documented direction (closed form; dLP/dW when the adversary
   gradient is all zero), the value of the generated engine term (with the floating-point norm s and
   the dtype's tiny; None when the source could not be translated), and the exact residual *)
Definition run_tensor (term : option tx) (s tiny alpha : Q) (gP gA : mat) : mat * option mat * Q :=
  let g := if mzerob gA then gP else combine gP gA alpha in
  (g, match term with Some t => eval s tiny alpha gP gA t | None => None end, orth_residual g gA alpha).

Definition enc_mat (A : mat) : list Z := enc_list (enc_list enc_q) A.
Definition enc_run (r : mat * option mat * Q) : list Z :=
  enc_mat (fst (fst r)) ++ enc_opt enc_mat (snd (fst r)) ++ enc_q (snd r).

(* ---------- vocabulary of the statements (no proofs here) ---------- *)

Definition veq : vec -> vec -> Prop := Forall2 Qeq.          (* entry-wise == of rows *)
Definition meq : mat -> mat -> Prop := Forall2 veq.          (* entry-wise == of tensors, same shape *)
Definition same_shape (A B : mat) : Prop := Forall2 (fun a b : vec => length a = length b) A B.
Definition mzero (A : mat) : Prop := Forall (Forall (fun x : Q => x == 0)) A.
