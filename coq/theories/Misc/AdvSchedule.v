(* Model of the training schedule of fairlearn.adversarial._AdversarialFairness.fit /
   partial_fit and of predict's label mapping (C17).  Proof-free: lemmas are in
   AdvSchedule_proofs.v.

   fit (shuffle=False), as written in _adversarial_mitigation.py:

     [__setup]  batch_size, epochs, max_iter must each be -1 or positive   (else ValueError)
     if epochs == -1 and max_iter == -1: raise ValueError
     batch_size = n if batch_size == -1 else batch_size
     batches    = ceil(n / batch_size)
     epochs     = ceil(max_iter / batches) if epochs == -1 else epochs
     n_iter_ = 0
     for epoch in range(epochs):
       for batch in range(batches):
         train_step(rows[batch*batch_size : min((batch+1)*batch_size, n)])
         n_iter_ += 1
         if max_iter != -1 and n_iter_ >= max_iter: return
         if callbacks_:                      # non-empty list
           stop = False
           for cb in callbacks_: stop = stop or cb(self, step=n_iter_, ...)   # every cb is called
           if stop: return

   The two nested loops with an early return are modelled as one recursion over the
   concatenation of `epochs` copies of the per-epoch slice list. *)
From Coq Require Import QArith ZArith List Bool.
From FL Require Import ListX.
Import ListNotations.
Open Scope Z_scope.

(* ---------- events observable from outside ---------- *)
Inductive event : Type :=
  | Step (lo hi : Z)              (* train_step on rows [lo, hi) *)
  | Callback (j : nat) (k : Z).   (* j-th callback invoked with step = k *)

Definition slice : Type := (Z * Z)%type.

(* math.ceil(a / b) for b > 0 *)
Definition ceil_div (a b : Z) : Z := - ((- a) / b).

Definition eff_bs (n bs : Z) : Z := if bs =? -1 then n else bs.
Definition n_batches (n bs : Z) : Z := ceil_div n (eff_bs n bs).
Definition eff_epochs (n bs epochs max_iter : Z) : Z :=
  if epochs =? -1 then ceil_div max_iter (n_batches n bs) else epochs.

(* slice(batch * batch_size, min((batch + 1) * batch_size, n)) *)
Definition batch_slice (n b k : Z) : slice := (k * b, Z.min ((k + 1) * b) n).

(* for batch in range(batches) *)
Definition epoch_slices (n bs : Z) : list slice :=
  map (fun k => batch_slice n (eff_bs n bs) (Z.of_nat k)) (seq 0 (Z.to_nat (n_batches n bs))).

(* for epoch in range(epochs): for batch in range(batches) *)
Definition all_slices (n bs epochs max_iter : Z) : list slice :=
  concat (repeat (epoch_slices n bs) (Z.to_nat (eff_epochs n bs epochs max_iter))).

(* self.max_iter != -1 and self.n_iter_ >= self.max_iter *)
Definition exhausted (max_iter it : Z) : bool := negb (max_iter =? -1) && (max_iter <=? it).

Definition cb_events (ncb : nat) (k : Z) : list event := map (fun j => Callback j k) (seq 0 ncb).

(* body of the loops; `it` = n_iter_ before the step; ncb = len(callbacks_) (0 = no callbacks);
   stop k = disjunction of the callbacks' results at step k *)
Fixpoint run (max_iter : Z) (ncb : nat) (stop : Z -> bool) (it : Z) (sl : list slice) : list event :=
  match sl with
  | [] => []
  | (lo, hi) :: r =>
      let it' := it + 1 in
      Step lo hi ::
      (if exhausted max_iter it' then []
       else match ncb with
            | O => run max_iter ncb stop it' r
            | S _ => cb_events ncb it' ++ (if stop it' then [] else run max_iter ncb stop it' r)
            end)
  end.

Definition schedule (n bs epochs max_iter : Z) (ncb : nat) (stop : Z -> bool) : list event :=
  run max_iter ncb stop 0 (all_slices n bs epochs max_iter).

(* parameter validation: None = ValueError *)
(* check_scalar(kw, min_val=-1, include_boundaries="left"); if kw <= 0.0 and kw != -1: raise *)
Definition pos_or_m1 (k : Z) : bool := (-1 <=? k) && negb ((k <=? 0) && negb (k =? -1)).
Definition config_ok (n bs epochs max_iter : Z) : bool :=
  (0 <? n) && pos_or_m1 bs && pos_or_m1 epochs && pos_or_m1 max_iter
  && negb ((epochs =? -1) && (max_iter =? -1)).

(* the callbacks as a list of predicates on the step number *)
Definition stop_of (cbs : list (Z -> bool)) (k : Z) : bool := existsb (fun cb => cb k) cbs.

Definition fit_events (n bs epochs max_iter : Z) (cbs : list (Z -> bool)) : option (list event) :=
  if config_ok n bs epochs max_iter
  then Some (schedule n bs epochs max_iter (length cbs) (stop_of cbs))
  else None.

(* observables *)
Fixpoint steps_of (ev : list event) : list slice :=
  match ev with
  | [] => []
  | Step lo hi :: r => (lo, hi) :: steps_of r
  | Callback _ _ :: r => steps_of r
  end.

Definition n_steps (ev : list event) : nat := length (steps_of ev).   (* n_iter_ after fit *)

Fixpoint callback_steps (j : nat) (ev : list event) : list Z :=
  match ev with
  | [] => []
  | Callback j' k :: r => if Nat.eqb j j' then k :: callback_steps j r else callback_steps j r
  | Step _ _ :: r => callback_steps j r
  end.

(* the documented shape of the log for a given list of executed slices: the i-th step is followed
   by one invocation of every callback with step number i, except when step i exhausts max_iter *)
Fixpoint expected_log (max_iter : Z) (ncb : nat) (it : Z) (sl : list slice) : list event :=
  match sl with
  | [] => []
  | (lo, hi) :: r =>
      Step lo hi :: (if exhausted max_iter (it + 1) then [] else cb_events ncb (it + 1))
      ++ expected_log max_iter ncb (it + 1) r
  end.

(* ---------- state evolution: fit vs partial_fit ---------- *)
Definition rows_of {R} (data : list R) (s : slice) : list R :=
  firstn (Z.to_nat (snd s - fst s)) (skipn (Z.to_nat (fst s)) data).

Section Training.
  Variables (state raw enc : Type).
  (* per-row input transformation with the encoders fitted at set-up (X -> float, y / sensitive
     features -> one-hot or pass-through) and the backend's train_step *)
  Variable encode : raw -> enc.
  Variable train_step : state -> list enc -> state.

  (* fit: the WHOLE data is transformed once, then sliced; same control flow as `run` *)
  Fixpoint run_state (max_iter : Z) (ncb : nat) (stop : Z -> bool) (it : Z) (sl : list slice)
           (data : list enc) (s : state) : state :=
    match sl with
    | [] => s
    | sl1 :: r =>
        let it' := it + 1 in
        let s' := train_step s (rows_of data sl1) in
        if exhausted max_iter it' then s'
        else match ncb with
             | O => run_state max_iter ncb stop it' r data s'
             | S _ => if stop it' then s' else run_state max_iter ncb stop it' r data s'
             end
    end.

  Definition fit_state (n bs epochs max_iter : Z) (ncb : nat) (stop : Z -> bool)
             (data : list raw) (s0 : state) : state :=
    run_state max_iter ncb stop 0 (all_slices n bs epochs max_iter) (map encode data) s0.

  (* partial_fit: each call transforms the rows it is given and performs one train_step *)
  Definition partial_fit_state (batches : list (list raw)) (s0 : state) : state :=
    fold_left (fun s b => train_step s (map encode b)) batches s0.
End Training.

(* the same with an opaque train_step on row ranges (no data) *)
Section TrainingAbstract.
  Variable state : Type.
  Variable train_range : state -> slice -> state.

  Fixpoint run_state_abs (max_iter : Z) (ncb : nat) (stop : Z -> bool) (it : Z) (sl : list slice)
           (s : state) : state :=
    match sl with
    | [] => s
    | sl1 :: r =>
        let it' := it + 1 in
        let s' := train_range s sl1 in
        if exhausted max_iter it' then s'
        else match ncb with
             | O => run_state_abs max_iter ncb stop it' r s'
             | S _ => if stop it' then s' else run_state_abs max_iter ncb stop it' r s'
             end
    end.

  Definition fit_state_abs (n bs epochs max_iter : Z) (ncb : nat) (stop : Z -> bool) (s0 : state) :=
    run_state_abs max_iter ncb stop 0 (all_slices n bs epochs max_iter) s0.
  Definition partial_fit_state_abs (sl : list slice) (s0 : state) : state :=
    fold_left train_range sl s0.
End TrainingAbstract.

(* ---------- predict ---------- *)
(* _binary_predictor_function: (pred >= threshold_value).astype(float) *)
Definition predict_bin (thr out : Q) : bool := Qle_bool thr out.

(* numpy.argmax over one row: index of the FIRST maximum *)
Fixpoint argmax_from (best : Q) (bi i : nat) (l : list Q) : nat :=
  match l with
  | [] => bi
  | x :: r => if Qle_bool x best then argmax_from best bi (S i) r else argmax_from x i (S i) r
  end.
Definition predict_multi (outs : list Q) : nat :=
  match outs with [] => O | x :: r => argmax_from x O 1%nat r end.

(* OneHotEncoder.categories_ = sorted distinct training labels; inverse_transform picks by index *)
Definition classes_of (ys : list Z) : list Z := zuniq ys.
Definition inverse (classes : list Z) (i : nat) : Z := nth i classes 0.

Definition half : Q := 1 # 2.
(* binary: drop='if_binary' keeps the column of the LARGER class *)
Definition predict_label_bin (ys : list Z) (out : Q) : Z :=
  inverse (classes_of ys) (if predict_bin half out then 1%nat else 0%nat).
Definition predict_label_multi (ys : list Z) (outs : list Q) : Z :=
  inverse (classes_of ys) (predict_multi outs).
(* continuous targets: predictor function and inverse transform are the identity *)
Definition predict_cont (out : Q) : Q := out.

(* ---------- wire format helpers for the correspondence run ---------- *)
Definition enc_event (e : event) : list Z :=
  match e with
  | Step lo hi => [0; lo; hi]
  | Callback j k => [1; Z.of_nat j; k]
  end.

Definition enc_fit (r : option (list event)) : list Z :=
  match r with
  | None => [0]
  | Some ev => 1 :: Z.of_nat (n_steps ev) :: Z.of_nat (length ev) :: flat_map enc_event ev
  end.

(* callbacks given by the sets of step numbers at which they return True *)
Definition cbs_of (stops : list (list Z)) : list (Z -> bool) := map (fun s k => zmem k s) stops.
