(* C20 -- source description of the validation code.

   The guards of the validation code of /repo on which the model FL.Validate depends, written as
   data (kind of guard, operands, position), the meaning of that data in terms of the model's own
   verdicts (one small interpreter per site), and model_*: the values the hand-written decision
   functions of Validate.v implement.

   translators/t_validate.py regenerates the data from /repo on every run (coq/gen/Gen_validate.v).
   props/C20.v states that the regenerated data IS model_* and that its meaning IS the model
   function, so a guard that is removed, weakened, moved or applied to another variable breaks an
   obligation.  Proof-free; does not import FLGen. *)
From Coq Require Import ZArith QArith List Bool.
From FL Require Import Num Validate.
Import ListNotations.
Open Scope Z_scope.

(* ------------------------------------------------------------------ *)
(* 0. shared vocabulary                                                *)
(* ------------------------------------------------------------------ *)

(* Python comparison operators on floats (NaN compares false, `!=` true) *)
Inductive cmp := CLt | CLe | CGt | CGe | CEq | CNe.

Definition ext_eqb (a b : ext) : bool := ext_leb a b && ext_leb b a.

Definition ext_cmp (op : cmp) (a b : ext) : bool :=
  match op with
  | CLt => ext_ltb a b | CLe => ext_leb a b
  | CGt => ext_ltb b a | CGe => ext_leb b a
  | CEq => ext_eqb a b | CNe => negb (ext_eqb a b)
  end.

Definition z_cmp (op : cmp) (a b : Z) : bool :=
  match op with
  | CLt => a <? b | CLe => a <=? b | CGt => b <? a | CGe => b <=? a
  | CEq => a =? b | CNe => negb (a =? b)
  end.

(* `lo <op> v <op> hi` (a chained comparison) *)
Record range := mkRange { rg_lo : Q; rg_lo_op : cmp; rg_hi_op : cmp; rg_hi : Q }.

Definition in_range (r : range) (v : ext) : bool :=
  ext_cmp (rg_lo_op r) (Fin (rg_lo r)) v && ext_cmp (rg_hi_op r) v (Fin (rg_hi r)).

(* tests of an optional number: `v is None` | `v is not None` | `not v` | `v` *)
Inductive ntest := TIsNone | TIsNotNone | TFalsy | TTruthy.

Definition falsy (v : option ext) : bool :=
  match v with
  | None => true
  | Some (Fin q) => Qeqb q 0
  | Some _ => false            (* inf and nan are truthy *)
  end.

Definition eval_ntest (t : ntest) (v : option ext) : bool :=
  match t with
  | TIsNone => match v with None => true | Some _ => false end
  | TIsNotNone => match v with None => false | Some _ => true end
  | TFalsy => falsy v
  | TTruthy => negb (falsy v)
  end.

(* ------------------------------------------------------------------ *)
(* 1. _validate_and_reformat_input: the guards in source order         *)
(* ------------------------------------------------------------------ *)

Inductive arg := AX | AY | ASf | ACf.
Inductive flag := FExpectY | FEnforceBinary | FExpectSf.

Inductive gcond :=
| GNone (a : arg)                     (* `if a is None: raise` *)
| GSizeZero (a : arg)                 (* `if a.size == 0: raise` *)
| GNotColumn (a : arg)                (* `if not (a.ndim == 1 or (a.ndim == 2 and a.shape[1] == 1)): raise` *)
| GNotSubset (a : arg) (allowed : list Z)
                                      (* `if not set(np.unique(a)).issubset(set([allowed])): raise` *)
| GCheckArray (a : arg)               (* check_array(a, ...): sklearn refuses an array with 0 samples *)
| GRowsDiffer (a b : arg)             (* `if (a is not None) and a.shape[0] != b.shape[0]: raise` *)
| GLength (given a b : arg)           (* `if given is not None: check_consistent_length(a, b)` *)
| GAbsent (a : arg).                  (* the `elif <flags>: raise` of `if a is not None:` *)

(* g_flags: the boolean parameters the guard is nested under (all must be true) *)
Record guard := mkGuard { g_flags : list flag; g_cond : gcond }.

Record flags := mkFlags { fl_expect_y : bool; fl_enforce_binary : bool; fl_expect_sf : bool }.

Definition flag_on (F : flags) (f : flag) : bool :=
  match f with
  | FExpectY => fl_expect_y F | FEnforceBinary => fl_enforce_binary F | FExpectSf => fl_expect_sf F
  end.

Definition arg_col (d : data) (a : arg) : option (list Z) :=
  match a with AX => None | AY => d_y d | ASf => d_sf d | ACf => d_cf d end.

(* X is always given *)
Definition arg_rows (d : data) (a : arg) : option nat :=
  match a with
  | AX => Some (d_x d)
  | _ => match arg_col d a with Some c => Some (length c) | None => None end
  end.

Definition is_given (d : data) (a : arg) : bool :=
  match arg_rows d a with Some _ => true | None => false end.

(* check_consistent_length skips arguments that are None *)
Definition rows_eq (d : data) (a b : arg) : bool :=
  match arg_rows d a, arg_rows d b with
  | Some x, Some y => Nat.eqb x y
  | _, _ => true
  end.

Definition none_kind (a : arg) : kind := match a with AY => KMissingY | _ => KMissingSf end.
Definition empty_kind (a : arg) : kind := match a with AY => KEmptyY | _ => KEmptyX end.
Definition len_kind (a b : arg) : kind :=
  match a, b with
  | ASf, _ | _, ASf => KLenXSf
  | ACf, _ | _, ACf => KLenXCf
  | _, _ => KLenXY
  end.

Definition nonzero_rows (d : data) (a : arg) : verdict :=
  match arg_rows d a with
  | Some n => check (negb (Nat.eqb n 0)) (empty_kind a)
  | None => Accept                         (* np.asarray(None).size = 1 *)
  end.

Definition run_gcond (d : data) (c : gcond) : verdict :=
  match c with
  | GNone a => check (is_given d a) (none_kind a)
  | GSizeZero a => nonzero_rows d a
  | GNotColumn _ => Accept                 (* the abstract label column is one-dimensional *)
  | GNotSubset a allowed =>
      match arg_col d a with
      | Some ys => check (forallb (fun v => zmem' v allowed) ys) KNonBinary
      | None => Accept
      end
  | GCheckArray a => nonzero_rows d a
  | GRowsDiffer a b => check (rows_eq d a b) (len_kind a b)
  | GLength g a b => if is_given d g then check (rows_eq d a b) (len_kind a b) else Accept
  | GAbsent a => check (is_given d a) (none_kind a)
  end.

Definition run_guard (F : flags) (d : data) (g : guard) : verdict :=
  if forallb (flag_on F) (g_flags g) then run_gcond d (g_cond g) else Accept.

Fixpoint run_guards (F : flags) (d : data) (gs : list guard) : verdict :=
  match gs with
  | [] => Accept
  | g :: r => andthen (run_guard F d g) (run_guards F d r)
  end.

Definition model_input_guards : list guard :=
  [ mkGuard [FExpectY] (GNone AY);
    mkGuard [FExpectY] (GSizeZero AY);
    mkGuard [FExpectY] (GNotColumn AY);
    mkGuard [FExpectY; FEnforceBinary] (GNotSubset AY [0; 1]);
    mkGuard [FExpectY] (GCheckArray AY);
    mkGuard [] (GCheckArray AX);
    mkGuard [] (GRowsDiffer AY AX);
    mkGuard [] (GLength ASf AX ASf);
    mkGuard [FExpectSf] (GAbsent ASf);
    mkGuard [] (GLength ACf AX ACf) ].

(* ---- the callers: how load_data / ThresholdOptimizer.fit call it ---- *)

Inductive cf_pass :=
| CfOwn            (* `control_features=None` in the caller's signature, handed on as control_features=control_features *)
| CfNotAccepted    (* the caller has no control_features parameter and no **kwargs: TypeError *)
| CfNotPassed.     (* accepted by the caller but not handed on *)

Record call_src := mkCall {
  cl_xy : bool;                 (* positional arguments are the caller's (X, y) *)
  cl_expect_y : bool;           (* expect_y= literal, or the default of the callee's signature *)
  cl_enforce_binary : bool;     (* enforce_binary_labels= literal, or the default *)
  cl_expect_sf : bool;          (* expect_sensitive_features= literal, or the default *)
  cl_sf_own : bool;             (* sensitive_features=sensitive_features, a required keyword of the caller *)
  cl_cf : cf_pass }.

Definition drop_cf (d : data) : data := mkData (d_x d) (d_y d) (d_sf d) None.

Definition run_call (G : list guard) (c : call_src) (d : data) : verdict :=
  match d_cf d, cl_cf c with
  | Some _, CfNotAccepted => Reject KUnexpectedKw
  | _, CfOwn => run_guards (mkFlags (cl_expect_y c) (cl_enforce_binary c) (cl_expect_sf c)) d G
  | _, _ => run_guards (mkFlags (cl_expect_y c) (cl_enforce_binary c) (cl_expect_sf c)) (drop_cf d) G
  end.

Definition moment_code (m : moment) : Z :=
  match m with
  | DemographicParity => 0 | TruePositiveRateParity => 1 | FalsePositiveRateParity => 2
  | EqualizedOdds => 3 | ErrorRateParity => 4 | ErrorRate => 5 | BoundedGroupLoss => 6 | MeanLoss => 7
  end.

Fixpoint call_of (L : list (moment * call_src)) (m : moment) : option call_src :=
  match L with
  | [] => None
  | (m', c) :: r => if moment_code m =? moment_code m' then Some c else call_of r m
  end.

(* a moment whose load_data the translator did not find accepts nothing *)
Definition run_load (G : list guard) (L : list (moment * call_src)) (m : moment) (d : data) : verdict :=
  match call_of L m with
  | Some c => run_call G c d
  | None => Reject KNotMoment
  end.

Definition parity_call : call_src := mkCall true true true true true CfOwn.
Definition loss_call : call_src := mkCall true true false true true CfNotAccepted.

Definition model_load_calls : list (moment * call_src) :=
  [ (DemographicParity, parity_call); (TruePositiveRateParity, parity_call);
    (FalsePositiveRateParity, parity_call); (EqualizedOdds, parity_call);
    (ErrorRateParity, parity_call); (ErrorRate, parity_call);
    (BoundedGroupLoss, loss_call); (MeanLoss, loss_call) ].

(* ThresholdOptimizer.fit: control features arrive in **kwargs, are refused beforehand (t_tables)
   and are not handed on *)
Definition model_to_call : call_src := mkCall true true true true true CfNotPassed.

(* the model's entry points, with the shared validation as a parameter *)
Definition reduction_fit_with (load : moment -> data -> verdict) (r : red_in) : verdict :=
  match r_constraints r with
  | None => Reject KNotMoment
  | Some m =>
      andthen (load m (r_data r))
      (match r_est r with
       | GridSearch => load (default_objective m) (r_data r)
       | ExpGrad =>
           match r_objective r with
           | None => load (default_objective m) (r_data r)
           | Some o => andthen (check (Bool.eqb (is_classification o) (is_classification m)) KBadObjective)
                               (load o (r_data r))
           end
       end)
  end.

Definition threshold_optimizer_with (input : data -> verdict) (T : tables) (i : to_in) : verdict :=
  andthen (check (to_estimator i) KNoEstimator)
 (andthen (check_combo T (to_constraints i) (to_objective i))
 (andthen (match d_cf (to_data i) with Some _ => Reject KControl | None => Accept end)
 (andthen (input (to_data i))
          (check (groups_ok (to_data i)) KDegenerate)))).

(* ------------------------------------------------------------------ *)
(* 2. UtilityParity.__init__: the if / elif chain on the two bounds    *)
(* ------------------------------------------------------------------ *)

Inductive bvar := BDiff | BRatio.

Inductive bact :=
| BOk                                 (* only attribute assignments *)
| BRaise                              (* a bare raise *)
| BRange (v : bvar) (r : range).      (* `if not (lo <op> v <op> hi): raise` among the assignments *)

(* one branch: the conjunction of its tests and what its body does *)
Record bbranch := mkBranch { bb_tests : list (bvar * ntest); bb_act : bact }.

Record bounds_src := mkBoundsSrc { bs_branches : list bbranch; bs_else : bact }.

Definition bval (b : bounds) (v : bvar) : option ext :=
  match v with BDiff => difference_bound b | BRatio => ratio_bound b end.

Definition run_bact (b : bounds) (a : bact) : verdict :=
  match a with
  | BOk => Accept
  | BRaise => Reject KBothBounds
  | BRange v r => match bval b v with
                  | Some x => check (in_range r x) KRatioRange
                  | None => Reject KRatioRange          (* comparing None raises *)
                  end
  end.

Fixpoint run_branches (b : bounds) (brs : list bbranch) (els : bact) : verdict :=
  match brs with
  | [] => run_bact b els
  | br :: r => if forallb (fun t => eval_ntest (snd t) (bval b (fst t))) (bb_tests br)
               then run_bact b (bb_act br) else run_branches b r els
  end.

Definition run_bounds (S : bounds_src) (b : bounds) : verdict := run_branches b (bs_branches S) (bs_else S).

Definition model_bounds_src : bounds_src :=
  mkBoundsSrc
    [ mkBranch [(BDiff, TIsNone); (BRatio, TIsNone)] BOk;
      mkBranch [(BDiff, TIsNotNone); (BRatio, TIsNone)] BOk;
      mkBranch [(BDiff, TIsNone); (BRatio, TIsNotNone)] (BRange BRatio (mkRange 0 CLt CLe 1)) ]
    BRaise.

(* ------------------------------------------------------------------ *)
(* 3. ErrorRate.__init__: `if costs <test>: .. elif <conjunction>: .. else: raise` *)
(* ------------------------------------------------------------------ *)

Inductive cterm := CKey (k : Z) | CSum (k1 k2 : Z).     (* costs["k"] | costs["k1"] + costs["k2"] *)

Inductive ccond :=
| CIsDict                             (* isinstance(costs, dict) *)
| CKeysAre (ks : list Z)              (* costs.keys() == {..}; key codes as in Validate.v, distinct *)
| CCmp (t : cterm) (op : cmp) (c : Q).  (* t <op> c *)

Record costs_src := mkCostsSrc { cs_first : ntest; cs_conj : list ccond }.

Definition cterm_val (items : list (Z * ext)) (t : cterm) : option ext :=
  match t with
  | CKey k => lookup k items
  | CSum a b => match lookup a items, lookup b items with
                | Some x, Some y => Some (ext_add x y)
                | _, _ => None
                end
  end.

Definition has_key (items : list (Z * ext)) (k : Z) : bool :=
  match lookup k items with Some _ => true | None => false end.

(* a missing key raises KeyError: counted as a failed conjunct *)
Definition eval_ccond (items : list (Z * ext)) (c : ccond) : bool :=
  match c with
  | CIsDict => true
  | CKeysAre ks => Nat.eqb (length items) (length ks) && forallb (has_key items) ks
  | CCmp t op q => match cterm_val items t with Some v => ext_cmp op v (Fin q) | None => false end
  end.

(* does the first test of the chain hold for this value of costs *)
Definition first_fires (t : ntest) (c : costs) : bool :=
  match t, c with
  | TIsNone, CostsNone => true
  | TIsNone, _ => false
  | TIsNotNone, CostsNone => false
  | TIsNotNone, _ => true
  | TFalsy, CostsNone => true
  | TFalsy, CostsDict [] => true
  | TFalsy, _ => false
  | TTruthy, CostsNone => false
  | TTruthy, CostsDict [] => false
  | TTruthy, _ => true
  end.

Definition run_costs (S : costs_src) (c : costs) : verdict :=
  if first_fires (cs_first S) c then Accept
  else match c with
       | CostsDict items => check (forallb (eval_ccond items) (cs_conj S)) KBadCosts
       | _ => Reject KBadCosts
       end.

Definition model_costs_src : costs_src :=
  mkCostsSrc TIsNone
    [ CIsDict; CKeysAre [key_fp; key_fn]; CCmp (CKey key_fp) CGe 0; CCmp (CKey key_fn) CGe 0;
      CCmp (CSum key_fp key_fn) CGt 0 ].

(* ------------------------------------------------------------------ *)
(* 4. GridSearch.__init__                                              *)
(* ------------------------------------------------------------------ *)

Inductive gs_step :=
| GsMoment                 (* `if not isinstance(constraints, Moment): raise` *)
| GsRule (r : range).      (* `if selection_rule == TRADEOFF_OPTIMIZATION: if not (lo <op> constraint_weight <op> hi): raise
                              else: raise` *)

Definition run_gs_step (r : red_in) (s : gs_step) : verdict :=
  match s with
  | GsMoment => match r_constraints r with None => Reject KNotMoment | Some _ => Accept end
  | GsRule rg => if r_rule_ok r then check (in_range rg (r_cw r)) KConstraintWeight
                 else Reject KSelectionRule
  end.

Fixpoint run_gs (r : red_in) (l : list gs_step) : verdict :=
  match l with [] => Accept | s :: t => andthen (run_gs_step r s) (run_gs r t) end.

Definition model_gs_src : list gs_step := [GsMoment; GsRule (mkRange 0 CLe CLe 1)].

(* ------------------------------------------------------------------ *)
(* 5. _calculate_tradeoff_points / _get_counts: the degenerate-label guard *)
(* ------------------------------------------------------------------ *)

Inductive cnt := NAll | NPos | NNeg.
Inductive cdef := DLen | DSum | DSub (a b : cnt).      (* len(labels) | sum(labels) | a - b *)
Inductive coperand := OCnt (c : cnt) | OConst (z : Z).

Record deg_src := mkDegSrc {
  dg_n : cdef; dg_pos : cdef; dg_neg : cdef;           (* _get_counts, in statement order *)
  dg_first : bool;                                     (* the guard is the first statement after the counts are unpacked *)
  dg_guard : list (cnt * cmp * coperand) }.            (* the disjuncts of the test that raises *)

Definition eval_cdef (ls : list Z) (vn vpos vneg : Z) (d : cdef) : Z :=
  let get c := match c with NAll => vn | NPos => vpos | NNeg => vneg end in
  match d with
  | DLen => Z.of_nat (length ls)
  | DSum => Zsum ls
  | DSub a b => get a - get b
  end.

(* (n, n_positive, n_negative) for the labels of one group; a name used before its definition is 0 *)
Definition counts (S : deg_src) (ls : list Z) : Z * Z * Z :=
  let vn := eval_cdef ls 0 0 0 (dg_n S) in
  let vp := eval_cdef ls vn 0 0 (dg_pos S) in
  let vg := eval_cdef ls vn vp 0 (dg_neg S) in
  (vn, vp, vg).

Definition deg_rejects (S : deg_src) (ls : list Z) : bool :=
  let '(vn, vp, vg) := counts S ls in
  let get c := match c with NAll => vn | NPos => vp | NNeg => vg end in
  dg_first S &&
  existsb (fun t => match t with
                    | (c, op, o) => z_cmp op (get c) (match o with OCnt c' => get c' | OConst z => z end)
                    end) (dg_guard S).

Definition model_deg_src : deg_src :=
  mkDegSrc DLen DSum (DSub NAll NPos) true [(NPos, CEq, OConst 0); (NNeg, CEq, OConst 0)].

(* the labels of the rows of group g *)
Definition group_labels (s ys : list Z) (g : Z) : list Z :=
  map snd (filter (fun p => fst p =? g) (combine s ys)).

Definition groups_ok_src (S : deg_src) (d : data) : bool :=
  match d_sf d, d_y d with
  | Some s, Some ys => forallb (fun g => negb (deg_rejects S (group_labels s ys g))) (groups s)
  | _, _ => true
  end.

(* ------------------------------------------------------------------ *)
(* 6. MetricFrame.__init__ and _process_features                       *)
(* ------------------------------------------------------------------ *)

Inductive pcheck :=
| PLen           (* check_consistent_length(<the column handed to GroupFeature>, sample_array) *)
| PNameStr       (* the column / Series name must be a str (the loop's isinstance test, or GroupFeature's) *)
| PNonEmpty      (* features[0] *)
| PScalar.       (* np.isscalar(features[0]), else raise *)

Record pf_src := mkPfSrc {
  pf_series : list pcheck;          (* isinstance(features, pd.Series) *)
  pf_frame : list pcheck;           (* pd.DataFrame: per column *)
  pf_list : list pcheck;            (* list *)
  pf_dict : list pcheck;            (* dict -> DataFrame.from_dict: per column *)
  pf_array1 : list pcheck;          (* anything else, 1-D after squeezing *)
  pf_array2 : list pcheck }.        (* 2-D: per column *)

Fixpoint run_pchecks (cs : list pcheck) (nm : option fname) (len n : nat) (scalar : bool) : verdict :=
  match cs with
  | [] => Accept
  | c :: r =>
      andthen (match c with
               | PLen => check (Nat.eqb len n) KLenFeature
               | PNameStr => match nm with Some x => check (is_string x) KNonStringName | None => Accept end
               | PNonEmpty => check (negb (Nat.eqb len 0)) KEmptyList
               | PScalar => check scalar KListNonScalar
               end) (run_pchecks r nm len n scalar)
  end.

Fixpoint run_cols (cs : list pcheck) (names : list (option fname)) (len n : nat) : verdict :=
  match names with
  | [] => Accept
  | nm :: r => andthen (run_pchecks cs nm len n true) (run_cols cs r len n)
  end.

Definition process_features_src (P : pf_src) (f : feats) (n : nat) : verdict :=
  match f_kind f with
  | FList => run_pchecks (pf_list P) None (f_len f) n true
  | FListNonScalar => run_pchecks (pf_list P) None (f_len f) n false
  | FArray k => match k with
                | 1%nat => run_pchecks (pf_array1 P) None (f_len f) n true
                | _ => run_cols (pf_array2 P) (repeat None k) (f_len f) n
                end
  | FSeries nm => run_pchecks (pf_series P) nm (f_len f) n true
  | FFrame names => run_cols (pf_frame P) (map Some names) (f_len f) n
  end.

Inductive via := ViaNdarray | ViaSeries.
     (* all_data[col] = np.asarray(param_value): pandas checks the length | = pd.Series(..): pandas aligns silently *)

Inductive mf_step :=
| MLenTruePred                       (* check_consistent_length(y_true, y_pred) *)
| MSampleParams (v : via)            (* _get_annotated_metric_functions(.., all_data built from y_true / y_pred) *)
| MSensitive                         (* _process_features("sensitive_feature_", sensitive_features, y_true) *)
| MControl                           (* `if control_features is not None:` _process_features("control_feature_", control_features, y_true) *)
| MDuplicate.                        (* the loop over _sf_names + _cf_names raising on a name already seen *)

Definition run_mf_step (P : pf_src) (i : mf_in) (s : mf_step) : verdict :=
  match s with
  | MLenTruePred => check (Nat.eqb (m_ytrue i) (m_ypred i)) KLenTruePred
  | MSampleParams ViaNdarray => check (forallb (fun k => Nat.eqb k (m_ytrue i)) (m_params i)) KLenSampleParam
  | MSampleParams ViaSeries => Accept
  | MSensitive => process_features_src P (m_sf i) (m_ytrue i)
  | MControl => match m_cf i with Some c => process_features_src P c (m_ytrue i) | None => Accept end
  | MDuplicate => check (negb (has_dup [] (declared_names 0 (m_sf i) ++ cf_names i))) KDuplicateName
  end.

Fixpoint run_mf (P : pf_src) (i : mf_in) (l : list mf_step) : verdict :=
  match l with [] => Accept | s :: t => andthen (run_mf_step P i s) (run_mf P i t) end.

Definition model_pf_src : pf_src :=
  mkPfSrc [PLen; PNameStr] [PNameStr; PLen] [PNonEmpty; PScalar; PLen] [PNameStr; PLen] [PLen] [PLen].

Definition model_mf_src : list mf_step :=
  [MLenTruePred; MSampleParams ViaNdarray; MSensitive; MControl; MDuplicate].

(* a list whose first element is not a scalar has a first element *)
Definition wf_kind (f : feats) : Prop :=
  match f_kind f with FListNonScalar => f_len f <> O | _ => True end.

(* ------------------------------------------------------------------ *)
(* 7. CorrelationRemover.fit / _check_sensitive_features_in_X          *)
(* ------------------------------------------------------------------ *)

Inductive universe := UColumns | URangeNCols.          (* X.columns | range(X.shape[1]) *)
Inductive member := MNotIn | MIn.

Record missing_src := mkMissing { ms_over_ids : bool; ms_test : member; ms_universe : universe }.
     (* [c for c in self.sensitive_feature_ids if c <test> <universe>] *)

Record cr_src := mkCrSrc {
  cr_first_in_fit : bool;           (* fit calls _check_sensitive_features_in_X(X) before X is used *)
  cr_validate_after : bool;         (* ... and validate_data(self, X) after it *)
  cr_frame : missing_src;           (* isinstance(X, pd.DataFrame) *)
  cr_array : missing_src;           (* otherwise *)
  cr_raise : cmp * Z }.             (* `if len(missing_columns) <op> <z>: raise` *)

Definition missing (M : missing_src) (columns ids : list Z) : list Z :=
  if ms_over_ids M then
    filter (fun c => match ms_test M with MNotIn => negb (zmem' c columns) | MIn => zmem' c columns end) ids
  else [].

(* the model abstracts both containers to the list of column codes; both branches must agree *)
Definition run_cr (S : cr_src) (i : cr_in) : verdict :=
  andthen (if cr_first_in_fit S then
             andthen (check (negb (z_cmp (fst (cr_raise S))
                                         (Z.of_nat (length (missing (cr_frame S) (c_columns i) (c_ids i))))
                                         (snd (cr_raise S)))) KMissingColumn)
                     (check (negb (z_cmp (fst (cr_raise S))
                                         (Z.of_nat (length (missing (cr_array S) (c_columns i) (c_ids i))))
                                         (snd (cr_raise S)))) KMissingColumn)
           else Accept)
          (if cr_validate_after S then check (negb (Nat.eqb (c_rows i) 0)) KEmptyX else Accept).

Definition model_cr_src : cr_src :=
  mkCrSrc true true (mkMissing true MNotIn UColumns) (mkMissing true MNotIn URangeNCols) (CGt, 0).

(* ------------------------------------------------------------------ *)
(* 8. check_is_fitted at the top of predict / transform / _pmf_predict *)
(* ------------------------------------------------------------------ *)

Inductive meth := MPredict | MPredictProba | MPmfPredict | MRawPredict | MTransform.

Inductive fpos :=
| PFirst                  (* check_is_fitted(self, ..) is the first statement *)
| PVia (m : meth)         (* the first statement calls self.<m>, nothing of self is read before *)
| PLater (k : nat)        (* k statements precede it *)
| PAbsent.

Definition fitted_src := list (estimator * meth * fpos).

Definition estimator_code (e : estimator) : Z :=
  match e with
  | EExpGrad => 0 | EGridSearch => 1 | EThresholdOptimizer => 2 | EInterpolatedThresholder => 3
  | ECorrelationRemover => 4 | EAdversarialClassifier => 5 | EAdversarialRegressor => 6
  end.

Definition meth_code (m : meth) : Z :=
  match m with MPredict => 0 | MPredictProba => 1 | MPmfPredict => 2 | MRawPredict => 3 | MTransform => 4 end.

Fixpoint fpos_of (T : fitted_src) (e : estimator) (m : meth) : option fpos :=
  match T with
  | [] => None
  | (e', m', p) :: r => if (estimator_code e =? estimator_code e') && (meth_code m =? meth_code m')
                        then Some p else fpos_of r e m
  end.

Definition run_fitted (T : fitted_src) (e : estimator) (m : meth) (fitted : bool) : verdict :=
  match fpos_of T e m with
  | Some PFirst => check fitted KNotFitted
  | Some (PVia m') => match fpos_of T e m' with
                      | Some PFirst => check fitted KNotFitted
                      | _ => Accept
                      end
  | _ => Accept
  end.

Definition model_fitted_src : fitted_src :=
  [ (EExpGrad, MPredict, PFirst); (EExpGrad, MPmfPredict, PFirst);
    (EGridSearch, MPredict, PFirst); (EGridSearch, MPredictProba, PFirst);
    (EThresholdOptimizer, MPredict, PFirst); (EThresholdOptimizer, MPmfPredict, PFirst);
    (EInterpolatedThresholder, MPredict, PFirst); (EInterpolatedThresholder, MPmfPredict, PFirst);
    (ECorrelationRemover, MTransform, PFirst);
    (EAdversarialClassifier, MPredict, PVia MRawPredict); (EAdversarialClassifier, MRawPredict, PFirst);
    (EAdversarialRegressor, MPredict, PVia MRawPredict); (EAdversarialRegressor, MRawPredict, PFirst) ].

(* the user-facing method of each estimator *)
Definition main_meth (e : estimator) : meth :=
  match e with ECorrelationRemover => MTransform | _ => MPredict end.

(* ------------------------------------------------------------------ *)
(* 9. whole entry points read off the source description               *)
(* ------------------------------------------------------------------ *)

(* GridSearch(...) / ExponentiatedGradient(...) followed by fit *)
Definition reduction_src (G : list guard) (L : list (moment * call_src)) (C : list gs_step) (r : red_in) : verdict :=
  andthen (match r_est r with GridSearch => run_gs r C | ExpGrad => Accept end)
          (reduction_fit_with (run_load G L) r).

(* ThresholdOptimizer.fit: shared validation as fit calls it, then the degenerate-label guard per group *)
Definition threshold_optimizer_src (G : list guard) (c : call_src) (D : deg_src) (T : tables) (i : to_in) : verdict :=
  andthen (check (to_estimator i) KNoEstimator)
 (andthen (check_combo T (to_constraints i) (to_objective i))
 (andthen (match d_cf (to_data i) with Some _ => Reject KControl | None => Accept end)
 (andthen (run_call G c (to_data i))
          (check (groups_ok_src D (to_data i)) KDegenerate)))).

(* MetricFrame(...): the steps of __init__, then the (downstream) refusal of an empty feature list *)
Definition metric_frame_src (P : pf_src) (L : list mf_step) (i : mf_in) : verdict :=
  andthen (run_mf P i L)
          (check (negb (Nat.eqb (length (declared_names 0 (m_sf i))) 0)) KNoFeatures).
