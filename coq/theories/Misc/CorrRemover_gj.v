(* C15, second part: correctness of the Gauss-Jordan elimination `solve_beta` (so that
   transform == fit_transform needs no premise beyond "a pivot was found in every column"),
   and the affine / row-wise form of `transform`. *)
From Coq Require Import QArith ZArith List Bool Lia Lra Psatz.
From FL Require Import Num CorrRemover CorrRemover_proofs CorrExpr.
Import ListNotations.
Open Scope Q_scope.

(* ------------------------------------------------------------------ entries of vector operations *)
Lemma nth_vmap2 (f : Q -> Q -> Q) : f 0 0 == 0 -> forall a b c, length a = length b ->
  nth c (vmap2 f a b) 0 == f (nth c a 0) (nth c b 0).
Proof.
  intros Hf. induction a as [|x a IH]; intros [|y b] c H; cbn in H; try discriminate.
  - cbn [vmap2]. destruct c; cbn [nth]; symmetry; exact Hf.
  - cbn [vmap2]. destruct c as [|c]; cbn [nth]; [reflexivity|]. apply IH. lia.
Qed.

Lemma nth_vsub a b c : length a = length b -> nth c (vsub a b) 0 == nth c a 0 - nth c b 0.
Proof. intro H. unfold vsub. apply (nth_vmap2 Qminus); [ring | exact H]. Qed.

Lemma nth_vadd a b c : length a = length b -> nth c (vadd a b) 0 == nth c a 0 + nth c b 0.
Proof. intro H. unfold vadd. apply (nth_vmap2 Qplus); [ring | exact H]. Qed.

Lemma nth_vscale k a c : nth c (vscale k a) 0 == k * nth c a 0.
Proof.
  revert c. induction a as [|x a IH]; intros [|c]; cbn [vscale map nth]; try ring.
  apply IH.
Qed.

Lemma nth_vred a c : nth c (vred a) 0 == nth c a 0.
Proof.
  revert c. induction a as [|x a IH]; intros [|c]; cbn [vred map nth]; try reflexivity.
  - apply Qred_correct.
  - apply IH.
Qed.

Lemma nth_vzero a c : nth c (vzero a) 0 == 0.
Proof. revert c. induction a as [|x a IH]; intros [|c]; cbn [vzero map nth]; try reflexivity. apply IH. Qed.

(* ------------------------------------------------------------------ dot and append / unit vectors *)
Lemma dot_nil_l b : dot [] b = 0.
Proof. reflexivity. Qed.

(* no length condition: dot truncates, and so do firstn / skipn *)
Lemma dot_app_r r : forall b1 b2,
  dot r (b1 ++ b2) == dot (firstn (length b1) r) b1 + dot (skipn (length b1) r) b2.
Proof.
  induction r as [|x r IH]; intros b1 b2.
  - rewrite firstn_nil, skipn_nil, !dot_nil_l. ring.
  - destruct b1 as [|y b1]; cbn [app length firstn skipn].
    + rewrite dot_nil_r. ring.
    + cbn [dot]. rewrite IH. ring.
Qed.

(* e_j of length p *)
Fixpoint unitv (j p : nat) : vec :=
  match p with
  | O => []
  | S p' => match j with O => 1 :: repeat 0 p' | S j' => 0 :: unitv j' p' end
  end.

Lemma unitv_length j p : length (unitv j p) = p.
Proof.
  revert j. induction p as [|p IH]; intros [|j]; cbn [unitv length]; try reflexivity.
  - rewrite repeat_length. reflexivity.
  - rewrite IH. reflexivity.
Qed.

Lemma dot_repeat0 v p : dot v (repeat 0 p) == 0.
Proof.
  revert p. induction v as [|x v IH]; intros [|p]; cbn [repeat dot]; try reflexivity.
  rewrite IH. ring.
Qed.

Lemma dot_unitv v : forall j p, length v = p -> dot v (unitv j p) == nth j v 0.
Proof.
  induction v as [|x v IH]; intros j p H; cbn [length] in H; subst p.
  - cbn. destruct j; reflexivity.
  - destruct j as [|j]; cbn [unitv dot nth].
    + rewrite dot_repeat0. ring.
    + rewrite (IH j (length v) eq_refl). ring.
Qed.

(* ------------------------------------------------------------------ pick *)
Lemma pick_spec j : forall rows p rest, pick j rows = Some (p, rest) ->
  Qeqb (nth j p 0) 0 = false /\ (forall r, In r rows <-> r = p \/ In r rest) /\
  length rows = S (length rest).
Proof.
  induction rows as [|r0 rows IH]; intros p rest H; cbn [pick] in H; [discriminate|].
  destruct (Qeqb (nth j r0 0) 0) eqn:E.
  - destruct (pick j rows) as [[p1 others]|] eqn:E1; [|discriminate].
    injection H as <- <-. destruct (IH p1 others eq_refl) as [H1 [H2 H3]].
    split; [exact H1|]. split.
    + intro r. cbn [In]. rewrite H2. split; intro H; [destruct H as [H|[H|H]] | destruct H as [H|[H|H]]]; auto.
    + cbn [length]. rewrite H3. reflexivity.
  - injection H as <- <-. split; [exact E|]. split.
    + intro r. cbn [In]. split; intros [H|H]; auto.
    + reflexivity.
Qed.

Lemma Qeqb_false_neq a b : Qeqb a b = false -> ~ a == b.
Proof. intros E H. apply Qeq_eq_bool in H. unfold Qeqb in E. congruence. Qed.

(* ------------------------------------------------------------------ one elimination step *)
Definition pnorm (j : nat) (p : vec) : vec := vred (vscale (/ nth j p 0) p).
Definition elim_row (j : nat) (p' r : vec) : vec := vred (vsub r (vscale (nth j r 0) p')).

(* uniform signature: m j p (length p = m) (pivot entry non-zero) *)
Lemma step_p'_length m j p : length p = m -> ~ nth j p 0 == 0 -> length (pnorm j p) = m.
Proof. intros Hp _. unfold pnorm. rewrite vred_length, vscale_length. exact Hp. Qed.

Lemma step_elim_length m j p : length p = m -> ~ nth j p 0 == 0 ->
  forall r, length r = m -> length (elim_row j (pnorm j p) r) = m.
Proof.
  intros Hp Hnz r H. unfold elim_row. rewrite vred_length, vsub_length; [exact H|].
  rewrite vscale_length, (step_p'_length m) by assumption. exact H.
Qed.

Lemma step_p'_entry m j p : length p = m -> ~ nth j p 0 == 0 ->
  forall c, nth c (pnorm j p) 0 == nth c p 0 / nth j p 0.
Proof. intros _ Hnz c. unfold pnorm. rewrite nth_vred, nth_vscale. field. exact Hnz. Qed.

Lemma step_p'_pivot m j p : length p = m -> ~ nth j p 0 == 0 -> nth j (pnorm j p) 0 == 1.
Proof. intros Hp Hnz. rewrite (step_p'_entry m) by assumption. field. exact Hnz. Qed.

Lemma step_elim_entry m j p : length p = m -> ~ nth j p 0 == 0 ->
  forall r c, length r = m ->
  nth c (elim_row j (pnorm j p) r) 0 == nth c r 0 - nth j r 0 * nth c (pnorm j p) 0.
Proof.
  intros Hp Hnz r c H. unfold elim_row.
  rewrite nth_vred, nth_vsub by (rewrite vscale_length, (step_p'_length m) by assumption; exact H).
  rewrite nth_vscale. reflexivity.
Qed.

Lemma step_elim_pivot m j p : length p = m -> ~ nth j p 0 == 0 ->
  forall r, length r = m -> nth j (elim_row j (pnorm j p) r) 0 == 0.
Proof.
  intros Hp Hnz r H. rewrite (step_elim_entry m) by assumption. rewrite (step_p'_pivot m) by assumption. ring.
Qed.

Lemma step_dot_p' m j p : length p = m -> ~ nth j p 0 == 0 ->
  forall w, dot (pnorm j p) w == dot p w / nth j p 0.
Proof. intros _ Hnz w. unfold pnorm. rewrite dot_vred_l, dot_vscale_l. field. exact Hnz. Qed.

Lemma step_dot_elim m j p : length p = m -> ~ nth j p 0 == 0 ->
  forall r w, length r = m ->
  dot (elim_row j (pnorm j p) r) w == dot r w - nth j r 0 * dot (pnorm j p) w.
Proof.
  intros Hp Hnz r w H. unfold elim_row.
  rewrite dot_vred_l, dot_vsub_l by (rewrite vscale_length, (step_p'_length m) by assumption; exact H).
  rewrite dot_vscale_l. reflexivity.
Qed.

(* the step of gj written with pnorm / elim_row *)
Lemma gj_step k j done todo : gj (S k) j done todo =
  match pick j todo with
  | None => None
  | Some (p, rest) => gj k (S j) (map (elim_row j (pnorm j p)) done ++ [pnorm j p])
                        (map (elim_row j (pnorm j p)) rest)
  end.
Proof. reflexivity. Qed.

(* ------------------------------------------------------------------ row operations keep the solution set *)
(* facts shared by the three inductions over gj: one successful step *)
Lemma gj_step_facts m j todo done p rest : pick j todo = Some (p, rest) -> wf m done -> wf m todo ->
  ~ nth j p 0 == 0 /\ length p = m /\ In p todo /\ (forall r, In r todo <-> r = p \/ In r rest) /\
  length todo = S (length rest) /\ wf m rest /\
  wf m (map (elim_row j (pnorm j p)) done ++ [pnorm j p]) /\ wf m (map (elim_row j (pnorm j p)) rest).
Proof.
  intros E Hd Ht. destruct (pick_spec j todo p rest E) as [Hpz [Hmem Hlen]].
  apply Qeqb_false_neq in Hpz.
  assert (Hpin : In p todo) by (apply Hmem; left; reflexivity).
  assert (Hp : length p = m) by (apply (proj1 (Forall_forall _ _) Ht); exact Hpin).
  assert (Hrest : wf m rest).
  { apply Forall_forall. intros x Hx. apply (proj1 (Forall_forall _ _) Ht). apply Hmem. right. exact Hx. }
  repeat split; auto; try (apply Hmem); try (intro H; apply Hmem; exact H).
  - apply Forall_app. split.
    + apply Forall_forall. intros x Hx. apply in_map_iff in Hx. destruct Hx as [y [<- Hy]].
      apply (step_elim_length m j p Hp Hpz). exact (proj1 (Forall_forall _ _) Hd y Hy).
    + constructor; [|constructor]. apply (step_p'_length m j p Hp Hpz).
  - apply Forall_forall. intros x Hx. apply in_map_iff in Hx. destruct Hx as [y [<- Hy]].
    apply (step_elim_length m j p Hp Hpz). exact (proj1 (Forall_forall _ _) Hrest y Hy).
Qed.

(* whatever is orthogonal to every final row is orthogonal to every row we started from
   (the row operations are invertible), and conversely *)
Lemma gj_back m : forall k j done todo d, gj k j done todo = Some d ->
  wf m done -> wf m todo -> length todo = k ->
  forall w, (forall r, In r d -> dot r w == 0) -> forall r, In r (done ++ todo) -> dot r w == 0.
Proof.
  induction k as [|k IH]; intros j done todo d H Hd Ht Hl w Hw r Hr.
  - cbn [gj] in H. injection H as <-. destruct todo; [|discriminate]. rewrite app_nil_r in Hr. apply Hw. exact Hr.
  - rewrite gj_step in H. destruct (pick j todo) as [[p rest]|] eqn:E; [|discriminate].
    destruct (gj_step_facts m j todo done p rest E Hd Ht) as [Hpz [Hp [Hpin [Hmem [Hlen [Hrest [Hd' Ht']]]]]]].
    assert (Hl' : length (map (elim_row j (pnorm j p)) rest) = k) by (rewrite map_length; lia).
    pose proof (IH (S j) _ _ d H Hd' Ht' Hl' w Hw) as Hall.
    assert (Hp'0 : dot (pnorm j p) w == 0).
    { apply Hall. apply in_or_app. left. apply in_or_app. right. left. reflexivity. }
    assert (Helim : forall x, length x = m -> dot (elim_row j (pnorm j p) x) w == 0 -> dot x w == 0).
    { intros x Hx H0. rewrite (step_dot_elim m j p Hp Hpz x w Hx) in H0. rewrite Hp'0 in H0. lra. }
    apply in_app_or in Hr. destruct Hr as [Hr | Hr].
    + apply Helim; [exact (proj1 (Forall_forall _ _) Hd r Hr)|].
      apply Hall. apply in_or_app. left. apply in_or_app. left. apply in_map. exact Hr.
    + apply Hmem in Hr. destruct Hr as [-> | Hr].
      * pose proof (step_dot_p' m j p Hp Hpz w) as H1.
        assert (H2 : dot p w / nth j p 0 == 0) by (rewrite <- H1; exact Hp'0).
        assert (H3 : dot p w == (dot p w / nth j p 0) * nth j p 0) by (field; exact Hpz).
        rewrite H3, H2. ring.
      * apply Helim; [exact (proj1 (Forall_forall _ _) Hrest r Hr)|].
        apply Hall. apply in_or_app. right. apply in_map. exact Hr.
Qed.

Lemma gj_fwd m : forall k j done todo d, gj k j done todo = Some d ->
  wf m done -> wf m todo ->
  forall w, (forall r, In r (done ++ todo) -> dot r w == 0) -> forall r, In r d -> dot r w == 0.
Proof.
  induction k as [|k IH]; intros j done todo d H Hd Ht w Hw r Hr.
  - cbn [gj] in H. injection H as <-. apply Hw. apply in_or_app. left. exact Hr.
  - rewrite gj_step in H. destruct (pick j todo) as [[p rest]|] eqn:E; [|discriminate].
    destruct (gj_step_facts m j todo done p rest E Hd Ht) as [Hpz [Hp [Hpin [Hmem [Hlen [Hrest [Hd' Ht']]]]]]].
    assert (Hp0 : dot p w == 0) by (apply Hw; apply in_or_app; right; exact Hpin).
    assert (Hp'0 : dot (pnorm j p) w == 0).
    { rewrite (step_dot_p' m j p Hp Hpz w), Hp0. field. exact Hpz. }
    assert (Helim : forall x, length x = m -> dot x w == 0 -> dot (elim_row j (pnorm j p) x) w == 0).
    { intros x Hx H0. rewrite (step_dot_elim m j p Hp Hpz x w Hx), H0, Hp'0. ring. }
    apply (IH (S j) _ _ d H Hd' Ht' w); [|exact Hr].
    intros x Hx. apply in_app_or in Hx. destruct Hx as [Hx | Hx]; [apply in_app_or in Hx; destruct Hx as [Hx | Hx]|].
    + apply in_map_iff in Hx. destruct Hx as [y [<- Hy]].
      apply Helim; [exact (proj1 (Forall_forall _ _) Hd y Hy)|]. apply Hw. apply in_or_app. left. exact Hy.
    + destruct Hx as [<- | []]. exact Hp'0.
    + apply in_map_iff in Hx. destruct Hx as [y [<- Hy]].
      apply Helim; [exact (proj1 (Forall_forall _ _) Hrest y Hy)|]. apply Hw. apply in_or_app. right.
      apply Hmem. right. exact Hy.
Qed.

(* ------------------------------------------------------------------ the left block becomes the identity *)
Definition delta (i c : nat) : Q := if Nat.eqb i c then 1 else 0.

Lemma nth_map_nil (f : vec -> vec) i l : f [] = [] -> nth i (map f l) [] = f (nth i l []).
Proof. intro H. rewrite <- H at 1. apply map_nth. Qed.

Lemma gj_identity m : forall k j done todo d, gj k j done todo = Some d ->
  wf m done -> wf m todo -> length done = j ->
  (forall i c, (i < j)%nat -> (c < j)%nat -> nth c (nth i done []) 0 == delta i c) ->
  (forall r c, In r todo -> (c < j)%nat -> nth c r 0 == 0) ->
  length d = (j + k)%nat /\ wf m d /\
  (forall i c, (i < j + k)%nat -> (c < j + k)%nat -> nth c (nth i d []) 0 == delta i c).
Proof.
  induction k as [|k IH]; intros j done todo d H Hd Ht Hl Hid Hz.
  - cbn [gj] in H. injection H as <-. rewrite Nat.add_0_r. auto.
  - rewrite gj_step in H. destruct (pick j todo) as [[p rest]|] eqn:E; [|discriminate].
    destruct (gj_step_facts m j todo done p rest E Hd Ht) as [Hpz [Hp [Hpin [Hmem [Hlen [Hrest [Hd' Ht']]]]]]].
    set (p' := pnorm j p) in *. set (elim := elim_row j p') in *.
    assert (Hl' : length (map elim done ++ [p']) = S j).
    { rewrite app_length, map_length. cbn [length]. lia. }
    (* entries of the normalised pivot row *)
    assert (Hp'c : forall c, (c < j)%nat -> nth c p' 0 == 0).
    { intros c Hc. unfold p'. rewrite (step_p'_entry m j p Hp Hpz c), (Hz p c Hpin Hc). field. exact Hpz. }
    assert (Hp'j : nth j p' 0 == 1) by (apply (step_p'_pivot m j p Hp Hpz)).
    assert (Hel : forall x c, length x = m -> (c < j)%nat -> nth c (elim x) 0 == nth c x 0).
    { intros x c Hx Hc. unfold elim, p'. rewrite (step_elim_entry m j p Hp Hpz x c Hx). fold p'.
      rewrite (Hp'c c Hc). ring. }
    assert (Helj : forall x, length x = m -> nth j (elim x) 0 == 0).
    { intros x Hx. apply (step_elim_pivot m j p Hp Hpz x Hx). }
    assert (Enil : elim [] = []) by reflexivity.
    replace (j + S k)%nat with (S j + k)%nat by lia.
    apply (IH (S j) _ _ d H Hd' Ht' Hl').
    + intros i c Hi Hc.
      destruct (Nat.eq_dec i j) as [-> | Hij].
      * rewrite app_nth2 by (rewrite map_length; lia). rewrite map_length, Hl, Nat.sub_diag. cbn [nth].
        unfold delta. destruct (Nat.eqb j c) eqn:Ejc.
        -- apply Nat.eqb_eq in Ejc. subst c. exact Hp'j.
        -- apply Nat.eqb_neq in Ejc. apply Hp'c. lia.
      * assert (Hi' : (i < j)%nat) by lia.
        rewrite app_nth1 by (rewrite map_length; lia). rewrite (nth_map_nil elim i done Enil).
        assert (Hx : length (nth i done []) = m).
        { apply (proj1 (Forall_forall _ _) Hd). apply nth_In. lia. }
        destruct (Nat.eq_dec c j) as [-> | Hcj].
        -- rewrite (Helj _ Hx). unfold delta. destruct (Nat.eqb i j) eqn:Eij; [|reflexivity].
           apply Nat.eqb_eq in Eij. contradiction.
        -- rewrite (Hel _ c Hx) by lia. apply Hid; lia.
    + intros r c Hr Hc. apply in_map_iff in Hr. destruct Hr as [y [<- Hy]].
      assert (Hylen : length y = m) by exact (proj1 (Forall_forall _ _) Hrest y Hy).
      destruct (Nat.eq_dec c j) as [-> | Hcj]; [apply Helj; exact Hylen|].
      rewrite (Hel y c Hylen) by lia. apply Hz; [apply Hmem; right; exact Hy | lia].
Qed.

(* a row whose first k entries are those of e_i picks the i-th coefficient *)
Lemma dot_prefix_zero ws : forall r, (forall c, (c < length ws)%nat -> nth c r 0 == 0) ->
  dot (firstn (length ws) r) ws == 0.
Proof.
  induction ws as [|w ws IH]; intros r H; cbn [length firstn]; [reflexivity|].
  destruct r as [|x r]; [reflexivity|]. cbn [dot].
  assert (H0 : x == 0) by (apply (H 0%nat); cbn [length]; lia).
  assert (H1 : dot (firstn (length ws) r) ws == 0).
  { apply IH. intros c Hc. apply (H (S c)). cbn [length]. lia. }
  rewrite H0, H1. ring.
Qed.

Lemma dot_prefix_unit ws : forall r i, (forall c, (c < length ws)%nat -> nth c r 0 == delta i c) ->
  (length ws <= length r)%nat -> dot (firstn (length ws) r) ws == nth i ws 0.
Proof.
  induction ws as [|w ws IH]; intros r i H Hl; cbn [length firstn].
  - destruct i; reflexivity.
  - destruct r as [|x r]; [cbn [length] in Hl; lia|]. cbn [dot].
    assert (Hx : x == delta i 0) by (apply (H 0%nat); cbn [length]; lia).
    destruct i as [|i].
    + cbn [nth]. rewrite Hx. unfold delta. cbn [Nat.eqb].
      rewrite dot_prefix_zero; [ring|]. intros c Hc. apply (H (S c)). cbn [length]. lia.
    + cbn [nth]. rewrite Hx. unfold delta at 1. cbn [Nat.eqb].
      rewrite (IH r i); [ring | | cbn [length] in Hl; lia].
      intros c Hc. rewrite <- (H (S c)) by (cbn [length]; lia). reflexivity.
Qed.

Lemma nth_map_error {A} (f : A -> Q) l i x : nth_error l i = Some x -> nth i (map f l) 0 = f x.
Proof.
  revert i. induction l as [|y l IH]; intros [|i] H; cbn in H; try discriminate.
  - injection H as <-. reflexivity.
  - cbn [map nth]. apply IH. exact H.
Qed.

(* ------------------------------------------------------------------ normal equations *)
Lemma normal_rows_wf C X : wf (length C + length X) (normal_rows C X).
Proof.
  unfold normal_rows. apply Forall_forall. intros r Hr. apply in_map_iff in Hr. destruct Hr as [c [<- _]].
  rewrite app_length, !map_length. reflexivity.
Qed.

(* <c, sum_i w_i C_i> = sum_i <c, C_i> w_i *)
Lemma dot_lincomb n c : forall ws C x, wf n C -> length x = n ->
  dot c (lincomb ws C x) == dot (map (dot c) C) ws.
Proof.
  induction ws as [|w ws IH]; intros C x HC Hx; cbn [lincomb].
  - rewrite dot_nil_r, dot_comm. apply dot_vzero_l.
  - destruct C as [|c0 C]; [cbn [map]; rewrite dot_nil_l, dot_comm; apply dot_vzero_l|].
    pose proof (Forall_inv HC) as Hc0. pose proof (Forall_inv_tail HC) as HC'. cbn beta in Hc0.
    rewrite dot_vadd_r by (rewrite vscale_length, (lincomb_length n); auto).
    rewrite dot_vscale_r, (IH C x HC' Hx). cbn [map dot]. ring.
Qed.

(* the vector that tests "row (a | b) is satisfied by coefficient column j":  (beta_.j | -e_j) *)
Definition test_vec (beta : list vec) (j p : nat) : vec := bcol j beta ++ vscale (-1) (unitv j p).

Lemma dot_test_vec beta j p r k : length beta = k -> length r = (k + p)%nat ->
  dot r (test_vec beta j p) == dot (firstn k r) (bcol j beta) - nth j (skipn k r) 0.
Proof.
  intros Hk Hr. assert (Hb : length (bcol j beta) = k) by (unfold bcol; rewrite map_length; exact Hk).
  unfold test_vec. rewrite dot_app_r, Hb, dot_vscale_r.
  rewrite (dot_unitv (skipn k r) j p) by (rewrite skipn_length; lia). ring.
Qed.

(* a final row (e_i | beta_i) is satisfied by beta *)
Lemma final_rows_sat k p d j : length d = k -> wf (k + p) d ->
  (forall i c, (i < k)%nat -> (c < k)%nat -> nth c (nth i d []) 0 == delta i c) ->
  forall r, In r d -> dot r (test_vec (map (skipn k) d) j p) == 0.
Proof.
  intros Hdl Hdwf Hid r Hr. remember (map (skipn k) d) as beta eqn:Ebeta.
  assert (Hbl : length beta = k) by (subst beta; rewrite map_length; exact Hdl).
  destruct (In_nth_error d r Hr) as [i Hi].
  assert (Hik : (i < k)%nat) by (rewrite <- Hdl; apply nth_error_Some; congruence).
  assert (Hrl : length r = (k + p)%nat) by exact (proj1 (Forall_forall _ _) Hdwf r Hr).
  assert (Hri : nth i d [] = r) by (apply nth_error_nth; exact Hi).
  assert (Hbc : length (bcol j beta) = k) by (unfold bcol; rewrite map_length; exact Hbl).
  assert (H1 : dot (firstn (length (bcol j beta)) r) (bcol j beta) == nth i (bcol j beta) 0).
  { apply dot_prefix_unit.
    - intros c0 Hc0. rewrite Hbc in Hc0. rewrite <- Hri. apply Hid; assumption.
    - rewrite Hbc, Hrl. lia. }
  rewrite Hbc in H1.
  assert (H2 : nth i (bcol j beta) 0 = nth j (skipn k r) 0).
  { subst beta. unfold bcol. rewrite map_map. apply (nth_map_error (fun x : vec => nth j (skipn k x) 0) d i r Hi). }
  rewrite (dot_test_vec beta j p r k Hbl Hrl), H1, H2. ring.
Qed.

(* a row of the normal system tested against (beta_.j | -e_j) *)
Lemma normal_row_test C X c j x beta : length beta = length C -> nth_error X j = Some x ->
  dot (map (dot c) C ++ map (dot c) X) (test_vec beta j (length X)) ==
  dot (map (dot c) C) (bcol j beta) - dot c x.
Proof.
  intros Hbl Hj.
  assert (Hk : length beta = length (map (dot c) C)) by (rewrite map_length; exact Hbl).
  assert (Hrl : length (map (dot c) C ++ map (dot c) X) = (length (map (dot c) C) + length X)%nat).
  { rewrite app_length, !map_length. reflexivity. }
  rewrite (dot_test_vec beta j (length X) _ _ Hk Hrl).
  rewrite firstn_app, firstn_all, Nat.sub_diag. cbn [firstn]. rewrite app_nil_r.
  rewrite skipn_app, skipn_all, Nat.sub_diag. cbn [skipn app].
  rewrite (nth_map_error (dot c) X j x Hj). reflexivity.
Qed.

(* ★ Gauss-Jordan correctness: whenever a pivot is found in every column, the returned coefficients
   satisfy every row of the augmented normal system, i.e. C^T C beta = C^T X *)
Theorem solve_beta_rows n C X b : wf n C -> wf n X -> solve_beta C X = Some b ->
  length b = length C /\
  forall c j x, In c C -> nth_error X j = Some x -> dot (map (dot c) C) (bcol j b) == dot c x.
Proof.
  intros HC HX H. unfold solve_beta in H.
  destruct (gj (length C) 0 [] (normal_rows C X)) as [d|] eqn:E; [|discriminate]. injection H as <-.
  pose proof (normal_rows_wf C X) as Hwf.
  assert (Hlen : length (normal_rows C X) = length C) by (unfold normal_rows; rewrite map_length; reflexivity).
  destruct (gj_identity (length C + length X) (length C) 0 [] (normal_rows C X) d E (Forall_nil _) Hwf eq_refl)
    as [Hdl [Hdwf Hid]].
  { intros i c Hi. lia. }
  { intros r c _ Hc. lia. }
  cbn [Nat.add] in Hdl, Hid.
  assert (Hbl : length (map (skipn (length C)) d) = length C) by (rewrite map_length; exact Hdl).
  split; [exact Hbl|].
  intros c j x Hc Hj.
  pose proof (gj_back (length C + length X) (length C) 0 [] (normal_rows C X) d E (Forall_nil _) Hwf Hlen
                (test_vec (map (skipn (length C)) d) j (length X))
                (final_rows_sat (length C) (length X) d j Hdl Hdwf Hid)) as Horig.
  assert (Hrow : In (map (dot c) C ++ map (dot c) X) ([] ++ normal_rows C X)).
  { cbn [app]. unfold normal_rows. apply in_map_iff. exists c. auto. }
  specialize (Horig _ Hrow).
  rewrite (normal_row_test C X c j x _ Hbl Hj) in Horig. lra.
Qed.

Lemma forallb_mapi_from {A} (f : nat -> A -> bool) : forall l s,
  (forall j x, nth_error l j = Some x -> f (s + j)%nat x = true) ->
  forallb (fun b => b) (mapi_from f s l) = true.
Proof.
  induction l as [|y l IH]; intros s H; cbn [mapi_from forallb]; [reflexivity|].
  apply andb_true_iff. split.
  - rewrite <- (Nat.add_0_r s). apply H. reflexivity.
  - apply IH. intros j x Hj. replace (S s + j)%nat with (s + S j)%nat by lia. apply H. exact Hj.
Qed.

Theorem solve_beta_normal_eqs n C X b : wf n C -> wf n X -> solve_beta C X = Some b ->
  normal_eqs_hold C b X = true.
Proof.
  intros HC HX H. destruct (solve_beta_rows n C X b HC HX H) as [_ Hrows].
  unfold normal_eqs_hold. apply forallb_mapi_from. intros j x Hj. cbn [Nat.add].
  apply forallb_forall. intros c Hc. apply Qeq_eq_bool.
  assert (Hx : length x = n) by (apply (proj1 (Forall_forall _ _) HX); apply nth_error_In with j; exact Hj).
  rewrite (dot_lincomb n c (bcol j b) C x HC Hx). apply Hrows; assumption.
Qed.

(* ------------------------------------------------------------------ the guard means full column rank *)
Lemma dot_zero_r l : Forall (fun q => q == 0) l -> forall c, dot c l == 0.
Proof.
  induction 1 as [|q l Hq _ IH]; intro c; [rewrite dot_nil_r; reflexivity|].
  destruct c as [|y c]; [reflexivity|]. cbn [dot]. rewrite Hq, IH. ring.
Qed.

(* if Gauss-Jordan finds a pivot in every column, the centred sensitive columns are linearly
   independent: the only combination that vanishes is the zero combination *)
Theorem solve_beta_independent n C X b z : wf n C -> length z = n -> solve_beta C X = Some b ->
  forall ws, length ws = length C -> Forall (fun q => q == 0) (lincomb ws C z) ->
  Forall (fun q => q == 0) ws.
Proof.
  intros HC Hz H ws Hws Hzero. unfold solve_beta in H.
  destruct (gj (length C) 0 [] (normal_rows C X)) as [d|] eqn:E; [|discriminate]. clear H b.
  set (k := length C) in *. set (p := length X).
  pose proof (normal_rows_wf C X) as Hwf. fold k p in Hwf.
  destruct (gj_identity (k + p) k 0 [] (normal_rows C X) d E (Forall_nil _) Hwf eq_refl) as [Hdl [Hdwf Hid]].
  { intros i c Hi. lia. }
  { intros r c _ Hc. lia. }
  cbn [Nat.add] in Hdl, Hid.
  set (w := ws ++ repeat 0 p).
  assert (Hdotw : forall r, dot r w == dot (firstn k r) ws).
  { intro r. unfold w. rewrite dot_app_r, Hws, dot_repeat0. ring. }
  assert (Horig : forall r, In r ([] ++ normal_rows C X) -> dot r w == 0).
  { intros r Hr. cbn [app] in Hr. unfold normal_rows in Hr. apply in_map_iff in Hr. destruct Hr as [c [<- Hc]].
    rewrite Hdotw. assert (Hk : k = length (map (dot c) C)) by (rewrite map_length; reflexivity).
    rewrite Hk, firstn_app, firstn_all, Nat.sub_diag. cbn [firstn]. rewrite app_nil_r.
    rewrite <- (dot_lincomb n c ws C z HC Hz).
    apply dot_zero_r. exact Hzero. }
  pose proof (gj_fwd (k + p) k 0 [] (normal_rows C X) d E (Forall_nil _) Hwf w Horig) as Hfin.
  assert (Hall : forall i, (i < k)%nat -> nth i ws 0 == 0).
  { intros i Hi. assert (Hin : In (nth i d []) d) by (apply nth_In; lia).
    specialize (Hfin _ Hin). rewrite Hdotw in Hfin. rewrite <- Hws in Hfin at 1.
    rewrite dot_prefix_unit with (i := i) in Hfin; [exact Hfin| |].
    - intros c Hc. apply Hid; lia.
    - rewrite (proj1 (Forall_forall _ _) Hdwf _ Hin). lia. }
  rewrite <- Hws in Hall. clear - Hall. induction ws as [|q ws IH]; constructor.
  - apply (Hall 0%nat). cbn [length]. lia.
  - apply IH. intros i Hi. apply (Hall (S i)). cbn [length]. lia.
Qed.

(* ------------------------------------------------------------------ transform == fit_transform, unconditionally *)
Theorem transform_is_fit_transform_split n alpha Xuse Xs f : wf n Xuse -> wf n Xs ->
  fit_split Xuse Xs = Some f ->
  meq (transform_split f alpha Xuse Xs) (fit_transform_split alpha Xuse Xs).
Proof.
  intros HU HS Hf. unfold fit_split in Hf.
  destruct (solve_beta (centre Xs) Xuse) as [b|] eqn:E; [|discriminate]. injection Hf as <-.
  apply (transform_is_fit_transform_partial n); auto.
  apply (solve_beta_normal_eqs n); auto. apply wf_centre. exact HS.
Qed.

Theorem transform_is_fit_transform n names ids alpha X f :
  wf n X -> length names = length X -> fit names ids X = Some f ->
  exists o1 o2, transform names ids f alpha X = Some o1 /\
                fit_transform names ids alpha X = Some o2 /\ meq o1 o2.
Proof.
  intros HX Hl Hf. unfold fit in Hf. destruct (split names ids X) as [[Xuse Xs]|] eqn:Hsp; [|discriminate].
  unfold transform, fit_transform. rewrite Hsp. do 2 eexists.
  split; [reflexivity|]. split; [reflexivity|].
  destruct (split_wf n names ids X Xuse Xs HX Hl Hsp) as [HU HS].
  apply (transform_is_fit_transform_split n); auto.
Qed.

(* the learned coefficients solve the normal equations and the learned means are the column means *)
Theorem fit_spec n names ids X Xuse Xs f :
  wf n X -> length names = length X -> split names ids X = Some (Xuse, Xs) -> fit names ids X = Some f ->
  f_mean f = map mean Xs /\ length (f_beta f) = length Xs /\
  normal_eqs_hold (centre Xs) (f_beta f) Xuse = true /\
  (forall c j x, In c (centre Xs) -> nth_error Xuse j = Some x ->
     dot c (lincomb (bcol j (f_beta f)) (centre Xs) x) == dot c x).
Proof.
  intros HX Hl Hsp Hf. unfold fit in Hf. rewrite Hsp in Hf. unfold fit_split in Hf.
  destruct (solve_beta (centre Xs) Xuse) as [b|] eqn:E; [|discriminate]. injection Hf as <-. cbn [f_mean f_beta].
  destruct (split_wf n names ids X Xuse Xs HX Hl Hsp) as [HU HS].
  pose proof (wf_centre n Xs HS) as HC.
  destruct (solve_beta_rows n (centre Xs) Xuse b HC HU E) as [Hlen Hrows].
  split; [reflexivity|]. split; [rewrite Hlen; unfold centre; apply map_length|].
  split; [apply (solve_beta_normal_eqs n); auto|].
  intros c j x Hc Hj.
  assert (Hx : length x = n) by (apply (proj1 (Forall_forall _ _) HU); apply nth_error_In with j; exact Hj).
  rewrite (dot_lincomb n c (bcol j b) (centre Xs) x HC Hx). apply Hrows; assumption.
Qed.

(* ------------------------------------------------------------------ transform is ONE affine, row-wise map *)
(* row i of a matrix stored by columns *)
Definition row (i : nat) (M : mat) : vec := map (fun c => nth i c 0) M.

(* the value written to output cell (i, j):  u = X_use[i, j],  srow = X_sensitive[i, :]
     alpha * (u - (srow - mean) . beta[:, j]) + (1 - alpha) * u *)
Definition affine_entry (means : list Q) (beta : list vec) (alpha : Q) (j : nat) (u : Q) (srow : vec) : Q :=
  alpha * (u - dot (vsub srow means) (bcol j beta)) + (1 - alpha) * u.

Lemma nth_nil_Q i : nth i (@nil Q) 0 = 0.
Proof. destruct i; reflexivity. Qed.

Lemma nth_row i M j : nth j (row i M) 0 = nth i (nth j M []) 0.
Proof.
  unfold row. rewrite <- (map_nth (fun c : vec => nth i c 0) M [] j). cbn beta.
  rewrite nth_nil_Q. reflexivity.
Qed.

Lemma row_cols i X idx : row i (cols X idx) = map (fun c => nth c (row i X) 0) idx.
Proof.
  unfold cols. unfold row at 1. rewrite map_map. apply map_ext. intro c. rewrite nth_row. reflexivity.
Qed.

Lemma nth_lincomb n i : forall ws C x, wf n C -> length x = n ->
  nth i (lincomb ws C x) 0 == dot (row i C) ws.
Proof.
  induction ws as [|w ws IH]; intros C x HC Hx; cbn [lincomb].
  - rewrite dot_nil_r. apply nth_vzero.
  - destruct C as [|c C]; [cbn [row map]; rewrite dot_nil_l; apply nth_vzero|].
    pose proof (Forall_inv HC) as Hc. pose proof (Forall_inv_tail HC) as HC'. cbn beta in Hc.
    rewrite nth_vadd by (rewrite vscale_length, (lincomb_length n); auto).
    rewrite nth_vscale, (IH C x HC' Hx). cbn [row map dot]. fold (row i C). ring.
Qed.

Lemma shift_cols_wf n : forall means Xs, wf n Xs -> wf n (shift_cols means Xs).
Proof.
  induction means as [|m ms IH]; intros [|c cs] H; cbn [shift_cols]; try constructor.
  - rewrite vshift_length. exact (Forall_inv H).
  - apply IH. exact (Forall_inv_tail H).
Qed.

Lemma row_shift_cols i : forall means Xs, (forall c, In c Xs -> (i < length c)%nat) ->
  row i (shift_cols means Xs) = vsub (row i Xs) means.
Proof.
  induction means as [|m ms IH]; intros [|c cs] H; cbn [shift_cols row map vsub vmap2]; try reflexivity.
  fold (row i (shift_cols ms cs)). fold (row i cs). fold (vsub (row i cs) ms). f_equal.
  - unfold vshift. rewrite (nth_indep _ 0 (0 - m)) by (rewrite map_length; apply H; left; reflexivity).
    apply (map_nth (fun x => x - m)).
  - apply IH. intros c' Hc'. apply H. right. exact Hc'.
Qed.

Lemma nth_mapi_from {A} (g : nat -> A -> vec) (d : A) : forall l s j, (j < length l)%nat ->
  nth j (mapi_from g s l) [] = g (s + j)%nat (nth j l d).
Proof.
  induction l as [|x l IH]; intros s j Hj; cbn [length] in Hj; [lia|].
  destruct j as [|j]; cbn [mapi_from nth].
  - rewrite Nat.add_0_r. reflexivity.
  - rewrite IH by lia. f_equal. lia.
Qed.

Lemma mapi_from_length {A B} (g : nat -> A -> B) : forall l s, length (mapi_from g s l) = length l.
Proof. induction l as [|x l IH]; intro s; cbn [mapi_from length]; [reflexivity | rewrite IH; reflexivity]. Qed.

(* ★ every output entry of transform, on ANY data, is the affine expression in the entries of the SAME row,
   with the stored means and coefficients *)
Theorem transform_entry n f alpha Xuse Xs i j : wf n Xuse -> wf n Xs -> (i < n)%nat -> (j < length Xuse)%nat ->
  nth i (nth j (transform_split f alpha Xuse Xs) []) 0 ==
  affine_entry (f_mean f) (f_beta f) alpha j (nth i (nth j Xuse []) 0) (row i Xs).
Proof.
  intros HU HS Hi Hj. unfold transform_split.
  rewrite (nth_mapi_from (A:=vec) _ [] Xuse 0 j Hj). cbn beta. cbn [Nat.add].
  set (x := nth j Xuse []).
  assert (Hx : length x = n) by (apply (proj1 (Forall_forall _ _) HU); apply nth_In; exact Hj).
  pose proof (shift_cols_wf n (f_mean f) Xs HS) as HC.
  set (l := lincomb (bcol j (f_beta f)) (shift_cols (f_mean f) Xs) x).
  assert (Hlc : length l = n) by (apply lincomb_length; auto).
  assert (Hxl : length x = length l) by congruence.
  assert (Hlu : length (vsub x l) = length x) by (apply vsub_length; exact Hxl).
  rewrite (vblend_entry alpha (vsub x l) x Hlu i), (nth_vsub x l i Hxl). unfold l.
  rewrite (nth_lincomb n i _ _ x HC Hx).
  rewrite row_shift_cols.
  - unfold affine_entry. reflexivity.
  - intros c Hc. rewrite (proj1 (Forall_forall _ _) HS c Hc). exact Hi.
Qed.

Lemma transform_split_length f alpha Xuse Xs : length (transform_split f alpha Xuse Xs) = length Xuse.
Proof. unfold transform_split. apply mapi_from_length. Qed.

(* ---- congruence of the affine expression ---- *)
Lemma veq_nth a b : veq a b -> forall c, nth c a 0 == nth c b 0.
Proof.
  induction 1 as [|x y a b Hxy _ IH]; intros [|c]; cbn [nth]; try reflexivity; [exact Hxy | apply IH].
Qed.

Lemma veq_of_nth : forall a b, length a = length b ->
  (forall j, (j < length a)%nat -> nth j a 0 == nth j b 0) -> veq a b.
Proof.
  induction a as [|x a IH]; intros [|y b] Hl H; cbn [length] in Hl; try discriminate; constructor.
  - apply (H 0%nat). cbn [length]. lia.
  - apply IH; [lia|]. intros j Hj. apply (H (S j)). cbn [length]. lia.
Qed.

Lemma veq_length a b : veq a b -> length a = length b.
Proof. induction 1; cbn [length]; congruence. Qed.

Lemma dot_veq a b c d : veq a b -> veq c d -> dot a c == dot b d.
Proof.
  intro H. revert c d. induction H as [|x y a b Hxy _ IH]; intros c d Hcd; [reflexivity|].
  destruct Hcd as [|u v c d Huv Hcd]; [reflexivity|]. cbn [dot]. rewrite Hxy, Huv, (IH c d Hcd). reflexivity.
Qed.

Lemma veq_refl a : veq a a.
Proof. induction a; constructor; [reflexivity | assumption]. Qed.

Lemma meq_refl A : meq A A.
Proof. induction A; constructor; [apply veq_refl | assumption]. Qed.

Lemma veq_vsub a b c d : veq a b -> veq c d -> veq (vsub a c) (vsub b d).
Proof.
  intro H. revert c d. induction H as [|x y a b Hxy _ IH]; intros c d Hcd; [constructor|].
  destruct Hcd as [|u v c d Huv Hcd]; cbn [vsub vmap2]; constructor.
  - rewrite Hxy, Huv. reflexivity.
  - apply IH. exact Hcd.
Qed.

Lemma veq_bcol j b1 b2 : meq b1 b2 -> veq (bcol j b1) (bcol j b2).
Proof.
  induction 1 as [|r1 r2 b1 b2 Hr _ IH]; cbn [bcol map]; constructor; [|exact IH].
  apply veq_nth. exact Hr.
Qed.

Lemma affine_entry_compat m1 m2 b1 b2 alpha j u1 u2 s1 s2 :
  veq m1 m2 -> meq b1 b2 -> u1 == u2 -> veq s1 s2 ->
  affine_entry m1 b1 alpha j u1 s1 == affine_entry m2 b2 alpha j u2 s2.
Proof.
  intros Hm Hb Hu Hs. unfold affine_entry.
  rewrite (dot_veq _ _ _ _ (veq_vsub _ _ _ _ Hs Hm) (veq_bcol j _ _ Hb)), Hu. reflexivity.
Qed.

(* the expression is affine in the row (u, srow): t * row + (1 - t) * row' is mapped to the same
   combination of the images *)
Lemma dot_vsub_vblend t : forall s s' m w, length s = length s' ->
  dot (vsub (vblend t s s') m) w == t * dot (vsub s m) w + (1 - t) * dot (vsub s' m) w.
Proof.
  induction s as [|a s IH]; intros [|a' s'] m w H; cbn [length] in H; try discriminate.
  - cbn. ring.
  - destruct m as [|b m]; [cbn; ring|]. destruct w as [|c w]; [cbn; ring|].
    change (vblend t (a :: s) (a' :: s')) with ((t * a + (1 - t) * a') :: vblend t s s').
    cbn [vsub vmap2 dot]. fold (vsub (vblend t s s') m) (vsub s m) (vsub s' m).
    rewrite (IH s' m w) by lia. ring.
Qed.

Theorem affine_entry_affine means beta alpha j t u u' s s' : length s = length s' ->
  affine_entry means beta alpha j (t * u + (1 - t) * u') (vblend t s s') ==
  t * affine_entry means beta alpha j u s + (1 - t) * affine_entry means beta alpha j u' s'.
Proof. intro H. unfold affine_entry. rewrite dot_vsub_vblend by exact H. ring. Qed.

(* ---- API level ---- *)
Lemma Forall2_map_same {A} (R : Q -> Q -> Prop) (g h : A -> Q) l :
  (forall c, R (g c) (h c)) -> Forall2 R (map g l) (map h l).
Proof. intro H. induction l; cbn [map]; constructor; auto. Qed.

Lemma split_inv names ids X Xuse Xs : split names ids X = Some (Xuse, Xs) ->
  exists s, sens_idx names ids = Some s /\ Xuse = cols X (use_idx (length X) s) /\ Xs = cols X s.
Proof.
  unfold split. destruct (sens_idx names ids) as [s|]; [|discriminate].
  intro H. injection H as <- <-. exists s. auto.
Qed.

(* ★ transform_affine: whatever data X (n rows) transform is applied to,
   (a) cell (i, j) of the output is affine_entry of row i of (X_use, X_sensitive) with the STORED means/beta;
   (b) the output has one column per non-sensitive column. *)
Theorem transform_affine n names ids f alpha X Xuse Xs out :
  wf n X -> length names = length X ->
  split names ids X = Some (Xuse, Xs) -> transform names ids f alpha X = Some out ->
  length out = length Xuse /\
  forall i j, (i < n)%nat -> (j < length Xuse)%nat ->
    nth i (nth j out []) 0 ==
    affine_entry (f_mean f) (f_beta f) alpha j (nth j (row i Xuse) 0) (row i Xs).
Proof.
  intros HX Hl Hsp Ht. unfold transform in Ht. rewrite Hsp in Ht. injection Ht as <-.
  destruct (split_wf n names ids X Xuse Xs HX Hl Hsp) as [HU HS].
  split; [apply transform_split_length|].
  intros i j Hi Hj. rewrite nth_row. apply (transform_entry n); auto.
Qed.

(* ★ row-wise: output row i depends only on input row i (two data sets of any sizes, same width) *)
Theorem transform_rowwise n n' names ids f alpha X X' out out' i i' :
  wf n X -> wf n' X' -> length names = length X -> length X' = length X ->
  (i < n)%nat -> (i' < n')%nat -> veq (row i X) (row i' X') ->
  transform names ids f alpha X = Some out -> transform names ids f alpha X' = Some out' ->
  veq (row i out) (row i' out').
Proof.
  intros HX HX' Hl Hw Hi Hi' Hrow Ht Ht'.
  unfold transform in Ht, Ht'.
  destruct (split names ids X) as [[Xuse Xs]|] eqn:Hsp; [|discriminate].
  destruct (split names ids X') as [[Xuse' Xs']|] eqn:Hsp'; [|discriminate].
  injection Ht as <-. injection Ht' as <-.
  destruct (split_wf n names ids X Xuse Xs HX Hl Hsp) as [HU HS].
  destruct (split_wf n' names ids X' Xuse' Xs' HX' (eq_trans Hl (eq_sym Hw)) Hsp') as [HU' HS'].
  destruct (split_inv _ _ _ _ _ Hsp) as [s [Es [EU ES]]].
  destruct (split_inv _ _ _ _ _ Hsp') as [s' [Es' [EU' ES']]].
  rewrite Es in Es'. injection Es' as <-. rewrite Hw in EU'.
  assert (HrU : veq (row i Xuse) (row i' Xuse')).
  { rewrite EU, EU', !row_cols. apply Forall2_map_same. intro c. apply veq_nth. exact Hrow. }
  assert (HrS : veq (row i Xs) (row i' Xs')).
  { rewrite ES, ES', !row_cols. apply Forall2_map_same. intro c. apply veq_nth. exact Hrow. }
  assert (Hlen : length Xuse' = length Xuse) by (rewrite EU, EU'; unfold cols; rewrite !map_length; reflexivity).
  apply veq_of_nth.
  - unfold row. rewrite !map_length, !transform_split_length. auto.
  - intros j Hj. unfold row in Hj. rewrite map_length, transform_split_length in Hj.
    rewrite !nth_row.
    rewrite (transform_entry n f alpha Xuse Xs i j HU HS Hi Hj).
    rewrite (transform_entry n' f alpha Xuse' Xs' i' j HU' HS' Hi') by lia.
    apply affine_entry_compat; [apply veq_refl | apply meq_refl | | exact HrS].
    rewrite <- !nth_row. apply veq_nth. exact HrU.
Qed.

(* ★ transform uses the training data only through (sensitive_mean_, beta_): two fitted states with
   entrywise equal means and coefficients transform every data set to entrywise equal outputs *)
Theorem transform_through_mean_beta n names ids f1 f2 alpha X out1 out2 :
  wf n X -> length names = length X ->
  veq (f_mean f1) (f_mean f2) -> meq (f_beta f1) (f_beta f2) ->
  transform names ids f1 alpha X = Some out1 -> transform names ids f2 alpha X = Some out2 ->
  length out1 = length out2 /\
  forall i j, (i < n)%nat -> (j < length out1)%nat -> nth i (nth j out1 []) 0 == nth i (nth j out2 []) 0.
Proof.
  intros HX Hl Hm Hb H1 H2. unfold transform in H1, H2.
  destruct (split names ids X) as [[Xuse Xs]|] eqn:Hsp; [|discriminate].
  injection H1 as <-. injection H2 as <-.
  destruct (split_wf n names ids X Xuse Xs HX Hl Hsp) as [HU HS].
  rewrite !transform_split_length. split; [reflexivity|].
  intros i j Hi Hj.
  rewrite (transform_entry n f1 alpha Xuse Xs i j HU HS Hi Hj).
  rewrite (transform_entry n f2 alpha Xuse Xs i j HU HS Hi Hj).
  apply affine_entry_compat; auto; [reflexivity | apply veq_refl].
Qed.

(* ------------------------------------------------------------------ the source expressions (translator tie) *)
(* value of the expressions of fit():  sensitive_mean_ = [] if no sensitive column else X_sensitive.mean(axis=0);
   beta_ = lstsq(X_sensitive - sensitive_mean_, X_use)[0]   IS   the model's fit_split *)
Theorem eval_fit_model Xuse Xs : eval_fit Xuse Xs model_mean_ex model_beta_ex = fit_split Xuse Xs.
Proof.
  unfold eval_fit, model_beta_ex, model_centre_ex, model_mean_ex, fit_split.
  cbn [eval e_use e_sens]. destruct Xs as [|c cs]; cbn [no_cols eval e_sens].
  - cbn [shift_cols centre map]. destruct (solve_beta [] Xuse); reflexivity.
  - rewrite shift_cols_means. destruct (solve_beta (centre (c :: cs)) Xuse); reflexivity.
Qed.

Lemma blend_mapi alpha (g : nat -> vec -> vec) : forall Xuse s,
  mmap2 vadd (map (vscale alpha) (mapi_from g s Xuse)) (map (vscale (1 - alpha)) Xuse) =
  mapi_from (fun j x => vblend alpha (g j x) x) s Xuse.
Proof.
  induction Xuse as [|x Xuse IH]; intro s; cbn [mapi_from map mmap2]; [reflexivity|].
  rewrite IH. reflexivity.
Qed.

(* value of the expression returned by transform():
   alpha * (X_use - (X_sensitive - sensitive_mean_).dot(beta_)) + (1 - alpha) * X_use   IS   transform_split *)
Theorem eval_transform_model f alpha Xuse Xs :
  eval_transform f alpha Xuse Xs model_return_ex = Some (transform_split f alpha Xuse Xs).
Proof.
  unfold eval_transform, model_return_ex, model_filtered_ex, transform_split.
  cbn [eval e_use e_sens e_mean e_beta e_alpha]. rewrite blend_mapi. reflexivity.
Qed.

(* ... and X_sensitive - X_sensitive.mean() (no axis) is the scalar centring refuted in global_centring_refuted *)
Theorem eval_scalar_mean_is_global E :
  eval E (Sub XSens (MeanAll XSens)) = Some (VM (centre_global (e_sens E))).
Proof. reflexivity. Qed.
