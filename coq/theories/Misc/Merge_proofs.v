From Coq Require Import ZArith List Bool Lia.
From FL Require Import Merge.
Import ListNotations.
Open Scope Z_scope.

(* one-character view of the standard chain *)
Definition esc1 (c : Z) : str :=
  if c =? bs then [bs; bs] else if c =? comma then [bs; comma] else [c].

Lemma replace1_flat_map (a : Z) (b : str) (f : Z -> str) (s : str) :
  replace1 a b (flat_map f s) = flat_map (fun c => replace1 a b (f c)) s.
Proof.
  unfold replace1. induction s as [|c s IH]; cbn [flat_map]; [reflexivity|].
  rewrite flat_map_app, IH. reflexivity.
Qed.

Lemma escape_std (s : str) : escape std_steps s = flat_map esc1 s.
Proof.
  unfold escape, std_steps. cbn [fold_left fst snd].
  unfold replace1 at 2. rewrite replace1_flat_map.
  apply flat_map_ext. intro c. unfold esc1, replace1, bs, comma.
  destruct (c =? 92) eqn:E1.
  - reflexivity.
  - cbn [flat_map]. destruct (c =? 44) eqn:E2; reflexivity.
Qed.

Definition prepend (s : str) (fs : list str) : list str :=
  match fs with f :: r => (s ++ f) :: r | [] => [s] end.

Lemma unmerge_nonempty (s : str) : unmerge s <> [].
Proof.
  assert (H : forall n s, (length s <= n)%nat -> unmerge s <> []).
  { clear s. induction n as [|n IH]; intros s Hl.
    - destruct s; [discriminate | cbn in Hl; lia].
    - destruct s as [|c r]; [discriminate|]. cbn [unmerge].
      destruct (c =? bs).
      + destruct r as [|c2 r2]; [discriminate|].
        assert (Hr : unmerge r2 <> []) by (apply IH; cbn in Hl; lia).
        destruct (unmerge r2); [contradiction | discriminate].
      + destruct (c =? comma); [discriminate|].
        assert (Hr : unmerge r <> []) by (apply IH; cbn in Hl; lia).
        destruct (unmerge r); [contradiction | discriminate]. }
  apply (H (length s)); lia.
Qed.

Lemma push_prepend c s fs : fs <> [] -> push c (prepend s fs) = prepend (c :: s) fs.
Proof. destruct fs; [contradiction | reflexivity]. Qed.

Lemma unmerge_esc_app (s t : str) :
  unmerge (flat_map esc1 s ++ t) = prepend s (unmerge t).
Proof.
  induction s as [|c s IH]; cbn [flat_map app].
  - destruct (unmerge t) eqn:E; [exfalso; eapply unmerge_nonempty; eauto | reflexivity].
  - unfold esc1 at 1. destruct (c =? bs) eqn:E1.
    + apply Z.eqb_eq in E1. subst c. cbn [app unmerge]. rewrite Z.eqb_refl.
      rewrite IH. apply push_prepend, unmerge_nonempty.
    + destruct (c =? comma) eqn:E2.
      * apply Z.eqb_eq in E2. subst c. cbn [app unmerge]. rewrite Z.eqb_refl.
        rewrite IH. apply push_prepend, unmerge_nonempty.
      * cbn [app unmerge]. rewrite E1, E2. rewrite IH.
        apply push_prepend, unmerge_nonempty.
Qed.

Lemma merge_cons x r :
  merge (x :: r) = match r with [] => flat_map esc1 x
                               | _ => flat_map esc1 x ++ comma :: merge r end.
Proof.
  unfold merge, merge_with. cbn [map join]. rewrite escape_std.
  destruct r; reflexivity.
Qed.

Theorem unmerge_merge (row : list str) : row <> [] -> unmerge (merge row) = row.
Proof.
  induction row as [|x r IH]; [contradiction|]. intros _.
  rewrite merge_cons. destruct r as [|y r'].
  - rewrite <- (app_nil_r (flat_map esc1 x)), unmerge_esc_app. cbn. rewrite app_nil_r. reflexivity.
  - rewrite unmerge_esc_app.
    assert (Hc : unmerge (comma :: merge (y :: r')) = [] :: unmerge (merge (y :: r'))) by reflexivity.
    rewrite Hc, IH by discriminate. cbn. rewrite app_nil_r. reflexivity.
Qed.

Theorem merge_injective_std (r r' : list str) :
  r <> [] -> r' <> [] -> merge r = merge r' -> r = r'.
Proof.
  intros H H' E. rewrite <- (unmerge_merge r H), <- (unmerge_merge r' H'), E. reflexivity.
Qed.

(* boolean equalities are the propositional ones *)
Lemma str_eqb_eq a b : str_eqb a b = true <-> a = b.
Proof.
  revert b. induction a as [|x a IH]; destruct b as [|y b]; cbn; try (split; congruence).
  rewrite andb_true_iff, Z.eqb_eq, IH. split; [intros [-> ->]; reflexivity | intros [= -> ->]; auto].
Qed.

Lemma row_eqb_eq a b : row_eqb a b = true <-> a = b.
Proof.
  revert b. induction a as [|x a IH]; destruct b as [|y b]; cbn; try (split; congruence).
  rewrite andb_true_iff, str_eqb_eq, IH. split; [intros [-> ->]; reflexivity | intros [= -> ->]; auto].
Qed.

Lemma first_index_ext {A B} (ea : A -> A -> bool) (eb : B -> B -> bool) (f : A -> B) x l i :
  (forall y, In y l -> eb (f x) (f y) = ea x y) ->
  first_index eb (f x) (map f l) i = first_index ea x l i.
Proof.
  revert i. induction l as [|y l IH]; intros i H; cbn; [reflexivity|].
  rewrite H by (left; reflexivity). destruct (ea x y); [reflexivity|].
  apply IH. intros z Hz. apply H. right. exact Hz.
Qed.

(* the partition induced by the merged column is the partition by tuple equality *)
Theorem merged_partition_is_tuple_partition (rows : list (list str)) :
  (forall r, In r rows -> r <> []) -> merged_partition rows = tuple_partition rows.
Proof.
  intro Hne. unfold merged_partition, tuple_partition, partition_ids, merge_table.
  rewrite map_map. apply map_ext_in. intros x Hx.
  apply first_index_ext. intros y Hy.
  destruct (row_eqb x y) eqn:E.
  - apply row_eqb_eq in E. subst y. apply str_eqb_eq. reflexivity.
  - destruct (str_eqb (merge x) (merge y)) eqn:E2; [|reflexivity].
    apply str_eqb_eq in E2. apply merge_injective_std in E2; auto.
    subst y. assert (row_eqb x x = true) by (apply row_eqb_eq; reflexivity). congruence.
Qed.

(* without the escape step the merge is NOT injective: the theorem is not vacuous *)
Example merge_unescaped_collides :
  merge_with [] std_sep [[97; 44]; [98]] = merge_with [] std_sep [[97]; [44; 98]]
  /\ [[97; 44]; [98]] <> [[97]; [44; 98]].
Proof. split; [reflexivity | discriminate]. Qed.

(* escaping in the wrong order (separator first, then backslash) also collides *)
Example merge_wrong_order_collides :
  let steps := [(comma, [bs; comma]); (bs, [bs; bs])] in
  merge_with steps std_sep [[92]; [44]] = merge_with steps std_sep [[44; 92]; []]
  /\ [[92]; [44]] <> [[44; 92]; []].
Proof. cbv zeta. split; [vm_compute; reflexivity | discriminate]. Qed.
