(* C19 -- source description of the life-cycle switches.

   The state machines of FL.Lifecycle rest on a handful of facts about the code in /repo.  They are written
   here as a record (lifecycle_src); translators/t_lifecycle.py regenerates a value of this type from the
   source on every run (coq/gen/Gen_lifecycle.v) and props/C19.v states that the regenerated value IS
   model_src below, and that the step functions determined by the regenerated switches ARE the step
   functions all C19 theorems are about.

   Besides the record this file contains the switch-parametrised versions of the machines (x_step: latch /
   returns self / rebinds a constructor attribute / carries fitted state over; e_step_gen: the guard of the
   `self.nu = ...` assignment; a_step_gen: re-initialisation rule, user module used itself or copied,
   `.eval()` before the forward pass).  Proof-free; does not import FLGen. *)
From Coq Require Import String ZArith List Bool.
From FL Require Import Num Flat Lifecycle.
Import ListNotations.
Open Scope string_scope.

(* ---------------------------------------------------------------- what is decoded per estimator
   (abstract execution of fit and of every method of the same class it refers to) *)
Record fit_src : Type := mk_fit {
  fs_returns_self : bool;           (* every `return` of fit is `return self`, the body cannot fall off its end *)
  fs_param_writes : list string;    (* attributes assigned in __init__ that fit assigns / deletes / item-assigns *)
  fs_param_calls : list string;     (* methods called directly on a constructor parameter: self.<param>.<m>(...) *)
  fs_history_reads : list string;   (* attributes read (also hasattr / getattr) before THIS call assigned them:
                                       state carried over from an earlier call *)
  fs_inplace : list string;         (* fitted attributes mutated in place (item store, append, ...) *)
  fs_escapes : list string          (* callables that receive the estimator object itself *)
}.

(* guard of `self.nu = ...` in ExponentiatedGradient.fit *)
Inductive nu_guard : Type := NuNotWritten | NuIfNone | NuAlways | NuOther.

Record moment_src : Type := mk_moment {
  ms_latch : bool;                  (* load_data asserts / raises / returns early on data_loaded *)
  ms_sets_loaded : bool;            (* `self.data_loaded = True` at the top level of load_data *)
  ms_other_readers : list string    (* files of fairlearn/reductions that read data_loaded elsewhere *)
}.

Record loads_src : Type := mk_loads {
  ld_lag_constraints : bool;        (* _Lagrangian.__init__: constraints.load_data(X, y, **kwargs) unconditional *)
  ld_lag_objective : bool;          (* ... and the objective, which is definitely (re)bound before *)
  ld_eg_hands_params : bool;        (* ExponentiatedGradient.fit: _Lagrangian(X=X, y=y, constraints=self.constraints,
                                       objective=self.objective, ..., **kwargs) at the top level *)
  ld_gs_constraints : bool;         (* GridSearch.fit: self.constraints.load_data(X, y, **kwargs) unconditional *)
  ld_gs_objective : bool;           (* ... and objective.load_data(X, y, **kwargs) *)
  ld_gs_objective_fresh : bool      (* objective = self.constraints.default_objective(), a new object per fit *)
}.

(* truth tables: value for (a, b) = (F,F) (F,T) (T,F) (T,T) *)
Definition tab2 (t : list bool) (a b : bool) : bool :=
  nth ((if a then 2 else 0) + (if b then 1 else 0)) t false.

Record adv_src : Type := mk_adv {
  ad_first : list bool;             (* flag handed to _validate_input, over (hasattr(self,"classes_"), self.warm_start) *)
  ad_del : list bool;               (* guard of `del self.classes_`, same atoms *)
  ad_setup : list bool;             (* guard of self.__setup(X, y, A), over (is_fitted, reinitialize) *)
  ad_classes_when_missing : bool;   (* `if not hasattr(self, "classes_"): self.classes_ = unique(y)` after __setup *)
  ad_setup_assigns : list string;   (* attributes __setup definitely assigns (engine from self.backend_(self, ...),
                                       random_state_ from check_random_state(self.random_state)) *)
  ad_marker : string;               (* __sklearn_is_fitted__: hasattr(self, <marker>) *)
  ad_reuse : list bool;             (* BackendEngine.__init__ takes over the old networks, over
                                       (base.warm_start, hasattr(base, "backendEngine_")) *)
  ad_user_module_in_place : bool;   (* __init_model__ returns the user's module object itself *)
  ad_base_writes : list string;     (* attributes of the estimator the engines assign *)
  ad_eval_first : bool;             (* PytorchEngine.evaluate: predictor_model.eval() before the forward pass *)
  ad_train_first : bool             (* PytorchEngine.train_step: .train() on both networks before the forward pass *)
}.

Record lifecycle_src : Type := mk_src {
  ls_to : fit_src;                  (* ThresholdOptimizer *)
  ls_eg : fit_src;                  (* ExponentiatedGradient *)
  ls_gs : fit_src;                  (* GridSearch *)
  ls_cr : fit_src;                  (* CorrelationRemover *)
  ls_adv : fit_src;                 (* _AdversarialFairness.fit = fit of the classifier and of the regressor *)
  ls_adv_cold : fit_src;            (* the same under the assumption self.warm_start = False *)
  ls_nu : nu_guard;
  ls_moment : moment_src;
  ls_loads : loads_src;
  ls_rules : adv_src
}.

(* ================================================================ the code as it is now
   (what Lifecycle.v was written from) *)
Definition model_src : lifecycle_src :=
  mk_src
    (* ThresholdOptimizer: nothing rebound, nothing carried over; _tradeoff_curve is created anew by both
       _threshold_optimization_for_* before it is filled *)
    (mk_fit true [] [] [] ["_tradeoff_curve"] [])
    (* ExponentiatedGradient: nu (F7a, known finding) *)
    (mk_fit true ["nu"] ["constraints.bound"] [] ["lambda_vecs_EG_"; "lambda_vecs_LP_"; "weights_"] [])
    (* GridSearch: all five result containers are assigned fresh before the loop appends to them *)
    (mk_fit true [] ["constraints.default_objective"; "constraints.gamma"; "constraints.load_data";
                     "constraints.signed_weights"] []
            ["gammas_"; "lambda_vecs_"; "objectives_"; "oracle_execution_times_"; "predictors_"] [])
    (* CorrelationRemover: the width latch (c_width); lookup_ is not assigned on the 1-d branch of
       _create_lookup, which validate_data(self, X) rejects afterwards *)
    (mk_fit true [] [] ["_n_features_in_"; "lookup_"] [] ["validate_data"])
    (* adversarial, warm_start unknown: everything __setup built may be carried over *)
    (mk_fit true [] [] ["_sf_transform"; "_y_transform"; "backendEngine_"; "callbacks_"; "classes_"] []
            ["<local>"; "check_is_fitted"; "is_classifier"; "self.backend_"; "validate_data"])
    (* adversarial, warm_start = False: only existence tests of classes_ *)
    (mk_fit true [] [] ["classes_"] []
            ["<local>"; "check_is_fitted"; "is_classifier"; "self.backend_"; "validate_data"])
    NuIfNone
    (mk_moment false true [])
    (mk_loads true true true true true true)
    (mk_adv [true; true; true; false] [false; false; true; false] [true; true; false; true] true
            ["_is_setup"; "_sf_transform"; "_y_transform"; "adversary_loss_"; "backendEngine_"; "backend_";
             "callbacks_"; "n_features_in_"; "n_features_out_"; "pass_y_"; "predictor_function_";
             "predictor_loss_"; "random_state_"]
            "_is_setup" [false; false; false; true] true [] true true).

(* ================================================================ switches read off a description *)
Definition is_nil {A} (l : list A) : bool := match l with [] => true | _ => false end.

Record switches : Type := mk_sw {
  w_latch : bool;           (* a second load_data raises *)
  w_returns_self : bool;
  w_rebinds : bool;         (* fit writes a constructor attribute *)
  w_carries : bool          (* fit reads fitted state of an earlier call *)
}.

(* the moments are loaded unconditionally by both reductions; a load is refused iff load_data latches *)
Definition sw_latch (s : lifecycle_src) : bool := ms_latch (ls_moment s).

Definition sw_of_fit (latch : bool) (f : fit_src) : switches :=
  mk_sw latch (fs_returns_self f) (negb (is_nil (fs_param_writes f))) (negb (is_nil (fs_history_reads f))).

Definition sw_to (s : lifecycle_src) : switches := sw_of_fit false (ls_to s).
Definition sw_gs (s : lifecycle_src) : switches := sw_of_fit (sw_latch s) (ls_gs s).

(* ExponentiatedGradient: nu is the only constructor attribute fit may write *)
Inductive nu_rule : Type := KeepNu | WriteNuIfNone | WriteNuAlways.
Definition sw_nu (s : lifecycle_src) : option nu_rule :=
  match ls_nu s, fs_param_writes (ls_eg s) with
  | NuNotWritten, [] => Some KeepNu
  | NuIfNone, ["nu"] => Some WriteNuIfNone
  | NuAlways, ["nu"] => Some WriteNuAlways
  | _, _ => None
  end.

(* adversarial: does Fit start from new networks?  fitted = hasattr(self, "classes_") (= an engine exists),
   warm = self.warm_start.  New networks iff __setup runs and the new engine does not take over the old ones. *)
Definition sw_reinit (s : lifecycle_src) (fitted warm : bool) : bool :=
  let a := ls_rules s in
  let first := tab2 (ad_first a) fitted warm in
  tab2 (ad_setup a) fitted first && negb (tab2 (ad_reuse a) warm fitted).
Definition sw_in_place (s : lifecycle_src) : bool := ad_user_module_in_place (ls_rules s).
Definition sw_eval_first (s : lifecycle_src) : bool := ad_eval_first (ls_rules s).

(* ================================================================ switch-parametrised machines *)

(* ---- one machine for ThresholdOptimizer / GridSearch: state = (parameters, fitted model, loaded flag) *)
Section X.
  Variables (P D M : Type).
  Variable train : P -> D -> M.
  Variable rebind : P -> D -> P.        (* what a fit that writes a constructor attribute makes of the parameters *)
  Variable carry : M -> M -> M.         (* what a fit that reads old fitted state makes of (old, new) *)
  Variable w : switches.

  Definition x_step (s : gst P M) (o : op D) : gst P M * obs P M :=
    match o with
    | Fit d =>
        if w_latch w && g_loaded s then (s, g_raise P M s AssertionErr)
        else let p' := if w_rebinds w then rebind (g_par s) d else g_par s in
             let m := train (g_par s) d in
             let m' := match g_fit s with
                       | Some old => if w_carries w then carry old m else m
                       | None => m
                       end in
             let s' := mkG p' (Some m') true in
             (s', mkObs (w_returns_self w) p' (Some m') None)
    | Predict => match g_fit s with
                 | Some _ => (s, g_ok P M s)
                 | None => (s, g_raise P M s NotFitted)
                 end
    | Pickle => (s, g_ok P M s)
    | Clone => let s' := mkG (g_par s) None (g_loaded s) in (s', g_ok P M s')
    end.
End X.
Arguments x_step {P D M}.

Definition sw_now : switches := mk_sw false true false false.

(* ---- ExponentiatedGradient with the guard of the nu assignment as a parameter *)
Section EGGen.
  Variables (P N D M : Type).
  Variable nu_of : P -> D -> N.
  Variable train : P -> N -> D -> M.
  Variable latch : bool.
  Variable rule : nu_rule.

  Definition e_step_gen (s : est P N M) (o : op D) : est P N M * obs (P * option N) M :=
    match o with
    | Fit d =>
        if latch && e_loaded s then (s, e_raise P N M s AssertionErr)
        else let v := match rule, e_nu s with
                      | WriteNuAlways, _ => nu_of (e_par s) d
                      | _, Some v => v
                      | _, None => nu_of (e_par s) d
                      end in
             let nu' := match rule with KeepNu => e_nu s | _ => Some v end in
             let s' := mkE (e_par s) nu' (Some (train (e_par s) v d)) true in
             (s', e_ok P N M s')
    | Predict => match e_fit s with
                 | Some _ => (s, e_ok P N M s)
                 | None => (s, e_raise P N M s NotFitted)
                 end
    | Pickle => (s, e_ok P N M s)
    | Clone => let s' := mkE (e_par s) (e_nu s) None (e_loaded s) in (s', e_ok P N M s')
    end.
End EGGen.
Arguments e_step_gen {P N D M}.

(* ---- adversarial estimators with the re-initialisation rule, the treatment of a user module and the
        evaluation mode of predict as parameters *)
Section AdvGen.
  Variables (P D M : Type).
  Variable ws : P -> bool.
  Variable init_net : P -> D -> M.
  Variable train_from : P -> M -> D -> M.
  Variable perturb : M -> M.             (* a forward pass in TRAINING mode (BatchNorm running statistics) *)
  Variable rule : bool -> bool -> bool.  (* fitted -> warm -> start from new networks *)
  Variables (in_place eval_first : bool).

  Definition a_step_gen (s : ast P M) (o : op D) : ast P M * obs (P * option M) M :=
    match o with
    | Fit d =>
        let first := rule (a_classes s) (ws (a_par s)) in
        let start := if first then match a_mod s with Some m => m | None => init_net (a_par s) d end
                     else match a_net s with Some m => m | None => init_net (a_par s) d end in
        let trained := train_from (a_par s) start d in
        let s' := mkA (a_par s) (Some trained) true
                      (match a_mod s with
                       | Some m => Some (if in_place then trained else m)
                       | None => None
                       end) in
        (s', a_ok P M s')
    | Predict => match a_net s with
                 | Some m => if eval_first then (s, a_ok P M s)
                             else let s' := mkA (a_par s) (Some (perturb m)) (a_classes s) (a_mod s) in
                                  (s', a_ok P M s')
                 | None => (s, a_raise P M s NotFitted)
                 end
    | Pickle => (s, a_ok P M s)
    | Clone => let s' := mkA (a_par s) None false (a_mod s) in (s', a_ok P M s')
    end.
End AdvGen.
Arguments a_step_gen {P D M}.

(* ================================================================ free instances for the refutations *)
Definition sym_rebind (p d : Z) : Z := (p + 1)%Z.
Definition sym_trainl (p d : Z) : list Z := [p; d].
Definition sym_carry (old new : list Z) : list Z := (old ++ new)%list.
Definition sym_perturb (m : Z * list Z) : Z * list Z := (fst m, (snd m ++ [0%Z])%list).
