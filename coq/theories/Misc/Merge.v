(* Model of fairlearn.utils._input_validation._merge_columns (C13).
   Strings are lists of code points.  Proof-free: lemmas are in Merge_proofs.v. *)
From Coq Require Import ZArith List Bool.
Import ListNotations.
Open Scope Z_scope.

Definition str := list Z.

(* Python's s.replace(a, b) for a ONE-character pattern a *)
Definition replace1 (a : Z) (b : str) (s : str) : str :=
  flat_map (fun c => if c =? a then b else [c]) s.

(* name.replace(a1, b1).replace(a2, b2)... : the chain is applied left to right *)
Definition escape (steps : list (Z * str)) (s : str) : str :=
  fold_left (fun acc st => replace1 (fst st) (snd st) acc) steps s.

(* sep.join(l) *)
Fixpoint join (sep : str) (l : list str) : str :=
  match l with
  | [] => []
  | x :: r => match r with [] => x | _ => x ++ sep ++ join sep r end
  end.

Definition merge_with (steps : list (Z * str)) (sep : str) (row : list str) : str :=
  join sep (map (escape steps) row).

(* the chain the source is expected to contain: escape backslash, then the separator *)
Definition bs : Z := 92.
Definition comma : Z := 44.
Definition std_steps : list (Z * str) := [(bs, [bs; bs]); (comma, [bs; comma])].
Definition std_sep : str := [comma].
Definition merge : list str -> str := merge_with std_steps std_sep.

(* merged column of a table (list of rows) *)
Definition merge_table (rows : list (list str)) : list str := map merge rows.

(* decoder used by the injectivity proof (and evaluated in the correspondence run):
   a backslash makes the next character literal, a bare comma starts a new field *)
Definition push (c : Z) (fs : list str) : list str :=
  match fs with f :: r => (c :: f) :: r | [] => [[c]] end.

Fixpoint unmerge (s : str) : list str :=
  match s with
  | [] => [[]]
  | c :: r =>
      if c =? bs then
        match r with
        | c2 :: r2 => push c2 (unmerge r2)
        | [] => [[bs]]
        end
      else if c =? comma then [] :: unmerge r
      else push c (unmerge r)
  end.

(* group ids: position of the first row with the same key; two rows are in the
   same group iff their ids agree.  Used to compare partitions. *)
Fixpoint str_eqb (a b : str) : bool :=
  match a, b with
  | [], [] => true
  | x :: a', y :: b' => (x =? y) && str_eqb a' b'
  | _, _ => false
  end.

Fixpoint row_eqb (a b : list str) : bool :=
  match a, b with
  | [], [] => true
  | x :: a', y :: b' => str_eqb x y && row_eqb a' b'
  | _, _ => false
  end.

Fixpoint first_index {A} (eqb : A -> A -> bool) (x : A) (l : list A) (i : nat) : nat :=
  match l with
  | [] => i
  | y :: r => if eqb x y then i else first_index eqb x r (S i)
  end.

Definition partition_ids {A} (eqb : A -> A -> bool) (l : list A) : list nat :=
  map (fun x => first_index eqb x l 0) l.

(* partition by merged string vs partition by tuple equality *)
Definition merged_partition (rows : list (list str)) : list nat :=
  partition_ids str_eqb (merge_table rows).
Definition tuple_partition (rows : list (list str)) : list nat :=
  partition_ids row_eqb rows.
