From Coq Require Import QArith ZArith List Bool String Lia.
From FL Require Import Num ListX Containers Containers_proofs Ingest.
Import ListNotations.

Lemma ingest_positional (k : site_kind) (c : container) :
  is_positional k = true -> ingest k c = by_position c.
Proof. destruct k; cbn; [reflexivity | discriminate]. Qed.

(* all sites positional: what the entry point's body receives is by_position of the containers *)
Lemma ingest_all_positional (t : list site) (cs : list container) :
  all_positional t = true -> ingest_all t cs = map by_position (firstn (List.length t) cs).
Proof.
  revert cs. induction t as [|s t IH]; intros cs H; [reflexivity|].
  cbn [all_positional forallb] in H. apply andb_true_iff in H. destruct H as [Hs Ht].
  destruct cs as [|c cs]; [reflexivity|].
  cbn [ingest_all List.length firstn map]. rewrite (ingest_positional _ _ Hs).
  f_equal. apply IH. exact Ht.
Qed.

Lemma by_position_same_values (cs cs' : list container) (n : nat) :
  same_values cs cs' -> map by_position (firstn n cs) = map by_position (firstn n cs').
Proof.
  intro H. revert n. induction H as [|c c' cs cs' Hc _ IH]; intro n; [reflexivity|].
  destruct n as [|n]; [reflexivity|].
  cbn [firstn map]. rewrite (position_invariance c c' Hc), (IH n). reflexivity.
Qed.

Theorem positional_entry_by_position (R : Type) (t : list site) (body : list (list (option Q)) -> R)
        (cs : list container) :
  all_positional t = true -> run_entry t body cs = body (map by_position (firstn (List.length t) cs)).
Proof. intro H. unfold run_entry. rewrite (ingest_all_positional t cs H). reflexivity. Qed.

(* ... hence (position_invariance) the same result for the same data in any other containers *)
Theorem positional_entry_invariant (R : Type) (t : list site) (body : list (list (option Q)) -> R)
        (cs cs' : list container) :
  all_positional t = true -> same_values cs cs' -> run_entry t body cs = run_entry t body cs'.
Proof.
  intros H Hv. rewrite !positional_entry_by_position by exact H.
  rewrite (by_position_same_values cs cs' _ Hv). reflexivity.
Qed.

Lemma all_positional_sites_of (e : string) (t : list site) :
  all_positional t = true -> all_positional (sites_of e t) = true.
Proof.
  unfold all_positional, sites_of. rewrite !forallb_forall. intros H s Hs.
  apply filter_In in Hs. apply H. exact (proj1 Hs).
Qed.

(* the statement for a whole table: every listed entry point reaches at least one site, and its body computes
   on by_position of the containers that reach its sites *)
Theorem entry_points_by_position (t : list site) (es : list string) :
  all_positional t = true -> every_entry_has_sites es t = true ->
  forall (e : string) (R : Type) (body : list (list (option Q)) -> R) (cs cs' : list container),
    In e es -> same_values cs cs' ->
    sites_of e t <> []
    /\ run_entry (sites_of e t) body cs
       = body (map by_position (firstn (List.length (sites_of e t)) cs))
    /\ run_entry (sites_of e t) body cs = run_entry (sites_of e t) body cs'.
Proof.
  intros Hp He e R body cs cs' Hin Hv.
  pose proof (all_positional_sites_of e t Hp) as Hs.
  split; [|split].
  - unfold every_entry_has_sites in He. rewrite forallb_forall in He. specialize (He e Hin).
    intro E. rewrite E in He. discriminate.
  - apply positional_entry_by_position. exact Hs.
  - apply positional_entry_invariant; assumption.
Qed.

(* the hypothesis matters: ONE labelled site and the entry point sees the index labels *)
Theorem labelled_site_not_invariant :
  exists (t : list site) (cs cs' : list container),
    all_positional t = false /\ same_values cs cs'
    /\ run_entry t (fun x => x) cs <> run_entry t (fun x => x) cs'.
Proof.
  exists [mk_site "s" Labelled []], [CSeries [2; 0; 1]%Z [1#1; 2#1; 3#1]], [CArray [1#1; 2#1; 3#1]].
  split; [reflexivity|]. split; [repeat constructor|]. vm_compute. discriminate.
Qed.

Lemma expected_all_positional : all_positional expected_sites = true.
Proof. reflexivity. Qed.

Lemma expected_entries_have_sites : every_entry_has_sites expected_entries expected_sites = true.
Proof. reflexivity. Qed.
