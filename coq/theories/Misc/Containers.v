(* C12: rows are matched by position.  Two ingestion semantics for a container
   (what fairlearn does: strip to the value list; what pandas alignment would do:
   look values up by index label) and a small group-wise statistics pipeline
   (count, sum of weights, weighted sum of a per-row value) on which row
   permutation / group renaming are stated.  Proof-free. *)
From Coq Require Import QArith ZArith List Bool.
From FL Require Import Num ListX.
Import ListNotations.
Open Scope Q_scope.

Inductive container : Type :=
| CList (vs : list Q)
| CArray (vs : list Q)
| CSeries (idx : list Z) (vs : list Q)      (* pandas Series with index labels *)
| CFrame1 (idx : list Z) (vs : list Q).     (* single-column DataFrame *)

Definition values (c : container) : list Q :=
  match c with CList v | CArray v | CSeries _ v | CFrame1 _ v => v end.

(* positional ingestion: list(...), np.asarray, .values, check_array *)
Definition by_position (c : container) : list (option Q) := map Some (values c).

(* label alignment against a frame whose index is 0..n-1 (what assigning a labelled
   object into a DataFrame column would do): value at label l, None (NaN) if absent,
   first match if duplicated *)
Fixpoint lookup_label (l : Z) (idx : list Z) (vs : list Q) : option Q :=
  match idx, vs with
  | i :: idx', v :: vs' => if Z.eqb i l then Some v else lookup_label l idx' vs'
  | _, _ => None
  end.

Definition range_z (n : nat) : list Z := map Z.of_nat (seq 0 n).

Definition by_label (c : container) : list (option Q) :=
  match c with
  | CList v | CArray v => map Some v
  | CSeries idx v | CFrame1 idx v => map (fun l => lookup_label l idx v) (range_z (length v))
  end.

(* ---- group-wise statistics: what MetricFrame(count / mean_prediction / selection_rate
        with sample_weight) reduces to ---- *)
Record row := { grp : Z; val : Q; wgt : Q }.

Definition in_group (g : Z) (r : row) : bool := Z.eqb (grp r) g.

Definition g_count (rows : list row) (g : Z) : nat := length (filter (in_group g) rows).
Definition g_wsum (rows : list row) (g : Z) : Q := qsum (map wgt (filter (in_group g) rows)).
Definition g_wvsum (rows : list row) (g : Z) : Q :=
  qsum (map (fun r => wgt r * val r) (filter (in_group g) rows)).

Definition keys (rows : list row) : list Z := zuniq (map grp rows).

Definition by_group (rows : list row) : list (Z * (nat * (Q * Q))) :=
  map (fun g => (g, (g_count rows g, (g_wsum rows g, g_wvsum rows g)))) (keys rows).

Definition rename (f : Z -> Z) (r : row) : row := {| grp := f (grp r); val := val r; wgt := wgt r |}.

(* build rows from three positional columns (shortest length wins, as zip) *)
Fixpoint zip3 (g : list Z) (v w : list Q) : list row :=
  match g, v, w with
  | a :: g', b :: v', c :: w' => {| grp := a; val := b; wgt := c |} :: zip3 g' v' w'
  | _, _, _ => []
  end.
