(* C13 -- each ingredient of the escape chain is NECESSARY: for every pair of distinct characters
   (e = escape, s = separator) a chain that lacks one of them, or applies them in the other order,
   maps two different non-empty rows to the same merged string.  These refutations show that
   `chain_ok` (MergeGen) does not accept more than it must, and they are the replays the check
   offers when the translator regenerates such a chain from a changed source. *)
From Coq Require Import ZArith List Bool Lia.
From FL Require Import Merge MergeGen.
Import ListNotations.
Open Scope Z_scope.

Definition collide (steps : list (Z * str)) (sep : str) (r r' : list str) : Prop :=
  r <> [] /\ r' <> [] /\ r <> r' /\ merge_with steps sep r = merge_with steps sep r'.

(* boolean form, for the harness and for vm_compute on a regenerated chain *)
Definition collideb (steps : list (Z * str)) (sep : str) (r r' : list str) : bool :=
  negb (row_eqb r r') && str_eqb (merge_with steps sep r) (merge_with steps sep r')
  && negb (Nat.eqb (length r) 0) && negb (Nat.eqb (length r') 0).

(* no escaping at all: [s] in one column  vs  two empty columns *)
Lemma no_escape_collides (s : Z) : collide [] [s] [[s]] [[]; []].
Proof.
  unfold collide. repeat split; try discriminate.
Qed.

(* only the separator is escaped (the escape character itself is not):
   columns (e, "")  vs  the single column s  both give  e s *)
Lemma sep_only_collides (e s : Z) : e <> s -> collide [(s, [e; s])] [s] [[e]; []] [[s]].
Proof.
  intros Hes. unfold collide. repeat split; try discriminate.
  unfold merge_with, escape, replace1. cbn [map fold_left flat_map fst snd join app].
  rewrite Z.eqb_refl. destruct (Z.eqb_spec e s) as [E | _]; [contradiction|]. reflexivity.
Qed.

(* only the escape character is escaped (the separator is not): like no escaping *)
Lemma esc_only_collides (e s : Z) : e <> s -> collide [(e, [e; e])] [s] [[s]] [[]; []].
Proof.
  intros Hes. unfold collide. repeat split; try discriminate.
  unfold merge_with, escape, replace1. cbn [map fold_left flat_map fst snd join app].
  destruct (Z.eqb_spec s e) as [E | _]; [symmetry in E; contradiction|]. reflexivity.
Qed.

(* both replacements, but in the other order (separator first, then the escape character):
   the escape inserted for the separator is doubled, s -> e e s, which is also what (e, "") gives *)
Lemma wrong_order_collides (e s : Z) :
  e <> s -> collide [(s, [e; s]); (e, [e; e])] [s] [[s]] [[e]; []].
Proof.
  intros Hes. unfold collide. repeat split; try discriminate.
  unfold merge_with, escape, replace1. cbn [map fold_left flat_map fst snd join app].
  rewrite !Z.eqb_refl. destruct (Z.eqb_spec e s) as [E | _]; [contradiction|].
  cbn [flat_map app]. rewrite !Z.eqb_refl.
  destruct (Z.eqb_spec s e) as [E | _]; [symmetry in E; contradiction|]. reflexivity.
Qed.

(* the separator is escaped with something that is not the escape character (here: doubled) *)
Lemma doubled_sep_collides (e s : Z) :
  e <> s -> collide [(e, [e; e]); (s, [s; s])] [s] [[s]] [[]; []; []].
Proof.
  intros Hes. unfold collide. repeat split; try discriminate.
  unfold merge_with, escape, replace1. cbn [map fold_left flat_map fst snd join app].
  destruct (Z.eqb_spec s e) as [E | _]; [symmetry in E; contradiction|].
  cbn [flat_map app]. rewrite Z.eqb_refl. reflexivity.
Qed.

(* none of these chains passes the check the property theorems rest on *)
Lemma defective_chains_rejected (e s : Z) :
  e <> s ->
  chain_ok [] [s] = false /\ chain_ok [(s, [e; s])] [s] = false /\ chain_ok [(e, [e; e])] [s] = false /\
  chain_ok [(s, [e; s]); (e, [e; e])] [s] = false /\ chain_ok [(e, [e; e]); (s, [s; s])] [s] = false.
Proof.
  intros Hes. unfold chain_ok.
  assert (Hse : (s =? e) = false) by (apply Z.eqb_neq; intro E; symmetry in E; contradiction).
  assert (Hes' : (e =? s) = false) by (apply Z.eqb_neq; exact Hes).
  rewrite ?Z.eqb_refl, ?Hse, ?Hes'. cbn. rewrite ?andb_false_r. repeat split; reflexivity.
Qed.

(* and the accepted chain has no collision at all: collideb is constantly false on it *)
Lemma accepted_chain_never_collides steps sep (r r' : list str) :
  chain_ok steps sep = true -> collideb steps sep r r' = false.
Proof.
  intros Hok. unfold collideb.
  destruct r as [|x r]; [cbn; rewrite !andb_false_r; reflexivity|].
  destruct r' as [|x' r']; [cbn; rewrite !andb_false_r; reflexivity|].
  destruct (str_eqb (merge_with steps sep (x :: r)) (merge_with steps sep (x' :: r'))) eqn:E.
  - apply Merge_proofs.str_eqb_eq in E.
    apply (merge_injective_of_chain_ok steps sep Hok) in E; try discriminate.
    rewrite E. assert (H : row_eqb (x' :: r') (x' :: r') = true) by (apply Merge_proofs.row_eqb_eq; reflexivity).
    rewrite H. reflexivity.
  - rewrite andb_false_r. reflexivity.
Qed.
