(* C19 -- proofs about the life-cycle machines of Lifecycle.v *)
From Coq Require Import ZArith List Bool Lia.
From FL Require Import Lifecycle.
Import ListNotations.
Open Scope Z_scope.

Lemma run_app {S D O} (step : S -> op D -> S * O) (h1 h2 : list (op D)) (s : S) :
  run step s (h1 ++ h2) = run step (run step s h1) h2.
Proof. revert s. induction h1 as [|o r IH]; intro s; cbn; [reflexivity | apply IH]. Qed.

Lemma trace_length {S D O} (step : S -> op D -> S * O) (h : list (op D)) (s : S) :
  length (trace step s h) = length h.
Proof. revert s. induction h as [|o r IH]; intro s; cbn; [reflexivity | f_equal; apply IH]. Qed.

(* an observation is "quiet" when the only exception it can carry is NotFitted on an unfitted object *)
Definition quiet {P M} (o : obs P M) : Prop :=
  o_exc o = None \/ (o_exc o = Some NotFitted /\ o_model o = None).

(* ================================================================ ThresholdOptimizer *)
Section SimpleP.
  Variables (P D M : Type).
  Variable train : P -> D -> M.
  Notation step := (s_step train).

  Lemma s_step_par (s : sst P M) (o : op D) : s_par (fst (step s o)) = s_par s.
  Proof. destruct o; cbn; try reflexivity. destruct (s_fit s); reflexivity. Qed.

  Lemma s_run_par (h : list (op D)) : forall s, s_par (run step s h) = s_par s.
  Proof.
    induction h as [|o r IH]; intro s; cbn; [reflexivity|].
    rewrite IH. apply s_step_par.
  Qed.

  Theorem s_history_independent (p : P) (h : list (op D)) (d : D) :
    after step (s_init p) h (Fit d) = mkObs true p (Some (train p d)) None /\
    after step (s_init p) h (Fit d) = after step (s_init p) [] (Fit d).
  Proof.
    assert (H : after step (s_init p) h (Fit d) = mkObs true p (Some (train p d)) None).
    { unfold after. cbn. rewrite s_run_par. reflexivity. }
    split; [exact H | rewrite H; reflexivity].
  Qed.

  Lemma s_trace_props (h : list (op D)) : forall s,
    Forall (fun o => o_params o = s_par s /\ quiet o) (trace step s h).
  Proof.
    induction h as [|o r IH]; intro s; cbn [trace]; constructor.
    - destruct o; cbn; unfold quiet; cbn; try (split; [reflexivity | left; reflexivity]).
      destruct (s_fit s) eqn:E; cbn; split; try reflexivity; [left; reflexivity | right; split; [reflexivity | exact E]].
    - specialize (IH (fst (step s o))). rewrite s_step_par in IH. exact IH.
  Qed.

  Theorem s_params_constant (p : P) (h : list (op D)) :
    Forall (fun o => o_params o = p /\ quiet o) (trace step (s_init p) h).
  Proof. exact (s_trace_props h (s_init p)). Qed.

  Theorem s_predict_pure (s : sst P M) :
    fst (step s Predict) = s /\
    snd (step (fst (step s Predict)) Predict) = snd (step s Predict).
  Proof. cbn. destruct (s_fit s) eqn:E; cbn; rewrite ?E; split; reflexivity. Qed.

  Theorem s_predict_after_fit (s : sst P M) (d : D) :
    snd (step (fst (step s (Fit d))) Predict) = mkObs true (s_par s) (Some (train (s_par s) d)) None.
  Proof. reflexivity. Qed.

  Theorem s_pickle_faithful (s : sst P M) :
    fst (step s Pickle) = s /\ snd (step s Pickle) = mkObs true (s_par s) (s_fit s) None.
  Proof. split; reflexivity. Qed.

  Theorem s_clone_fresh (s : sst P M) :
    fst (step s Clone) = s_init (s_par s) /\ snd (step s Clone) = mkObs true (s_par s) None None.
  Proof. split; reflexivity. Qed.
End SimpleP.

(* ================================================================ GridSearch *)
Section GridP.
  Variables (P D M : Type).
  Variable train : P -> D -> M.
  Notation step := (gs_step train).

  Lemma g_step_par (s : gst P M) (o : op D) : g_par (fst (step s o)) = g_par s.
  Proof. destruct o; cbn; try reflexivity. destruct (g_fit s); reflexivity. Qed.

  Lemma g_run_par (h : list (op D)) : forall s, g_par (run step s h) = g_par s.
  Proof.
    induction h as [|o r IH]; intro s; cbn; [reflexivity|].
    rewrite IH. apply g_step_par.
  Qed.

  Theorem g_history_independent (p : P) (h : list (op D)) (d : D) :
    after step (g_init p) h (Fit d) = mkObs true p (Some (train p d)) None /\
    after step (g_init p) h (Fit d) = after step (g_init p) [] (Fit d).
  Proof.
    assert (H : after step (g_init p) h (Fit d) = mkObs true p (Some (train p d)) None).
    { unfold after. cbn. rewrite g_run_par. reflexivity. }
    split; [exact H | rewrite H; reflexivity].
  Qed.

  Lemma g_trace_props (h : list (op D)) : forall s,
    Forall (fun o => o_params o = g_par s /\ quiet o) (trace step s h).
  Proof.
    induction h as [|o r IH]; intro s; cbn [trace]; constructor.
    - destruct o; cbn; unfold quiet; cbn; try (split; [reflexivity | left; reflexivity]).
      destruct (g_fit s) eqn:E; cbn; split; try reflexivity; [left; reflexivity | right; split; [reflexivity | exact E]].
    - specialize (IH (fst (step s o))). rewrite g_step_par in IH. exact IH.
  Qed.

  Theorem g_params_constant (p : P) (h : list (op D)) :
    Forall (fun o => o_params o = p /\ quiet o) (trace step (g_init p) h).
  Proof. exact (g_trace_props h (g_init p)). Qed.

  Theorem g_predict_pure (s : gst P M) :
    fst (step s Predict) = s /\
    snd (step (fst (step s Predict)) Predict) = snd (step s Predict).
  Proof. cbn. destruct (g_fit s) eqn:E; cbn; rewrite ?E; split; reflexivity. Qed.

  Theorem g_pickle_faithful (s : gst P M) :
    fst (step s Pickle) = s /\ snd (step s Pickle) = mkObs true (g_par s) (g_fit s) None.
  Proof. split; reflexivity. Qed.

  (* the loaded flag of the (copied) constraints object is unobservable now that it is not asserted *)
  Lemma g_loaded_irrelevant (h : list (op D)) : forall s s',
    g_par s = g_par s' -> g_fit s = g_fit s' -> trace step s h = trace step s' h.
  Proof.
    induction h as [|o r IH]; intros s s' Hp Hf; cbn [trace]; [reflexivity|].
    destruct o; cbn.
    - rewrite Hp. reflexivity.
    - rewrite Hf. destruct (g_fit s') eqn:E; cbn.
      + unfold g_ok. rewrite Hp, Hf, E. f_equal; apply IH; congruence.
      + unfold g_raise. rewrite Hp, Hf, E. f_equal; apply IH; congruence.
    - unfold g_ok. rewrite Hp, Hf. f_equal; apply IH; congruence.
    - unfold g_ok. cbn. rewrite Hp. f_equal; apply IH; reflexivity.
  Qed.

  Theorem g_clone_fresh (s : gst P M) :
    snd (step s Clone) = mkObs true (g_par s) None None /\
    forall h, trace step (fst (step s Clone)) h = trace step (g_init (g_par s)) h.
  Proof.
    split; [reflexivity|]. intro h. apply g_loaded_irrelevant; reflexivity.
  Qed.
End GridP.

(* ================================================================ ExponentiatedGradient *)
Section EGP.
  Variables (P N D M : Type).
  Variable nu_of : P -> D -> N.
  Variable train : P -> N -> D -> M.
  Notation step := (eg_step nu_of train).

  Lemma e_step_par (s : est P N M) (o : op D) : e_par (fst (step s o)) = e_par s.
  Proof. destruct o; cbn; try reflexivity. destruct (e_fit s); reflexivity. Qed.

  Lemma e_run_par (h : list (op D)) : forall s, e_par (run step s h) = e_par s.
  Proof.
    induction h as [|o r IH]; intro s; cbn; [reflexivity|].
    rewrite IH. apply e_step_par.
  Qed.

  (* the value of the attribute nu after a history *)
  Definition nu_after (p : P) (nu : option N) (h : list (op D)) : option N :=
    match nu with
    | Some v => Some v
    | None => match first_fit h with Some d => Some (nu_of p d) | None => None end
    end.

  Lemma e_run_nu (h : list (op D)) : forall s,
    e_nu (run step s h) = nu_after (e_par s) (e_nu s) h.
  Proof.
    induction h as [|o r IH]; intro s; cbn [run].
    - unfold nu_after. cbn. destruct (e_nu s); reflexivity.
    - rewrite IH, e_step_par. destruct o; cbn.
      + unfold nu_after. cbn. destruct (e_nu s); reflexivity.
      + destruct (e_fit s); cbn; unfold nu_after; cbn; destruct (e_nu s); reflexivity.
      + unfold nu_after. cbn. destruct (e_nu s); reflexivity.
      + unfold nu_after. cbn. destruct (e_nu s); reflexivity.
  Qed.

  (* what Fit d observes after ANY history: returned self, no exception, all parameters except nu
     are the constructor's, nu is the value given or the one computed by the first fit ever, and
     the model is trained with THAT nu *)
  Theorem e_fit_after_history (p : P) (nu : option N) (h : list (op D)) (d : D) :
    let v := match nu_after p nu (h ++ [Fit d]) with Some v => v | None => nu_of p d end in
    after step (e_init p nu) h (Fit d) = mkObs true (p, Some v) (Some (train p v d)) None.
  Proof.
    unfold after. cbn. rewrite e_run_par, e_run_nu. cbn.
    unfold nu_after. destruct nu as [v|]; [reflexivity|].
    assert (Hf : first_fit (h ++ [Fit d]) =
                 match first_fit h with Some d0 => Some d0 | None => Some d end).
    { induction h as [|o r IH]; [reflexivity|]. destruct o; cbn; try exact IH. reflexivity. }
    rewrite Hf. destruct (first_fit h); reflexivity.
  Qed.

  (* nu given to the constructor: full history independence *)
  Theorem e_history_independent_nu_given (p : P) (v : N) (h : list (op D)) (d : D) :
    after step (e_init p (Some v)) h (Fit d) = mkObs true (p, Some v) (Some (train p v d)) None /\
    after step (e_init p (Some v)) h (Fit d) = after step (e_init p (Some v)) [] (Fit d).
  Proof.
    assert (H : after step (e_init p (Some v)) h (Fit d) =
                mkObs true (p, Some v) (Some (train p v d)) None).
    { exact (e_fit_after_history p (Some v) h d). }
    split; [exact H | rewrite H; reflexivity].
  Qed.

  (* nu = None: returned self, no exception, every parameter but nu preserved; the model equals the
     fresh one whenever the first fit of the history computed the same nu as D would *)
  Theorem e_history_independent_partial (p : P) (h : list (op D)) (d : D) :
    let o := after step (e_init p None) h (Fit d) in
    let fresh := after step (e_init p None) [] (Fit d) in
    o_self o = true /\ o_exc o = None /\ fst (o_params o) = p /\
    ((forall d0, first_fit h = Some d0 -> nu_of p d0 = nu_of p d) -> o = fresh).
  Proof.
    cbn zeta. rewrite (e_fit_after_history p None h d), (e_fit_after_history p None [] d). cbn.
    repeat split.
    intro Hsame.
    assert (Hf : first_fit (h ++ [Fit d]) =
                 match first_fit h with Some d0 => Some d0 | None => Some d end).
    { clear Hsame. induction h as [|o r IH]; [reflexivity|]. destruct o; cbn; try exact IH. reflexivity. }
    rewrite Hf. destruct (first_fit h) as [d0|]; [|reflexivity].
    rewrite (Hsame d0 eq_refl). reflexivity.
  Qed.

  Lemma e_trace_props (h : list (op D)) : forall s,
    Forall (fun o => fst (o_params o) = e_par s /\ quiet o) (trace step s h).
  Proof.
    induction h as [|o r IH]; intro s; cbn [trace]; constructor.
    - destruct o; cbn; unfold quiet; cbn; try (split; [reflexivity | left; reflexivity]).
      destruct (e_fit s) eqn:E; cbn; split; try reflexivity; [left; reflexivity | right; split; [reflexivity | exact E]].
    - specialize (IH (fst (step s o))). rewrite e_step_par in IH. exact IH.
  Qed.

  Theorem e_params_constant_but_nu (p : P) (nu : option N) (h : list (op D)) :
    Forall (fun o => fst (o_params o) = p /\ quiet o) (trace step (e_init p nu) h).
  Proof. exact (e_trace_props h (e_init p nu)). Qed.

  (* a given nu is never touched *)
  Lemma e_trace_nu_given (h : list (op D)) : forall s v, e_nu s = Some v ->
    Forall (fun o => snd (o_params o) = Some v) (trace step s h).
  Proof.
    induction h as [|o r IH]; intros s v Hv; cbn [trace]; constructor.
    - destruct o; cbn; rewrite ?Hv; try reflexivity. destruct (e_fit s); cbn; exact Hv.
    - apply IH. destruct o; cbn; rewrite ?Hv; try reflexivity. destruct (e_fit s); cbn; exact Hv.
  Qed.

  Theorem e_params_constant_nu_given (p : P) (v : N) (h : list (op D)) :
    Forall (fun o => o_params o = (p, Some v)) (trace step (e_init p (Some v)) h).
  Proof.
    assert (H1 := e_params_constant_but_nu p (Some v) h).
    assert (H2 := e_trace_nu_given h (e_init p (Some v)) v eq_refl).
    rewrite Forall_forall in *. intros o Ho.
    destruct (H1 o Ho) as [Ha _]. specialize (H2 o Ho).
    destruct (o_params o) as [a b]. cbn in *. subst. reflexivity.
  Qed.

  (* F7a: fit overwrites the constructor parameter *)
  Theorem e_nu_overwritten (p : P) (d : D) :
    e_params (run step (e_init p None) [Fit d]) <> e_params (@e_init P N M p None).
  Proof. cbn. unfold e_params. cbn. intro H. discriminate H. Qed.

  Theorem e_predict_pure (s : est P N M) :
    fst (step s Predict) = s /\
    snd (step (fst (step s Predict)) Predict) = snd (step s Predict).
  Proof. cbn. destruct (e_fit s) eqn:E; cbn; rewrite ?E; split; reflexivity. Qed.

  Theorem e_pickle_faithful (s : est P N M) :
    fst (step s Pickle) = s /\ snd (step s Pickle) = mkObs true (e_params s) (e_fit s) None.
  Proof. split; reflexivity. Qed.

  Lemma e_loaded_irrelevant (h : list (op D)) : forall s s',
    e_par s = e_par s' -> e_nu s = e_nu s' -> e_fit s = e_fit s' -> trace step s h = trace step s' h.
  Proof.
    induction h as [|o r IH]; intros s s' Hp Hn Hf; cbn [trace]; [reflexivity|].
    destruct o; cbn.
    - unfold e_ok, e_params. cbn. rewrite Hp, Hn. reflexivity.
    - rewrite Hf. destruct (e_fit s') eqn:E; cbn.
      + unfold e_ok, e_params. rewrite Hp, Hn, Hf, E. f_equal; apply IH; congruence.
      + unfold e_raise, e_params. rewrite Hp, Hn, Hf, E. f_equal; apply IH; congruence.
    - unfold e_ok, e_params. rewrite Hp, Hn, Hf. f_equal; apply IH; congruence.
    - unfold e_ok, e_params. cbn. rewrite Hp, Hn. f_equal; apply IH; reflexivity.
  Qed.

  (* the clone is an unfitted estimator configured with the CURRENT get_params (overwritten nu included) *)
  Theorem e_clone_fresh_partial (s : est P N M) :
    snd (step s Clone) = mkObs true (e_params s) None None /\
    forall h, trace step (fst (step s Clone)) h = trace step (e_init (e_par s) (e_nu s)) h.
  Proof.
    split; [reflexivity|]. intro h. apply e_loaded_irrelevant; reflexivity.
  Qed.
End EGP.

(* the fitted model itself depends on the history when nu = None and training depends on nu:
   witness in the free instance, history [Fit 1] then Fit 2 *)
Theorem e_model_history_dependent :
  o_model (after (eg_step sym_nu_of sym_train_eg) (e_init 0 None) [Fit 1] (Fit 2)) <>
  o_model (after (eg_step sym_nu_of sym_train_eg) (e_init 0 None) [] (Fit 2)).
Proof. vm_compute. intro H. discriminate H. Qed.

(* ================================================================ CorrelationRemover *)
Section CorrP.
  Variables (P D M : Type).
  Variable width : D -> Z.
  Variable train : P -> D -> M.
  Notation step := (c_step width train).

  Lemma c_step_par (s : cst P M) (o : op D) : c_par (fst (step s o)) = c_par s.
  Proof.
    destruct o; cbn; try reflexivity.
    - destruct (c_width s) as [w|]; [destruct (w =? width d)|]; reflexivity.
    - destruct (c_fit s); reflexivity.
  Qed.

  Lemma c_run_par (h : list (op D)) : forall s, c_par (run step s h) = c_par s.
  Proof.
    induction h as [|o r IH]; intro s; cbn; [reflexivity|].
    rewrite IH. apply c_step_par.
  Qed.

  Definition width_ok (w : Z) (s : cst P M) : Prop :=
    match c_width s with Some w' => w' = w | None => True end.

  Lemma c_step_width (w : Z) (s : cst P M) (o : op D) :
    width_ok w s -> same_width width w o -> width_ok w (fst (step s o)).
  Proof.
    unfold width_ok. intros Hs Ho. destruct o; cbn in *.
    - destruct (c_width s) as [w'|] eqn:E; [destruct (w' =? width d)|]; cbn; rewrite ?E; auto.
    - destruct (c_fit s); exact Hs.
    - exact Hs.
    - exact I.
  Qed.

  Lemma c_run_width (w : Z) (h : list (op D)) : forall s,
    width_ok w s -> Forall (same_width width w) h -> width_ok w (run step s h).
  Proof.
    induction h as [|o r IH]; intros s Hs Hh; cbn; [exact Hs|].
    inversion Hh as [|o' r' Ho Hr]; subst. apply IH; [apply c_step_width; assumption | exact Hr].
  Qed.

  (* same schema throughout (every Fit of the history has the width of D) *)
  Theorem c_history_independent (p : P) (h : list (op D)) (d : D) :
    Forall (same_width width (width d)) h ->
    after step (c_init p) h (Fit d) = mkObs true p (Some (train p d)) None /\
    after step (c_init p) h (Fit d) = after step (c_init p) [] (Fit d).
  Proof.
    intro Hh.
    assert (H : after step (c_init p) h (Fit d) = mkObs true p (Some (train p d)) None).
    { unfold after. cbn.
      assert (Hw := c_run_width (width d) h (c_init p) I Hh). unfold width_ok in Hw.
      assert (Hp := c_run_par h (c_init p)). cbn in Hp.
      destruct (c_width (run step (c_init p) h)) as [w|].
      - rewrite Hw, Z.eqb_refl. cbn. unfold c_ok. cbn. rewrite Hp. reflexivity.
      - cbn. unfold c_ok. cbn. rewrite Hp. reflexivity. }
    split; [exact H | rewrite H; reflexivity].
  Qed.

  (* the hidden width is real: a refit with another width is rejected, a fresh estimator accepts *)
  Theorem c_width_latch (p : P) (d d' : D) :
    width d <> width d' ->
    o_exc (after step (c_init p) [Fit d] (Fit d')) = Some ValueErr /\
    o_exc (after step (c_init p) [] (Fit d')) = None.
  Proof.
    intro Hne. unfold after. cbn.
    destruct (width d =? width d') eqn:E; [apply Z.eqb_eq in E; contradiction|].
    split; reflexivity.
  Qed.

  Lemma c_trace_params (h : list (op D)) : forall s,
    Forall (fun o => o_params o = c_par s) (trace step s h).
  Proof.
    induction h as [|o r IH]; intro s; cbn [trace]; constructor.
    - destruct o; cbn; try reflexivity.
      + destruct (c_width s) as [w|]; [destruct (w =? width d)|]; reflexivity.
      + destruct (c_fit s); reflexivity.
    - specialize (IH (fst (step s o))). rewrite c_step_par in IH. exact IH.
  Qed.

  Theorem c_params_constant (p : P) (h : list (op D)) :
    Forall (fun o => o_params o = p) (trace step (c_init p) h).
  Proof. exact (c_trace_params h (c_init p)). Qed.

  Lemma c_trace_quiet (w : Z) (h : list (op D)) : forall s,
    width_ok w s -> Forall (same_width width w) h -> Forall quiet (trace step s h).
  Proof.
    induction h as [|o r IH]; intros s Hs Hh; cbn [trace]; constructor.
    - inversion Hh as [|o' r' Ho Hr]; subst. unfold width_ok in Hs. unfold quiet.
      destruct o; cbn in *; try (left; reflexivity).
      + destruct (c_width s) as [w'|]; [|left; reflexivity].
        rewrite Hs, Ho, Z.eqb_refl. left; reflexivity.
      + destruct (c_fit s) eqn:E; cbn; [left; reflexivity | right; split; [reflexivity | exact E]].
    - inversion Hh as [|o' r' Ho Hr]; subst. apply IH; [apply c_step_width; assumption | exact Hr].
  Qed.

  Theorem c_quiet (p : P) (w : Z) (h : list (op D)) :
    Forall (same_width width w) h -> Forall quiet (trace step (c_init p) h).
  Proof. intro Hh. apply (c_trace_quiet w h (c_init p)); [exact I | exact Hh]. Qed.

  Theorem c_predict_pure (s : cst P M) :
    fst (step s Predict) = s /\
    snd (step (fst (step s Predict)) Predict) = snd (step s Predict).
  Proof. cbn. destruct (c_fit s) eqn:E; cbn; rewrite ?E; split; reflexivity. Qed.

  Theorem c_pickle_faithful (s : cst P M) :
    fst (step s Pickle) = s /\ snd (step s Pickle) = mkObs true (c_par s) (c_fit s) None.
  Proof. split; reflexivity. Qed.

  Theorem c_clone_fresh (s : cst P M) :
    fst (step s Clone) = c_init (c_par s) /\ snd (step s Clone) = mkObs true (c_par s) None None.
  Proof. split; reflexivity. Qed.
End CorrP.

(* ================================================================ adversarial estimators *)
Section AdvP.
  Variables (P D M : Type).
  Variable ws : P -> bool.
  Variable user_net : P -> option M.
  Variable init_net : P -> D -> M.
  Variable train_from : P -> M -> D -> M.
  Notation step := (adv_step ws init_net train_from).
  Notation init := (a_init user_net).

  Lemma a_step_par (s : ast P M) (o : op D) : a_par (fst (step s o)) = a_par s.
  Proof. destruct o; cbn; try reflexivity. destruct (a_net s); reflexivity. Qed.

  Lemma a_run_par (h : list (op D)) : forall s, a_par (run step s h) = a_par s.
  Proof.
    induction h as [|o r IH]; intro s; cbn; [reflexivity|].
    rewrite IH. apply a_step_par.
  Qed.

  (* networks given as lists: there is no user module, ever *)
  Lemma a_step_mod_none (s : ast P M) (o : op D) : a_mod s = None -> a_mod (fst (step s o)) = None.
  Proof.
    intro H. destruct o; cbn; try exact H.
    - rewrite H. reflexivity.
    - destruct (a_net s); exact H.
  Qed.

  Lemma a_run_mod_none (h : list (op D)) : forall s, a_mod s = None -> a_mod (run step s h) = None.
  Proof.
    induction h as [|o r IH]; intros s H; cbn; [exact H|].
    apply IH. apply a_step_mod_none. exact H.
  Qed.

  Theorem a_history_independent (p : P) (h : list (op D)) (d : D) :
    ws p = false -> user_net p = None ->
    after step (init p) h (Fit d) = mkObs true (p, None) (Some (train_from p (init_net p d) d)) None /\
    after step (init p) h (Fit d) = after step (init p) [] (Fit d).
  Proof.
    intros Hws Hun.
    assert (H : forall h', after step (init p) h' (Fit d) =
                mkObs true (p, None) (Some (train_from p (init_net p d) d)) None).
    { intro h'. unfold after. cbn.
      assert (Hm : a_mod (run step (init p) h') = None) by (apply a_run_mod_none; exact Hun).
      rewrite a_run_par. cbn. rewrite Hws, Hm. cbn. rewrite orb_true_r. unfold a_ok, a_params. cbn.
      reflexivity. }
    split; [apply H | rewrite (H h), (H []); reflexivity].
  Qed.

  (* warm_start = True: a fitted estimator continues from its current networks *)
  Theorem a_warm_start_continues (s : ast P M) (m : M) (d : D) :
    ws (a_par s) = true -> a_net s = Some m -> a_classes s = true ->
    o_model (snd (step s (Fit d))) = Some (train_from (a_par s) m d) /\
    o_self (snd (step s (Fit d))) = true /\ o_exc (snd (step s (Fit d))) = None.
  Proof. intros Hws Hn Hc. cbn. rewrite Hws, Hn, Hc. cbn. repeat split. Qed.

  Lemma a_trace_props (h : list (op D)) : forall s,
    Forall (fun o => fst (o_params o) = a_par s /\ quiet o) (trace step s h).
  Proof.
    induction h as [|o r IH]; intro s; cbn [trace]; constructor.
    - destruct o; cbn; unfold quiet; cbn; try (split; [reflexivity | left; reflexivity]).
      destruct (a_net s) eqn:E; cbn; split; try reflexivity; [left; reflexivity | right; split; [reflexivity | exact E]].
    - specialize (IH (fst (step s o))). rewrite a_step_par in IH. exact IH.
  Qed.

  Lemma a_trace_mod_none (h : list (op D)) : forall s, a_mod s = None ->
    Forall (fun o => snd (o_params o) = None) (trace step s h).
  Proof.
    induction h as [|o r IH]; intros s H; cbn [trace]; constructor.
    - destruct o; cbn; rewrite ?H; try reflexivity. destruct (a_net s); cbn; exact H.
    - apply IH. apply a_step_mod_none. exact H.
  Qed.

  Theorem a_params_constant (p : P) (h : list (op D)) :
    user_net p = None ->
    Forall (fun o => o_params o = (p, None) /\ quiet o) (trace step (init p) h).
  Proof.
    intro Hun.
    assert (H1 := a_trace_props h (init p)).
    assert (H2 := a_trace_mod_none h (init p) Hun).
    rewrite Forall_forall in *. intros o Ho.
    destruct (H1 o Ho) as [Ha Hq]. specialize (H2 o Ho). split; [|exact Hq].
    destruct (o_params o) as [a b]. cbn in *. subst. reflexivity.
  Qed.

  Theorem a_predict_pure (s : ast P M) :
    fst (step s Predict) = s /\
    snd (step (fst (step s Predict)) Predict) = snd (step s Predict).
  Proof. cbn. destruct (a_net s) eqn:E; cbn; rewrite ?E; split; reflexivity. Qed.

  (* what clone does in general: scalar parameters and the CURRENT state of the user modules, no engine *)
  Theorem a_clone_general (s : ast P M) :
    fst (step s Clone) = mkA (a_par s) None false (a_mod s) /\
    snd (step s Clone) = mkObs true (a_par s, a_mod s) None None.
  Proof. split; reflexivity. Qed.

  (* networks given as lists: after any history the clone IS a new estimator *)
  Theorem a_clone_fresh (p : P) (h : list (op D)) :
    user_net p = None ->
    fst (step (run step (init p) h) Clone) = init p /\
    snd (step (run step (init p) h) Clone) = mkObs true (p, None) None None.
  Proof.
    intro Hun. cbn. unfold a_ok, a_params. cbn.
    rewrite a_run_par, (a_run_mod_none h (init p) Hun). cbn.
    unfold a_init. rewrite Hun. split; reflexivity.
  Qed.
End AdvP.

(* networks given as torch Modules: fit trains the constructor parameter in place, so get_params
   changes, a refit continues from the trained weights and a clone made after a fit is pre-trained
   (free instance, computed witnesses) *)
Theorem a_user_module_refuted :
  let step := adv_step sym_ws sym_init_net sym_train_from in
  let s0 := a_init sym_user_net (0, (false, true)) in
  o_params (after step s0 [] (Fit 1)) <> a_params s0 /\
  o_model (after step s0 [Fit 1] (Fit 2)) <> o_model (after step s0 [] (Fit 2)) /\
  o_model (after step s0 [Fit 1; Clone] (Fit 2)) <> o_model (after step s0 [] (Fit 2)).
Proof. cbn zeta. repeat split; vm_compute; intro H; discriminate H. Qed.

(* ================================================================ bundles used by props/C19.v *)
Theorem all_predict_pure (P N D M : Type) :
    (forall (train : P -> D -> M) s,
        fst (s_step train s Predict) = s /\
        snd (s_step train (fst (s_step train s Predict)) Predict) = snd (s_step train s Predict)) /\
    (forall (train : P -> D -> M) s,
        fst (gs_step train s Predict) = s /\
        snd (gs_step train (fst (gs_step train s Predict)) Predict) = snd (gs_step train s Predict)) /\
    (forall (nu_of : P -> D -> N) (train : P -> N -> D -> M) s,
        fst (eg_step nu_of train s Predict) = s /\
        snd (eg_step nu_of train (fst (eg_step nu_of train s Predict)) Predict)
          = snd (eg_step nu_of train s Predict)) /\
    (forall (width : D -> Z) (train : P -> D -> M) s,
        fst (c_step width train s Predict) = s /\
        snd (c_step width train (fst (c_step width train s Predict)) Predict)
          = snd (c_step width train s Predict)) /\
    (forall (ws : P -> bool) (init_net : P -> D -> M) (train_from : P -> M -> D -> M) s,
        fst (adv_step ws init_net train_from s Predict) = s /\
        snd (adv_step ws init_net train_from (fst (adv_step ws init_net train_from s Predict)) Predict)
          = snd (adv_step ws init_net train_from s Predict)).
Proof.
  split; [|split; [|split; [|split]]].
  - intros train s. apply s_predict_pure.
  - intros train s. apply g_predict_pure.
  - intros nu_of train s. apply e_predict_pure.
  - intros width train s. apply c_predict_pure.
  - intros ws init_net train_from s. apply a_predict_pure.
Qed.

Theorem all_pickle_faithful (P N D M : Type) :
    (forall (train : P -> D -> M) s,
        fst (s_step train s Pickle) = s /\ snd (s_step train s Pickle) = mkObs true (s_par s) (s_fit s) None) /\
    (forall (train : P -> D -> M) s,
        fst (gs_step train s Pickle) = s /\ snd (gs_step train s Pickle) = mkObs true (g_par s) (g_fit s) None) /\
    (forall (nu_of : P -> D -> N) (train : P -> N -> D -> M) s,
        fst (eg_step nu_of train s Pickle) = s /\
        snd (eg_step nu_of train s Pickle) = mkObs true (e_params s) (e_fit s) None) /\
    (forall (width : D -> Z) (train : P -> D -> M) s,
        fst (c_step width train s Pickle) = s /\
        snd (c_step width train s Pickle) = mkObs true (c_par s) (c_fit s) None).
Proof. repeat split. Qed.

Theorem all_clone_fresh (P D M : Type) :
    (forall (train : P -> D -> M) s,
        fst (s_step train s Clone) = s_init (s_par s) /\
        snd (s_step train s Clone) = mkObs true (s_par s) None None) /\
    (forall (train : P -> D -> M) s,
        snd (gs_step train s Clone) = mkObs true (g_par s) None None /\
        forall h, trace (gs_step train) (fst (gs_step train s Clone)) h
                  = trace (gs_step train) (g_init (g_par s)) h) /\
    (forall (width : D -> Z) (train : P -> D -> M) s,
        fst (c_step width train s Clone) = c_init (c_par s) /\
        snd (c_step width train s Clone) = mkObs true (c_par s) None None) /\
    (forall (ws : P -> bool) (user_net : P -> option M) (init_net : P -> D -> M)
            (train_from : P -> M -> D -> M) p h,
        user_net p = None ->
        fst (adv_step ws init_net train_from (run (adv_step ws init_net train_from) (a_init user_net p) h) Clone)
          = a_init user_net p /\
        snd (adv_step ws init_net train_from (run (adv_step ws init_net train_from) (a_init user_net p) h) Clone)
          = mkObs true (p, None) None None).
Proof.
  split; [|split; [|split]].
  - intros train s. apply s_clone_fresh.
  - intros train s. apply g_clone_fresh.
  - intros width train s. apply c_clone_fresh.
  - intros ws user_net init_net train_from p h. apply a_clone_fresh.
Qed.

Theorem c_params_constant_quiet (P D M : Type) (width : D -> Z) (train : P -> D -> M) (p : P) (w : Z)
        (h : list (op D)) :
    Forall (fun o => o_params o = p) (trace (c_step width train) (c_init p) h) /\
    (Forall (same_width width w) h -> Forall quiet (trace (c_step width train) (c_init p) h)).
Proof. split; [apply c_params_constant | apply c_quiet]. Qed.

Theorem e_nu_overwritten_ex (P N D M : Type) (nu_of : P -> D -> N) (train : P -> N -> D -> M) (p : P) (d : D) :
    exists h : list (op D),
      e_params (run (eg_step nu_of train) (e_init p None) h) <> e_params (@e_init P N M p None).
Proof. exists [Fit d]. exact (e_nu_overwritten P N D M nu_of train p d). Qed.

Theorem e_model_history_dependent_ex :
  exists (h : list (op Z)) (d : Z),
    o_model (after (eg_step sym_nu_of sym_train_eg) (e_init 0 None) h (Fit d)) <>
    o_model (after (eg_step sym_nu_of sym_train_eg) (e_init 0 None) [] (Fit d)).
Proof. exists [Fit 1], 2. exact e_model_history_dependent. Qed.

(* ================================================================ the repaired defects, refuted
   on the OLD switches of the same definitions (free instance, computed witnesses) *)

(* F7c: the one-shot latch made a refit raise ... *)
Example old_latch_refit_raises_gs :
  o_exc (after (gs_step_old sym_train) (g_init 0) [Fit 1] (Fit 1)) = Some AssertionErr.
Proof. reflexivity. Qed.
Example old_latch_refit_raises_eg :
  o_exc (after (eg_step_old sym_nu_of sym_train_eg) (e_init 0 None) [Fit 1] (Fit 1)) = Some AssertionErr.
Proof. reflexivity. Qed.
(* ... and a clone made after a fit (deep copy of the loaded constraints) unusable *)
Example old_latch_clone_after_fit_raises :
  o_exc (after (eg_step_old sym_nu_of sym_train_eg) (e_init 0 None) [Fit 1; Clone] (Fit 1)) = Some AssertionErr.
Proof. reflexivity. Qed.
(* F7b: GridSearch.fit returned None *)
Example old_gridsearch_fit_returns_none :
  o_self (after (gs_step_old sym_train) (g_init 0) [] (Fit 1)) = false.
Proof. reflexivity. Qed.
(* F7d: re-initialisation only on the first call, whatever warm_start says *)
Example old_adversarial_refit_continues :
  o_model (after (adv_step_old sym_ws sym_init_net sym_train_from) (a_init sym_user_net (0, (false, false))) [Fit 1] (Fit 2))
    = Some (1, [1; 2]) /\
  o_model (after (adv_step_old sym_ws sym_init_net sym_train_from) (a_init sym_user_net (0, (false, false))) [] (Fit 2))
    = Some (2, [2]).
Proof. split; reflexivity. Qed.
(* the same histories on the current switches *)
Example now_refit_ok :
  o_exc (after (gs_step sym_train) (g_init 0) [Fit 1] (Fit 1)) = None /\
  o_self (after (gs_step sym_train) (g_init 0) [] (Fit 1)) = true /\
  o_exc (after (eg_step sym_nu_of sym_train_eg) (e_init 0 None) [Fit 1; Clone] (Fit 1)) = None /\
  o_model (after (adv_step sym_ws sym_init_net sym_train_from) (a_init sym_user_net (0, (false, false))) [Fit 1] (Fit 2))
    = Some (2, [2]) /\
  o_model (after (adv_step sym_ws sym_init_net sym_train_from) (a_init sym_user_net (0, (true, false))) [Fit 1] (Fit 2))
    = Some (1, [1; 2]).
Proof. repeat split; reflexivity. Qed.
