From Coq Require Import ZArith List Bool String Lia.
From FL Require Import Merge Merge_proofs MergeGen MergeSrc.
Import ListNotations.

(* a block of the expected shape merges every row of a multi-column table, one key per row *)
Lemma column_of_multi (b : block_src) (m : list str -> str) (tab : list (list str)) :
  b_cond b = MultiColumn -> b_merge_checked b = true -> (1 < ncols tab)%nat ->
  column_of b m tab = Some (map m tab).
Proof.
  intros Hc Hm Hn. unfold column_of. rewrite Hc, Hm.
  apply Nat.ltb_lt in Hn. rewrite Hn. reflexivity.
Qed.

Lemma nth_map_str (m : list str -> str) (tab : list (list str)) (i : nat) :
  (i < List.length tab)%nat -> nth i (map m tab) [] = m (nth i tab []).
Proof.
  intro Hi. rewrite (nth_indep (map m tab) [] (m [])) by (rewrite map_length; exact Hi).
  apply map_nth.
Qed.

(* The key looked up at predict time for row i of the predict-time table is the key stored at fit
   time for row j of the fit-time table iff the two rows are the same tuple of strings: both
   vectors are produced by the same block with the same injective per-row merge. *)
Theorem same_key_of_injective (b : block_src) (m : list str -> str) :
  b_cond b = MultiColumn -> b_merge_checked b = true ->
  (forall r r' : list str, r <> [] -> r' <> [] -> m r = m r' -> r = r') ->
  forall (tab tab' : list (list str)) (col col' : list str),
    (1 < ncols tab)%nat -> (1 < ncols tab')%nat ->
    (forall r, In r tab -> r <> []) -> (forall r, In r tab' -> r <> []) ->
    column_of b m tab = Some col -> column_of b m tab' = Some col' ->
    List.length col = List.length tab /\ List.length col' = List.length tab' /\
    forall i j, (i < List.length tab')%nat -> (j < List.length tab)%nat ->
      (nth i col' [] = nth j col [] <-> nth i tab' [] = nth j tab []).
Proof.
  intros Hc Hm Hinj tab tab' col col' Hn Hn' Hne Hne' Hcol Hcol'.
  rewrite (column_of_multi b m tab Hc Hm Hn) in Hcol.
  rewrite (column_of_multi b m tab' Hc Hm Hn') in Hcol'.
  injection Hcol as <-. injection Hcol' as <-.
  split; [apply map_length|]. split; [apply map_length|].
  intros i j Hi Hj. rewrite (nth_map_str m tab' i Hi), (nth_map_str m tab j Hj).
  split.
  - apply Hinj; [apply Hne' | apply Hne]; apply nth_In; assumption.
  - intros ->. reflexivity.
Qed.

Theorem fit_predict_same_key (fit predict : key_path) (b : block_src) steps sep :
  p_source fit = validate_sensitive -> p_source predict = validate_sensitive ->
  b_slot b = p_slot fit ->
  b_cond b = MultiColumn -> b_merge_checked b = true -> chain_ok steps sep = true ->
  p_source predict = p_source fit /\
  forall (tab tab' : list (list str)) (col col' : list str),
    (1 < ncols tab)%nat -> (1 < ncols tab')%nat ->
    (forall r, In r tab -> r <> []) -> (forall r, In r tab' -> r <> []) ->
    column_of b (merge_with steps sep) tab = Some col ->
    column_of b (merge_with steps sep) tab' = Some col' ->
    List.length col = List.length tab /\ List.length col' = List.length tab' /\
    forall i j, (i < List.length tab')%nat -> (j < List.length tab)%nat ->
      (nth i col' [] = nth j col [] <-> nth i tab' [] = nth j tab []).
Proof.
  intros Hf Hp _ Hc Hm Hok. split; [congruence|].
  apply same_key_of_injective; try assumption.
  apply merge_injective_of_chain_ok. exact Hok.
Qed.

(* both blocks: the produced column partitions the rows of a multi-column table by tuple equality *)
Theorem block_partition (b : block_src) steps sep :
  b_cond b = MultiColumn -> b_merge_checked b = true -> chain_ok steps sep = true ->
  forall (tab : list (list str)) (col : list str),
    (1 < ncols tab)%nat -> (forall r, In r tab -> r <> []) ->
    column_of b (merge_with steps sep) tab = Some col ->
    partition_ids str_eqb col = partition_ids row_eqb tab.
Proof.
  intros Hc Hm Hok tab col Hn Hne Hcol.
  rewrite (column_of_multi b _ tab Hc Hm Hn) in Hcol. injection Hcol as <-.
  apply partition_of_chain_ok; assumption.
Qed.

(* a block that does not merge cannot produce a column for a multi-column table *)
Lemma column_of_never (b : block_src) m tab :
  b_cond b = Never -> (1 < ncols tab)%nat -> column_of b m tab = None.
Proof.
  intros Hc Hn. unfold column_of. rewrite Hc. apply Nat.ltb_lt in Hn. rewrite Hn. reflexivity.
Qed.
