From Coq Require Import QArith ZArith List Bool Lia Permutation Sorting.
From FL Require Import Num ListX Containers.
Import ListNotations.
Open Scope Q_scope.

(* ---- positional semantics ignores container kind and index labels ---- *)
Theorem position_invariance (c c' : container) :
  values c = values c' -> by_position c = by_position c'.
Proof. unfold by_position. intros ->. reflexivity. Qed.

Theorem position_ignores_index (idx idx' : list Z) (vs : list Q) :
  by_position (CSeries idx vs) = by_position (CArray vs)
  /\ by_position (CFrame1 idx' vs) = by_position (CList vs).
Proof. split; reflexivity. Qed.

(* label alignment is a DIFFERENT function: shuffled, offset and duplicated indices *)
Example label_semantics_differs_shuffled :
  by_label (CSeries [2; 0; 1]%Z [1#1; 2#1; 3#1]) <> by_position (CSeries [2; 0; 1]%Z [1#1; 2#1; 3#1]).
Proof. vm_compute. discriminate. Qed.
Example label_semantics_differs_offset :
  by_label (CSeries [100; 101; 102]%Z [1#1; 2#1; 3#1]) = [None; None; None].
Proof. reflexivity. Qed.
Example label_semantics_differs_duplicated :
  by_label (CFrame1 [0; 0; 0]%Z [1#1; 2#1; 3#1]) = [Some (1#1); None; None].
Proof. reflexivity. Qed.
Example label_semantics_default_index_agrees :
  by_label (CSeries [0; 1; 2]%Z [1#1; 2#1; 3#1]) = by_position (CSeries [0; 1; 2]%Z [1#1; 2#1; 3#1]).
Proof. reflexivity. Qed.

(* ---- sorted-unique keys depend only on the set of labels ---- *)
Lemma zinsert_In x y l : In y (zinsert x l) <-> y = x \/ In y l.
Proof.
  induction l as [|a l IH]; cbn.
  - intuition.
  - destruct (x <? a)%Z eqn:E1; [cbn; intuition|].
    destruct (x =? a)%Z eqn:E2.
    + apply Z.eqb_eq in E2. subst. cbn. intuition.
    + cbn. rewrite IH. intuition.
Qed.

Lemma zuniq_In y l : In y (zuniq l) <-> In y l.
Proof.
  unfold zuniq. induction l as [|a l IH]; cbn; [tauto|].
  rewrite zinsert_In, IH. intuition.
Qed.

Lemma zinsert_sorted x l : StronglySorted Z.lt l -> StronglySorted Z.lt (zinsert x l).
Proof.
  induction l as [|a l IH]; intro H; cbn.
  - constructor; constructor.
  - inversion H as [|? ? Hs Hf]; subst.
    destruct (x <? a)%Z eqn:E1.
    + apply Z.ltb_lt in E1. constructor; [exact H|]. constructor; [exact E1|].
      rewrite Forall_forall in *. intros z Hz. specialize (Hf z Hz). lia.
    + destruct (x =? a)%Z eqn:E2; [exact H|].
      apply Z.ltb_ge in E1. apply Z.eqb_neq in E2.
      constructor; [apply IH; exact Hs|].
      rewrite Forall_forall in *. intros z Hz. apply zinsert_In in Hz. destruct Hz as [->|Hz]; [lia|auto].
Qed.

Lemma zuniq_sorted l : StronglySorted Z.lt (zuniq l).
Proof. unfold zuniq. induction l; cbn; [constructor | apply zinsert_sorted; assumption]. Qed.

Lemma sorted_same_elements_eq (l l' : list Z) :
  StronglySorted Z.lt l -> StronglySorted Z.lt l' -> (forall z, In z l <-> In z l') -> l = l'.
Proof.
  revert l'. induction l as [|a l IH]; intros l' Hs Hs' Hin.
  - destruct l' as [|b l']; [reflexivity|]. exfalso. apply (Hin b). left; reflexivity.
  - destruct l' as [|b l']; [exfalso; apply (Hin a); left; reflexivity|].
    inversion Hs as [|? ? Hs1 Hf1]; inversion Hs' as [|? ? Hs2 Hf2]; subst.
    rewrite Forall_forall in Hf1, Hf2.
    assert (a = b).
    { destruct (proj1 (Hin a) (or_introl eq_refl)) as [E|Hb]; [auto|].
      destruct (proj2 (Hin b) (or_introl eq_refl)) as [E|Ha]; [auto|].
      specialize (Hf1 b Ha). specialize (Hf2 a Hb). lia. }
    subst b. f_equal. apply IH; auto.
    intro z. split; intro Hz.
    + destruct (proj1 (Hin z) (or_intror Hz)) as [E|H']; [|exact H'].
      subst z. specialize (Hf1 a Hz). lia.
    + destruct (proj2 (Hin z) (or_intror Hz)) as [E|H']; [|exact H'].
      subst z. specialize (Hf2 a Hz). lia.
Qed.

Lemma keys_perm rows rows' : Permutation rows rows' -> keys rows = keys rows'.
Proof.
  intro P. unfold keys. apply sorted_same_elements_eq; try apply zuniq_sorted.
  intro z. rewrite !zuniq_In. split; intro H.
  - eapply Permutation_in; [apply Permutation_map; exact P | exact H].
  - eapply Permutation_in; [apply Permutation_map; apply Permutation_sym; exact P | exact H].
Qed.

Lemma qsum_perm (l l' : list Q) : Permutation l l' -> qsum l == qsum l'.
Proof.
  induction 1 as [|x l l' _ IH|x y l|l l' l'' _ IH1 _ IH2]; cbn.
  - reflexivity.
  - rewrite IH. reflexivity.
  - ring.
  - rewrite IH1. exact IH2.
Qed.

Lemma filter_perm {A} (p : A -> bool) l l' : Permutation l l' -> Permutation (filter p l) (filter p l').
Proof.
  induction 1 as [|x l l' _ IH|x y l|l l' l'' _ IH1 _ IH2]; cbn.
  - constructor.
  - destruct (p x); [constructor|]; assumption.
  - destruct (p x), (p y); try constructor; try apply Permutation_refl. 
  - eapply Permutation_trans; eassumption.
Qed.

(* ---- jointly permuting all rows leaves every group statistic and the index unchanged ---- *)
Theorem perm_invariance (rows rows' : list row) :
  Permutation rows rows' ->
  keys rows = keys rows' /\
  forall g, g_count rows g = g_count rows' g /\ g_wsum rows g == g_wsum rows' g
            /\ g_wvsum rows g == g_wvsum rows' g.
Proof.
  intro P. split; [apply keys_perm; exact P|]. intro g.
  pose proof (filter_perm (in_group g) _ _ P) as Pf.
  unfold g_count, g_wsum, g_wvsum. repeat split.
  - apply Permutation_length; exact Pf.
  - apply qsum_perm, Permutation_map; exact Pf.
  - apply qsum_perm, Permutation_map; exact Pf.
Qed.

(* ---- renaming group labels by an injective map only renames the index entries ---- *)
Lemma filter_rename (f : Z -> Z) (Hinj : forall a b, f a = f b -> a = b) g rows :
  filter (in_group (f g)) (map (rename f) rows) = map (rename f) (filter (in_group g) rows).
Proof.
  induction rows as [|r rows IH]; cbn [map filter]; [reflexivity|].
  assert (E : in_group (f g) (rename f r) = in_group g r).
  { unfold in_group, rename. cbn [grp].
    destruct (Z.eqb (grp r) g) eqn:E1.
    - apply Z.eqb_eq in E1. rewrite E1. apply Z.eqb_refl.
    - apply Z.eqb_neq. intro H. apply Hinj in H. apply Z.eqb_neq in E1. contradiction. }
  rewrite E. destruct (in_group g r); cbn [map]; rewrite IH; reflexivity.
Qed.

Theorem relabel_equivariance (f : Z -> Z) (rows : list row) :
  (forall a b, f a = f b -> a = b) ->
  (forall g, In (f g) (keys (map (rename f) rows)) <-> In g (keys rows)) /\
  (forall k, In k (keys (map (rename f) rows)) -> exists g, k = f g /\ In g (keys rows)) /\
  forall g, g_count (map (rename f) rows) (f g) = g_count rows g
            /\ g_wsum (map (rename f) rows) (f g) == g_wsum rows g
            /\ g_wvsum (map (rename f) rows) (f g) == g_wvsum rows g.
Proof.
  intro Hinj.
  assert (K : forall k, In k (keys (map (rename f) rows)) <-> exists r, In r rows /\ k = f (grp r)).
  { intro k. unfold keys. rewrite zuniq_In, map_map. cbn [rename grp]. rewrite in_map_iff.
    split; intros [r [H1 H2]]; exists r; auto. }
  assert (K0 : forall g, In g (keys rows) <-> exists r, In r rows /\ g = grp r).
  { intro g. unfold keys. rewrite zuniq_In, in_map_iff.
    split; intros [r [H1 H2]]; exists r; auto. }
  split; [|split].
  - intro g. rewrite K, K0. split; intros [r [Hr E]]; exists r; (split; [exact Hr|]).
    + apply Hinj. exact E.
    + rewrite E. reflexivity.
  - intros k Hk. apply K in Hk. destruct Hk as [r [Hr E]]. exists (grp r). split; [exact E|].
    apply K0. exists r. auto.
  - intro g. unfold g_count, g_wsum, g_wvsum. rewrite filter_rename by exact Hinj.
    rewrite !map_map. cbn [rename wgt val]. split; [apply map_length|]. split; reflexivity.
Qed.

(* a NON-injective renaming merges groups: injectivity is necessary *)
Example relabel_noninjective :
  let rows := [ {| grp := 0; val := 1; wgt := 1 |}; {| grp := 1; val := 0; wgt := 1 |} ] in
  g_count (map (rename (fun _ => 5%Z)) rows) 5 = 2%nat /\ g_count rows 0 = 1%nat.
Proof. split; reflexivity. Qed.
