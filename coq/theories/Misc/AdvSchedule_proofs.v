(* Proofs about the adversarial training schedule and predict's label mapping (C17). *)
From Coq Require Import QArith ZArith List Bool Lia Sorting.Sorted.
From FL Require Import ListX AdvSchedule.
Import ListNotations.
Open Scope Z_scope.

(* ------------------------------------------------------------------ *)
(* arithmetic                                                           *)
(* ------------------------------------------------------------------ *)
Lemma ceil_div_spec : forall a b, 0 < b ->
  (ceil_div a b - 1) * b < a <= ceil_div a b * b.
Proof.
  intros a b Hb. unfold ceil_div.
  pose proof (Z.div_mod (- a) b ltac:(lia)) as Hdm.
  pose proof (Z.mod_pos_bound (- a) b Hb) as Hm.
  nia.
Qed.

Lemma ceil_div_pos : forall a b, 0 < b -> 0 < a -> 1 <= ceil_div a b.
Proof.
  intros a b Hb Ha. pose proof (ceil_div_spec a b Hb) as H.
  destruct (Z_lt_le_dec (ceil_div a b) 1) as [Hlt|]; [|lia]. nia.
Qed.

(* the validated configuration, as arithmetic facts *)
Definition valid (n bs epochs max_iter : Z) : Prop := config_ok n bs epochs max_iter = true.

Lemma valid_facts : forall n bs epochs max_iter, valid n bs epochs max_iter ->
  1 <= n /\ (bs = -1 \/ 1 <= bs) /\ (epochs = -1 \/ 1 <= epochs) /\ (max_iter = -1 \/ 1 <= max_iter)
  /\ ~ (epochs = -1 /\ max_iter = -1).
Proof.
  unfold valid, config_ok. intros n bs e mi H.
  assert (P : forall k, pos_or_m1 k = true -> k = -1 \/ 1 <= k).
  { intros k Hk. unfold pos_or_m1 in Hk. apply andb_true_iff in Hk. destruct Hk as [H1 H2].
    apply Z.leb_le in H1. apply negb_true_iff in H2. apply andb_false_iff in H2.
    destruct H2 as [H2|H2]; [apply Z.leb_gt in H2; lia|].
    apply negb_false_iff in H2. apply Z.eqb_eq in H2. lia. }
  repeat (apply andb_true_iff in H; destruct H as [H ?]).
  apply Z.ltb_lt in H.
  match goal with Hn : negb _ = true |- _ => apply negb_true_iff in Hn; apply andb_false_iff in Hn;
    rename Hn into Hboth end.
  repeat split; try lia; try (apply P; assumption).
Qed.

Lemma eff_bs_pos : forall n bs, 1 <= n -> (bs = -1 \/ 1 <= bs) -> 1 <= eff_bs n bs.
Proof. intros n bs Hn Hb. unfold eff_bs. destruct (bs =? -1) eqn:E; lia. Qed.

(* batches = ceil(n / batch_size): the least B with n <= B * batch_size *)
Theorem n_batches_spec : forall n bs, 1 <= n -> (bs = -1 \/ 1 <= bs) ->
  let b := eff_bs n bs in let B := n_batches n bs in
  1 <= B /\ (B - 1) * b < n <= B * b.
Proof.
  intros n bs Hn Hb b B. pose proof (eff_bs_pos n bs Hn Hb) as Hp.
  split; [apply ceil_div_pos; lia | apply ceil_div_spec; lia].
Qed.

Lemma eff_epochs_pos : forall n bs e mi, valid n bs e mi -> 1 <= eff_epochs n bs e mi.
Proof.
  intros n bs e mi Hv. destruct (valid_facts _ _ _ _ Hv) as (Hn & Hb & He & Hm & Hx).
  unfold eff_epochs. destruct (e =? -1) eqn:E; [|lia].
  destruct (n_batches_spec n bs Hn Hb) as [HB _]. apply ceil_div_pos; lia.
Qed.

(* ------------------------------------------------------------------ *)
(* slices of one epoch                                                  *)
(* ------------------------------------------------------------------ *)
(* l tiles [a, c): consecutive, non-empty, in order *)
Fixpoint tiles (a c : Z) (l : list slice) : Prop :=
  match l with
  | [] => a = c
  | (lo, hi) :: r => lo = a /\ lo < hi /\ tiles hi c r
  end.

Lemma tiles_seq : forall n b len a, 0 < b -> 0 <= Z.of_nat a ->
  (Z.of_nat a + Z.of_nat (S len) - 1) * b < n <= (Z.of_nat a + Z.of_nat (S len)) * b ->
  tiles (Z.of_nat a * b) n (map (fun k => batch_slice n b (Z.of_nat k)) (seq a (S len))).
Proof.
  intros n b len. induction len as [|len IH]; intros a Hb Ha H.
  - cbn [seq map tiles batch_slice]. rewrite Z.min_r by lia. repeat split; lia.
  - change (seq a (S (S len))) with (a :: seq (S a) (S len)).
    cbn [map tiles batch_slice].
    assert (Hlt : (Z.of_nat a + 1) * b < n) by nia.
    rewrite Z.min_l by lia. split; [reflexivity|]. split; [lia|].
    replace ((Z.of_nat a + 1) * b) with (Z.of_nat (S a) * b) by lia.
    apply IH; lia.
Qed.

Lemma epoch_slices_length : forall n bs, length (epoch_slices n bs) = Z.to_nat (n_batches n bs).
Proof. intros. unfold epoch_slices. rewrite map_length, seq_length. reflexivity. Qed.

(* within an epoch: the k-th slice is [k*bs, min((k+1)*bs, n)), k = 0 .. batches-1, and the slices
   tile [0, n) in order (consecutive, non-empty, covering) *)
Theorem slices_consecutive : forall n bs, 1 <= n -> (bs = -1 \/ 1 <= bs) ->
  let b := eff_bs n bs in let B := n_batches n bs in
  Z.of_nat (length (epoch_slices n bs)) = B /\
  (forall k d, (k < length (epoch_slices n bs))%nat ->
      nth k (epoch_slices n bs) d = (Z.of_nat k * b, Z.min ((Z.of_nat k + 1) * b) n)) /\
  tiles 0 n (epoch_slices n bs).
Proof.
  intros n bs Hn Hb b B.
  destruct (n_batches_spec n bs Hn Hb) as [HB Hs]. fold b B in HB, Hs.
  pose proof (eff_bs_pos n bs Hn Hb) as Hp. fold b in Hp.
  split; [rewrite epoch_slices_length; fold B; lia|]. split.
  - intros k d Hk. rewrite epoch_slices_length in Hk. unfold epoch_slices.
    rewrite nth_indep with (d' := batch_slice n (eff_bs n bs) (Z.of_nat 0))
      by (rewrite map_length, seq_length; exact Hk).
    rewrite map_nth with (f := fun k => batch_slice n (eff_bs n bs) (Z.of_nat k)).
    rewrite seq_nth by exact Hk. reflexivity.
  - unfold epoch_slices. fold b B.
    destruct (Z.to_nat B) as [|len] eqn:EB; [lia|].
    change 0 with (Z.of_nat 0 * b). apply tiles_seq; lia.
Qed.

(* ------------------------------------------------------------------ *)
(* the run                                                              *)
(* ------------------------------------------------------------------ *)
Lemma steps_of_app : forall a b, steps_of (a ++ b) = steps_of a ++ steps_of b.
Proof. induction a as [|[lo hi|j k] a IH]; intros b; cbn; [reflexivity| rewrite IH; reflexivity | apply IH]. Qed.

Lemma steps_of_cb_events : forall ncb k, steps_of (cb_events ncb k) = [].
Proof.
  intros ncb k. unfold cb_events. generalize 0%nat.
  induction ncb as [|m IH]; intros s; cbn; [reflexivity | apply IH].
Qed.

Lemma steps_of_expected : forall mi ncb sl it, steps_of (expected_log mi ncb it sl) = sl.
Proof.
  intros mi ncb sl. induction sl as [|[lo hi] r IH]; intros it; cbn [expected_log]; [reflexivity|].
  cbn [steps_of]. rewrite steps_of_app, IH.
  destruct (exhausted mi (it + 1)); [reflexivity | rewrite steps_of_cb_events; reflexivity].
Qed.

Section Run.
  Variables (mi : Z) (ncb : nat) (stop : Z -> bool).

  (* the executed slices are a prefix of the planned ones *)
  Lemma run_prefix : forall sl it,
    steps_of (run mi ncb stop it sl) = firstn (n_steps (run mi ncb stop it sl)) sl.
  Proof.
    unfold n_steps. induction sl as [|[lo hi] r IH]; intros it; [reflexivity|].
    cbn [run]. cbn [steps_of length firstn].
    destruct (exhausted mi (it + 1)); [reflexivity|].
    destruct ncb as [|p] eqn:En.
    - apply (f_equal (cons (lo, hi))). apply IH.
    - rewrite steps_of_app, steps_of_cb_events. cbn [app].
      destruct (stop (it + 1)); [reflexivity|]. apply (f_equal (cons (lo, hi))). apply IH.
  Qed.

  (* the log has the documented shape *)
  Lemma run_shape : forall sl it,
    run mi ncb stop it sl = expected_log mi ncb it (steps_of (run mi ncb stop it sl)).
  Proof.
    induction sl as [|[lo hi] r IH]; intros it; [reflexivity|].
    cbn [run]. cbn [steps_of expected_log].
    destruct (exhausted mi (it + 1)) eqn:Ex.
    - cbn [steps_of expected_log app]. reflexivity.
    - destruct ncb as [|p] eqn:En.
      + cbn [cb_events seq map app]. f_equal. apply IH.
      + rewrite steps_of_app, steps_of_cb_events. cbn [app].
        f_equal. rewrite app_nil_r || idtac. f_equal.
        destruct (stop (it + 1)); [reflexivity | apply IH].
  Qed.

  (* where the run ends *)
  Lemma run_end : forall sl it, let m := n_steps (run mi ncb stop it sl) in
    (m <= length sl)%nat /\ (sl <> [] -> (1 <= m)%nat) /\
    (forall i, it + 1 <= i < it + Z.of_nat m ->
        exhausted mi i = false /\ (ncb <> O -> stop i = false)) /\
    ((m < length sl)%nat ->
        exhausted mi (it + Z.of_nat m) = true \/ (ncb <> O /\ stop (it + Z.of_nat m) = true)).
  Proof.
    unfold n_steps. induction sl as [|[lo hi] r IH]; intros it.
    - cbn. repeat split; try lia; congruence.
    - cbn [run]. cbn [steps_of length].
      destruct (exhausted mi (it + 1)) eqn:Ex.
      + cbn [steps_of length]. repeat split; try lia.
        intros _. left. rewrite <- Ex. f_equal.
      + assert (Hone : forall l : list slice, it + Z.of_nat (S (length l)) = (it + 1) + Z.of_nat (length l))
          by (intros; lia).
        destruct ncb as [|p] eqn:En.
        * specialize (IH (it + 1)). destruct IH as (H1 & H2 & H3 & H4).
          split; [lia|]. split; [lia|]. split.
          -- intros i Hi. destruct (Z.eq_dec i (it + 1)) as [->|Hne].
             ++ split; [exact Ex | congruence].
             ++ apply H3. lia.
          -- intros Hlt. rewrite Hone. destruct H4 as [H4|[H4 _]]; [lia | left; exact H4 | congruence].
        * rewrite steps_of_app, steps_of_cb_events. cbn [app].
          destruct (stop (it + 1)) eqn:Es.
          -- cbn [steps_of length]. repeat split; try lia.
             intros _. right. split; [congruence|]. rewrite <- Es. f_equal.
          -- specialize (IH (it + 1)). destruct IH as (H1 & H2 & H3 & H4).
             split; [lia|]. split; [lia|]. split.
             ++ intros i Hi. destruct (Z.eq_dec i (it + 1)) as [->|Hne].
                ** split; [exact Ex | intros _; exact Es].
                ** apply H3. lia.
             ++ intros Hlt. rewrite Hone. apply H4. lia.
  Qed.

  (* number of steps when no callback ever asks to stop *)
  Lemma run_count_nocap : forall sl it, mi = -1 -> (ncb <> O -> forall k, stop k = false) ->
    n_steps (run mi ncb stop it sl) = length sl.
  Proof.
    unfold n_steps. intros sl it Hm Hs. revert it.
    induction sl as [|[lo hi] r IH]; intros it; [reflexivity|].
    cbn [run]. cbn [steps_of length].
    assert (Ex : exhausted mi (it + 1) = false) by (unfold exhausted; subst mi; reflexivity).
    rewrite Ex. destruct ncb as [|p] eqn:En.
    - f_equal. apply IH.
    - rewrite steps_of_app, steps_of_cb_events. cbn [app].
      rewrite Hs by congruence. f_equal. apply IH.
  Qed.

  Lemma run_count_cap : forall sl it, 1 <= mi -> it < mi -> (ncb <> O -> forall k, stop k = false) ->
    Z.of_nat (n_steps (run mi ncb stop it sl)) = Z.min (Z.of_nat (length sl)) (mi - it).
  Proof.
    unfold n_steps. intros sl it Hm Hit Hs. revert it Hit.
    induction sl as [|[lo hi] r IH]; intros it Hit; [cbn; lia|].
    cbn [run]. cbn [steps_of length].
    unfold exhausted. replace (mi =? -1) with false by (symmetry; apply Z.eqb_neq; lia).
    cbn [negb andb]. destruct (mi <=? it + 1) eqn:Ele.
    - apply Z.leb_le in Ele. cbn [steps_of length]. lia.
    - apply Z.leb_gt in Ele.
      assert (IH' := IH (it + 1) ltac:(lia)).
      destruct ncb as [|p] eqn:En.
      + cbn [length]. lia.
      + rewrite steps_of_app, steps_of_cb_events. cbn [app].
        rewrite Hs by congruence. cbn [length]. lia.
  Qed.
End Run.

Lemma concat_repeat_length : forall {A} (l : list A) k,
  length (concat (repeat l k)) = (k * length l)%nat.
Proof. intros A l k. induction k as [|k IH]; cbn; [reflexivity | rewrite app_length, IH; reflexivity]. Qed.

Lemma all_slices_length : forall n bs e mi, valid n bs e mi ->
  Z.of_nat (length (all_slices n bs e mi)) = eff_epochs n bs e mi * n_batches n bs.
Proof.
  intros n bs e mi Hv. destruct (valid_facts _ _ _ _ Hv) as (Hn & Hb & _).
  unfold all_slices. rewrite concat_repeat_length, epoch_slices_length.
  pose proof (eff_epochs_pos _ _ _ _ Hv). destruct (n_batches_spec n bs Hn Hb) as [HB _].
  rewrite Nat2Z.inj_mul, !Z2Nat.id by lia. reflexivity.
Qed.

(* ------------------------------------------------------------------ *)
(* main theorems on the schedule                                        *)
(* ------------------------------------------------------------------ *)

(* without a stopping callback: #steps = epochs * ceil(n/bs), capped by max_iter when it is set *)
Theorem step_count : forall n bs epochs max_iter ncb stop,
  valid n bs epochs max_iter -> (ncb <> O -> forall k, stop k = false) ->
  Z.of_nat (n_steps (schedule n bs epochs max_iter ncb stop)) =
    let total := eff_epochs n bs epochs max_iter * n_batches n bs in
    if max_iter =? -1 then total else Z.min total max_iter.
Proof.
  intros n bs e mi ncb stop Hv Hs. cbv zeta. unfold schedule.
  destruct (valid_facts _ _ _ _ Hv) as (Hn & Hb & He & Hm & Hx).
  rewrite <- (all_slices_length _ _ _ _ Hv).
  destruct (mi =? -1) eqn:Em.
  - apply Z.eqb_eq in Em. rewrite run_count_nocap by assumption. reflexivity.
  - apply Z.eqb_neq in Em. rewrite run_count_cap by (try assumption; lia). lia.
Qed.

(* epochs given explicitly *)
Corollary step_count_epochs : forall n bs epochs max_iter ncb stop,
  valid n bs epochs max_iter -> 1 <= epochs -> (ncb <> O -> forall k, stop k = false) ->
  Z.of_nat (n_steps (schedule n bs epochs max_iter ncb stop)) =
    if max_iter =? -1 then epochs * n_batches n bs else Z.min (epochs * n_batches n bs) max_iter.
Proof.
  intros n bs e mi ncb stop Hv He Hs. rewrite (step_count _ _ _ _ _ _ Hv Hs). cbv zeta.
  unfold eff_epochs. replace (e =? -1) with false by (symmetry; apply Z.eqb_neq; lia). reflexivity.
Qed.

(* epochs = -1: exactly max_iter steps *)
Corollary step_count_auto_epochs : forall n bs max_iter ncb stop,
  valid n bs (-1) max_iter -> (ncb <> O -> forall k, stop k = false) ->
  Z.of_nat (n_steps (schedule n bs (-1) max_iter ncb stop)) = max_iter.
Proof.
  intros n bs mi ncb stop Hv Hs. rewrite (step_count _ _ _ _ _ _ Hv Hs). cbv zeta.
  destruct (valid_facts _ _ _ _ Hv) as (Hn & Hb & He & Hm & Hx).
  assert (Hmi : 1 <= mi) by lia.
  replace (mi =? -1) with false by (symmetry; apply Z.eqb_neq; lia).
  unfold eff_epochs. change (-1 =? -1) with true. cbv iota.
  destruct (n_batches_spec n bs Hn Hb) as [HB _]. cbv zeta in HB.
  pose proof (ceil_div_spec mi (n_batches n bs) ltac:(lia)) as Hc.
  apply Z.min_r. apply Hc.
Qed.

(* the executed slices are the first n_iter_ slices of `epochs` repetitions of the epoch's slices *)
Theorem steps_are_prefix : forall n bs epochs max_iter ncb stop,
  let ev := schedule n bs epochs max_iter ncb stop in
  steps_of ev = firstn (n_steps ev)
                       (concat (repeat (epoch_slices n bs) (Z.to_nat (eff_epochs n bs epochs max_iter)))).
Proof. intros. apply run_prefix. Qed.

Lemma callback_steps_app : forall j a b,
  callback_steps j (a ++ b) = callback_steps j a ++ callback_steps j b.
Proof.
  intros j a b. induction a as [|[lo hi|j' k] a IH]; cbn; [reflexivity | exact IH |].
  destruct (Nat.eqb j j'); [cbn; f_equal|]; exact IH.
Qed.

Lemma callback_steps_notin : forall j k l, ~ In j l ->
  callback_steps j (map (fun j0 => Callback j0 k) l) = [].
Proof.
  intros j k l. induction l as [|x l IH]; intros Hn; [reflexivity|].
  cbn [map callback_steps]. destruct (Nat.eqb j x) eqn:E.
  - apply Nat.eqb_eq in E. exfalso. apply Hn. left. symmetry. exact E.
  - apply IH. intros Hin. apply Hn. right. exact Hin.
Qed.

Lemma callback_steps_cb_events : forall ncb j k, (j < ncb)%nat ->
  callback_steps j (cb_events ncb k) = [k].
Proof.
  intros ncb j k Hj. unfold cb_events.
  replace ncb with (j + S (ncb - j - 1))%nat by lia.
  rewrite seq_app, map_app, callback_steps_app. cbn [seq map callback_steps plus].
  rewrite Nat.eqb_refl.
  rewrite !callback_steps_notin; [reflexivity| |]; rewrite in_seq; lia.
Qed.

Lemma exhausted_mono : forall mi i i', i <= i' -> exhausted mi i = true -> exhausted mi i' = true.
Proof.
  unfold exhausted. intros mi i i' Hle H. apply andb_true_iff in H. destruct H as [H1 H2].
  rewrite H1. cbn [andb]. apply Z.leb_le in H2. apply Z.leb_le. lia.
Qed.

Lemma callback_steps_expected : forall mi ncb j sl it, (j < ncb)%nat ->
  (forall i, it < i < it + Z.of_nat (length sl) -> exhausted mi i = false) ->
  callback_steps j (expected_log mi ncb it sl) =
    map (fun i => it + Z.of_nat i)
        (seq 1 (if exhausted mi (it + Z.of_nat (length sl)) then pred (length sl) else length sl)).
Proof.
  intros mi ncb j sl. induction sl as [|[lo hi] r IH]; intros it Hj Hne.
  - cbn. destruct (exhausted mi (it + 0)); reflexivity.
  - cbn [expected_log callback_steps]. rewrite callback_steps_app.
    destruct r as [|s2 r'].
    + cbn [expected_log callback_steps length]. rewrite app_nil_r.
      replace (it + Z.of_nat 1) with (it + 1) by lia.
      destruct (exhausted mi (it + 1)); [reflexivity|].
      rewrite callback_steps_cb_events by exact Hj. cbn. f_equal.
    + assert (Ex : exhausted mi (it + 1) = false) by (apply Hne; cbn [length]; lia).
      rewrite Ex. rewrite callback_steps_cb_events by exact Hj.
      rewrite IH; [|exact Hj|intros i Hi; apply Hne; cbn [length] in *; lia].
      cbn [length]. remember (length r') as L' eqn:EL'.
      replace (it + 1 + Z.of_nat (S L')) with (it + Z.of_nat (S (S L'))) by lia.
      set (c := if exhausted mi (it + Z.of_nat (S (S L'))) then pred (S L') else S L').
      replace (if exhausted mi (it + Z.of_nat (S (S L'))) then pred (S (S L')) else S (S L')) with (S c)
        by (unfold c; destruct (exhausted mi (it + Z.of_nat (S (S L')))); lia).
      cbn [seq map app]. apply f_equal2; [lia|].
      rewrite <- (seq_shift c 1), map_map. apply map_ext. intros a. lia.
Qed.

(* callbacks: the log is, step by step, [Step; every callback with that step number], without the
   callbacks after a step that exhausts max_iter; no earlier step exhausted max_iter or had a callback
   asking to stop; the run ends before the planned end only for one of these two reasons; and each
   callback sees exactly the step numbers 1, 2, ..., c *)
Theorem callbacks_after_each_step : forall n bs epochs max_iter ncb stop,
  valid n bs epochs max_iter ->
  let ev := schedule n bs epochs max_iter ncb stop in
  let m := n_steps ev in
  let total := eff_epochs n bs epochs max_iter * n_batches n bs in
  ev = expected_log max_iter ncb 0 (steps_of ev) /\
  (1 <= m)%nat /\ Z.of_nat m <= total /\
  (forall i, 1 <= i < Z.of_nat m -> exhausted max_iter i = false /\ (ncb <> O -> stop i = false)) /\
  (Z.of_nat m < total ->
     exhausted max_iter (Z.of_nat m) = true \/ (ncb <> O /\ stop (Z.of_nat m) = true)) /\
  (forall j, (j < ncb)%nat ->
     callback_steps j ev =
       map Z.of_nat (seq 1 (if exhausted max_iter (Z.of_nat m) then pred m else m))).
Proof.
  intros n bs e mi ncb stop Hv ev m total.
  pose proof (run_shape mi ncb stop (all_slices n bs e mi) 0) as Hshape.
  pose proof (run_end mi ncb stop (all_slices n bs e mi) 0) as Hend. cbv zeta in Hend.
  fold (schedule n bs e mi ncb stop) in Hshape, Hend. fold ev in Hshape, Hend. fold m in Hend.
  destruct Hend as (H1 & H2 & H3 & H4).
  pose proof (all_slices_length _ _ _ _ Hv) as HL. fold total in HL.
  assert (Htot : 1 <= total).
  { unfold total. pose proof (eff_epochs_pos _ _ _ _ Hv).
    destruct (valid_facts _ _ _ _ Hv) as (Hn & Hb & _).
    destruct (n_batches_spec n bs Hn Hb) as [HB _]. nia. }
  split; [exact Hshape|]. split.
  { apply H2. intros E. rewrite E in HL. cbn in HL. lia. }
  split; [lia|]. split.
  { intros i Hi. apply H3. lia. }
  split.
  { intros Hlt. replace (Z.of_nat m) with (0 + Z.of_nat m) by lia. apply H4. lia. }
  intros j Hj. rewrite Hshape.
  assert (Hm : length (steps_of ev) = m) by reflexivity.
  rewrite callback_steps_expected; [|exact Hj|].
  - rewrite Hm. cbn [Z.add]. apply map_ext. intros a. lia.
  - intros i Hi. rewrite Hm in Hi. apply H3. lia.
Qed.

(* ------------------------------------------------------------------ *)
(* fit = the same slices through partial_fit                            *)
(* ------------------------------------------------------------------ *)
Lemma rows_of_map : forall {A B} (f : A -> B) (data : list A) (s : slice),
  rows_of (map f data) s = map f (rows_of data s).
Proof. intros. unfold rows_of. rewrite skipn_map, firstn_map. reflexivity. Qed.

Section FitPartial.
  Variables (state raw enc : Type) (encode : raw -> enc) (train_step : state -> list enc -> state).

  Lemma run_state_fold : forall mi ncb stop sl it data s,
    run_state state enc train_step mi ncb stop it sl (map encode data) s =
    partial_fit_state state raw enc encode train_step
      (map (rows_of data) (steps_of (run mi ncb stop it sl))) s.
  Proof.
    intros mi ncb stop sl. unfold partial_fit_state.
    induction sl as [|[lo hi] r IH]; intros it data s; [reflexivity|].
    cbn [run run_state steps_of map fold_left]. rewrite rows_of_map.
    destruct (exhausted mi (it + 1)); [reflexivity|].
    destruct ncb as [|p] eqn:En.
    - apply IH.
    - rewrite steps_of_app, steps_of_cb_events. cbn [app].
      destruct (stop (it + 1)); [reflexivity | apply IH].
  Qed.

  (* for every train_step, encoder, data and initial state *)
  Theorem fit_eq_partial_fit : forall n bs epochs max_iter ncb stop data s0,
    fit_state state raw enc encode train_step n bs epochs max_iter ncb stop data s0 =
    partial_fit_state state raw enc encode train_step
      (map (rows_of data) (steps_of (schedule n bs epochs max_iter ncb stop))) s0.
  Proof. intros. apply run_state_fold. Qed.
End FitPartial.

Section FitPartialAbs.
  Variables (state : Type) (train_range : state -> slice -> state).

  Lemma run_state_abs_fold : forall mi ncb stop sl it s,
    run_state_abs state train_range mi ncb stop it sl s =
    fold_left train_range (steps_of (run mi ncb stop it sl)) s.
  Proof.
    intros mi ncb stop sl. induction sl as [|[lo hi] r IH]; intros it s; [reflexivity|].
    cbn [run run_state_abs steps_of fold_left].
    destruct (exhausted mi (it + 1)); [reflexivity|].
    destruct ncb as [|p] eqn:En.
    - apply IH.
    - rewrite steps_of_app, steps_of_cb_events. cbn [app].
      destruct (stop (it + 1)); [reflexivity | apply IH].
  Qed.

  Theorem fit_eq_partial_fit_abs : forall n bs epochs max_iter ncb stop s0,
    fit_state_abs state train_range n bs epochs max_iter ncb stop s0 =
    partial_fit_state_abs state train_range (steps_of (schedule n bs epochs max_iter ncb stop)) s0.
  Proof. intros. apply run_state_abs_fold. Qed.
End FitPartialAbs.

(* rows_of on a tiling really partitions the data: concatenating the batches of one epoch gives
   the data back (so every row is used exactly once per epoch, in order) *)
Lemma skipn_skipn' : forall {A} (x y : nat) (l : list A), skipn x (skipn y l) = skipn (x + y) l.
Proof.
  intros A x y. induction y as [|y IH]; intros l.
  - rewrite Nat.add_0_r. reflexivity.
  - rewrite Nat.add_succ_r. destruct l as [|a l]; [rewrite !skipn_nil; reflexivity|].
    cbn [skipn]. apply IH.
Qed.

Lemma rows_of_tiles : forall {R} (data : list R) sl a,
  0 <= a -> tiles a (Z.of_nat (length data)) sl ->
  concat (map (rows_of data) sl) = skipn (Z.to_nat a) data.
Proof.
  intros R data sl. induction sl as [|[lo hi] r IH]; intros a Ha Ht.
  - cbn in *. subst a. rewrite Nat2Z.id, skipn_all. reflexivity.
  - cbn [tiles] in Ht. destruct Ht as (-> & Hlt & Ht).
    cbn [map concat]. rewrite (IH hi) by (try exact Ht; lia).
    unfold rows_of. cbn [fst snd].
    replace (Z.to_nat hi) with (Z.to_nat (hi - a) + Z.to_nat a)%nat by lia.
    rewrite <- skipn_skipn'. apply firstn_skipn.
Qed.

Theorem epoch_batches_partition : forall {R} (data : list R) bs,
  (1 <= length data)%nat -> (bs = -1 \/ 1 <= bs) ->
  concat (map (rows_of data) (epoch_slices (Z.of_nat (length data)) bs)) = data.
Proof.
  intros R data bs Hn Hb.
  destruct (slices_consecutive (Z.of_nat (length data)) bs ltac:(lia) Hb) as (_ & _ & Ht).
  rewrite (rows_of_tiles data _ 0) by (try exact Ht; lia). reflexivity.
Qed.

(* ------------------------------------------------------------------ *)
(* predict                                                              *)
(* ------------------------------------------------------------------ *)
(* sorted distinct labels *)
Lemma zinsert_In : forall x y l, In y (zinsert x l) <-> y = x \/ In y l.
Proof.
  intros x y l. induction l as [|z r IH]; cbn [zinsert].
  - cbn. intuition.
  - destruct (x <? z) eqn:E1; [cbn; intuition|].
    destruct (x =? z) eqn:E2.
    + apply Z.eqb_eq in E2. subst z. cbn. intuition.
    + cbn [In]. rewrite IH. intuition.
Qed.

Lemma zinsert_sorted : forall x l, StronglySorted Z.lt l -> StronglySorted Z.lt (zinsert x l).
Proof.
  intros x l H. induction H as [|z r Hs IH Hf]; cbn [zinsert].
  - constructor; constructor.
  - destruct (x <? z) eqn:E1.
    + apply Z.ltb_lt in E1. constructor; [constructor; assumption|].
      constructor; [exact E1|]. rewrite Forall_forall in *. intros w Hw. specialize (Hf w Hw). lia.
    + destruct (x =? z) eqn:E2; [constructor; assumption|].
      apply Z.ltb_ge in E1. apply Z.eqb_neq in E2.
      constructor; [exact IH|]. rewrite Forall_forall in *. intros w Hw.
      apply zinsert_In in Hw. destruct Hw as [->|Hw]; [lia | apply Hf; exact Hw].
Qed.

Lemma zuniq_sorted : forall l, StronglySorted Z.lt (zuniq l).
Proof. induction l as [|x l IH]; cbn; [constructor | apply zinsert_sorted; exact IH]. Qed.

Lemma zuniq_In : forall x l, In x (zuniq l) <-> In x l.
Proof.
  intros x l. induction l as [|y l IH]; cbn [zuniq fold_right]; [reflexivity|].
  rewrite zinsert_In. fold (zuniq l). rewrite IH. cbn. intuition.
Qed.

Lemma inverse_In : forall ys i, (i < length (classes_of ys))%nat -> In (inverse (classes_of ys) i) ys.
Proof. intros ys i Hi. unfold inverse, classes_of in *. apply zuniq_In. apply nth_In. exact Hi. Qed.

Open Scope Q_scope.

Lemma skipn_step : forall {A} (i : nat) (full : list A) x l' d,
  skipn i full = x :: l' -> nth i full d = x /\ skipn (S i) full = l' /\ (i < length full)%nat.
Proof.
  intros A i. induction i as [|i IH]; intros full x l' d H.
  - destruct full as [|a f]; cbn in H; [discriminate|]. injection H as -> ->. cbn. repeat split. lia.
  - destruct full as [|a f]; cbn [skipn] in H; [discriminate|].
    destruct (IH f x l' d H) as (H1 & H2 & H3). cbn [nth length]. repeat split; try assumption. lia.
Qed.

Lemma argmax_from_inv : forall l full best bi i,
  skipn i full = l -> (bi < i)%nat -> (i <= length full)%nat -> nth bi full 0 = best ->
  (forall j, (j < i)%nat -> nth j full 0 <= best) ->
  (forall j, (j < bi)%nat -> nth j full 0 < best) ->
  let r := argmax_from best bi i l in
  (r < length full)%nat /\
  (forall j, (j < length full)%nat -> nth j full 0 <= nth r full 0) /\
  (forall j, (j < r)%nat -> nth j full 0 < nth r full 0).
Proof.
  induction l as [|x l' IH]; intros full best bi i Hs Hbi Hi Hb Hle Hlt.
  - cbn [argmax_from]. pose proof (skipn_length i full) as HL. rewrite Hs in HL. cbn in HL.
    assert (i = length full) by lia. subst i. rewrite Hb. repeat split; assumption.
  - cbn [argmax_from]. destruct (skipn_step i full x l' 0 Hs) as (Hx & Hs' & Hi').
    destruct (Qle_bool x best) eqn:E.
    + apply Qle_bool_iff in E. apply IH; try assumption; try lia.
      intros j Hj. destruct (Nat.eq_dec j i) as [->|Hne]; [rewrite Hx; exact E | apply Hle; lia].
    + assert (Hgt : best < x).
      { apply Qnot_le_lt. intros Hc. apply Qle_bool_iff in Hc. congruence. }
      apply IH; try assumption; try lia.
      * intros j Hj. destruct (Nat.eq_dec j i) as [->|Hne]; [rewrite Hx; apply Qle_refl|].
        apply Qle_trans with best; [apply Hle; lia | apply Qlt_le_weak; exact Hgt].
      * intros j Hj. apply Qle_lt_trans with best; [apply Hle; lia | exact Hgt].
Qed.

(* multiclass: the chosen index is an arg-max, and the FIRST one (numpy.argmax) *)
Theorem predict_multi_argmax : forall outs, outs <> [] ->
  let i := predict_multi outs in
  (i < length outs)%nat /\
  (forall j, (j < length outs)%nat -> nth j outs 0 <= nth i outs 0) /\
  (forall j, (j < i)%nat -> nth j outs 0 < nth i outs 0).
Proof.
  intros outs Hne. destruct outs as [|x r]; [congruence|]. cbn [predict_multi].
  apply argmax_from_inv; try reflexivity; cbn [length]; try lia.
  - intros j Hj. assert (j = 0%nat) by lia. subst j. apply Qle_refl.
Qed.

(* binary: the positive output exactly when out >= threshold *)
Lemma predict_bin_iff : forall thr out, predict_bin thr out = true <-> thr <= out.
Proof. intros. unfold predict_bin. apply Qle_bool_iff. Qed.

(* binary labels: the larger class exactly when out >= 1/2, the smaller one exactly when out < 1/2 *)
Theorem predict_bin_threshold : forall ys out c0 c1, classes_of ys = [c0; c1] ->
  (c0 < c1)%Z /\
  (predict_label_bin ys out = c1 <-> 1 # 2 <= out) /\
  (predict_label_bin ys out = c0 <-> out < 1 # 2).
Proof.
  intros ys out c0 c1 Hc.
  assert (Hlt : (c0 < c1)%Z).
  { pose proof (zuniq_sorted ys) as Hs. unfold classes_of in Hc. rewrite Hc in Hs.
    inversion Hs as [|? ? _ Hf]; subst. inversion Hf; subst. assumption. }
  split; [exact Hlt|]. unfold predict_label_bin. rewrite Hc. unfold inverse.
  destruct (predict_bin half out) eqn:E; cbn [nth].
  - apply predict_bin_iff in E. unfold half in E. split; split; intros H; try reflexivity; try exact E.
    + lia.
    + exfalso. apply (Qlt_not_le _ _ H). exact E.
  - assert (Hn : out < 1 # 2).
    { apply Qnot_le_lt. intros Hc'. apply predict_bin_iff in Hc'. unfold half in E. congruence. }
    split; split; intros H; try reflexivity; try exact Hn.
    + lia.
    + exfalso. apply (Qlt_not_le _ _ Hn). exact H.
Qed.

(* predictions are members of the training label set *)
Theorem predict_in_label_set :
  (forall ys out, length (classes_of ys) = 2%nat -> In (predict_label_bin ys out) ys) /\
  (forall ys outs, outs <> [] -> length outs = length (classes_of ys) ->
     In (predict_label_multi ys outs) ys) /\
  (forall out, predict_cont out = out).
Proof.
  split; [|split].
  - intros ys out H2. unfold predict_label_bin. apply inverse_In. rewrite H2.
    destruct (predict_bin half out); lia.
  - intros ys outs Hne Hlen. unfold predict_label_multi. apply inverse_In. rewrite <- Hlen.
    apply (predict_multi_argmax outs Hne).
  - reflexivity.
Qed.

Close Scope Q_scope.
