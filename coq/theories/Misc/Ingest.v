(* C12: ingestion sites.  An entry point of fairlearn consumes the caller's containers at a number of SITES
   (statements that place row data into an internal pandas object, or re-wrap it).  A site is Positional when
   what meets in it is a list / ndarray / np.asarray(x) / x.values / check_array(x) / a pandas object just
   built from one of those with the default index, and Labelled when a pandas object that still carries the
   caller's index meets an internal object (pandas then aligns by label).  translators/t_ingest.py regenerates
   the table of sites from the source (Gen_ingest.sites); expected_sites is what this model was written from.
   Proof-free. *)
From Coq Require Import QArith ZArith List Bool String.
From FL Require Import Num ListX Containers.
Import ListNotations.
Open Scope string_scope.

Inductive site_kind : Type := Positional | Labelled.

Record site := mk_site { s_name : string; s_kind : site_kind; s_entries : list string }.

(* what a site does with the container that reaches it: Containers.v's two ingestion functions *)
Definition ingest (k : site_kind) (c : container) : list (option Q) :=
  match k with Positional => by_position c | Labelled => by_label c end.

Definition is_positional (k : site_kind) : bool :=
  match k with Positional => true | Labelled => false end.

Definition all_positional (t : list site) : bool := forallb (fun s => is_positional (s_kind s)) t.

(* the sites an entry point reaches *)
Definition sites_of (e : string) (t : list site) : list site :=
  filter (fun s => existsb (String.eqb e) (s_entries s)) t.

Definition every_entry_has_sites (es : list string) (t : list site) : bool :=
  forallb (fun e => negb (Nat.eqb (List.length (sites_of e t)) 0)) es.

(* site i ingests the i-th container (shortest length wins, as zip) *)
Fixpoint ingest_all (t : list site) (cs : list container) : list (list (option Q)) :=
  match t, cs with
  | s :: t', c :: cs' => ingest (s_kind s) c :: ingest_all t' cs'
  | _, _ => []
  end.

(* an entry point: its sites, then an arbitrary computation on what they ingested *)
Definition run_entry {R : Type} (t : list site) (body : list (list (option Q)) -> R) (cs : list container) : R :=
  body (ingest_all t cs).

(* the same data in other containers / under other index labels *)
Definition same_values (cs cs' : list container) : Prop :=
  Forall2 (fun c c' => values c = values c') cs cs'.

(* ---- the table this model expects (every site positional) ---- *)
Definition MF := ["MetricFrame"].
Definition DP := ["DemographicParity"].
Definition ERP := ["ErrorRateParity"].
Definition PAR := ["DemographicParity"; "TruePositiveRateParity"; "FalsePositiveRateParity"; "EqualizedOdds";
                   "ErrorRateParity"].
Definition ER := ["ErrorRate"].
Definition TOF := ["ThresholdOptimizer.fit"].
Definition ITP := ["InterpolatedThresholder._pmf_predict"].

Definition expected_entries : list string := MF ++ PAR ++ ER ++ TOF ++ ITP.

Definition expected_sites : list site :=
  [ (* MetricFrame: the frame of y_true / y_pred, the feature columns, the sample parameters *)
    mk_site "MetricFrame.__init__/1:wrap" Positional MF;
    mk_site "MetricFrame.__init__/2:strip+store" Positional MF;
    mk_site "MetricFrame.__init__/3:strip+store" Positional MF;
    mk_site "MetricFrame._construct_annotated_metric_function/1:strip+store" Positional MF;
    mk_site "MetricFrame._process_features/1:wrap" Positional MF;
    mk_site "MetricFrame._process_features/2:strip" Positional MF;
    mk_site "_convert_to_ndarray_and_squeeze/1:strip" Positional MF;
    (* _validate_and_reformat_input: np.asarray(y), check_array(X), DataFrame(result_X), check_array(sf),
       Series(sf.squeeze()), check_array(cf), Series(cf.squeeze()), Series(y) *)
    mk_site "_validate_and_reformat_input/1:strip" Positional (PAR ++ ER ++ TOF);
    mk_site "_validate_and_reformat_input/2:strip" Positional (PAR ++ ER ++ TOF ++ ITP);
    mk_site "_validate_and_reformat_input/3:wrap" Positional (PAR ++ ER ++ TOF ++ ITP);
    mk_site "_validate_and_reformat_input/4:strip" Positional (PAR ++ ER ++ TOF ++ ITP);
    mk_site "_validate_and_reformat_input/5:wrap" Positional (PAR ++ ER ++ TOF ++ ITP);
    mk_site "_validate_and_reformat_input/6:strip" Positional (PAR ++ ER);
    mk_site "_validate_and_reformat_input/7:wrap" Positional (PAR ++ ER);
    mk_site "_validate_and_reformat_input/8:wrap" Positional (PAR ++ ER ++ TOF ++ ITP);
    (* the moments: self.tags and its columns, the matrix U on tags.index *)
    mk_site "Moment.load_data/1:wrap" Positional (PAR ++ ER);
    mk_site "Moment.load_data/2:store" Positional (PAR ++ ER);
    mk_site "UtilityParity.load_data/1:store" Positional PAR;
    mk_site "UtilityParity.load_data/2:wrap" Positional PAR;
    mk_site "UtilityParity.load_data/3:store" Positional PAR;
    mk_site "UtilityParity.load_data/4:store" Positional PAR;
    mk_site "DemographicParity.load_data/1:wrap" Positional DP;
    mk_site "ErrorRateParity.load_data/1:strip" Positional ERP;
    mk_site "ErrorRateParity.load_data/2:wrap" Positional ERP;
    (* ThresholdOptimizer.fit: the grouped frame of sensitive feature / score / label *)
    mk_site "_reformat_and_group_data/1:wrap" Positional TOF;
    mk_site "_reformat_data_into_dict/1:store" Positional TOF;
    mk_site "_reformat_data_into_dict/2:strip+store" Positional TOF;
    mk_site "_reformat_data_into_dict/3:strip+store" Positional TOF;
    mk_site "_reformat_data_into_dict/4:store" Positional TOF;
    mk_site "_reformat_data_into_dict/5:store" Positional TOF;
    (* predict time *)
    mk_site "InterpolatedThresholder._pmf_predict/1:strip" Positional ITP;
    mk_site "InterpolatedThresholder._pmf_predict/2:store" Positional ITP;
    mk_site "InterpolatedThresholder._pmf_predict/3:strip" Positional ITP ].
