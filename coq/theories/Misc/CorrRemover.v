(* Model of fairlearn.preprocessing.CorrelationRemover (C15): _split_X, fit, transform.
   Matrices are lists of COLUMNS over Q.  Proof-free: lemmas are in CorrRemover_proofs.v. *)
From Coq Require Import QArith ZArith List Bool.
From FL Require Import Num.
Import ListNotations.
Open Scope Q_scope.

Definition vec := list Q.
Definition mat := list vec.          (* list of columns, every column has n entries *)

Fixpoint vmap2 (f : Q -> Q -> Q) (a b : vec) : vec :=
  match a, b with
  | x :: a', y :: b' => f x y :: vmap2 f a' b'
  | _, _ => []
  end.
Definition vadd : vec -> vec -> vec := vmap2 Qplus.
Definition vsub : vec -> vec -> vec := vmap2 Qminus.
Definition vscale (c : Q) (a : vec) : vec := map (Qmult c) a.
Definition vzero (a : vec) : vec := map (fun _ => 0) a.
Definition vshift (m : Q) (a : vec) : vec := map (fun x => x - m) a.     (* column - scalar *)
(* fractions are kept in lowest terms between the steps (Qred q == q): evaluation only *)
Definition vred (a : vec) : vec := map Qred a.

(* ---------- _create_lookup / _split_X ---------- *)
(* column names are Z codes (positions 0..m-1 for an ndarray, codes of the labels for a
   DataFrame; pandas/sklearn reject duplicate labels, so names are distinct);
   lookup_[id] = position of id among the names, a missing id is an error (None) *)
Fixpoint index_of (x : Z) (l : list Z) (i : nat) : option nat :=
  match l with
  | [] => None
  | y :: r => if (x =? y)%Z then Some i else index_of x r (S i)
  end.

Fixpoint sens_idx (names ids : list Z) : option (list nat) :=
  match ids with
  | [] => Some []
  | id :: r => match index_of id names 0, sens_idx names r with
               | Some i, Some l => Some (i :: l)
               | _, _ => None
               end
  end.

Definition nat_mem (i : nat) (l : list nat) : bool := existsb (Nat.eqb i) l.

(* non_sensitive = [i for i in range(X.shape[1]) if i not in sensitive] *)
Definition use_idx (m : nat) (sens : list nat) : list nat :=
  filter (fun i => negb (nat_mem i sens)) (seq 0 m).

Definition cols (X : mat) (idx : list nat) : mat := map (fun i => nth i X []) idx.

(* (X_use, X_sensitive): sensitive columns in the order of sensitive_feature_ids,
   the others in their original order *)
Definition split (names ids : list Z) (X : mat) : option (mat * mat) :=
  match sens_idx names ids with
  | None => None
  | Some s => Some (cols X (use_idx (length X) s), cols X s)
  end.

(* ---------- centring ---------- *)
Definition mean (v : vec) : Q := qsum v / inject_nat (length v).
Definition centre_col (v : vec) : vec := vshift (mean v) v.
Definition centre (S : mat) : mat := map centre_col S.            (* X_sensitive - X_sensitive.mean(axis=0) *)

(* the defect repaired by /repo commit e03cf38: ONE scalar mean over all sensitive entries *)
Definition mean_all (S : mat) : Q := qsum (concat S) / inject_nat (length (concat S)).
Definition centre_global (S : mat) : mat := map (vshift (mean_all S)) S.

(* ---------- least-squares projection on span(C) by Gram-Schmidt over Q ---------- *)
Definition coef (q v : vec) : Q := Qred (dot v q / dot q q).

(* B is a list of pairwise orthogonal non-zero vectors *)
Fixpoint proj_basis (B : list vec) (v : vec) : vec :=
  match B with
  | [] => vzero v
  | q :: B' => vadd (vscale (coef q v) q) (proj_basis B' v)
  end.

Definition resid (B : list vec) (v : vec) : vec := vred (vsub v (proj_basis B v)).

(* a column whose residual against the basis so far is zero (constant column after centring,
   or a column collinear with earlier ones) is skipped *)
Fixpoint gs (B : list vec) (C : list vec) : list vec :=
  match C with
  | [] => B
  | c :: C' => let r := resid B c in
               if Qeqb (dot r r) 0 then gs B C' else gs (r :: B) C'
  end.

Definition basis (C : mat) : list vec := gs [] C.

Definition project_on (C : mat) (X : mat) : mat := map (proj_basis (basis C)) X.
Definition project (S X : mat) : mat := project_on (centre S) X.

(* matrix-level operations (column by column) used to state the formulas of the docstring *)
Fixpoint mmap2 (f : vec -> vec -> vec) (A B : mat) : mat :=
  match A, B with
  | a :: A', b :: B' => f a b :: mmap2 f A' B'
  | _, _ => []
  end.
Definition msub : mat -> mat -> mat := mmap2 vsub.

(* alpha * filtered + (1 - alpha) * original, per column *)
Definition vblend (a : Q) (u v : vec) : vec := vadd (vscale a u) (vscale (1 - a) v).

(* output of fit(X).transform(X) given the centred sensitive block C *)
Definition filter_on (C : mat) (alpha : Q) (Xuse : mat) : mat :=
  map (fun x => vblend alpha (vsub x (proj_basis (basis C) x)) x) Xuse.

Definition fit_transform_split (alpha : Q) (Xuse Xs : mat) : mat := filter_on (centre Xs) alpha Xuse.

Definition fit_transform (names ids : list Z) (alpha : Q) (X : mat) : option mat :=
  match split names ids X with
  | None => None
  | Some (Xuse, Xs) => Some (fit_transform_split alpha Xuse Xs)
  end.

(* the same pipeline with the scalar centring of the defect *)
Definition fit_transform_global (names ids : list Z) (alpha : Q) (X : mat) : option mat :=
  match split names ids X with
  | None => None
  | Some (Xuse, Xs) => Some (filter_on (centre_global Xs) alpha Xuse)
  end.

(* ---------- sample covariance ---------- *)
Definition covsum (a b : vec) : Q := dot (centre_col a) (centre_col b).
Definition sample_cov (a b : vec) : Q := covsum a b / (inject_nat (length a) - 1).

(* ---------- coefficients beta_ (full column rank) by Gauss-Jordan on the normal equations ---------- *)
(* first row with a non-zero entry in column j, and the other rows in order *)
Fixpoint pick (j : nat) (rows : list vec) : option (vec * list vec) :=
  match rows with
  | [] => None
  | r :: rest =>
      if Qeqb (nth j r 0) 0
      then match pick j rest with
           | Some (p, others) => Some (p, r :: others)
           | None => None
           end
      else Some (r, rest)
  end.

Fixpoint gj (k j : nat) (done todo : list vec) : option (list vec) :=
  match k with
  | O => Some done
  | S k' =>
      match pick j todo with
      | None => None
      | Some (p, rest) =>
          let p' := vred (vscale (/ nth j p 0) p) in
          let elim := fun r => vred (vsub r (vscale (nth j r 0) p')) in
          gj k' (S j) (map elim done ++ [p']) (map elim rest)
      end
  end.

(* augmented system (C^T C | C^T X); result: beta as a list of ROWS (row i = sensitive column i),
   the layout of the attribute beta_ *)
Definition normal_rows (C X : mat) : list vec :=
  map (fun ci => map (dot ci) C ++ map (dot ci) X) C.

Definition solve_beta (C X : mat) : option (list vec) :=
  match gj (length C) 0 [] (normal_rows C X) with
  | None => None
  | Some d => Some (map (skipn (length C)) d)
  end.

Record fitted := { f_mean : list Q; f_beta : list vec }.

Definition fit_split (Xuse Xs : mat) : option fitted :=
  match solve_beta (centre Xs) Xuse with
  | None => None
  | Some b => Some {| f_mean := map mean Xs; f_beta := b |}
  end.

(* sum_i w_i * C_i ; z only gives the number of rows *)
Fixpoint lincomb (ws : list Q) (C : list vec) (z : vec) : vec :=
  match ws, C with
  | w :: ws', c :: C' => vadd (vscale w c) (lincomb ws' C' z)
  | _, _ => vzero z
  end.

Definition bcol (j : nat) (beta : list vec) : list Q := map (fun row => nth j row 0) beta.

Fixpoint shift_cols (means : list Q) (Xs : mat) : mat :=
  match means, Xs with
  | m :: ms, c :: cs => vshift m c :: shift_cols ms cs
  | _, _ => []
  end.

Fixpoint mapi_from {A B} (f : nat -> A -> B) (j : nat) (l : list A) : list B :=
  match l with [] => [] | x :: r => f j x :: mapi_from f (S j) r end.

(* transform: alpha * (X_use - (X_s - mean) . beta) + (1 - alpha) * X_use, on ANY data *)
Definition transform_split (f : fitted) (alpha : Q) (Xuse Xs : mat) : mat :=
  let C := shift_cols (f_mean f) Xs in
  mapi_from (fun j x => vblend alpha (vsub x (lincomb (bcol j (f_beta f)) C x)) x) 0 Xuse.

Definition fit (names ids : list Z) (X : mat) : option fitted :=
  match split names ids X with
  | None => None
  | Some (Xuse, Xs) => fit_split Xuse Xs
  end.

Definition transform (names ids : list Z) (f : fitted) (alpha : Q) (X : mat) : option mat :=
  match split names ids X with
  | None => None
  | Some (Xuse, Xs) => Some (transform_split f alpha Xuse Xs)
  end.

(* the normal equations C^T (C b_j) = C^T x_j for every non-sensitive column j, as a closed boolean *)
Definition normal_eqs_hold (C : mat) (beta : list vec) (Xuse : mat) : bool :=
  forallb (fun b => b)
    (mapi_from (fun j x => forallb (fun c => Qeqb (dot c (lincomb (bcol j beta) C x)) (dot c x)) C) 0 Xuse).

(* ---------- comparisons used by the correspondence run ---------- *)
Fixpoint vec_eqb (a b : vec) : bool :=
  match a, b with
  | [], [] => true
  | x :: a', y :: b' => Qeqb x y && vec_eqb a' b'
  | _, _ => false
  end.
Fixpoint mat_eqb (a b : mat) : bool :=
  match a, b with
  | [], [] => true
  | x :: a', y :: b' => vec_eqb x y && mat_eqb a' b'
  | _, _ => false
  end.

(* ---------- one correspondence case, flattened (Flat wire format) ---------- *)
From FL Require Import Flat.

Definition enc_mat (M : mat) : list Z := enc_list (enc_list enc_q) M.
Definition enc_fitted (f : fitted) : list Z := enc_list enc_q (f_mean f) ++ enc_mat (f_beta f).

Definition zero_cov_all (out Xs : mat) : bool :=
  forallb (fun r => forallb (fun s => Qeqb (covsum r s) 0) Xs) out.

Definition run_case (names ids : list Z) (alpha : Q) (X Xnew : mat) : list Z :=
  let ft := fit_transform names ids alpha X in
  let f := fit names ids X in
  enc_opt enc_mat ft
  ++ enc_opt enc_fitted f
  ++ enc_opt enc_mat (match f with Some f' => transform names ids f' alpha Xnew | None => None end)
  ++ enc_opt enc_bool (match f, ft with
                       | Some f', Some o => match transform names ids f' alpha X with
                                            | Some o' => Some (mat_eqb o o') | None => None end
                       | _, _ => None end)
  ++ enc_opt enc_bool (match ft, fit_transform_global names ids alpha X with
                       | Some o, Some g => Some (mat_eqb o g) | _, _ => None end)
  ++ enc_opt enc_bool (match split names ids X, fit_transform names ids 1 X with
                       | Some (_, Xs), Some o1 => Some (zero_cov_all o1 Xs) | _, _ => None end)
  ++ enc_opt enc_bool (match split names ids X, f with
                       | Some (Xuse, Xs), Some f' => Some (normal_eqs_hold (centre Xs) (f_beta f') Xuse)
                       | _, _ => None end).
