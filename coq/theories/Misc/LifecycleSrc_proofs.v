(* C19 -- the switch-parametrised machines of LifecycleSrc.v: they are the machines of Lifecycle.v at the
   switch values of model_src, and the property holds at exactly those values. *)
From Coq Require Import String ZArith List Bool Lia.
From FL Require Import Lifecycle Lifecycle_proofs LifecycleSrc.
Import ListNotations.
Open Scope Z_scope.

(* ---------------------------------------------------------------- run / trace / after only depend on the
   step function pointwise *)
Lemma run_ext {S D O} (f g : S -> op D -> S * O) :
  (forall s o, f s o = g s o) -> forall h s, run f s h = run g s h.
Proof.
  intros E h. induction h as [|o r IH]; intro s; cbn; [reflexivity|]. rewrite E. apply IH.
Qed.

Lemma trace_ext {S D O} (f g : S -> op D -> S * O) :
  (forall s o, f s o = g s o) -> forall h s, trace f s h = trace g s h.
Proof.
  intros E h. induction h as [|o r IH]; intro s; cbn; [reflexivity|]. rewrite E. f_equal. apply IH.
Qed.

Lemma after_ext {S D O} (f g : S -> op D -> S * O) :
  (forall s o, f s o = g s o) -> forall s h o, after f s h o = after g s h o.
Proof. intros E s h o. unfold after. rewrite (run_ext f g E), E. reflexivity. Qed.

(* ================================================================ ThresholdOptimizer / GridSearch *)
Section XP.
  Variables (P D M : Type).
  Variable train : P -> D -> M.
  Variable rebind : P -> D -> P.
  Variable carry : M -> M -> M.

  (* no rebinding, nothing carried over: the machine of Lifecycle.v with the same latch / returns_self *)
  Lemma x_step_is_g_step (latch rs : bool) (s : gst P M) (o : op D) :
    x_step train rebind carry (mk_sw latch rs false false) s o = g_step train latch rs s o.
  Proof. destruct o; cbn; try reflexivity. destruct (g_fit s); reflexivity. Qed.

  Lemma x_step_now (s : gst P M) (o : op D) :
    x_step train rebind carry sw_now s o = gs_step train s o.
  Proof. exact (x_step_is_g_step false true s o). Qed.

  (* ... and, the loaded flag being unobservable without the latch, the machine of ThresholdOptimizer *)
  Lemma x_trace_simple (h : list (op D)) : forall p f l,
    trace (x_step train rebind carry sw_now) (mkG p f l) h = trace (s_step train) (mkS p f) h.
  Proof.
    induction h as [|o r IH]; intros p f l; cbn [trace]; [reflexivity|].
    destruct o; cbn.
    - destruct f; cbn; f_equal; apply IH.
    - destruct f; cbn; f_equal; apply IH.
    - f_equal; apply IH.
    - f_equal; apply IH.
  Qed.

  Theorem x_now_history_independent (p : P) (h : list (op D)) (d : D) :
    after (x_step train rebind carry sw_now) (g_init p) h (Fit d) = mkObs true p (Some (train p d)) None.
  Proof.
    rewrite (after_ext _ (gs_step train) x_step_now). apply g_history_independent.
  Qed.
End XP.

(* the property holds for EXACTLY one setting of the four switches (free instance: rebinding adds 1 to the
   parameter code, carried-over state is prepended to the new model) *)
Theorem x_switches_characterised (w : switches) :
  (forall (h : list (op Z)) (d : Z),
      after (x_step sym_trainl sym_rebind sym_carry w) (g_init 0) h (Fit d)
        = mkObs true 0 (Some (sym_trainl 0 d)) None)
  <-> w = sw_now.
Proof.
  split.
  - intro H. destruct w as [[] [] [] []]; try reflexivity; exfalso;
      specialize (H [Fit 1] 2); vm_compute in H; discriminate H.
  - intros -> h d. apply x_now_history_independent.
Qed.

(* ================================================================ ExponentiatedGradient *)
Section EGGenP.
  Variables (P N D M : Type).
  Variable nu_of : P -> D -> N.
  Variable train : P -> N -> D -> M.

  Lemma e_step_gen_ifnone (latch : bool) (s : est P N M) (o : op D) :
    e_step_gen nu_of train latch WriteNuIfNone s o = e_step nu_of train latch s o.
  Proof. destruct o; cbn; try reflexivity; try (destruct (e_nu s); reflexivity). Qed.

  (* a fit that keeps its nu in a local (the repair of F7a): the FULL property *)
  Notation kstep := (e_step_gen nu_of train false KeepNu).

  Lemma ek_step_inv (s : est P N M) (o : op D) :
    e_par (fst (kstep s o)) = e_par s /\ e_nu (fst (kstep s o)) = e_nu s.
  Proof. destruct o; cbn; try (split; reflexivity). destruct (e_fit s); split; reflexivity. Qed.

  Lemma ek_run_inv (h : list (op D)) : forall s,
    e_par (run kstep s h) = e_par s /\ e_nu (run kstep s h) = e_nu s.
  Proof.
    induction h as [|o r IH]; intro s; cbn; [split; reflexivity|].
    destruct (IH (fst (kstep s o))) as [A B]. destruct (ek_step_inv s o) as [A' B'].
    rewrite A, B, A', B'. split; reflexivity.
  Qed.

  Theorem e_keepnu_history_independent (p : P) (nu : option N) (h : list (op D)) (d : D) :
    after kstep (e_init p nu) h (Fit d)
      = mkObs true (p, nu) (Some (train p (match nu with Some v => v | None => nu_of p d end) d)) None.
  Proof.
    unfold after. destruct (ek_run_inv h (e_init p nu)) as [A B]. cbn in A, B.
    cbn. unfold e_ok, e_params. cbn. rewrite A, B. destruct nu; reflexivity.
  Qed.
End EGGenP.

(* get_params and the fitted model after any history are the constructor's / the fresh ones for exactly
   one rule: nu is not written *)
Theorem e_nu_rule_characterised (rule : nu_rule) :
  (forall (nu : option (Z * Z)) (h : list (op Z)) (d : Z),
      after (e_step_gen sym_nu_of sym_train_eg false rule) (e_init 0 nu) h (Fit d)
        = mkObs true (0, nu)
                (Some (sym_train_eg 0 (match nu with Some v => v | None => sym_nu_of 0 d end) d)) None)
  <-> rule = KeepNu.
Proof.
  split.
  - intro H. destruct rule; try reflexivity; exfalso;
      specialize (H None [] 1); vm_compute in H; discriminate H.
  - intros -> nu h d. apply e_keepnu_history_independent.
Qed.

(* ================================================================ adversarial estimators *)
Section AdvGenP.
  Variables (P D M : Type).
  Variable ws : P -> bool.
  Variable user_net : P -> option M.
  Variable init_net : P -> D -> M.
  Variable train_from : P -> M -> D -> M.
  Variable perturb : M -> M.

  (* the current code: re-initialise unless (fitted and warm), user module used itself, eval before forward *)
  Lemma a_step_gen_now (s : ast P M) (o : op D) :
    a_step_gen ws init_net train_from perturb (fun f w => negb f || negb w) true true s o
      = adv_step ws init_net train_from s o.
  Proof. destruct o; cbn; try reflexivity; try (destruct (a_net s); reflexivity). Qed.

  (* the rule before e8b1939 *)
  Lemma a_step_gen_old (s : ast P M) (o : op D) :
    a_step_gen ws init_net train_from perturb (fun f w => negb f) true true s o
      = adv_step_old ws init_net train_from s o.
  Proof.
    destruct o; cbn; try reflexivity; try (destruct (a_net s); reflexivity).
    rewrite orb_false_r. reflexivity.
  Qed.

  Variable rule : bool -> bool -> bool.
  Variables (in_place eval_first : bool).
  Notation gstep := (a_step_gen ws init_net train_from perturb rule in_place eval_first).

  Definition ag_inv (p : P) (s : ast P M) : Prop :=
    a_par s = p /\ a_mod s = user_net p /\ (a_classes s = false -> a_net s = None).

  Lemma ag_step_inv (p : P) (s : ast P M) (o : op D) :
    user_net p = None \/ in_place = false -> ag_inv p s -> ag_inv p (fst (gstep s o)).
  Proof.
    intros Hu [Hp [Hm Hc]]. unfold ag_inv. destruct o; cbn.
    - split; [exact Hp|]. split; [|intro H; discriminate H].
      rewrite Hm. destruct (user_net p) as [m|] eqn:E; [|reflexivity].
      destruct Hu as [Hu|Hu]; [discriminate Hu | rewrite Hu; reflexivity].
    - assert (Hc' : forall m, a_net s = Some m -> a_classes s = false -> False).
      { intros m E H. rewrite (Hc H) in E. discriminate E. }
      destruct (a_net s) as [m|] eqn:E; [destruct eval_first|]; cbn; rewrite ?E;
        (split; [exact Hp | split; [exact Hm|]]); intro H; try reflexivity;
        exfalso; exact (Hc' m eq_refl H).
    - repeat split; assumption.
    - repeat split; try assumption.
  Qed.

  Lemma ag_run_inv (p : P) (h : list (op D)) : forall s,
    user_net p = None \/ in_place = false -> ag_inv p s -> ag_inv p (run gstep s h).
  Proof.
    induction h as [|o r IH]; intros s Hu Hs; cbn; [exact Hs|].
    apply IH; [exact Hu | apply ag_step_inv; assumption].
  Qed.

  (* warm_start = False; the rule re-initialises a fitted estimator; networks given as lists, or the user's
     module is copied and a never-fitted estimator starts from it too *)
  Theorem ag_history_independent (p : P) (h : list (op D)) (d : D) :
    ws p = false -> rule true false = true ->
    user_net p = None \/ (in_place = false /\ rule false false = true) ->
    after gstep (a_init user_net p) h (Fit d)
      = mkObs true (p, user_net p)
              (Some (train_from p (match user_net p with Some m => m | None => init_net p d end) d)) None.
  Proof.
    intros Hws Hr Hu. unfold after.
    assert (Hu' : user_net p = None \/ in_place = false) by (destruct Hu as [Hu|[Hu _]]; auto).
    assert (I0 : ag_inv p (a_init user_net p)) by (unfold ag_inv; cbn; auto).
    destruct (ag_run_inv p h (a_init user_net p) Hu' I0) as [Hp [Hm Hc]].
    set (s := run gstep (a_init user_net p) h) in *.
    cbn. unfold a_ok, a_params. cbn. rewrite Hp, Hm, Hws.
    assert (Hstart :
      (if rule (a_classes s) false
       then match user_net p with Some m => m | None => init_net p d end
       else match a_net s with Some m => m | None => init_net p d end)
      = match user_net p with Some m => m | None => init_net p d end).
    { destruct (a_classes s) eqn:Ec.
      - rewrite Hr. reflexivity.
      - rewrite (Hc eq_refl). destruct Hu as [Hu|[_ Hu]].
        + rewrite Hu. destruct (rule false false); reflexivity.
        + rewrite Hu. reflexivity. }
    rewrite Hstart.
    destruct (user_net p) as [m|] eqn:E; [|reflexivity].
    destruct Hu as [Hu|[Hu _]]; [discriminate Hu | rewrite Hu; reflexivity].
  Qed.

  (* predict: with .eval() first the state is untouched *)
  Theorem ag_predict_pure (s : ast P M) :
    eval_first = true -> fst (gstep s Predict) = s.
  Proof. intros ->. cbn. destruct (a_net s); reflexivity. Qed.
End AdvGenP.

(* the re-initialisation rule: on the free instance (networks given as lists, warm_start = False) a refit
   equals the fresh fit for every history iff the rule re-initialises a fitted estimator *)
Theorem a_rule_characterised (rule : bool -> bool -> bool) (in_place eval_first : bool) :
  (forall (h : list (op Z)) (d : Z),
      after (a_step_gen sym_ws sym_init_net sym_train_from sym_perturb rule in_place eval_first)
            (a_init sym_user_net (0, (false, false))) h (Fit d)
        = mkObs true ((0, (false, false)), None) (Some (d, [d])) None)
  <-> rule true false = true.
Proof.
  split.
  - intro H. specialize (H [Fit 1] 2). unfold after in H. cbn in H.
    destruct (rule false false); cbn in H; destruct (rule true false) eqn:E; try reflexivity;
      cbn in H; exfalso; vm_compute in H; discriminate H.
  - intros Hr h d.
    exact (ag_history_independent (Z * (bool * bool)) Z (Z * list Z) sym_ws sym_user_net sym_init_net
             sym_train_from sym_perturb rule in_place eval_first (0, (false, false)) h d
             eq_refl Hr (or_introl eq_refl)).
Qed.

(* a user module: history independent iff it is copied rather than trained in place (current rule) *)
Theorem a_in_place_characterised (in_place eval_first : bool) :
  (forall (h : list (op Z)) (d : Z),
      after (a_step_gen sym_ws sym_init_net sym_train_from sym_perturb (fun f w => negb f || negb w)
                        in_place eval_first)
            (a_init sym_user_net (0, (false, true))) h (Fit d)
        = mkObs true ((0, (false, true)), Some (0, [])) (Some (0, [d])) None)
  <-> in_place = false.
Proof.
  split.
  - intro H. destruct in_place; [|reflexivity]. exfalso.
    specialize (H [Fit 1] 2). vm_compute in H. discriminate H.
  - intros -> h d.
    exact (ag_history_independent (Z * (bool * bool)) Z (Z * list Z) sym_ws sym_user_net sym_init_net
             sym_train_from sym_perturb (fun f w => negb f || negb w) false eval_first (0, (false, true)) h d
             eq_refl eq_refl (or_intror (conj eq_refl eq_refl))).
Qed.

(* predict leaves a fitted estimator alone iff the network is put into evaluation mode first *)
Theorem a_eval_characterised (rule : bool -> bool -> bool) (in_place eval_first : bool) :
  (forall s : ast (Z * (bool * bool)) (Z * list Z),
      fst (a_step_gen sym_ws sym_init_net sym_train_from sym_perturb rule in_place eval_first s Predict) = s)
  <-> eval_first = true.
Proof.
  split.
  - intro H. destruct eval_first; [reflexivity|]. exfalso.
    specialize (H (mkA (0, (false, false)) (Some (1, [1])) true None)). vm_compute in H. discriminate H.
  - intros E s. apply ag_predict_pure. exact E.
Qed.

(* ================================================================ the description of the current code *)
Lemma src_switches :
  sw_to model_src = sw_now /\ sw_gs model_src = sw_now /\ sw_latch model_src = false /\
  sw_nu model_src = Some WriteNuIfNone /\
  (forall f w, sw_reinit model_src f w = negb f || negb w) /\
  sw_in_place model_src = true /\ sw_eval_first model_src = true /\
  fs_returns_self (ls_to model_src) = true /\ fs_returns_self (ls_eg model_src) = true /\
  fs_returns_self (ls_gs model_src) = true /\ fs_returns_self (ls_cr model_src) = true /\
  fs_returns_self (ls_adv model_src) = true.
Proof. repeat split; try reflexivity. intros [] []; reflexivity. Qed.

Lemma src_step_to (P D M : Type) (train : P -> D -> M) (rebind : P -> D -> P) (carry : M -> M -> M)
      (p : P) (h : list (op D)) :
  trace (x_step train rebind carry (sw_to model_src)) (g_init p) h = trace (s_step train) (s_init p) h.
Proof. exact (x_trace_simple P D M train rebind carry h p None false). Qed.

Lemma src_step_gs (P D M : Type) (train : P -> D -> M) (rebind : P -> D -> P) (carry : M -> M -> M)
      (s : gst P M) (o : op D) :
  x_step train rebind carry (sw_gs model_src) s o = gs_step train s o.
Proof. exact (x_step_now P D M train rebind carry s o). Qed.

Lemma src_step_eg (P N D M : Type) (nu_of : P -> D -> N) (train : P -> N -> D -> M) (rule : nu_rule)
      (s : est P N M) (o : op D) :
  sw_nu model_src = Some rule ->
  e_step_gen nu_of train (sw_latch model_src) rule s o = eg_step nu_of train s o.
Proof. intro H. injection H as <-. exact (e_step_gen_ifnone P N D M nu_of train false s o). Qed.

Lemma src_step_adv (P D M : Type) (ws : P -> bool) (init_net : P -> D -> M) (train_from : P -> M -> D -> M)
      (perturb : M -> M) (s : ast P M) (o : op D) :
  a_step_gen ws init_net train_from perturb (sw_reinit model_src) (sw_in_place model_src)
             (sw_eval_first model_src) s o
    = adv_step ws init_net train_from s o.
Proof.
  rewrite <- (a_step_gen_now P D M ws init_net train_from perturb s o).
  destruct o; cbn; try reflexivity.
  destruct (a_classes s), (ws (a_par s)); reflexivity.
Qed.

(* the property, stated on the machines determined by the description *)
Lemma src_history_independent (P D M : Type) (train : P -> D -> M) (rebind : P -> D -> P) (carry : M -> M -> M)
      (p : P) (h : list (op D)) (d : D) :
  after (x_step train rebind carry (sw_to model_src)) (g_init p) h (Fit d) = mkObs true p (Some (train p d)) None /\
  after (x_step train rebind carry (sw_gs model_src)) (g_init p) h (Fit d) = mkObs true p (Some (train p d)) None.
Proof. split; apply x_now_history_independent. Qed.

Lemma src_history_independent_adv (P D M : Type) (ws : P -> bool) (user_net : P -> option M)
      (init_net : P -> D -> M) (train_from : P -> M -> D -> M) (perturb : M -> M)
      (p : P) (h : list (op D)) (d : D) :
  ws p = false -> user_net p = None ->
  after (a_step_gen ws init_net train_from perturb (sw_reinit model_src) (sw_in_place model_src)
                    (sw_eval_first model_src)) (a_init user_net p) h (Fit d)
    = mkObs true (p, None) (Some (train_from p (init_net p d) d)) None.
Proof.
  intros Hws Hun.
  rewrite (ag_history_independent P D M ws user_net init_net train_from perturb (sw_reinit model_src)
             (sw_in_place model_src) (sw_eval_first model_src) p h d Hws eq_refl (or_introl Hun)).
  rewrite Hun. reflexivity.
Qed.
