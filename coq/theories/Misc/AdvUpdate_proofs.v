(* Lemmas and theorems about AdvUpdate.v (C16).  Everything is a polynomial / field identity over Q
   lifted entry-wise to tensors of ANY shape (any number of rows and columns). *)
From Coq Require Import QArith List Bool Lia Setoid Morphisms.
From FL Require Import Num AdvUpdate.
Import ListNotations.
Open Scope Q_scope.

(* ---------- Forall2 over an equivalence ---------- *)

Lemma Forall2_refl_gen {A} (R : A -> A -> Prop) (HR : forall x, R x x) (l : list A) : Forall2 R l l.
Proof. induction l as [|x l IH]; constructor; auto. Qed.

Lemma Forall2_sym_gen {A} (R : A -> A -> Prop) (HR : forall x y, R x y -> R y x) (l l' : list A) :
  Forall2 R l l' -> Forall2 R l' l.
Proof. induction 1; constructor; auto. Qed.

Lemma Forall2_trans_gen {A} (R : A -> A -> Prop) (HR : forall x y z, R x y -> R y z -> R x z)
      (l1 l2 l3 : list A) : Forall2 R l1 l2 -> Forall2 R l2 l3 -> Forall2 R l1 l3.
Proof.
  intro H. revert l3. induction H as [|x y l l' Hxy Hl IH]; intros l3 H3; inversion H3; subst; constructor.
  - eapply HR; eauto.
  - apply IH; assumption.
Qed.

Lemma veq_refl (a : vec) : veq a a.
Proof. apply Forall2_refl_gen. intro x. reflexivity. Qed.
Lemma veq_sym (a b : vec) : veq a b -> veq b a.
Proof. apply Forall2_sym_gen. intros x y H. symmetry. exact H. Qed.
Lemma veq_trans (a b c : vec) : veq a b -> veq b c -> veq a c.
Proof. apply Forall2_trans_gen. intros x y z H1 H2. rewrite H1. exact H2. Qed.

Lemma meq_refl (A : mat) : meq A A.
Proof. apply Forall2_refl_gen. exact veq_refl. Qed.
Lemma meq_sym (A B : mat) : meq A B -> meq B A.
Proof. apply Forall2_sym_gen. exact veq_sym. Qed.
Lemma meq_trans (A B C : mat) : meq A B -> meq B C -> meq A C.
Proof. apply Forall2_trans_gen. exact veq_trans. Qed.

(* ---------- the reducing sums are the plain sums ---------- *)

Lemma rsum_qsum (l : list Q) : rsum l == qsum l.
Proof. induction l as [|x l IH]; cbn [rsum qsum]; [reflexivity|]. rewrite Qred_correct, IH. reflexivity. Qed.

Lemma rdot_dot (a b : vec) : rdot a b == dot a b.
Proof.
  revert b. induction a as [|x a IH]; intros [|y b]; cbn [rdot dot]; try reflexivity.
  rewrite Qred_correct, IH. reflexivity.
Qed.

Lemma frob_cons (a b : vec) (A B : mat) : frob (a :: A) (b :: B) == dot a b + frob A B.
Proof. cbn [frob]. rewrite Qred_correct, rdot_dot. reflexivity. Qed.

Lemma msum_cons (a : vec) (A : mat) : msum (a :: A) == qsum a + msum A.
Proof. unfold msum. cbn [map rsum]. rewrite Qred_correct, rsum_qsum. reflexivity. Qed.

(* ---------- rows ---------- *)

Lemma dot_nil_r (a : vec) : dot a [] = 0.
Proof. destruct a; reflexivity. Qed.

Lemma dot_comm (a b : vec) : dot a b == dot b a.
Proof.
  revert b. induction a as [|x a IH]; intros [|y b]; cbn [dot]; try reflexivity.
  rewrite IH. ring.
Qed.

Lemma dot_veq (a a' b b' : vec) : veq a a' -> veq b b' -> dot a b == dot a' b'.
Proof.
  intro Ha. revert b b'. induction Ha as [|x x' a a' Hx Ha IH]; intros b b' Hb.
  - reflexivity.
  - inversion Hb as [|y y' r r' Hy Hr]; subst; cbn [dot]; [reflexivity|].
    rewrite Hx, Hy, (IH _ _ Hr). reflexivity.
Qed.

Lemma dot_map_div (a b : vec) (c : Q) : dot (map (fun x => x / c) a) b == dot a b / c.
Proof.
  revert b. induction a as [|x a IH]; intros [|y b]; cbn [dot map]; try (unfold Qdiv; ring).
  rewrite IH. unfold Qdiv. ring.
Qed.

Lemma qsum_vmul (a b : vec) : qsum (vmap2 Qmult a b) == dot a b.
Proof.
  revert b. induction a as [|x a IH]; intros [|y b]; cbn [vmap2 qsum dot]; try reflexivity.
  rewrite IH. reflexivity.
Qed.

Lemma vmap2_veq (f : Q -> Q -> Q)
      (Hf : forall x x' y y', x == x' -> y == y' -> f x y == f x' y') (a a' b b' : vec) :
  veq a a' -> veq b b' -> veq (vmap2 f a b) (vmap2 f a' b').
Proof.
  intro Ha. revert b b'. induction Ha as [|x x' a a' Hx Ha IH]; intros b b' Hb.
  - constructor.
  - inversion Hb as [|y y' r r' Hy Hr]; subst; cbn [vmap2]; constructor; auto.
    apply IH. exact Hr.
Qed.

Lemma map_veq (f g : Q -> Q) (Hfg : forall x, f x == g x) (a : vec) : veq (map f a) (map g a).
Proof. induction a as [|x a IH]; cbn [map]; constructor; auto. Qed.

(* one row of: ((p - c*a) - al*a) + al*a, multiplied into a *)
Lemma dot_update_row (c al : Q) (p a : vec) : length p = length a ->
  dot (vmap2 Qplus (vmap2 Qminus (vmap2 Qminus p (map (fun x => c * x) a)) (map (fun x => al * x) a))
                   (map (fun x => al * x) a)) a
  == dot p a - c * dot a a.
Proof.
  revert a. induction p as [|x p IH]; intros [|y a] Hl; cbn in Hl; try discriminate.
  - cbn. ring.
  - cbn [map vmap2 dot]. rewrite IH by (injection Hl; auto). ring.
Qed.

Lemma vzero_update_row (c al : Q) (p a : vec) : length p = length a -> Forall (fun x => x == 0) a ->
  veq (vmap2 Qminus (vmap2 Qminus p (map (fun x => c * x) a)) (map (fun x => al * x) a)) p.
Proof.
  revert a. induction p as [|x p IH]; intros [|y a] Hl Hz; cbn in Hl; try discriminate.
  - constructor.
  - inversion Hz as [|y0 a0 Hy Ha]; subst. cbn [map vmap2]. constructor.
    + rewrite Hy. ring.
    + apply IH; [injection Hl; auto | exact Ha].
Qed.

(* ---------- tensors ---------- *)

Lemma frob_comm (A B : mat) : frob A B == frob B A.
Proof.
  revert B. induction A as [|a A IH]; intros [|b B]; try reflexivity.
  rewrite !frob_cons, IH, dot_comm. reflexivity.
Qed.

Lemma frob_meq (A A' B B' : mat) : meq A A' -> meq B B' -> frob A B == frob A' B'.
Proof.
  intro Ha. revert B B'. induction Ha as [|a a' A A' Hx Ha IH]; intros B B' Hb.
  - reflexivity.
  - inversion Hb as [|b b' r r' Hy Hr]; subst; [reflexivity|].
    rewrite !frob_cons, (dot_veq _ _ _ _ Hx Hy), (IH _ _ Hr). reflexivity.
Qed.

Lemma frob_mdiv (A B : mat) (c : Q) : frob (mdiv A c) B == frob A B / c.
Proof.
  unfold mdiv, mmap. revert B. induction A as [|a A IH]; intros [|b B]; cbn [map];
    try (cbn [frob]; unfold Qdiv; ring).
  rewrite !frob_cons, IH, dot_map_div. unfold Qdiv. ring.
Qed.

Lemma msum_mmul (A B : mat) : msum (mmul A B) == frob A B.
Proof.
  unfold mmul. revert B. induction A as [|a A IH]; intros [|b B]; cbn [mmap2]; try reflexivity.
  rewrite msum_cons, frob_cons, IH, qsum_vmul. reflexivity.
Qed.

Lemma mmap2_meq (f : Q -> Q -> Q)
      (Hf : forall x x' y y', x == x' -> y == y' -> f x y == f x' y') (A A' B B' : mat) :
  meq A A' -> meq B B' -> meq (mmap2 f A B) (mmap2 f A' B').
Proof.
  intro Ha. revert B B'. induction Ha as [|a a' A A' Hx Ha IH]; intros B B' Hb.
  - constructor.
  - inversion Hb as [|b b' r r' Hy Hr]; subst; cbn [mmap2]; constructor.
    + apply vmap2_veq; assumption.
    + apply IH. exact Hr.
Qed.

Lemma msub_meq (A A' B B' : mat) : meq A A' -> meq B B' -> meq (msub A B) (msub A' B').
Proof. apply mmap2_meq. intros x x' y y' Hx Hy. rewrite Hx, Hy. reflexivity. Qed.

Lemma madd_meq (A A' B B' : mat) : meq A A' -> meq B B' -> meq (madd A B) (madd A' B').
Proof. apply mmap2_meq. intros x x' y y' Hx Hy. rewrite Hx, Hy. reflexivity. Qed.

Lemma mmap_ext_meq (f g : Q -> Q) (Hfg : forall x, f x == g x) (A : mat) : meq (mmap f A) (mmap g A).
Proof. unfold mmap. induction A as [|a A IH]; cbn [map]; constructor; auto. apply map_veq. exact Hfg. Qed.

Lemma mmap_mmap (f g : Q -> Q) (A : mat) : mmap f (mmap g A) = mmap (fun x => f (g x)) A.
Proof.
  unfold mmap. rewrite map_map. apply map_ext. intro a. apply map_map.
Qed.

Lemma mscale_mdiv (p n : Q) (A : mat) : meq (mscale p (mdiv A n)) (mscale (p / n) A).
Proof.
  unfold mscale, mdiv. rewrite mmap_mmap. apply mmap_ext_meq. intro x. unfold Qdiv. ring.
Qed.

Lemma mscale_eq (c c' : Q) (A : mat) : c == c' -> meq (mscale c A) (mscale c' A).
Proof. intro H. unfold mscale. apply mmap_ext_meq. intro x. rewrite H. reflexivity. Qed.

Lemma combine_n2_eq (gP gA : mat) (alpha n2 n2' : Q) : n2 == n2' ->
  meq (combine_n2 gP gA alpha n2) (combine_n2 gP gA alpha n2').
Proof.
  intro H. unfold combine_n2. apply msub_meq; [|apply meq_refl].
  apply msub_meq; [apply meq_refl|]. apply mscale_eq. rewrite H. reflexivity.
Qed.

Lemma sgd_entrywise (W g : mat) (lr : Q) : sgd W g lr = mmap2 (fun w x => w - lr * x) W g.
Proof.
  unfold sgd, msub, mscale, mmap. revert g. induction W as [|w W IH]; intros [|r g]; cbn [mmap2 map];
    try reflexivity.
  rewrite IH. f_equal. clear. revert r. induction w as [|x w IHw]; intros [|y r]; cbn [vmap2 map];
    try reflexivity.
  rewrite IHw. reflexivity.
Qed.

(* ---------- the residual <g + alpha*gA, gA> of the documented update, for every shape ---------- *)

Lemma orth_residual_n2 (gP gA : mat) (alpha n2 : Q) : same_shape gP gA ->
  orth_residual (combine_n2 gP gA alpha n2) gA alpha == frob gP gA - frob gA gP / n2 * frob gA gA.
Proof.
  unfold orth_residual, combine_n2, madd, msub, mscale, mmap. generalize (frob gA gP / n2) as c. intro c.
  induction 1 as [|p a P A Hl Hs IH].
  - cbn. ring.
  - cbn [map mmap2]. rewrite !frob_cons, IH, dot_update_row by exact Hl. ring.
Qed.

Theorem update_orthogonal (gP gA : mat) (alpha : Q) :
  same_shape gP gA -> ~ frob gA gA == 0 ->
  orth_residual (combine gP gA alpha) gA alpha == 0.
Proof.
  intros Hs Hn. unfold combine. rewrite orth_residual_n2 by exact Hs.
  rewrite (frob_comm gA gP). field. exact Hn.
Qed.

Lemma orth_residual_meq (M M' gA : mat) (alpha : Q) :
  meq M M' -> orth_residual M gA alpha == orth_residual M' gA alpha.
Proof.
  intro H. unfold orth_residual. apply frob_meq; [|apply meq_refl].
  apply madd_meq; [exact H | apply meq_refl].
Qed.

Lemma combine_zero (gP gA : mat) (alpha n2 : Q) :
  same_shape gP gA -> mzero gA -> meq (combine_n2 gP gA alpha n2) gP.
Proof.
  unfold combine_n2, msub, mscale, mmap. generalize (frob gA gP / n2) as c. intros c Hs.
  induction Hs as [|p a P A Hl Hs IH]; intro Hz.
  - constructor.
  - inversion Hz as [|a0 A0 Ha HA]; subst. cbn [map mmap2]. constructor.
    + apply vzero_update_row; assumption.
    + apply IH. exact HA.
Qed.

(* ---------- value of the engine terms ---------- *)

Section Terms.
  Variables (s tiny alpha : Q) (gP gA : mat).
  Notation ev := (eval s tiny alpha gP gA).

  (* the number the engine divides by *)
  Definition denom (wide : bool) : Q := s + (if wide then 0 else tiny).

  (* unfolding equations of eval (by conversion) *)
  Lemma eval_Sub (a b : tx) :
    ev (Sub a b) = match ev a, ev b with Some x, Some y => Some (msub x y) | _, _ => None end.
  Proof. reflexivity. Qed.
  Lemma eval_Scale (c : sx) (a : tx) :
    ev (Scale c a) = match eval_s s tiny alpha gP gA c, ev a with
                     | Some k, Some x => Some (mscale k x) | _, _ => None end.
  Proof. reflexivity. Qed.
  Lemma eval_Div (a : tx) (c : sx) :
    ev (Div a c) = match ev a, eval_s s tiny alpha gP gA c with
                   | Some x, Some k => if Qeqb k 0 then None else Some (mdiv x k)
                   | _, _ => None end.
  Proof. reflexivity. Qed.
  Lemma eval_Mul (a b : tx) :
    ev (Mul a b) = match ev a, ev b with Some x, Some y => Some (mmul x y) | _, _ => None end.
  Proof. reflexivity. Qed.
  Lemma eval_SSum (t : tx) :
    eval_s s tiny alpha gP gA (SSum t) = match ev t with Some x => Some (msum x) | None => None end.
  Proof. reflexivity. Qed.
  Lemma eval_denom (wide : bool) :
    eval_s s tiny alpha gP gA (SAdd (SNorm (Var GA)) (STiny wide)) = Some (denom wide).
  Proof. reflexivity. Qed.
  Lemma eval_alpha_gA : ev (Scale SAlpha (Var GA)) = Some (mscale alpha gA).
  Proof. reflexivity. Qed.
  Lemma eval_GP : ev (Var GP) = Some gP.
  Proof. reflexivity. Qed.
  Lemma eval_GA : ev (Var GA) = Some gA.
  Proof. reflexivity. Qed.

  Lemma eval_unit (wide : bool) : ~ denom wide == 0 ->
    ev (unit_term wide) = Some (mdiv gA (denom wide)).
  Proof.
    intro Hn. unfold unit_term. rewrite eval_Div, eval_GA, eval_denom.
    destruct (Qeqb (denom wide) 0) eqn:E; [|reflexivity].
    apply Qeq_bool_iff in E. contradiction.
  Qed.

  Lemma eval_unit_zero (wide : bool) : denom wide == 0 -> ev (unit_term wide) = None.
  Proof.
    intro Hn. unfold unit_term. rewrite eval_Div, eval_GA, eval_denom.
    destruct (Qeqb (denom wide) 0) eqn:E; [reflexivity|].
    apply Qeq_bool_iff in Hn. unfold Qeqb in E. congruence.
  Qed.

  Lemma proj_coeff (n : Q) : ~ n == 0 -> frob (mdiv gA n) gP / n == frob gA gP / (n * n).
  Proof. intro Hn. rewrite frob_mdiv. field. exact Hn. Qed.

  Lemma finish (n p : Q) : ~ n == 0 -> p == frob (mdiv gA n) gP ->
    meq (msub (msub gP (mscale p (mdiv gA n))) (mscale alpha gA)) (combine_n2 gP gA alpha (n * n)).
  Proof.
    intros Hn Hp. unfold combine_n2. apply msub_meq; [|apply meq_refl].
    apply msub_meq; [apply meq_refl|].
    eapply meq_trans; [apply mscale_mdiv|]. apply mscale_eq.
    rewrite Hp. apply proj_coeff. exact Hn.
  Qed.

  (* no assumption on s at all: the engines compute the documented form with n2 = (s + tiny)^2 *)
  Theorem eval_general_torch (wide : bool) : ~ denom wide == 0 ->
    exists M, ev (std_torch_term wide) = Some M /\
              meq M (combine_n2 gP gA alpha (denom wide * denom wide)).
  Proof.
    intro Hn. unfold std_torch_term.
    rewrite !eval_Sub, eval_alpha_gA, !eval_Scale, eval_SSum, eval_Mul, !(eval_unit wide Hn), eval_GP.
    eexists. split; [reflexivity|]. apply finish; [exact Hn|]. apply msum_mmul.
  Qed.

  Theorem eval_general_tf (wide : bool) : ~ denom wide == 0 ->
    exists M, ev (std_tf_term wide) = Some M /\
              meq M (combine_n2 gP gA alpha (denom wide * denom wide)).
  Proof.
    intro Hn. unfold std_tf_term.
    rewrite !eval_Sub, eval_alpha_gA, !eval_Scale, eval_SSum, eval_Mul, !(eval_unit wide Hn), eval_GP.
    eexists. split; [reflexivity|]. apply finish; [exact Hn|].
    rewrite msum_mmul. apply frob_comm.
  Qed.

  (* a tiny that vanishes next to the norm + an all-zero adversary gradient: 0/0, no value (NaN) *)
  Theorem eval_zero_norm_none (wide : bool) : denom wide == 0 ->
    ev (std_torch_term wide) = None /\ ev (std_tf_term wide) = None.
  Proof.
    intro Hn. unfold std_torch_term, std_tf_term.
    rewrite !eval_Sub, !eval_Scale, !eval_SSum, !eval_Mul, !(eval_unit_zero wide Hn), eval_GP.
    split; reflexivity.
  Qed.

  Theorem adversary_plain_eval : ev std_adv_term = Some gA.
  Proof. reflexivity. Qed.
End Terms.

(* with the exact norm (tiny = 0): the engine term IS the closed form *)
Theorem eval_is_combine_torch (wide : bool) (s alpha : Q) (gP gA : mat) :
  s * s == frob gA gA -> ~ s == 0 ->
  exists M, eval s 0 alpha gP gA (std_torch_term wide) = Some M /\ meq M (combine gP gA alpha).
Proof.
  intros Hs Hn.
  assert (Hd : denom s 0 wide == s) by (unfold denom; destruct wide; ring).
  destruct (eval_general_torch s 0 alpha gP gA wide) as [M [HM Hq]]; [rewrite Hd; exact Hn|].
  exists M. split; [exact HM|]. eapply meq_trans; [exact Hq|]. apply combine_n2_eq.
  rewrite Hd. exact Hs.
Qed.

Theorem eval_is_combine_tf (wide : bool) (s alpha : Q) (gP gA : mat) :
  s * s == frob gA gA -> ~ s == 0 ->
  exists M, eval s 0 alpha gP gA (std_tf_term wide) = Some M /\ meq M (combine gP gA alpha).
Proof.
  intros Hs Hn.
  assert (Hd : denom s 0 wide == s) by (unfold denom; destruct wide; ring).
  destruct (eval_general_tf s 0 alpha gP gA wide) as [M [HM Hq]]; [rewrite Hd; exact Hn|].
  exists M. split; [exact HM|]. eapply meq_trans; [exact Hq|]. apply combine_n2_eq.
  rewrite Hd. exact Hs.
Qed.

(* ... hence what the engine writes into p.grad, plus alpha*dLA/dW, is orthogonal to dLA/dW *)
Theorem engine_update_orthogonal_torch (wide : bool) (s alpha : Q) (gP gA : mat) :
  same_shape gP gA -> s * s == frob gA gA -> ~ s == 0 ->
  exists M, eval s 0 alpha gP gA (std_torch_term wide) = Some M /\ orth_residual M gA alpha == 0.
Proof.
  intros Hsh Hs Hn. destruct (eval_is_combine_torch wide s alpha gP gA Hs Hn) as [M [HM Hq]].
  exists M. split; [exact HM|]. rewrite (orth_residual_meq _ _ _ _ Hq).
  apply update_orthogonal; [exact Hsh|]. rewrite <- Hs. intro H. apply Hn.
  destruct (Qmult_integral _ _ H); assumption.
Qed.

Theorem engine_update_orthogonal_tf (wide : bool) (s alpha : Q) (gP gA : mat) :
  same_shape gP gA -> s * s == frob gA gA -> ~ s == 0 ->
  exists M, eval s 0 alpha gP gA (std_tf_term wide) = Some M /\ orth_residual M gA alpha == 0.
Proof.
  intros Hsh Hs Hn. destruct (eval_is_combine_tf wide s alpha gP gA Hs Hn) as [M [HM Hq]].
  exists M. split; [exact HM|]. rewrite (orth_residual_meq _ _ _ _ Hq).
  apply update_orthogonal; [exact Hsh|]. rewrite <- Hs. intro H. apply Hn.
  destruct (Qmult_integral _ _ H); assumption.
Qed.

(* all-zero adversary gradient (norm 0) and a tiny of the tensor's own dtype: the direction is dLP/dW *)
Theorem zero_adversary_gradient_torch (tiny alpha : Q) (gP gA : mat) :
  ~ tiny == 0 -> same_shape gP gA -> mzero gA ->
  exists M, eval 0 tiny alpha gP gA (std_torch_term false) = Some M /\ meq M gP.
Proof.
  intros Ht Hsh Hz.
  assert (Hd : ~ denom 0 tiny false == 0) by (unfold denom; intro H; apply Ht; rewrite <- H; ring).
  destruct (eval_general_torch 0 tiny alpha gP gA false Hd) as [M [HM Hq]].
  exists M. split; [exact HM|]. eapply meq_trans; [exact Hq|]. apply combine_zero; assumption.
Qed.

Theorem zero_adversary_gradient_tf (tiny alpha : Q) (gP gA : mat) :
  ~ tiny == 0 -> same_shape gP gA -> mzero gA ->
  exists M, eval 0 tiny alpha gP gA (std_tf_term false) = Some M /\ meq M gP.
Proof.
  intros Ht Hsh Hz.
  assert (Hd : ~ denom 0 tiny false == 0) by (unfold denom; intro H; apply Ht; rewrite <- H; ring).
  destruct (eval_general_tf 0 tiny alpha gP gA false Hd) as [M [HM Hq]].
  exists M. split; [exact HM|]. eapply meq_trans; [exact Hq|]. apply combine_zero; assumption.
Qed.

(* the adversary: its tensors keep dLA/dU and plain SGD moves them entry-wise by -lr * dLA/dU *)
Theorem adversary_plain (s tiny alpha lr : Q) (gP gU U : mat) :
  eval s tiny alpha gP gU std_adv_term = Some gU /\
  sgd U gU lr = mmap2 (fun u g => u - lr * g) U gU.
Proof. split; [reflexivity | apply sgd_entrywise]. Qed.

(* ---------- the two repaired defects are visible to these statements ---------- *)

(* 2x2 tensor: the all-pairs inner sum is not the Frobenius product, and the term of the torch
   engine before commit b4dd69e leaves a residual of -1 *)
Example allpairs_differs :
  let gP := [[1; 0]; [0; 0]] in let gA := [[1; 1]; [1; 1]] in
  2 * 2 == frob gA gA /\ same_shape gP gA /\
  ~ allpairs gA gP == frob gA gP /\
  exists M, eval 2 0 1 gP gA (old_torch_term false) = Some M /\ ~ orth_residual M gA 1 == 0.
Proof.
  cbv zeta. split; [vm_compute; reflexivity|]. split; [repeat constructor|].
  split; [intro H; vm_compute in H; discriminate|].
  eexists. split; [vm_compute; reflexivity|]. intro H. vm_compute in H. discriminate.
Qed.

(* tiny of a wider dtype (torch.finfo(float).tiny next to float32 tensors, before commit ed4d625):
   zero adversary gradient has no value *)
Example wide_tiny_nan :
  let gP := [[1; 2]; [3; 4]] in let gA := [[0; 0]; [0; 0]] in
  eval 0 (1 # 1024) 1 gP gA (std_torch_term true) = None /\
  exists M, eval 0 (1 # 1024) 1 gP gA (std_torch_term false) = Some M /\ meq M gP.
Proof.
  cbv zeta. split; [vm_compute; reflexivity|]. eexists. split; [vm_compute; reflexivity|].
  repeat constructor; vm_compute; reflexivity.
Qed.
