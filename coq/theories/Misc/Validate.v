(* C20 -- model of the input validation of fairlearn's entry points.
   Inputs are abstracted to what validation can depend on: lengths of the arguments, the label
   list, the group column, presence of sensitive / control features, feature names and their
   kinds, the constraint / objective / bound / cost / weight configuration, fitted or not.
   Each decision function follows the ORDER of the checks in the source and returns
   Accept | Reject kind.  Proof-free: lemmas are in Validate_proofs.v. *)
From Coq Require Import ZArith QArith List Bool.
From FL Require Import Num.
Import ListNotations.
Open Scope Z_scope.

Definition str := list Z.                       (* strings as code points *)

Inductive kind :=
| KMissingY | KEmptyY | KNonBinary | KEmptyX | KLenXY | KLenXSf | KLenXCf | KMissingSf | KUnexpectedKw
| KBothBounds | KRatioRange | KBadCosts
| KNotMoment | KSelectionRule | KConstraintWeight | KBadObjective
| KNoEstimator | KConstraint | KObjective | KControl | KDegenerate
| KLenTruePred | KLenSampleParam | KLenFeature | KNonStringName | KDuplicateName | KListNonScalar
| KEmptyList | KNoFeatures
| KMissingColumn
| KNotFitted.

Inductive verdict := Accept | Reject (k : kind).

Definition is_accept (v : verdict) : bool := match v with Accept => true | Reject _ => false end.

(* sequencing of checks: the first rejection wins *)
Definition andthen (v : verdict) (rest : verdict) : verdict :=
  match v with Accept => rest | Reject k => Reject k end.

Definition check (ok : bool) (k : kind) : verdict := if ok then Accept else Reject k.

(* ------------------------------------------------------------------ *)
(* fairlearn.utils._input_validation._validate_and_reformat_input      *)
(* ------------------------------------------------------------------ *)

(* X is always given (number of rows); None = the argument is None *)
Record data := mkData {
  d_x : nat;
  d_y : option (list Z);          (* label values; codes 0 / 1 are the binary labels *)
  d_sf : option (list Z);         (* sensitive feature column (group codes) *)
  d_cf : option (list Z) }.       (* control feature column *)

Definition binary (v : Z) : bool := (v =? 0) || (v =? 1).

Definition check_len (col : option (list Z)) (n : nat) (k : kind) : verdict :=
  match col with
  | None => Accept
  | Some c => check (Nat.eqb (length c) n) k
  end.

Definition validate_input (expect_sf enforce_binary : bool) (d : data) : verdict :=
  match d_y d with
  | None => Reject KMissingY                                   (* y is None *)
  | Some ys =>
      andthen (check (negb (Nat.eqb (length ys) 0)) KEmptyY)    (* y.size == 0 *)
     (andthen (check (negb enforce_binary || forallb binary ys) KNonBinary)
                                                               (* set(unique(y)) <= {0,1} *)
     (andthen (check (negb (Nat.eqb (d_x d) 0)) KEmptyX)        (* check_array(X) *)
     (andthen (check (Nat.eqb (length ys) (d_x d)) KLenXY)      (* y.shape[0] != X.shape[0] *)
     (andthen (match d_sf d with
               | Some s => check (Nat.eqb (length s) (d_x d)) KLenXSf
               | None => check (negb expect_sf) KMissingSf
               end)
              (check_len (d_cf d) (d_x d) KLenXCf)))))
  end.

(* ------------------------------------------------------------------ *)
(* moments: constructors and load_data                                 *)
(* ------------------------------------------------------------------ *)

Inductive moment :=
| DemographicParity | TruePositiveRateParity | FalsePositiveRateParity | EqualizedOdds
| ErrorRateParity | ErrorRate | BoundedGroupLoss | MeanLoss.

Definition is_classification (m : moment) : bool :=
  match m with BoundedGroupLoss | MeanLoss => false | _ => true end.

(* the loss moments' load_data has no control_features keyword *)
Definition takes_control (m : moment) : bool := is_classification m.

Definition default_objective (m : moment) : moment :=
  if is_classification m then ErrorRate else MeanLoss.

Definition validate_load (m : moment) (d : data) : verdict :=
  match d_cf d with
  | Some _ => if takes_control m then validate_input true (is_classification m) d
              else Reject KUnexpectedKw
  | None => validate_input true (is_classification m) d
  end.

(* UtilityParity.__init__ (shared by the five parity moments) *)
Record bounds := mkBounds { difference_bound : option ext; ratio_bound : option ext }.

Definition ratio_in_range (r : ext) : bool := ext_ltb (Fin 0) r && ext_leb r (Fin 1).

Definition validate_bounds (b : bounds) : verdict :=
  match difference_bound b, ratio_bound b with
  | None, None => Accept
  | Some _, None => Accept
  | None, Some r => check (ratio_in_range r) KRatioRange
  | Some _, Some _ => Reject KBothBounds
  end.

(* ErrorRate.__init__: costs None | not a dict | a dict given as (key, value) items with
   pairwise distinct keys; key codes: fp = 0, fn = 1, anything else >= 2 *)
Inductive costs := CostsNone | CostsNotDict | CostsDict (items : list (Z * ext)).

Definition key_fp : Z := 0.
Definition key_fn : Z := 1.

Fixpoint lookup (k : Z) (items : list (Z * ext)) : option ext :=
  match items with
  | [] => None
  | (k', v) :: r => if k =? k' then Some v else lookup k r
  end.

(* costs.keys() == {"fp", "fn"} for a dict (distinct keys): exactly two items, both keys present *)
Definition keys_ok (items : list (Z * ext)) : bool :=
  Nat.eqb (length items) 2 &&
  match lookup key_fp items, lookup key_fn items with Some _, Some _ => true | _, _ => false end.

Definition costs_ok (items : list (Z * ext)) : bool :=
  keys_ok items &&
  match lookup key_fp items, lookup key_fn items with
  | Some fp, Some fn => ext_leb (Fin 0) fp && ext_leb (Fin 0) fn && ext_ltb (Fin 0) (ext_add fp fn)
  | _, _ => false
  end.

Definition validate_costs (c : costs) : verdict :=
  match c with
  | CostsNone => Accept
  | CostsNotDict => Reject KBadCosts
  | CostsDict items => check (costs_ok items) KBadCosts
  end.

(* ------------------------------------------------------------------ *)
(* reductions: GridSearch constructor, GridSearch.fit, ExponentiatedGradient.fit *)
(* ------------------------------------------------------------------ *)

Inductive reduction := ExpGrad | GridSearch.

Record red_in := mkRed {
  r_est : reduction;
  r_constraints : option moment;     (* None = the constraints argument is not a Moment *)
  r_rule_ok : bool;                  (* selection_rule == "tradeoff_optimization" *)
  r_cw : ext;                        (* constraint_weight *)
  r_objective : option moment;       (* ExponentiatedGradient(objective=...); None = default *)
  r_data : data }.

Definition weight_in_range (w : ext) : bool := ext_leb (Fin 0) w && ext_leb w (Fin 1).

Definition validate_gs_ctor (r : red_in) : verdict :=
  match r_constraints r with
  | None => Reject KNotMoment
  | Some _ => if r_rule_ok r then check (weight_in_range (r_cw r)) KConstraintWeight
              else Reject KSelectionRule
  end.

Definition validate_reduction_fit (r : red_in) : verdict :=
  match r_constraints r with
  | None => Reject KNotMoment
  | Some m =>
      andthen (validate_load m (r_data r))
      (match r_est r with
       | GridSearch => validate_load (default_objective m) (r_data r)
       | ExpGrad =>
           match r_objective r with
           | None => validate_load (default_objective m) (r_data r)
           | Some o => andthen (check (Bool.eqb (is_classification o) (is_classification m)) KBadObjective)
                               (validate_load o (r_data r))
           end
       end)
  end.

Definition validate_reduction (r : red_in) : verdict :=
  andthen (match r_est r with GridSearch => validate_gs_ctor r | ExpGrad => Accept end)
          (validate_reduction_fit r).

(* ------------------------------------------------------------------ *)
(* ThresholdOptimizer.fit                                              *)
(* ------------------------------------------------------------------ *)

Record tables := mkTables {
  t_simple : list str;          (* keys of SIMPLE_CONSTRAINTS *)
  t_obj_simple : list str;      (* OBJECTIVES_FOR_SIMPLE_CONSTRAINTS *)
  t_eo : str;                   (* the string compared in the elif branch *)
  t_obj_eo : list str }.        (* OBJECTIVES_FOR_EQUALIZED_ODDS *)

Fixpoint str_eqb (a b : str) : bool :=
  match a, b with
  | [], [] => true
  | x :: a', y :: b' => (x =? y) && str_eqb a' b'
  | _, _ => false
  end.

(* None = the Python value None (or any non-string): member of no table *)
Definition smem (s : option str) (l : list str) : bool :=
  match s with None => false | Some x => existsb (str_eqb x) l end.

Definition seq_opt (s : option str) (t : str) : bool :=
  match s with None => false | Some x => str_eqb x t end.

Definition check_combo (T : tables) (c o : option str) : verdict :=
  if smem c (t_simple T) then check (smem o (t_obj_simple T)) KObjective
  else if seq_opt c (t_eo T) then check (smem o (t_obj_eo T)) KObjective
  else Reject KConstraint.

Record to_in := mkTO {
  to_estimator : bool;              (* estimator is not None *)
  to_constraints : option str;
  to_objective : option str;
  to_data : data }.                 (* d_cf = the control_features keyword *)

(* per group label classes (after the binary check): pandas group-by on the sensitive column *)
Fixpoint zinsert' (x : Z) (l : list Z) : list Z :=
  match l with
  | [] => [x]
  | y :: r => if x <? y then x :: l else if x =? y then l else y :: zinsert' x r
  end.
Definition groups (s : list Z) : list Z := fold_right zinsert' [] s.

Definition group_has (s ys : list Z) (g l : Z) : bool :=
  existsb (fun p => (fst p =? g) && (snd p =? l)) (combine s ys).

Definition group_ok (s ys : list Z) (g : Z) : bool := group_has s ys g 0 && group_has s ys g 1.

Definition groups_ok (d : data) : bool :=
  match d_sf d, d_y d with
  | Some s, Some ys => forallb (group_ok s ys) (groups s)
  | _, _ => true
  end.

Definition validate_threshold_optimizer (T : tables) (i : to_in) : verdict :=
  andthen (check (to_estimator i) KNoEstimator)
 (andthen (check_combo T (to_constraints i) (to_objective i))
 (andthen (match d_cf (to_data i) with Some _ => Reject KControl | None => Accept end)
 (andthen (validate_input true true (to_data i))
          (check (groups_ok (to_data i)) KDegenerate)))).

(* the tables the property specifies (what the source is expected to contain) *)
Definition s_selection_rate_parity : str :=
  [115;101;108;101;99;116;105;111;110;95;114;97;116;101;95;112;97;114;105;116;121].
Definition s_demographic_parity : str :=
  [100;101;109;111;103;114;97;112;104;105;99;95;112;97;114;105;116;121].
Definition s_false_positive_rate_parity : str :=
  [102;97;108;115;101;95;112;111;115;105;116;105;118;101;95;114;97;116;101;95;112;97;114;105;116;121].
Definition s_false_negative_rate_parity : str :=
  [102;97;108;115;101;95;110;101;103;97;116;105;118;101;95;114;97;116;101;95;112;97;114;105;116;121].
Definition s_true_positive_rate_parity : str :=
  [116;114;117;101;95;112;111;115;105;116;105;118;101;95;114;97;116;101;95;112;97;114;105;116;121].
Definition s_true_negative_rate_parity : str :=
  [116;114;117;101;95;110;101;103;97;116;105;118;101;95;114;97;116;101;95;112;97;114;105;116;121].
Definition s_equalized_odds : str := [101;113;117;97;108;105;122;101;100;95;111;100;100;115].
Definition s_selection_rate : str := [115;101;108;101;99;116;105;111;110;95;114;97;116;101].
Definition s_true_positive_rate : str :=
  [116;114;117;101;95;112;111;115;105;116;105;118;101;95;114;97;116;101].
Definition s_true_negative_rate : str :=
  [116;114;117;101;95;110;101;103;97;116;105;118;101;95;114;97;116;101].
Definition s_accuracy_score : str := [97;99;99;117;114;97;99;121;95;115;99;111;114;101].
Definition s_balanced_accuracy_score : str :=
  [98;97;108;97;110;99;101;100;95;97;99;99;117;114;97;99;121;95;115;99;111;114;101].

(* members in lexicographic order, as the translator emits them *)
Definition std_tables : tables := mkTables
  [s_demographic_parity; s_false_negative_rate_parity; s_false_positive_rate_parity;
   s_selection_rate_parity; s_true_negative_rate_parity; s_true_positive_rate_parity]
  [s_accuracy_score; s_balanced_accuracy_score; s_selection_rate; s_true_negative_rate;
   s_true_positive_rate]
  s_equalized_odds
  [s_accuracy_score; s_balanced_accuracy_score].

(* ------------------------------------------------------------------ *)
(* MetricFrame.__init__                                                *)
(* ------------------------------------------------------------------ *)

Inductive fname := NStr (c : Z) | NNonStr (c : Z).

Definition fname_eqb (a b : fname) : bool :=
  match a, b with
  | NStr x, NStr y => x =? y
  | NNonStr x, NNonStr y => x =? y
  | _, _ => false
  end.

Definition is_string (n : fname) : bool := match n with NStr _ => true | NNonStr _ => false end.

Inductive fkind :=
| FList                          (* list of scalars: one auto-named column *)
| FListNonScalar                 (* list whose first element is not a scalar *)
| FArray (ncols : nat)           (* ndarray (squeezed): 1-D = 1 column; auto-named columns *)
| FSeries (name : option fname)  (* Series; name None -> auto name *)
| FFrame (names : list fname).   (* DataFrame / dict: column names *)

Record feats := mkFeats { f_kind : fkind; f_len : nat }.

(* generated names "<base><i>": base 0 = sensitive_feature_, 1 = control_feature_.
   Codes of generated names are negative; the harness gives a user-supplied string that equals a
   generated name the same code. *)
Definition auto_name (base : Z) (i : nat) : fname := NStr (- (1 + base + 2 * Z.of_nat i)).

Definition seq0 (n : nat) : list nat := seq 0 n.

(* names the feature columns get (independent of the lengths) *)
Definition declared_names (base : Z) (f : feats) : list fname :=
  match f_kind f with
  | FList => [auto_name base 0]
  | FListNonScalar => []
  | FArray k => map (auto_name base) (seq0 k)
  | FSeries None => [auto_name base 0]
  | FSeries (Some n) => [n]
  | FFrame names => names
  end.

(* _process_features: Inl names | Inr rejection *)
Fixpoint frame_cols (names : list fname) (len n : nat) : verdict :=
  match names with
  | [] => Accept
  | nm :: r =>
      andthen (check (is_string nm) KNonStringName)         (* column name must be a str *)
     (andthen (check (Nat.eqb len n) KLenFeature)           (* check_consistent_length(column, y) *)
              (frame_cols r len n))
  end.

Definition process_features (f : feats) (n : nat) : verdict :=
  match f_kind f with
  | FList => andthen (check (negb (Nat.eqb (f_len f) 0)) KEmptyList)   (* features[0] *)
                     (check (Nat.eqb (f_len f) n) KLenFeature)
  | FListNonScalar => Reject KListNonScalar
  | FArray k => match k with
                | O => Accept
                | _ => check (Nat.eqb (f_len f) n) KLenFeature
                end
  | FSeries nm => andthen (check (Nat.eqb (f_len f) n) KLenFeature)
                          (match nm with
                           | Some x => check (is_string x) KNonStringName
                           | None => Accept
                           end)
  | FFrame names => frame_cols names (f_len f) n
  end.

Fixpoint has_dup (seen : list fname) (l : list fname) : bool :=
  match l with
  | [] => false
  | x :: r => if existsb (fname_eqb x) seen then true else has_dup (x :: seen) r
  end.

Record mf_in := mkMF {
  m_ytrue : nat;
  m_ypred : nat;
  m_params : list nat;            (* lengths of the sample parameters, in evaluation order *)
  m_sf : feats;
  m_cf : option feats }.

Definition cf_names (i : mf_in) : list fname :=
  match m_cf i with Some c => declared_names 1 c | None => [] end.

Definition validate_metric_frame (i : mf_in) : verdict :=
  andthen (check (Nat.eqb (m_ytrue i) (m_ypred i)) KLenTruePred)
 (andthen (check (forallb (fun k => Nat.eqb k (m_ytrue i)) (m_params i)) KLenSampleParam)
 (andthen (process_features (m_sf i) (m_ytrue i))
 (andthen (match m_cf i with Some c => process_features c (m_ytrue i) | None => Accept end)
 (andthen (check (negb (has_dup [] (declared_names 0 (m_sf i) ++ cf_names i))) KDuplicateName)
          (check (negb (Nat.eqb (length (declared_names 0 (m_sf i))) 0)) KNoFeatures))))).

(* ------------------------------------------------------------------ *)
(* CorrelationRemover.fit: every sensitive_feature_id must be a column of X *)
(* ------------------------------------------------------------------ *)

Record cr_in := mkCR {
  c_rows : nat;
  c_columns : list Z;            (* DataFrame: codes of the column labels; ndarray: 0 .. ncols-1 *)
  c_ids : list Z }.              (* sensitive_feature_ids (code of a label X cannot have: fresh) *)

Fixpoint zmem' (x : Z) (l : list Z) : bool :=
  match l with [] => false | y :: r => (x =? y) || zmem' x r end.

Definition validate_correlation_remover (i : cr_in) : verdict :=
  andthen (check (forallb (fun c => zmem' c (c_columns i)) (c_ids i)) KMissingColumn)
          (check (negb (Nat.eqb (c_rows i) 0)) KEmptyX).

(* ------------------------------------------------------------------ *)
(* predict / transform: check_is_fitted comes first                    *)
(* ------------------------------------------------------------------ *)

Inductive estimator :=
| EExpGrad | EGridSearch | EThresholdOptimizer | EInterpolatedThresholder | ECorrelationRemover
| EAdversarialClassifier | EAdversarialRegressor.

Definition validate_predict (e : estimator) (fitted : bool) : verdict :=
  check fitted KNotFitted.

(* ------------------------------------------------------------------ *)
(* wire format                                                         *)
(* ------------------------------------------------------------------ *)

Definition kind_code (k : kind) : Z :=
  match k with
  | KMissingY => 1 | KEmptyY => 2 | KNonBinary => 3 | KEmptyX => 4 | KLenXY => 5 | KLenXSf => 6
  | KLenXCf => 7 | KMissingSf => 8 | KUnexpectedKw => 9
  | KBothBounds => 10 | KRatioRange => 11 | KBadCosts => 12
  | KNotMoment => 13 | KSelectionRule => 14 | KConstraintWeight => 15 | KBadObjective => 16
  | KNoEstimator => 17 | KConstraint => 18 | KObjective => 19 | KControl => 20 | KDegenerate => 21
  | KLenTruePred => 22 | KLenSampleParam => 23 | KLenFeature => 24 | KNonStringName => 25
  | KDuplicateName => 26 | KListNonScalar => 27 | KEmptyList => 28 | KNoFeatures => 29
  | KMissingColumn => 30 | KNotFitted => 31
  end.

Definition enc_verdict (v : verdict) : list Z :=
  match v with Accept => [0] | Reject k => [kind_code k] end.
