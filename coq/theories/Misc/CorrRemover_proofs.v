From Coq Require Import QArith ZArith List Bool Lia Lra.
From FL Require Import Num CorrRemover.
Import ListNotations.
Open Scope Q_scope.
