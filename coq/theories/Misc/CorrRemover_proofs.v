(* Proofs about the CorrelationRemover model (C15). *)
From Coq Require Import QArith ZArith List Bool Lia Lra Psatz Sorted.
From FL Require Import Num CorrRemover.
Import ListNotations.
Open Scope Q_scope.

(* ------------------------------------------------------------------ lengths *)
Definition wf (n : nat) (L : list vec) : Prop := Forall (fun v => length v = n) L.

Lemma vmap2_length f a b : length a = length b -> length (vmap2 f a b) = length a.
Proof.
  revert b. induction a as [|x a IH]; intros [|y b] H; cbn in *; try reflexivity; try discriminate.
  f_equal. apply IH. lia.
Qed.
Lemma vadd_length a b : length a = length b -> length (vadd a b) = length a.
Proof. apply vmap2_length. Qed.
Lemma vsub_length a b : length a = length b -> length (vsub a b) = length a.
Proof. apply vmap2_length. Qed.
Lemma vscale_length k a : length (vscale k a) = length a.
Proof. apply map_length. Qed.
Lemma vzero_length a : length (vzero a) = length a.
Proof. apply map_length. Qed.
Lemma vred_length a : length (vred a) = length a.
Proof. apply map_length. Qed.
Lemma vshift_length m a : length (vshift m a) = length a.
Proof. apply map_length. Qed.
Lemma centre_col_length a : length (centre_col a) = length a.
Proof. apply map_length. Qed.
Lemma vblend_length k a b : length a = length b -> length (vblend k a b) = length a.
Proof. intro H. unfold vblend. rewrite vadd_length; rewrite !vscale_length; auto. Qed.

Lemma wf_centre n S : wf n S -> wf n (centre S).
Proof.
  unfold wf, centre. intro H. apply Forall_forall. intros c Hc. apply in_map_iff in Hc.
  destruct Hc as [s [<- Hs]]. rewrite centre_col_length. exact (proj1 (Forall_forall _ _) H s Hs).
Qed.

(* ------------------------------------------------------------------ dot algebra *)
Lemma dot_nil_r a : dot a [] = 0.
Proof. destruct a; reflexivity. Qed.

Lemma dot_comm a b : dot a b == dot b a.
Proof.
  revert b. induction a as [|x a IH]; intros [|y b]; cbn [dot]; try reflexivity.
  rewrite IH. ring.
Qed.

Lemma dot_vadd_l a b c : length a = length b -> dot (vadd a b) c == dot a c + dot b c.
Proof.
  revert b c. induction a as [|x a IH]; intros [|y b] c H; cbn in H; try discriminate.
  - cbn. ring.
  - destruct c as [|z c]; cbn [vadd vmap2 dot].
    + ring.
    + fold (vadd a b). rewrite IH by lia. ring.
Qed.

Lemma dot_vsub_l a b c : length a = length b -> dot (vsub a b) c == dot a c - dot b c.
Proof.
  revert b c. induction a as [|x a IH]; intros [|y b] c H; cbn in H; try discriminate.
  - cbn. ring.
  - destruct c as [|z c]; cbn [vsub vmap2 dot].
    + ring.
    + fold (vsub a b). rewrite IH by lia. ring.
Qed.

Lemma dot_vscale_l k a c : dot (vscale k a) c == k * dot a c.
Proof.
  revert c. induction a as [|x a IH]; intros [|z c]; cbn [vscale map dot]; try ring.
  fold (vscale k a). rewrite IH. ring.
Qed.

Lemma dot_vzero_l a c : dot (vzero a) c == 0.
Proof.
  revert c. induction a as [|x a IH]; intros [|z c]; cbn [vzero map dot]; try ring.
  fold (vzero a). rewrite IH. ring.
Qed.

Lemma dot_vred_l a c : dot (vred a) c == dot a c.
Proof.
  revert c. induction a as [|x a IH]; intros [|z c]; cbn [vred map dot]; try ring.
  fold (vred a). rewrite IH, Qred_correct. ring.
Qed.

Lemma dot_vadd_r a b c : length a = length b -> dot c (vadd a b) == dot c a + dot c b.
Proof. intro H. rewrite dot_comm, dot_vadd_l by exact H. rewrite (dot_comm a c), (dot_comm b c). ring. Qed.
Lemma dot_vsub_r a b c : length a = length b -> dot c (vsub a b) == dot c a - dot c b.
Proof. intro H. rewrite dot_comm, dot_vsub_l by exact H. rewrite (dot_comm a c), (dot_comm b c). ring. Qed.
Lemma dot_vscale_r k a c : dot c (vscale k a) == k * dot c a.
Proof. rewrite dot_comm, dot_vscale_l, (dot_comm a c). ring. Qed.
Lemma dot_vred_r a c : dot c (vred a) == dot c a.
Proof. rewrite dot_comm, dot_vred_l, (dot_comm a c). ring. Qed.

Lemma dot_vblend_l k u x c : length u = length x ->
  dot (vblend k u x) c == k * dot u c + (1 - k) * dot x c.
Proof.
  intro H. unfold vblend. rewrite dot_vadd_l by (rewrite !vscale_length; exact H).
  rewrite !dot_vscale_l. ring.
Qed.

Lemma dot_self_nonneg r : 0 <= dot r r.
Proof. induction r as [|x r IH]; cbn [dot]; [lra | nra]. Qed.

(* a vector of zero norm is orthogonal to everything *)
Lemma dot_self_zero r : dot r r == 0 -> forall w, dot w r == 0.
Proof.
  induction r as [|x r IH]; intros H w.
  - rewrite dot_nil_r. reflexivity.
  - cbn [dot] in H. pose proof (dot_self_nonneg r) as Hr.
    assert (Hx : x == 0) by nra.
    assert (Hr0 : dot r r == 0) by nra.
    destruct w as [|y w]; cbn [dot]; [reflexivity|].
    rewrite (IH Hr0 w), Hx. ring.
Qed.

Lemma dot_self_zero_all r : dot r r == 0 -> Forall (fun x => x == 0) r.
Proof.
  induction r as [|x r IH]; intro H; constructor.
  - cbn [dot] in H. pose proof (dot_self_nonneg r). nra.
  - apply IH. cbn [dot] in H. pose proof (dot_self_nonneg r). nra.
Qed.

(* ------------------------------------------------------------------ projection on an orthogonal basis *)
Fixpoint ortho (B : list vec) : Prop :=
  match B with
  | [] => True
  | q :: B' => (forall p, In p B' -> dot q p == 0) /\ ~ dot q q == 0 /\ ortho B'
  end.

Lemma proj_basis_length n B v : wf n B -> length v = n -> length (proj_basis B v) = n.
Proof.
  intros HB Hv. induction HB as [|q B Hq HB IH]; cbn [proj_basis].
  - rewrite vzero_length. exact Hv.
  - rewrite vadd_length; rewrite vscale_length; congruence.
Qed.

Lemma resid_length n B v : wf n B -> length v = n -> length (resid B v) = n.
Proof.
  intros HB Hv. unfold resid. rewrite vred_length, vsub_length; [exact Hv|].
  rewrite (proj_basis_length n); auto.
Qed.

(* the projection is a combination of basis vectors: orthogonal to whatever the basis is orthogonal to *)
Lemma dot_proj_basis_orth n B v w : wf n B -> length v = n ->
  (forall q, In q B -> dot q w == 0) -> dot (proj_basis B v) w == 0.
Proof.
  intros HB Hv. induction HB as [|q B Hq HB IH]; intro Hw; cbn [proj_basis].
  - apply dot_vzero_l.
  - rewrite dot_vadd_l by (rewrite vscale_length, (proj_basis_length n); auto).
    rewrite dot_vscale_l, (Hw q (or_introl eq_refl)), IH by (intros p Hp; apply Hw; right; exact Hp).
    ring.
Qed.

Lemma dot_proj_basis_basis n B v q : wf n B -> ortho B -> length v = n -> In q B ->
  dot (proj_basis B v) q == dot v q.
Proof.
  intros HB. revert q. induction HB as [|q0 B Hq0 HB IH]; intros q HO Hv Hin; [destruct Hin|].
  destruct HO as [Hperp [Hnz HO]]. cbn [proj_basis].
  rewrite dot_vadd_l by (rewrite vscale_length, (proj_basis_length n); auto).
  rewrite dot_vscale_l. destruct Hin as [<- | Hin].
  - rewrite (dot_proj_basis_orth n) by (auto; intros p Hp; rewrite dot_comm; apply Hperp; exact Hp).
    unfold coef. rewrite Qred_correct. field. exact Hnz.
  - rewrite (Hperp q Hin), IH by auto. ring.
Qed.

Lemma resid_orth n B v q : wf n B -> ortho B -> length v = n -> In q B -> dot (resid B v) q == 0.
Proof.
  intros HB HO Hv Hin. unfold resid. rewrite dot_vred_l.
  rewrite dot_vsub_l by (rewrite (proj_basis_length n); auto).
  rewrite (dot_proj_basis_basis n) by auto. ring.
Qed.

(* s is "covered" by B: whatever is orthogonal to B is orthogonal to s (s lies in span B) *)
Definition covered (n : nat) (B : list vec) (s : vec) : Prop :=
  forall w, length w = n -> (forall q, In q B -> dot w q == 0) -> dot w s == 0.

Lemma covered_step n B c w : wf n B -> length c = n -> length w = n ->
  (forall q, In q B -> dot w q == 0) -> dot w (resid B c) == 0 -> dot w c == 0.
Proof.
  intros HB Hc Hw Hperp Hr. unfold resid in Hr. rewrite dot_vred_r in Hr.
  rewrite dot_vsub_r in Hr by (rewrite (proj_basis_length n); auto).
  assert (Hp : dot w (proj_basis B c) == 0).
  { rewrite dot_comm. apply (dot_proj_basis_orth n); auto.
    intros q Hq. rewrite dot_comm. apply Hperp. exact Hq. }
  rewrite Hp in Hr. lra.
Qed.

Lemma gs_inv n : forall C B, wf n C -> wf n B -> ortho B ->
  wf n (gs B C) /\ ortho (gs B C) /\ (forall q, In q B -> In q (gs B C)) /\
  (forall c, In c C -> covered n (gs B C) c).
Proof.
  induction C as [|c C IH]; intros B HC HB HO.
  - cbn [gs]. repeat split; auto. intros c [].
  - pose proof (Forall_inv HC) as Hc. pose proof (Forall_inv_tail HC) as HC'. cbn beta in Hc. cbn [gs].
    set (r := resid B c).
    assert (Hr : length r = n) by (apply resid_length; auto).
    destruct (Qeqb (dot r r) 0) eqn:E.
    + destruct (IH B HC' HB HO) as [H1 [H2 [H3 H4]]].
      repeat split; auto.
      intros c' [<- | Hin]; [|apply H4; exact Hin].
      intros w Hw Hperp. apply (covered_step n B c w); auto.
      apply dot_self_zero. apply Qeq_bool_eq. exact E.
    + assert (HB1 : wf n (r :: B)) by (constructor; auto).
      assert (HO1 : ortho (r :: B)).
      { cbn [ortho]. split; [|split; [|exact HO]].
        - intros p Hp. apply (resid_orth n); auto.
        - intro H0. apply Qeq_eq_bool in H0. unfold Qeqb in E. congruence. }
      destruct (IH (r :: B) HC' HB1 HO1) as [H1 [H2 [H3 H4]]].
      repeat split; auto.
      * intros q Hq. apply H3. right. exact Hq.
      * intros c' [<- | Hin]; [|apply H4; exact Hin].
        intros w Hw Hperp. apply (covered_step n B c w); auto.
        -- intros q Hq. apply Hperp, H3. right. exact Hq.
        -- apply Hperp, H3. left. reflexivity.
Qed.

(* ★ the residual of the Gram-Schmidt projection is orthogonal to every column it projects on *)
Theorem gs_orthogonal_on n C x c : wf n C -> length x = n -> In c C ->
  dot (vsub x (proj_basis (basis C) x)) c == 0.
Proof.
  intros HC Hx Hc.
  destruct (gs_inv n C [] HC (Forall_nil _) I) as [H1 [H2 [_ H4]]]. fold (basis C) in *.
  apply (H4 c Hc).
  - rewrite vsub_length; [exact Hx|]. rewrite (proj_basis_length n); auto.
  - intros q Hq. rewrite <- dot_vred_l. apply (resid_orth n); auto.
Qed.

Lemma mmap2_map_r (f : vec -> vec -> vec) (g : vec -> vec) X :
  mmap2 f X (map g X) = map (fun x => f x (g x)) X.
Proof. induction X as [|x X IH]; cbn [mmap2 map]; [reflexivity | rewrite IH; reflexivity]. Qed.

Lemma mmap2_map_l (f : vec -> vec -> vec) (g : vec -> vec) X :
  mmap2 f (map g X) X = map (fun x => f (g x) x) X.
Proof. induction X as [|x X IH]; cbn [mmap2 map]; [reflexivity | rewrite IH; reflexivity]. Qed.

(* every column of X - project S X is orthogonal to every column of centre S *)
Theorem gs_orthogonal n S X : (1 <= n)%nat -> wf n S -> wf n X ->
  forall r c, In r (msub X (project S X)) -> In c (centre S) -> dot r c == 0.
Proof.
  intros _ HS HX r c Hr Hc. unfold msub, project, project_on in Hr. rewrite mmap2_map_r in Hr.
  apply in_map_iff in Hr. destruct Hr as [x [<- Hx]].
  apply (gs_orthogonal_on n); auto.
  - apply wf_centre. exact HS.
  - exact (proj1 (Forall_forall _ _) HX x Hx).
Qed.

(* ------------------------------------------------------------------ centring and covariance *)
Lemma inject_nat_S k : inject_nat (S k) == inject_nat k + 1.
Proof. unfold inject_nat. rewrite Nat2Z.inj_succ. unfold Z.succ. rewrite inject_Z_plus. reflexivity. Qed.

Lemma inject_nat_pos n : (1 <= n)%nat -> ~ inject_nat n == 0.
Proof. intros H E. unfold inject_nat, Qeq in E. cbn in E. lia. Qed.

Lemma qsum_vshift m v : qsum (vshift m v) == qsum v - inject_nat (length v) * m.
Proof.
  induction v as [|x v IH]; cbn [vshift map qsum length].
  - unfold inject_nat. cbn. ring.
  - fold (vshift m v). rewrite IH, inject_nat_S. ring.
Qed.

(* sum_i (s_i - mean s) = 0 *)
Lemma qsum_centre_col v : (1 <= length v)%nat -> qsum (centre_col v) == 0.
Proof.
  intro H. unfold centre_col. rewrite qsum_vshift. unfold mean. field. apply inject_nat_pos. exact H.
Qed.

Lemma dot_vshift_r m a c : length a = length c -> dot c (vshift m a) == dot c a - m * qsum c.
Proof.
  revert a. induction c as [|z c IH]; intros [|x a] H; cbn in H; try discriminate.
  - cbn. ring.
  - cbn [vshift map dot qsum]. fold (vshift m a). rewrite IH by lia. ring.
Qed.

Lemma covsum_centred r s : length r = length s -> (1 <= length s)%nat ->
  covsum r s == dot r (centre_col s).
Proof.
  intros Hl Hn. unfold covsum. unfold centre_col at 1. rewrite dot_comm.
  rewrite dot_vshift_r by (rewrite centre_col_length; exact Hl).
  rewrite qsum_centre_col by exact Hn. rewrite dot_comm. ring.
Qed.

(* ------------------------------------------------------------------ _split_X *)
Lemma index_of_bound x l : forall i j, index_of x l i = Some j -> (i <= j < i + length l)%nat.
Proof.
  induction l as [|y l IH]; intros i j H; cbn [index_of] in H; [discriminate|].
  destruct (x =? y)%Z.
  - injection H as <-. cbn [length]. lia.
  - apply IH in H. cbn [length]. lia.
Qed.

Lemma index_of_nth x l : forall i j, index_of x l i = Some j -> nth_error l (j - i) = Some x.
Proof.
  induction l as [|y l IH]; intros i j H; cbn [index_of] in H; [discriminate|].
  destruct (x =? y)%Z eqn:E.
  - injection H as <-. rewrite Nat.sub_diag. cbn. apply Z.eqb_eq in E. congruence.
  - pose proof (index_of_bound _ _ _ _ H) as Hb. apply IH in H.
    replace (j - i)%nat with (S (j - S i)) by lia. exact H.
Qed.

Lemma sens_idx_spec names : forall ids s, sens_idx names ids = Some s ->
  Forall2 (fun id i => nth_error names i = Some id) ids s.
Proof.
  induction ids as [|id ids IH]; intros s H; cbn [sens_idx] in H.
  - injection H as <-. constructor.
  - destruct (index_of id names 0) as [i|] eqn:E; [|discriminate].
    destruct (sens_idx names ids) as [l|]; [|discriminate]. injection H as <-.
    constructor; [|apply IH; reflexivity].
    apply index_of_nth in E. rewrite Nat.sub_0_r in E. exact E.
Qed.

Lemma sens_idx_bound names ids s : sens_idx names ids = Some s ->
  Forall (fun i => (i < length names)%nat) s.
Proof.
  intro H. apply sens_idx_spec in H. induction H as [|id i ids s Hi H IH]; constructor; auto.
  apply nth_error_Some. congruence.
Qed.

Lemma use_idx_spec m sens i : In i (use_idx m sens) <-> (i < m)%nat /\ ~ In i sens.
Proof.
  unfold use_idx. rewrite filter_In, in_seq. unfold nat_mem. split.
  - intros [Hi Hn]. split; [lia|]. intro Hin. apply negb_true_iff in Hn.
    assert (existsb (Nat.eqb i) sens = true) by (apply existsb_exists; exists i; split; auto; apply Nat.eqb_refl).
    congruence.
  - intros [Hi Hn]. split; [lia|]. apply negb_true_iff. destruct (existsb (Nat.eqb i) sens) eqn:E; auto.
    apply existsb_exists in E. destruct E as [j [Hj Hij]]. apply Nat.eqb_eq in Hij. subst j. contradiction.
Qed.

Lemma cols_wf n X idx : wf n X -> Forall (fun i => (i < length X)%nat) idx -> wf n (cols X idx).
Proof.
  intros HX Hidx. unfold wf, cols. apply Forall_forall. intros c Hc. apply in_map_iff in Hc.
  destruct Hc as [i [<- Hi]]. apply (proj1 (Forall_forall _ _) HX). apply nth_In.
  exact (proj1 (Forall_forall _ _) Hidx i Hi).
Qed.

Lemma split_wf n names ids X Xuse Xs : wf n X -> length names = length X ->
  split names ids X = Some (Xuse, Xs) -> wf n Xuse /\ wf n Xs.
Proof.
  intros HX Hl H. unfold split in H. destruct (sens_idx names ids) as [s|] eqn:E; [|discriminate].
  injection H as <- <-. split; apply cols_wf; auto.
  - apply Forall_forall. intros i Hi. apply use_idx_spec in Hi. tauto.
  - rewrite <- Hl. apply sens_idx_bound with (ids := ids). exact E.
Qed.

(* ★ alpha = 1: every output column has zero sample covariance with every sensitive column *)
Theorem zero_covariance_split n alpha Xuse Xs : (1 <= n)%nat -> wf n Xuse -> wf n Xs -> alpha == 1 ->
  forall r s, In r (fit_transform_split alpha Xuse Xs) -> In s Xs -> covsum r s == 0.
Proof.
  intros Hn HU HS Ha r s Hr Hs. unfold fit_transform_split, filter_on in Hr.
  apply in_map_iff in Hr. destruct Hr as [x [<- Hx]].
  pose proof (proj1 (Forall_forall _ _) HU x Hx) as Hlx. cbn beta in Hlx.
  pose proof (proj1 (Forall_forall _ _) HS s Hs) as Hls. cbn beta in Hls.
  pose proof (wf_centre n Xs HS) as HC.
  assert (Hb : wf n (basis (centre Xs))).
  { destruct (gs_inv n (centre Xs) [] HC (Forall_nil _) I) as [H1 _]. exact H1. }
  assert (Hlu : length (vsub x (proj_basis (basis (centre Xs)) x)) = n).
  { rewrite vsub_length; [exact Hlx|]. rewrite (proj_basis_length n); auto. }
  rewrite covsum_centred.
  - rewrite dot_vblend_l by congruence. rewrite Ha.
    rewrite (gs_orthogonal_on n) by (auto; apply in_map; exact Hs). ring.
  - rewrite vblend_length by congruence. congruence.
  - lia.
Qed.

Theorem zero_covariance n names ids alpha X out Xs Xuse :
  (2 <= n)%nat -> wf n X -> length names = length X -> alpha == 1 ->
  split names ids X = Some (Xuse, Xs) -> fit_transform names ids alpha X = Some out ->
  forall r s, In r out -> In s Xs -> covsum r s == 0 /\ sample_cov r s == 0.
Proof.
  intros Hn HX Hl Ha Hsp Hft r s Hr Hs. unfold fit_transform in Hft. rewrite Hsp in Hft. injection Hft as <-.
  destruct (split_wf n names ids X Xuse Xs HX Hl Hsp) as [HU HS].
  assert (H0 : covsum r s == 0) by (apply (zero_covariance_split n alpha Xuse Xs); auto; lia).
  split; [exact H0|]. unfold sample_cov. rewrite H0.
  assert (Hlr : length r = n).
  { unfold fit_transform_split, filter_on in Hr. apply in_map_iff in Hr. destruct Hr as [x [<- Hx]].
    pose proof (proj1 (Forall_forall _ _) HU x Hx) as Hlx. cbn beta in Hlx.
    assert (Hb : wf n (basis (centre Xs))).
    { destruct (gs_inv n (centre Xs) [] (wf_centre n Xs HS) (Forall_nil _) I) as [H1 _]. exact H1. }
    rewrite vblend_length; rewrite vsub_length; try rewrite (proj_basis_length n); auto. }
  rewrite Hlr. field. intro E.
  assert (E' : inject_nat n == 1) by lra. unfold inject_nat, Qeq in E'. cbn in E'. lia.
Qed.

(* ------------------------------------------------------------------ alpha blend *)
Definition veq (a b : vec) : Prop := Forall2 Qeq a b.
Definition meq (A B : mat) : Prop := Forall2 veq A B.

(* ★ the output IS alpha * (X_use - project) + (1 - alpha) * X_use, column by column *)
Theorem alpha_blend_formula alpha Xuse Xs :
  fit_transform_split alpha Xuse Xs = mmap2 (vblend alpha) (msub Xuse (project Xs Xuse)) Xuse.
Proof.
  unfold fit_transform_split, filter_on, msub, project, project_on.
  rewrite mmap2_map_r, mmap2_map_l. reflexivity.
Qed.

Lemma vblend_entry k u x : length u = length x ->
  forall i, nth i (vblend k u x) 0 == k * nth i u 0 + (1 - k) * nth i x 0.
Proof.
  revert x. induction u as [|a u IH]; intros [|b x] H i; cbn in H; try discriminate.
  - cbn. destruct i; ring.
  - unfold vblend, vadd, vscale. cbn [map vmap2]. destruct i as [|i]; cbn [nth]; [ring|].
    apply (IH x). lia.
Qed.

Lemma vblend_zero k u x : k == 0 -> length u = length x -> veq (vblend k u x) x.
Proof.
  intro Hk. revert x. induction u as [|a u IH]; intros [|b x] H; cbn in H; try discriminate.
  - constructor.
  - unfold vblend, vadd, vscale. cbn [map vmap2]. constructor; [rewrite Hk; ring|].
    apply (IH x). lia.
Qed.

Lemma vblend_one k u x : k == 1 -> length u = length x -> veq (vblend k u x) u.
Proof.
  intro Hk. revert x. induction u as [|a u IH]; intros [|b x] H; cbn in H; try discriminate.
  - constructor.
  - unfold vblend, vadd, vscale. cbn [map vmap2]. constructor; [rewrite Hk; ring|].
    apply (IH x). lia.
Qed.

Lemma Forall2_map_self {A} (R : A -> A -> Prop) (f : A -> A) L :
  (forall x, In x L -> R (f x) x) -> Forall2 R (map f L) L.
Proof.
  induction L as [|x L IH]; intro H; cbn [map]; constructor.
  - apply H. left. reflexivity.
  - apply IH. intros y Hy. apply H. right. exact Hy.
Qed.

Lemma basis_wf n C : wf n C -> wf n (basis C).
Proof. intro HC. destruct (gs_inv n C [] HC (Forall_nil _) I) as [H1 _]. exact H1. Qed.

(* alpha = 0 returns the non-sensitive columns unchanged (and in their order) *)
Theorem alpha_zero_split n alpha Xuse Xs : wf n Xuse -> wf n Xs -> alpha == 0 ->
  meq (fit_transform_split alpha Xuse Xs) Xuse.
Proof.
  intros HU HS Ha. unfold fit_transform_split, filter_on. apply Forall2_map_self.
  intros x Hx. pose proof (proj1 (Forall_forall _ _) HU x Hx) as Hlx. cbn beta in Hlx.
  apply vblend_zero; [exact Ha|].
  rewrite vsub_length; [reflexivity|]. rewrite (proj_basis_length n); auto.
  apply basis_wf, wf_centre. exact HS.
Qed.

(* alpha = 1 returns the residual X_use - project *)
Theorem alpha_one_split n alpha Xuse Xs : wf n Xuse -> wf n Xs -> alpha == 1 ->
  meq (fit_transform_split alpha Xuse Xs) (msub Xuse (project Xs Xuse)).
Proof.
  intros HU HS Ha. unfold fit_transform_split, filter_on, msub, project, project_on.
  rewrite mmap2_map_r. induction HU as [|x L Hx HL IH]; cbn [map]; constructor; [|exact IH].
  apply vblend_one; [exact Ha|].
  rewrite vsub_length; [reflexivity|]. rewrite (proj_basis_length n); auto.
  apply basis_wf, wf_centre. exact HS.
Qed.

Theorem alpha_blend n names ids alpha X out Xuse Xs :
  wf n X -> length names = length X ->
  split names ids X = Some (Xuse, Xs) -> fit_transform names ids alpha X = Some out ->
  out = mmap2 (vblend alpha) (msub Xuse (project Xs Xuse)) Xuse /\
  (alpha == 0 -> meq out Xuse) /\
  (alpha == 1 -> meq out (msub Xuse (project Xs Xuse))).
Proof.
  intros HX Hl Hsp Hft. unfold fit_transform in Hft. rewrite Hsp in Hft. injection Hft as <-.
  destruct (split_wf n names ids X Xuse Xs HX Hl Hsp) as [HU HS].
  split; [apply alpha_blend_formula|]. split; intro Ha.
  - apply (alpha_zero_split n); auto.
  - apply (alpha_one_split n); auto.
Qed.

(* ------------------------------------------------------------------ columns kept *)
Lemma seq_ssorted : forall len start, StronglySorted lt (seq start len).
Proof.
  induction len as [|len IH]; intro start; cbn [seq]; constructor; [apply IH|].
  apply Forall_forall. intros x Hx. apply in_seq in Hx. lia.
Qed.

Lemma filter_ssorted (p : nat -> bool) l : StronglySorted lt l -> StronglySorted lt (filter p l).
Proof.
  induction 1 as [|a l Hs IH Hf]; cbn [filter]; [constructor|].
  destruct (p a); [|exact IH]. constructor; [exact IH|].
  apply Forall_forall. intros x Hx. apply filter_In in Hx. destruct Hx as [Hx _].
  exact (proj1 (Forall_forall _ _) Hf x Hx).
Qed.

(* ★ sensitive columns are taken in the order of the ids through the lookup (by position or by label),
   they are dropped from the output, the other columns keep their original order *)
Theorem columns_kept names ids X Xuse Xs : split names ids X = Some (Xuse, Xs) ->
  exists s, Forall2 (fun id i => nth_error names i = Some id) ids s /\
            Xs = cols X s /\ Xuse = cols X (use_idx (length X) s) /\
            (forall i, In i (use_idx (length X) s) <-> (i < length X)%nat /\ ~ In i s) /\
            StronglySorted lt (use_idx (length X) s) /\
            (forall alpha out, fit_transform names ids alpha X = Some out -> length out = length Xuse).
Proof.
  intro H. pose proof H as Hsp. unfold split in H.
  destruct (sens_idx names ids) as [s|] eqn:E; [|discriminate].
  injection H as <- <-. exists s. split; [apply sens_idx_spec; exact E|].
  split; [reflexivity|]. split; [reflexivity|]. split; [apply use_idx_spec|].
  split; [apply filter_ssorted, seq_ssorted|].
  intros alpha out Hft. unfold fit_transform in Hft. rewrite Hsp in Hft. injection Hft as <-.
  unfold fit_transform_split, filter_on. apply map_length.
Qed.

(* a missing id is an error, and only that *)
Lemma index_of_none x l : forall i, index_of x l i = None <-> ~ In x l.
Proof.
  induction l as [|y l IH]; intro i; cbn [index_of In]; [tauto|].
  destruct (x =? y)%Z eqn:E.
  - apply Z.eqb_eq in E. split; [discriminate | intro H; exfalso; apply H; left; congruence].
  - apply Z.eqb_neq in E. rewrite IH. split; intro H; [intros [H1|H1]; [congruence | tauto] | tauto].
Qed.

Theorem split_defined names ids X : (exists p, split names ids X = Some p) <-> Forall (fun id => In id names) ids.
Proof.
  unfold split. split.
  - intros [p H]. destruct (sens_idx names ids) as [s|] eqn:E; [clear H|discriminate].
    revert s E. induction ids as [|id ids IH]; intros s E; constructor.
    + cbn [sens_idx] in E. destruct (index_of id names 0) eqn:E1; [|discriminate].
      destruct (In_dec Z.eq_dec id names) as [Hi|Hn]; [exact Hi|].
      apply (index_of_none id names 0%nat) in Hn. congruence.
    + cbn [sens_idx] in E. destruct (index_of id names 0); [|discriminate].
      destruct (sens_idx names ids) as [l|]; [|discriminate]. apply (IH l). reflexivity.
  - intro H. assert (Hs : exists s, sens_idx names ids = Some s).
    { induction H as [|id ids Hid H IH]; [exists []; reflexivity|].
      destruct IH as [l Hl]. cbn [sens_idx]. rewrite Hl.
      destruct (index_of id names 0) as [i|] eqn:E; [exists (i :: l); reflexivity|].
      apply index_of_none in E. contradiction. }
    destruct Hs as [s Hs]. rewrite Hs. eexists. reflexivity.
Qed.

(* ------------------------------------------------------------------ the defect of e03cf38 is distinguished *)
Definition witness_X : mat :=
  [[0;1;0;1;2;2]; [1;3;2;5;4;7]; [5;6;8;5;7;9]; [2;0;1;1;3;0]].

Theorem global_centring_refuted :
  exists names ids out Xuse Xs r s,
    wf 6 witness_X /\ length names = length witness_X /\
    split names ids witness_X = Some (Xuse, Xs) /\
    fit_transform_global names ids 1 witness_X = Some out /\
    In r out /\ In s Xs /\ ~ covsum r s == 0.
Proof.
  exists [0;1;2;3]%Z, [0;2]%Z. do 5 eexists.
  split; [repeat constructor|]. split; [reflexivity|].
  split; [vm_compute; reflexivity|]. split; [vm_compute; reflexivity|].
  split; [left; reflexivity|]. split; [left; reflexivity|].
  vm_compute. intro H. discriminate H.
Qed.

(* ------------------------------------------------------------------ uniqueness of the projection *)
Lemma lincomb_length n : forall ws C x, wf n C -> length x = n -> length (lincomb ws C x) = n.
Proof.
  induction ws as [|w ws IH]; intros C x HC Hx; cbn [lincomb]; [rewrite vzero_length; exact Hx|].
  destruct C as [|c C]; [rewrite vzero_length; exact Hx|].
  pose proof (Forall_inv HC) as Hc. cbn beta in Hc.
  rewrite vadd_length; rewrite vscale_length; [exact Hc|]. rewrite IH; auto. exact (Forall_inv_tail HC).
Qed.

Lemma dot_lincomb_orth n w : forall ws C x, wf n C -> length x = n ->
  (forall c, In c C -> dot w c == 0) -> dot w (lincomb ws C x) == 0.
Proof.
  induction ws as [|k ws IH]; intros C x HC Hx Hw; cbn [lincomb].
  - rewrite dot_comm. apply dot_vzero_l.
  - destruct C as [|c C]; [rewrite dot_comm; apply dot_vzero_l|].
    pose proof (Forall_inv HC) as Hc. cbn beta in Hc.
    rewrite dot_vadd_r by (rewrite vscale_length, (lincomb_length n); auto; exact (Forall_inv_tail HC)).
    rewrite dot_vscale_r, (Hw c (or_introl eq_refl)).
    rewrite IH; auto; [ring | exact (Forall_inv_tail HC) | intros c' Hc'; apply Hw; right; exact Hc'].
Qed.

(* every Gram-Schmidt basis vector lies in the span of the columns *)
Lemma gs_span n C0 : forall C B, wf n C -> wf n B -> incl C C0 ->
  (forall q, In q B -> covered n C0 q) -> forall q, In q (gs B C) -> covered n C0 q.
Proof.
  induction C as [|c C IH]; intros B HC HB Hincl Hcov q Hq; cbn [gs] in Hq; [apply Hcov; exact Hq|].
  pose proof (Forall_inv HC) as Hc. pose proof (Forall_inv_tail HC) as HC'. cbn beta in Hc.
  assert (Hincl' : incl C C0) by (intros y Hy; apply Hincl; right; exact Hy).
  assert (Hr : covered n C0 (resid B c)).
  { intros w Hw Hperp. unfold resid. rewrite dot_vred_r.
    rewrite dot_vsub_r by (rewrite (proj_basis_length n); auto).
    rewrite (Hperp c) by (apply Hincl; left; reflexivity).
    assert (Hp : dot w (proj_basis B c) == 0).
    { rewrite dot_comm. apply (dot_proj_basis_orth n); auto.
      intros p Hp. rewrite dot_comm. apply (Hcov p Hp w Hw Hperp). }
    rewrite Hp. ring. }
  destruct (Qeqb (dot (resid B c) (resid B c)) 0).
  - apply (IH B); auto.
  - apply (IH (resid B c :: B)); auto.
    + constructor; auto. apply resid_length; auto.
    + intros p [<- | Hp]; [exact Hr | apply Hcov; exact Hp].
Qed.

Lemma vsub_zero_veq a b : length a = length b -> Forall (fun x => x == 0) (vsub a b) -> veq a b.
Proof.
  revert b. induction a as [|x a IH]; intros [|y b] H Hz; cbn in H; try discriminate; constructor.
  - cbn [vsub vmap2] in Hz. pose proof (Forall_inv Hz) as H0. cbn beta in H0. lra.
  - apply IH; [lia|]. cbn [vsub vmap2] in Hz. exact (Forall_inv_tail Hz).
Qed.

(* ★ any coefficients solving the normal equations give the projection computed by Gram-Schmidt:
   the fitted values do not depend on which least-squares solution lstsq returns *)
Theorem projection_unique n C x ws : wf n C -> length x = n ->
  (forall c, In c C -> dot c (lincomb ws C x) == dot c x) ->
  veq (lincomb ws C x) (proj_basis (basis C) x).
Proof.
  intros HC Hx Hne.
  pose proof (basis_wf n C HC) as HB.
  pose proof (lincomb_length n ws C x HC Hx) as Hl.
  pose proof (proj_basis_length n (basis C) x HB Hx) as Hp.
  set (d := vsub (lincomb ws C x) (proj_basis (basis C) x)).
  assert (Hd : length d = n) by (unfold d; rewrite vsub_length; congruence).
  assert (Hperp : forall c, In c C -> dot d c == 0).
  { intros c Hc. unfold d. rewrite dot_vsub_l by congruence.
    rewrite (dot_comm (lincomb ws C x) c), (Hne c Hc).
    pose proof (gs_orthogonal_on n C x c HC Hx Hc) as H0.
    rewrite dot_vsub_l in H0 by congruence. rewrite (dot_comm c x). lra. }
  assert (H1 : dot d (lincomb ws C x) == 0) by (apply (dot_lincomb_orth n); auto).
  assert (H2 : dot d (proj_basis (basis C) x) == 0).
  { rewrite dot_comm. apply (dot_proj_basis_orth n); auto.
    intros q Hq. rewrite dot_comm.
    apply (gs_span n C C [] HC (Forall_nil _) (incl_refl C)) with (q := q); auto.
    intros q' []. }
  assert (H0 : dot d d == 0).
  { unfold d at 2. rewrite dot_vsub_r by congruence. rewrite H1, H2. ring. }
  apply vsub_zero_veq; [congruence|]. apply dot_self_zero_all. exact H0.
Qed.

(* ------------------------------------------------------------------ transform with learned coefficients *)
Lemma shift_cols_means Xs : shift_cols (map mean Xs) Xs = centre Xs.
Proof. induction Xs as [|s Xs IH]; cbn [map shift_cols centre]; [reflexivity|]. fold (centre Xs). rewrite IH. reflexivity. Qed.

Lemma veq_vsub_r x a b : veq a b -> veq (vsub x a) (vsub x b).
Proof.
  intro H. revert x. induction H as [|p q a b Hpq H IH]; intros [|y x]; cbn [vsub vmap2]; try constructor.
  - rewrite Hpq. reflexivity.
  - apply IH.
Qed.

Lemma veq_vblend_l k u u' x : veq u u' -> veq (vblend k u x) (vblend k u' x).
Proof.
  intro H. revert x. unfold vblend, vadd, vscale.
  induction H as [|p q a b Hpq H IH]; intros [|y x]; cbn [map vmap2]; try constructor.
  - rewrite Hpq. reflexivity.
  - apply IH.
Qed.

(* transform(fit(X))(X) = fit_transform(X) whenever the learned beta solves the normal equations
   (a closed boolean, evaluated by the kernel on every correspondence case) *)
Theorem transform_is_fit_transform_partial n beta alpha Xuse Xs : wf n Xuse -> wf n Xs ->
  normal_eqs_hold (centre Xs) beta Xuse = true ->
  meq (transform_split {| f_mean := map mean Xs; f_beta := beta |} alpha Xuse Xs)
      (fit_transform_split alpha Xuse Xs).
Proof.
  intros HU HS. unfold transform_split, fit_transform_split, filter_on, normal_eqs_hold.
  cbn [f_mean f_beta]. rewrite shift_cols_means.
  pose proof (wf_centre n Xs HS) as HC. generalize 0%nat as j.
  induction HU as [|x L Hx HL IH]; intros j H; cbn [mapi_from map]; [constructor|].
  cbn [mapi_from forallb] in H. apply andb_true_iff in H. destruct H as [Hj H].
  constructor; [|apply IH; exact H].
  apply veq_vblend_l, veq_vsub_r. apply (projection_unique n); auto.
  intros c Hc. rewrite forallb_forall in Hj. apply Qeq_bool_eq. apply Hj. exact Hc.
Qed.

Theorem transform_is_fit_transform_api_partial n names ids alpha X Xuse Xs f :
  wf n X -> length names = length X -> split names ids X = Some (Xuse, Xs) ->
  fit names ids X = Some f -> normal_eqs_hold (centre Xs) (f_beta f) Xuse = true ->
  exists o1 o2, transform names ids f alpha X = Some o1 /\
                fit_transform names ids alpha X = Some o2 /\ meq o1 o2.
Proof.
  intros HX Hl Hsp Hf Hn. unfold fit in Hf. rewrite Hsp in Hf. unfold fit_split in Hf.
  destruct (solve_beta (centre Xs) Xuse) as [b|]; [|discriminate]. injection Hf as <-.
  cbn [f_beta] in Hn. unfold transform, fit_transform. rewrite Hsp. do 2 eexists.
  split; [reflexivity|]. split; [reflexivity|].
  destruct (split_wf n names ids X Xuse Xs HX Hl Hsp) as [HU HS].
  apply (transform_is_fit_transform_partial n); auto.
Qed.
