(* C20 -- the meaning of the source description model_* (ValidateSrc.v) IS the hand-written
   decision function of Validate.v, for every abstract input. *)
From Coq Require Import ZArith QArith List Bool Lia.
From FL Require Import Num Validate Validate_proofs ValidateSrc.
Import ListNotations.
Open Scope Z_scope.

(* ------------------------------------------------------------------ *)
(* 1. _validate_and_reformat_input                                     *)
(* ------------------------------------------------------------------ *)

Lemma zmem'_binary v : zmem' v [0; 1] = binary v.
Proof. unfold binary. cbn [zmem']. now rewrite orb_false_r. Qed.

Lemma forallb_zmem'_binary ys : forallb (fun v => zmem' v [0; 1]) ys = forallb binary ys.
Proof. induction ys as [|y ys IH]; cbn [forallb]; [reflexivity|]. now rewrite zmem'_binary, IH. Qed.

Theorem run_guards_model es eb d :
  run_guards (mkFlags true eb es) d model_input_guards = validate_input es eb d.
Proof.
  unfold validate_input, model_input_guards, check_len.
  destruct d as [x oy osf ocf]. cbn [d_y d_x d_sf d_cf].
  destruct oy as [ys|]; [|reflexivity].
  destruct eb, es, osf as [s|], ocf as [c|];
  cbn [run_guards run_guard g_flags g_cond forallb flag_on fl_expect_y fl_enforce_binary fl_expect_sf
       andb run_gcond is_given arg_rows arg_col d_y d_x d_sf d_cf nonzero_rows empty_kind none_kind
       len_kind rows_eq check andthen negb orb];
  rewrite ?forallb_zmem'_binary, ?(Nat.eqb_sym x (length s)), ?(Nat.eqb_sym x (length c));
  destruct (Nat.eqb (length ys) 0); cbn [negb check andthen]; try reflexivity;
  try (destruct (forallb binary ys); cbn [negb check andthen]; try reflexivity);
  destruct (Nat.eqb x 0); cbn [negb check andthen]; try reflexivity;
  destruct (Nat.eqb (length ys) x); cbn [negb check andthen]; try reflexivity;
  try (destruct (Nat.eqb (length s) x); cbn [negb check andthen]; try reflexivity);
  try (destruct (Nat.eqb (length c) x); cbn [negb check andthen]; try reflexivity).
Qed.

Lemma drop_cf_none d : d_cf d = None -> drop_cf d = d.
Proof. destruct d as [x y s c]. cbn. intros ->. reflexivity. Qed.

Theorem run_load_model m d :
  run_load model_input_guards model_load_calls m d = validate_load m d.
Proof.
  unfold validate_load, run_load.
  destruct m; cbn [model_load_calls call_of moment_code Z.eqb Pos.eqb];
    unfold run_call, parity_call, loss_call;
    cbn [cl_cf cl_expect_y cl_enforce_binary cl_expect_sf takes_control is_classification];
    destruct (d_cf d) as [c|] eqn:Ec; try reflexivity;
    try (now rewrite run_guards_model);
    rewrite (drop_cf_none d Ec); now rewrite run_guards_model.
Qed.

Theorem run_call_to_model d :
  d_cf d = None -> run_call model_input_guards model_to_call d = validate_input true true d.
Proof.
  intros Ec. unfold run_call, model_to_call. cbn [cl_cf cl_expect_y cl_enforce_binary cl_expect_sf].
  rewrite Ec, (drop_cf_none d Ec). apply run_guards_model.
Qed.

Lemma reduction_fit_with_ext load1 load2 r :
  (forall m d, load1 m d = load2 m d) -> reduction_fit_with load1 r = reduction_fit_with load2 r.
Proof.
  intros H. unfold reduction_fit_with. destruct (r_constraints r) as [m|]; [|reflexivity].
  rewrite !H. destruct (r_est r); [|reflexivity].
  destruct (r_objective r) as [o|]; [|reflexivity]. now rewrite H.
Qed.

Lemma reduction_fit_with_model r : reduction_fit_with validate_load r = validate_reduction_fit r.
Proof. reflexivity. Qed.

Theorem reduction_fit_src_model r :
  reduction_fit_with (run_load model_input_guards model_load_calls) r = validate_reduction_fit r.
Proof. rewrite <- reduction_fit_with_model. apply reduction_fit_with_ext, run_load_model. Qed.

Theorem threshold_optimizer_src_model T i :
  threshold_optimizer_with (run_call model_input_guards model_to_call) T i = validate_threshold_optimizer T i.
Proof.
  unfold threshold_optimizer_with, validate_threshold_optimizer.
  destruct (check (to_estimator i) KNoEstimator); [|reflexivity]. cbn [andthen].
  destruct (check_combo T (to_constraints i) (to_objective i)); [|reflexivity]. cbn [andthen].
  destruct (d_cf (to_data i)) eqn:Ec; [reflexivity|]. cbn [andthen].
  now rewrite run_call_to_model.
Qed.

(* ------------------------------------------------------------------ *)
(* 2. bounds, costs, constraint_weight                                 *)
(* ------------------------------------------------------------------ *)

Theorem run_bounds_model b : run_bounds model_bounds_src b = validate_bounds b.
Proof.
  unfold run_bounds, validate_bounds, model_bounds_src. destruct b as [[x|] [r|]]; reflexivity.
Qed.

Theorem run_costs_model c : run_costs model_costs_src c = validate_costs c.
Proof.
  destruct c as [| |items]; try reflexivity.
  unfold run_costs, model_costs_src, validate_costs, costs_ok, keys_ok.
  cbn [cs_first cs_conj first_fires forallb eval_ccond cterm_val length andb ext_cmp].
  unfold has_key.
  destruct (Nat.eqb (length items) 2), (lookup key_fp items) as [fp|], (lookup key_fn items) as [fn|];
    cbn [andb]; try reflexivity.
  destruct (ext_leb (Fin 0) fp), (ext_leb (Fin 0) fn), (ext_ltb (Fin 0) (ext_add fp fn)); reflexivity.
Qed.

Theorem run_gs_model r : run_gs r model_gs_src = validate_gs_ctor r.
Proof.
  unfold model_gs_src, validate_gs_ctor. cbn [run_gs run_gs_step].
  destruct (r_constraints r); cbn [andthen]; [|reflexivity].
  destruct (r_rule_ok r); [|reflexivity].
  unfold in_range, weight_in_range. cbn [rg_lo rg_lo_op rg_hi_op rg_hi ext_cmp].
  destruct (check (ext_leb (Fin 0) (r_cw r) && ext_leb (r_cw r) (Fin 1)) KConstraintWeight); reflexivity.
Qed.

(* ------------------------------------------------------------------ *)
(* 3. the degenerate-label guard                                       *)
(* ------------------------------------------------------------------ *)

Lemma binary_sum_bounds ls :
  forallb binary ls = true -> 0 <= Zsum ls <= Z.of_nat (length ls).
Proof.
  induction ls as [|l ls IH]; cbn [forallb Zsum fold_right length]; intros H; [lia|].
  apply andb_true_iff in H. destruct H as [Hl H]. specialize (IH H). unfold Zsum in IH.
  apply binary_spec in Hl. destruct Hl as [-> | ->]; lia.
Qed.

Lemma binary_no_one ls :
  forallb binary ls = true -> (Zsum ls =? 0) = negb (existsb (Z.eqb 1) ls).
Proof.
  induction ls as [|l ls IH]; cbn [forallb Zsum fold_right existsb]; intros H; [reflexivity|].
  apply andb_true_iff in H. destruct H as [Hl H]. specialize (IH H).
  pose proof (binary_sum_bounds ls H) as Hb. unfold Zsum in IH, Hb.
  apply binary_spec in Hl. destruct Hl as [-> | ->].
  - cbn [Z.eqb orb]. rewrite <- IH. reflexivity.
  - cbn [Z.eqb Pos.eqb orb negb]. apply Z.eqb_neq. lia.
Qed.

Lemma binary_no_zero ls :
  forallb binary ls = true ->
  (Z.of_nat (length ls) - Zsum ls =? 0) = negb (existsb (Z.eqb 0) ls).
Proof.
  induction ls as [|l ls IH]; cbn [forallb Zsum fold_right existsb length]; intros H; [reflexivity|].
  apply andb_true_iff in H. destruct H as [Hl H]. specialize (IH H).
  pose proof (binary_sum_bounds ls H) as Hb. unfold Zsum in IH, Hb.
  apply binary_spec in Hl. destruct Hl as [-> | ->].
  - cbn [Z.eqb orb negb]. apply Z.eqb_neq. lia.
  - cbn [Z.eqb orb]. rewrite <- IH. f_equal. lia.
Qed.

Theorem deg_rejects_model ls :
  forallb binary ls = true ->
  deg_rejects model_deg_src ls = negb (existsb (Z.eqb 0) ls && existsb (Z.eqb 1) ls).
Proof.
  intros H. unfold deg_rejects, counts, model_deg_src.
  cbn [dg_n dg_pos dg_neg dg_first dg_guard eval_cdef existsb z_cmp andb].
  rewrite orb_false_r, (binary_no_one ls H), (binary_no_zero ls H), negb_andb. apply orb_comm.
Qed.

Lemma existsb_group_labels s ys g l :
  existsb (Z.eqb l) (group_labels s ys g) = group_has s ys g l.
Proof.
  unfold group_labels, group_has. induction (combine s ys) as [|[a b] r IH]; [reflexivity|].
  cbn [filter fst snd existsb]. destruct (a =? g) eqn:E; cbn [map existsb snd andb].
  - rewrite IH. now rewrite (Z.eqb_sym l b).
  - exact IH.
Qed.

Lemma forallb_filter_map_snd (p : Z * Z -> bool) (l : list (Z * Z)) :
  forallb binary (map snd l) = true -> forallb binary (map snd (filter p l)) = true.
Proof.
  induction l as [|x l IH]; cbn [map forallb filter]; [trivial|]. intros H.
  apply andb_true_iff in H. destruct H as [Hx H]. destruct (p x); cbn [map forallb]; [|auto].
  rewrite Hx. cbn [andb]. auto.
Qed.

Lemma forallb_combine_snd (s ys : list Z) :
  forallb binary ys = true -> forallb binary (map snd (combine s ys)) = true.
Proof.
  revert ys. induction s as [|a s IH]; intros [|y ys]; cbn [combine map forallb snd]; trivial.
  intros H. apply andb_true_iff in H. destruct H as [Hy H]. rewrite Hy. cbn [andb]. auto.
Qed.

Lemma group_labels_binary s ys g : forallb binary ys = true -> forallb binary (group_labels s ys g) = true.
Proof. intros H. unfold group_labels. apply forallb_filter_map_snd, forallb_combine_snd, H. Qed.

Lemma forallb_pointwise {A} (f g : A -> bool) l : (forall x, f x = g x) -> forallb f l = forallb g l.
Proof. intros H. induction l as [|x l IH]; cbn [forallb]; [reflexivity|]. now rewrite H, IH. Qed.

Theorem groups_ok_src_model d :
  (forall ys, d_y d = Some ys -> forallb binary ys = true) ->
  groups_ok_src model_deg_src d = groups_ok d.
Proof.
  intros Hb. unfold groups_ok_src, groups_ok.
  destruct (d_sf d) as [s|]; [|reflexivity]. destruct (d_y d) as [ys|]; [|reflexivity].
  specialize (Hb ys eq_refl). apply forallb_pointwise. intros g.
  rewrite (deg_rejects_model _ (group_labels_binary s ys g Hb)), negb_involutive.
  unfold group_ok. now rewrite !existsb_group_labels.
Qed.

(* ------------------------------------------------------------------ *)
(* 4. MetricFrame                                                      *)
(* ------------------------------------------------------------------ *)

Lemma run_cols_frame names len n :
  run_cols [PNameStr; PLen] (map Some names) len n = frame_cols names len n.
Proof.
  induction names as [|nm r IH]; [reflexivity|].
  cbn [map run_cols run_pchecks frame_cols]. rewrite IH.
  destruct (check (is_string nm) KNonStringName); [|reflexivity]. cbn [andthen].
  destruct (check (Nat.eqb len n) KLenFeature); reflexivity.
Qed.

Lemma run_cols_array k len n :
  run_cols [PLen] (repeat None k) len n =
  match k with O => Accept | _ => check (Nat.eqb len n) KLenFeature end.
Proof.
  induction k as [|k IH]; [reflexivity|].
  cbn [repeat run_cols run_pchecks]. rewrite IH.
  destruct (Nat.eqb len n); cbn [check andthen]; [|reflexivity]. now destruct k.
Qed.

Theorem process_features_src_model f n :
  wf_kind f -> process_features_src model_pf_src f n = process_features f n.
Proof.
  unfold wf_kind, process_features_src, process_features, model_pf_src.
  destruct (f_kind f) as [| |k|nm|names];
    cbn [pf_series pf_frame pf_list pf_array1 pf_array2 run_pchecks]; intros Hw.
  - destruct (check (negb (Nat.eqb (f_len f) 0)) KEmptyList); [|reflexivity]. cbn [andthen check].
    destruct (check (Nat.eqb (f_len f) n) KLenFeature); reflexivity.
  - destruct (Nat.eqb (f_len f) 0) eqn:E; [apply Nat.eqb_eq in E; contradiction|]. reflexivity.
  - destruct k as [|[|k]].
    + reflexivity.
    + destruct (check (Nat.eqb (f_len f) n) KLenFeature); reflexivity.
    + now rewrite run_cols_array.
  - destruct (check (Nat.eqb (f_len f) n) KLenFeature); [|reflexivity]. cbn [andthen].
    destruct nm as [x|]; [|reflexivity]. destruct (check (is_string x) KNonStringName); reflexivity.
  - apply run_cols_frame.
Qed.

Theorem run_mf_model i :
  wf_kind (m_sf i) -> (forall c, m_cf i = Some c -> wf_kind c) ->
  andthen (run_mf model_pf_src i model_mf_src)
          (check (negb (Nat.eqb (length (declared_names 0 (m_sf i))) 0)) KNoFeatures)
  = validate_metric_frame i.
Proof.
  intros Hs Hc. unfold validate_metric_frame, model_mf_src. cbn [run_mf run_mf_step].
  rewrite (process_features_src_model _ _ Hs).
  assert (Hcf : match m_cf i with Some c => process_features_src model_pf_src c (m_ytrue i) | None => Accept end
                = match m_cf i with Some c => process_features c (m_ytrue i) | None => Accept end).
  { destruct (m_cf i) as [c|]; [|reflexivity]. apply process_features_src_model, Hc. reflexivity. }
  rewrite Hcf.
  destruct (check (Nat.eqb (m_ytrue i) (m_ypred i)) KLenTruePred); [|reflexivity]. cbn [andthen].
  destruct (check (forallb (fun k => Nat.eqb k (m_ytrue i)) (m_params i)) KLenSampleParam); [|reflexivity].
  cbn [andthen].
  destruct (process_features (m_sf i) (m_ytrue i)); [|reflexivity]. cbn [andthen].
  destruct (match m_cf i with Some c => process_features c (m_ytrue i) | None => Accept end); [|reflexivity].
  cbn [andthen].
  destruct (check (negb (has_dup [] (declared_names 0 (m_sf i) ++ cf_names i))) KDuplicateName); reflexivity.
Qed.

(* ------------------------------------------------------------------ *)
(* 5. CorrelationRemover                                               *)
(* ------------------------------------------------------------------ *)

Lemma no_missing_forallb columns ids :
  negb (0 <? Z.of_nat (length (filter (fun c => negb (zmem' c columns)) ids)))
  = forallb (fun c => zmem' c columns) ids.
Proof.
  induction ids as [|c r IH]; [reflexivity|]. cbn [filter forallb].
  destruct (zmem' c columns); cbn [negb andb]; [exact IH|].
  cbn [length]. apply negb_false_iff, Z.ltb_lt. lia.
Qed.

Theorem run_cr_model i : run_cr model_cr_src i = validate_correlation_remover i.
Proof.
  unfold run_cr, model_cr_src, validate_correlation_remover, missing.
  cbn [cr_first_in_fit cr_validate_after cr_frame cr_array cr_raise ms_over_ids ms_test fst snd z_cmp].
  rewrite no_missing_forallb.
  destruct (check (forallb (fun c => zmem' c (c_columns i)) (c_ids i)) KMissingColumn); reflexivity.
Qed.

(* ------------------------------------------------------------------ *)
(* 6. check_is_fitted                                                  *)
(* ------------------------------------------------------------------ *)

Theorem run_fitted_model e m p fitted :
  In (e, m, p) model_fitted_src -> run_fitted model_fitted_src e m fitted = validate_predict e fitted.
Proof.
  unfold model_fitted_src. cbn [In]. intros H.
  repeat (destruct H as [H|H]; [inversion H; subst; reflexivity|]). contradiction.
Qed.

Theorem fitted_main_listed e : exists p, In (e, main_meth e, p) model_fitted_src.
Proof. destruct e; eexists; cbn; eauto 14. Qed.

Theorem run_fitted_main e fitted :
  run_fitted model_fitted_src e (main_meth e) fitted = validate_predict e fitted.
Proof. destruct (fitted_main_listed e) as [p Hp]. exact (run_fitted_model _ _ _ _ Hp). Qed.

(* ------------------------------------------------------------------ *)
(* 7. the statements used by props/C20.v: for ANY source description   *)
(*    that equals model_*, its meaning is the model's decision function *)
(* ------------------------------------------------------------------ *)

Lemma input_accept_binary d ys :
  validate_input true true d = Accept -> d_y d = Some ys -> forallb binary ys = true.
Proof.
  intros H E. apply validate_input_accept_iff in H. destruct H as (ys' & E' & _ & Hb & _).
  rewrite E in E'. inversion E'; subst ys'. apply forallb_binary, Hb. reflexivity.
Qed.

Theorem threshold_optimizer_full_model T i :
  threshold_optimizer_src model_input_guards model_to_call model_deg_src T i = validate_threshold_optimizer T i.
Proof.
  unfold threshold_optimizer_src, validate_threshold_optimizer.
  destruct (check (to_estimator i) KNoEstimator); [|reflexivity]. cbn [andthen].
  destruct (check_combo T (to_constraints i) (to_objective i)); [|reflexivity]. cbn [andthen].
  destruct (d_cf (to_data i)) eqn:Ec; [reflexivity|]. cbn [andthen].
  rewrite (run_call_to_model _ Ec).
  destruct (validate_input true true (to_data i)) eqn:Ev; [|reflexivity]. cbn [andthen].
  rewrite groups_ok_src_model; [reflexivity|]. intros ys. apply input_accept_binary, Ev.
Qed.

Theorem input_validation_src G L C :
  G = model_input_guards -> L = model_load_calls -> C = model_to_call ->
  (forall es eb d, run_guards (mkFlags true eb es) d G = validate_input es eb d) /\
  (forall m d, run_load G L m d = validate_load m d) /\
  (forall r, reduction_fit_with (run_load G L) r = validate_reduction_fit r) /\
  (forall T i, threshold_optimizer_with (run_call G C) T i = validate_threshold_optimizer T i).
Proof.
  intros -> -> ->. split; [exact run_guards_model|]. split; [exact run_load_model|].
  split; [exact reduction_fit_src_model | exact threshold_optimizer_src_model].
Qed.

Theorem bounds_src_model S : S = model_bounds_src -> forall b, run_bounds S b = validate_bounds b.
Proof. intros ->. exact run_bounds_model. Qed.

Theorem costs_src_model S : S = model_costs_src -> forall c, run_costs S c = validate_costs c.
Proof. intros ->. exact run_costs_model. Qed.

Theorem gs_src_model G L C :
  G = model_input_guards -> L = model_load_calls -> C = model_gs_src ->
  (forall r, run_gs r C = validate_gs_ctor r) /\
  (forall r, reduction_src G L C r = validate_reduction r).
Proof.
  intros -> -> ->. split; [exact run_gs_model|]. intros r. unfold reduction_src, validate_reduction.
  now rewrite run_gs_model, reduction_fit_src_model.
Qed.

Theorem degenerate_src_model G C D :
  G = model_input_guards -> C = model_to_call -> D = model_deg_src ->
  (forall ls, forallb binary ls = true ->
     deg_rejects D ls = negb (existsb (Z.eqb 0) ls && existsb (Z.eqb 1) ls)) /\
  (forall d, (forall ys, d_y d = Some ys -> forallb binary ys = true) -> groups_ok_src D d = groups_ok d) /\
  (forall T i, threshold_optimizer_src G C D T i = validate_threshold_optimizer T i).
Proof.
  intros -> -> ->. split; [exact deg_rejects_model|]. split; [exact groups_ok_src_model|].
  exact threshold_optimizer_full_model.
Qed.

Theorem metric_frame_src_model P L :
  P = model_pf_src -> L = model_mf_src ->
  (forall f n, wf_kind f -> process_features_src P f n = process_features f n) /\
  (forall i, wf_kind (m_sf i) -> (forall c, m_cf i = Some c -> wf_kind c) ->
             metric_frame_src P L i = validate_metric_frame i).
Proof. intros -> ->. split; [exact process_features_src_model | exact run_mf_model]. Qed.

Theorem cr_src_model S : S = model_cr_src -> forall i, run_cr S i = validate_correlation_remover i.
Proof. intros ->. exact run_cr_model. Qed.

Theorem fitted_src_model T :
  T = model_fitted_src ->
  (forall e m p fitted, In (e, m, p) T -> run_fitted T e m fitted = validate_predict e fitted) /\
  (forall e, exists p, In (e, main_meth e, p) T) /\
  (forall e, run_fitted T e (main_meth e) false = Reject KNotFitted).
Proof.
  intros ->. split; [exact run_fitted_model|]. split; [exact fitted_main_listed|].
  intros e. rewrite run_fitted_main. reflexivity.
Qed.
