(* C13, generalised: injectivity of escape-and-join for ANY escape character e and separator s
   with e <> s, for a chain of the shape [ (e, [e;e]) ; (s, [e;s]) ] and separator [s].
   `chain_ok` is a boolean recogniser of that shape, so the property theorem applies to whatever
   the translator regenerates from the source as long as the chain is still of this shape. *)
From Coq Require Import ZArith List Bool Lia.
From FL Require Import Merge.
Import ListNotations.
Open Scope Z_scope.

Definition chain_ok (steps : list (Z * str)) (sep : str) : bool :=
  match steps, sep with
  | [(e1, [a; b]); (s1, [c; d])], [s2] =>
      (e1 =? a) && (e1 =? b) && (e1 =? c) && (s1 =? d) && (s1 =? s2) && negb (e1 =? s1)
  | _, _ => false
  end.

Definition chain_esc (steps : list (Z * str)) : Z := match steps with (e, _) :: _ => e | [] => 0 end.
Definition chain_sep (sep : str) : Z := match sep with s :: _ => s | [] => 0 end.

Section Param.
Variables e s : Z.
Hypothesis Hes : e <> s.

Definition esc1p (c : Z) : str := if c =? e then [e; e] else if c =? s then [e; s] else [c].

Fixpoint unmergep (t : str) : list str :=
  match t with
  | [] => [[]]
  | c :: r =>
      if c =? e then
        match r with
        | c2 :: r2 => push c2 (unmergep r2)
        | [] => [[e]]
        end
      else if c =? s then [] :: unmergep r
      else push c (unmergep r)
  end.

Definition stepsp : list (Z * str) := [(e, [e; e]); (s, [e; s])].
Definition mergep : list str -> str := merge_with stepsp [s].

Lemma replace1_flat_mapp (a : Z) (b : str) (f : Z -> str) (t : str) :
  replace1 a b (flat_map f t) = flat_map (fun c => replace1 a b (f c)) t.
Proof.
  unfold replace1. induction t as [|c t IH]; cbn [flat_map]; [reflexivity|].
  rewrite flat_map_app, IH. reflexivity.
Qed.

Lemma escape_p (t : str) : escape stepsp t = flat_map esc1p t.
Proof.
  unfold escape, stepsp. cbn [fold_left fst snd].
  unfold replace1 at 2. rewrite replace1_flat_mapp.
  apply flat_map_ext. intro c. unfold esc1p, replace1.
  destruct (c =? e) eqn:E1.
  - apply Z.eqb_eq in E1. subst c. cbn [flat_map app].
    assert (E : e =? s = false) by (apply Z.eqb_neq; exact Hes). rewrite E. reflexivity.
  - cbn [flat_map app]. destruct (c =? s) eqn:E2; reflexivity.
Qed.

Definition prependp (t : str) (fs : list str) : list str :=
  match fs with f :: r => (t ++ f) :: r | [] => [t] end.

Lemma unmergep_nonempty (t : str) : unmergep t <> [].
Proof.
  assert (H : forall n t, (length t <= n)%nat -> unmergep t <> []).
  { clear t. induction n as [|n IH]; intros t Hl.
    - destruct t; [discriminate | cbn in Hl; lia].
    - destruct t as [|c r]; [discriminate|]. cbn [unmergep].
      destruct (c =? e).
      + destruct r as [|c2 r2]; [discriminate|].
        assert (Hr : unmergep r2 <> []) by (apply IH; cbn in Hl; lia).
        destruct (unmergep r2); [contradiction | discriminate].
      + destruct (c =? s); [discriminate|].
        assert (Hr : unmergep r <> []) by (apply IH; cbn in Hl; lia).
        destruct (unmergep r); [contradiction | discriminate]. }
  apply (H (length t)); lia.
Qed.

Lemma push_prependp c t fs : fs <> [] -> push c (prependp t fs) = prependp (c :: t) fs.
Proof. destruct fs; [contradiction | reflexivity]. Qed.

Lemma unmergep_esc_app (t u : str) :
  unmergep (flat_map esc1p t ++ u) = prependp t (unmergep u).
Proof.
  induction t as [|c t IH]; cbn [flat_map app].
  - destruct (unmergep u) eqn:E; [exfalso; eapply unmergep_nonempty; eauto | reflexivity].
  - unfold esc1p at 1. destruct (c =? e) eqn:E1.
    + apply Z.eqb_eq in E1. subst c. cbn [app unmergep]. rewrite Z.eqb_refl.
      rewrite IH. apply push_prependp, unmergep_nonempty.
    + destruct (c =? s) eqn:E2.
      * apply Z.eqb_eq in E2. subst c. cbn [app unmergep]. rewrite Z.eqb_refl.
        rewrite IH. apply push_prependp, unmergep_nonempty.
      * cbn [app unmergep]. rewrite E1, E2. rewrite IH.
        apply push_prependp, unmergep_nonempty.
Qed.

Lemma mergep_cons x r :
  mergep (x :: r) = match r with [] => flat_map esc1p x
                                | _ => flat_map esc1p x ++ s :: mergep r end.
Proof.
  unfold mergep, merge_with. cbn [map join]. rewrite escape_p.
  destruct r; reflexivity.
Qed.

Lemma unmergep_sep u : unmergep (s :: u) = [] :: unmergep u.
Proof.
  cbn [unmergep]. assert (E : s =? e = false) by (apply Z.eqb_neq; intro H; apply Hes; auto).
  rewrite E, Z.eqb_refl. reflexivity.
Qed.

Theorem unmergep_mergep (row : list str) : row <> [] -> unmergep (mergep row) = row.
Proof.
  induction row as [|x r IH]; [contradiction|]. intros _.
  rewrite mergep_cons. destruct r as [|y r'].
  - rewrite <- (app_nil_r (flat_map esc1p x)), unmergep_esc_app. cbn. rewrite app_nil_r. reflexivity.
  - rewrite unmergep_esc_app, unmergep_sep, IH by discriminate. cbn. rewrite app_nil_r. reflexivity.
Qed.

Theorem mergep_injective (r r' : list str) :
  r <> [] -> r' <> [] -> mergep r = mergep r' -> r = r'.
Proof.
  intros H H' E. rewrite <- (unmergep_mergep r H), <- (unmergep_mergep r' H'), E. reflexivity.
Qed.
End Param.

(* the recogniser is sound: a chain it accepts is stepsp e s / [s] with e <> s *)
Lemma chain_ok_shape steps sep :
  chain_ok steps sep = true ->
  let e := chain_esc steps in let s := chain_sep sep in
  e <> s /\ steps = stepsp e s /\ sep = [s].
Proof.
  unfold chain_ok, chain_esc, chain_sep, stepsp. intro H.
  destruct steps as [|[e1 [|a [|b [|? ?]]]] [|[s1 [|c [|d [|? ?]]]] [|? ?]]];
    destruct sep as [|s2 [|? ?]]; cbn in H; try discriminate H.
  apply andb_true_iff in H; destruct H as [H H6].
  apply andb_true_iff in H; destruct H as [H H5].
  apply andb_true_iff in H; destruct H as [H H4].
  apply andb_true_iff in H; destruct H as [H H3].
  apply andb_true_iff in H; destruct H as [H1 H2].
  apply Z.eqb_eq in H1, H2, H3, H4, H5.
  apply negb_true_iff, Z.eqb_neq in H6.
  subst. cbn. repeat split; auto.
Qed.

Theorem merge_injective_of_chain_ok steps sep :
  chain_ok steps sep = true ->
  forall r r' : list str, r <> [] -> r' <> [] ->
  merge_with steps sep r = merge_with steps sep r' -> r = r'.
Proof.
  intro Hok. destruct (chain_ok_shape steps sep Hok) as [Hne [Hs Hp]].
  intros r r' Hr Hr'. rewrite Hs, Hp. apply mergep_injective; assumption.
Qed.

Theorem unmerge_of_chain_ok steps sep :
  chain_ok steps sep = true ->
  forall r : list str, r <> [] ->
  unmergep (chain_esc steps) (chain_sep sep) (merge_with steps sep r) = r.
Proof.
  intro Hok. destruct (chain_ok_shape steps sep Hok) as [Hne [Hs Hp]].
  remember (chain_esc steps) as e eqn:He. remember (chain_sep sep) as s eqn:Hse.
  clear He Hse Hok. subst steps sep.
  intros r Hr. apply unmergep_mergep; assumption.
Qed.

(* partition by merged key = partition by tuple equality, for ANY injective merge *)
From FL Require Import Merge_proofs.

Theorem partition_of_injective (m : list str -> str) :
  (forall r r' : list str, r <> [] -> r' <> [] -> m r = m r' -> r = r') ->
  forall rows : list (list str), (forall r, In r rows -> r <> []) ->
  partition_ids str_eqb (map m rows) = partition_ids row_eqb rows.
Proof.
  intros Hinj rows Hne. unfold partition_ids.
  rewrite map_map. apply map_ext_in. intros x Hx.
  apply first_index_ext. intros y Hy.
  destruct (row_eqb x y) eqn:E.
  - apply row_eqb_eq in E. subst y. apply str_eqb_eq. reflexivity.
  - destruct (str_eqb (m x) (m y)) eqn:E2; [|reflexivity].
    apply str_eqb_eq in E2. apply Hinj in E2; auto.
    subst y. assert (row_eqb x x = true) by (apply row_eqb_eq; reflexivity). congruence.
Qed.

Theorem partition_of_chain_ok steps sep :
  chain_ok steps sep = true ->
  forall rows : list (list str), (forall r, In r rows -> r <> []) ->
  partition_ids str_eqb (map (merge_with steps sep) rows) = partition_ids row_eqb rows.
Proof.
  intro Hok. apply partition_of_injective. apply merge_injective_of_chain_ok. exact Hok.
Qed.
