(* C14 -- base rate metrics are weighted confusion-matrix ratios for any binary encoding.
   Only statements, `exact`, and Print Assumptions.  The statements are about the label function
   and the unpacking order REGENERATED from /repo (FLGen.Gen_labels) on every run; the model
   (FL.BaseRates, evaluated in the correspondence run) is tied to them by C14_source_tie. *)
From Coq Require Import QArith ZArith List Bool.
From FL Require Import Num ListX BaseRates BaseRates_proofs BaseRatesSrc BaseRatesSrc_proofs.
From FLGen Require Gen_labels Gen_ratebodies.
Import ListNotations.
Open Scope Q_scope.

(* the four rate functions of the current source *)
Definition labels_src := Gen_labels.labels_for_cm.
Definition rates_src := rates_with labels_src.
Definition tpr_src a b sw pos := option_map (nth_cell Gen_labels.cell_of_true_positive_rate) (rates_src a b sw pos).
Definition tnr_src a b sw pos := option_map (nth_cell Gen_labels.cell_of_true_negative_rate) (rates_src a b sw pos).
Definition fpr_src a b sw pos := option_map (nth_cell Gen_labels.cell_of_false_positive_rate) (rates_src a b sw pos).
Definition fnr_src a b sw pos := option_map (nth_cell Gen_labels.cell_of_false_negative_rate) (rates_src a b sw pos).

(* the call is accepted with labels [n; p]: rows could be formed and the label function returned *)
Definition accepted_src (y_true y_pred : list Z) (sw : option (list Q)) (pos : option Z)
           (rows : list row) (n p : Z) : Prop :=
  mk_rows y_true y_pred sw = Some rows /\ labels_src (zuniq (y_true ++ y_pred)) pos = Some [n; p].

(* the regenerated fragment IS the model the correspondence run evaluates *)
Theorem C14_source_tie :
  (forall ul pos, labels_src ul pos = labels_for_cm ul pos) /\
  (forall a b sw pos, tpr_src a b sw pos = true_positive_rate a b sw pos) /\
  (forall a b sw pos, tnr_src a b sw pos = true_negative_rate a b sw pos) /\
  (forall a b sw pos, fpr_src a b sw pos = false_positive_rate a b sw pos) /\
  (forall a b sw pos, fnr_src a b sw pos = false_negative_rate a b sw pos).
Proof. repeat split; intros; reflexivity. Qed.
Print Assumptions C14_source_tie.

(* The BODIES of the seven functions, regenerated from /repo on every run (FLGen.Gen_ratebodies), evaluate
   to the model functions the correspondence run executes and the theorems below are about:
   - each rate: labels from np.unique of BOTH y_true and y_pred stacked, pos_label forwarded,
     confusion_matrix(y_true, y_pred, sample_weight=sample_weight, labels=<those labels>,
     normalize="true").ravel(), and the returned cell (eq_refl checks the shape by computation);
   - selection_rate: `selected = squeeze(y_pred) == pos_label`, ValueError on empty, weights squeeze(sample_weight)
     or np.ones(len(selected)), np.dot(selected, s_w) / s_w.sum(); default pos_label 1;
   - mean_prediction: np.dot(squeeze(y_pred), s_w) / s_w.sum() with the same weights;
   - count: check_consistent_length(y_true, y_pred); len(y_true).
   Trusted (named in BaseRates.v / BaseRatesSrc.v): sklearn's normalize="true" is weighted cells / row sum
   with 0 for an empty row (cm_norm); squeeze is the identity on 1-D data. *)
Theorem C14_source_bodies :
  (forall a b sw pos, eval_rate labels_src Gen_ratebodies.body_true_positive_rate a b sw pos
                      = true_positive_rate a b sw pos) /\
  (forall a b sw pos, eval_rate labels_src Gen_ratebodies.body_true_negative_rate a b sw pos
                      = true_negative_rate a b sw pos) /\
  (forall a b sw pos, eval_rate labels_src Gen_ratebodies.body_false_positive_rate a b sw pos
                      = false_positive_rate a b sw pos) /\
  (forall a b sw pos, eval_rate labels_src Gen_ratebodies.body_false_negative_rate a b sw pos
                      = false_negative_rate a b sw pos) /\
  (forall a b sw pos, eval_stm (mk_ctx a b sw pos) Gen_ratebodies.body_selection_rate = selection_rate b pos sw) /\
  (forall a b sw pos, eval_stm (mk_ctx a b sw pos) Gen_ratebodies.body_mean_prediction = mean_prediction b sw) /\
  (forall a b, eval_count Gen_ratebodies.body_count a b = count a b).
Proof.
  exact (source_bodies labels_src
           Gen_ratebodies.body_true_positive_rate Gen_ratebodies.body_true_negative_rate
           Gen_ratebodies.body_false_positive_rate Gen_ratebodies.body_false_negative_rate
           Gen_ratebodies.body_selection_rate Gen_ratebodies.body_mean_prediction Gen_ratebodies.body_count
           eq_refl eq_refl eq_refl eq_refl).
Qed.
Print Assumptions C14_source_bodies.

(* the default positive label of selection_rate (what the correspondence run uses for an omitted pos_label) *)
Theorem C14_selection_rate_default : Gen_ratebodies.selection_rate_default_pos_label = 1%Z.
Proof. exact eq_refl. Qed.
Print Assumptions C14_selection_rate_default.

(* labels_for_cm_spec: (other, pos) with pos last; a single value gets the missing class
   synthesised; >2 values, pos_label absent from two values, or no pos_label outside
   {0,1} / {-1,1} are rejected (None) *)
Theorem C14_labels_for_cm_spec : forall (ul : list Z) (pos : option Z),
  match labels_src ul pos with
  | Some l =>
      exists n p, l = [n; p] /\ resolved_pos ul pos = Some p /\
        ((ul = [p] /\ n = INT64_MIN) \/ (ul = [n] /\ n <> p) \/ ul = [p; n] \/ (ul = [n; p] /\ n <> p))
  | None =>
      resolved_pos ul pos = None
      \/ exists p, resolved_pos ul pos = Some p /\
           (ul = [] \/ (length ul > 2)%nat \/ (length ul = 2%nat /\ ~ In p ul))
  end.
Proof. exact labels_for_cm_spec. Qed.
Print Assumptions C14_labels_for_cm_spec.

(* the default positive label is 1 exactly for values within {0,1} or within {-1,1} *)
Theorem C14_default_pos_label : forall y_true y_pred sw,
  let l := y_true ++ y_pred in
  (((forall x, In x l -> x = 0 \/ x = 1)%Z \/ (forall x, In x l -> x = -1 \/ x = 1)%Z) ->
     rates_src y_true y_pred sw None = rates_src y_true y_pred sw (Some 1%Z)) /\
  (~ ((forall x, In x l -> x = 0 \/ x = 1)%Z \/ (forall x, In x l -> x = -1 \/ x = 1)%Z) ->
     rates_src y_true y_pred sw None = None).
Proof. exact default_pos_label. Qed.
Print Assumptions C14_default_pos_label.

(* rates_are_ratios: TPR = sum w[t=p, yhat=p] / sum w[t=p], ... (0 when the denominator is 0) *)
Theorem C14_rates_are_ratios : forall y_true y_pred sw pos rows n p,
  accepted_src y_true y_pred sw pos rows n p -> p <> INT64_MIN ->
  exists c, rates_src y_true y_pred sw pos = Some c /\
    q_tpr c == tpr_spec p rows /\ q_fnr c == fnr_spec p rows /\
    q_fpr c == fpr_spec p rows /\ q_tnr c == tnr_spec p rows.
Proof. exact rates_are_ratios. Qed.
Print Assumptions C14_rates_are_ratios.

Theorem C14_rates_unit_interval : forall y_true y_pred sw pos c,
  rates_src y_true y_pred sw pos = Some c ->
  (forall w, In w (weights_or_ones (length y_true) sw) -> 0 <= w) ->
  (0 <= q_tpr c <= 1) /\ (0 <= q_fnr c <= 1) /\ (0 <= q_fpr c <= 1) /\ (0 <= q_tnr c <= 1).
Proof. exact rates_unit_interval. Qed.
Print Assumptions C14_rates_unit_interval.

(* complement: a positive row exists -> TPR + FNR == 1, else both 0; same for TNR + FPR *)
Theorem C14_complement : forall y_true y_pred sw pos rows n p,
  accepted_src y_true y_pred sw pos rows n p -> p <> INT64_MIN ->
  (forall r, In r rows -> 0 < wt r) ->
  exists c, rates_src y_true y_pred sw pos = Some c /\
    (In p y_true -> q_tpr c + q_fnr c == 1) /\
    (~ In p y_true -> q_tpr c == 0 /\ q_fnr c == 0) /\
    ((exists y, In y y_true /\ y <> p) -> q_tnr c + q_fpr c == 1) /\
    ((forall y, In y y_true -> y = p) -> q_tnr c == 0 /\ q_fpr c == 0).
Proof. exact complement. Qed.
Print Assumptions C14_complement.

(* pos_label_switch: on a two-valued encoding {a,b} both choices are accepted and exchange
   TPR<->TNR and FPR<->FNR (also when only one of the two values occurs in the data) *)
Theorem C14_pos_label_switch : forall y_true y_pred sw rows a b,
  mk_rows y_true y_pred sw = Some rows -> y_true <> [] ->
  a <> b -> a <> INT64_MIN -> b <> INT64_MIN ->
  (forall x, In x (y_true ++ y_pred) -> x = a \/ x = b) ->
  exists ca cb,
    rates_src y_true y_pred sw (Some a) = Some ca /\ rates_src y_true y_pred sw (Some b) = Some cb /\
    q_tpr ca == q_tnr cb /\ q_tnr ca == q_tpr cb /\ q_fpr ca == q_fnr cb /\ q_fnr ca == q_fpr cb.
Proof. exact pos_label_switch. Qed.
Print Assumptions C14_pos_label_switch.

(* encoding_invariance: an injective recoding of the labels (pos_label recoded too) is accepted
   iff the original is, and gives the same four rates *)
Theorem C14_encoding_invariance : forall (f : Z -> Z) y_true y_pred sw p,
  (forall x y, f x = f y -> x = y) -> p <> INT64_MIN -> f p <> INT64_MIN ->
  match rates_src y_true y_pred sw (Some p), rates_src (map f y_true) (map f y_pred) sw (Some (f p)) with
  | Some c, Some c' =>
      q_tpr c == q_tpr c' /\ q_fnr c == q_fnr c' /\ q_fpr c == q_fpr c' /\ q_tnr c == q_tnr c'
  | None, None => True
  | _, _ => False
  end.
Proof. exact encoding_invariance. Qed.
Print Assumptions C14_encoding_invariance.

(* selection_rate = weighted fraction of predictions equal to pos_label (a finite scalar) *)
Theorem C14_selection_rate_spec : forall y_true y_pred sw p rows,
  mk_rows y_true y_pred sw = Some rows -> 0 < total_weight rows ->
  exists q, selection_rate y_pred p sw = Some (Fin q) /\ q == sel_spec p rows.
Proof. exact selection_rate_spec. Qed.
Print Assumptions C14_selection_rate_spec.

Theorem C14_mean_prediction_spec : forall y_true y_pred sw rows,
  mk_rows y_true y_pred sw = Some rows -> 0 < total_weight rows ->
  exists q, mean_prediction y_pred sw = Some (Fin q) /\ q == mean_spec rows.
Proof. exact mean_prediction_spec. Qed.
Print Assumptions C14_mean_prediction_spec.

Theorem C14_count_spec : forall y_true y_pred : list Z,
  (length y_true = length y_pred -> count y_true y_pred = Some (length y_true)) /\
  (length y_true <> length y_pred -> count y_true y_pred = None).
Proof. exact count_spec. Qed.
Print Assumptions C14_count_spec.

(* non-vacuity: the premises hold on a weighted (2,5)-encoded input with pos_label 5; the
   regenerated functions compute TPR 2/3, FNR 1/3, FPR 1/4, TNR 3/4 there, and a
   single-valued input gets the placeholder negative class *)
Example C14_example :
  let y_true := [2; 5; 2; 5]%Z in let y_pred := [5; 5; 2; 2]%Z in
  let sw := Some [1; 2; 3; 1] in
  (exists rows, accepted_src y_true y_pred sw (Some 5%Z) rows 2 5 /\ (forall r, In r rows -> 0 < wt r)
                /\ 0 < total_weight rows) /\
  option_map Qred (tpr_src y_true y_pred sw (Some 5%Z)) = Some (2 # 3) /\
  option_map Qred (fnr_src y_true y_pred sw (Some 5%Z)) = Some (1 # 3) /\
  option_map Qred (fpr_src y_true y_pred sw (Some 5%Z)) = Some (1 # 4) /\
  option_map Qred (tnr_src y_true y_pred sw (Some 5%Z)) = Some (3 # 4) /\
  labels_src (zuniq [1; 1]%Z) None = Some [INT64_MIN; 1%Z].
Proof.
  cbv zeta. split; [|vm_compute; repeat split; reflexivity].
  eexists. split; [split; vm_compute; reflexivity|]. split.
  - intros r Hr. cbn in Hr. repeat (destruct Hr as [<- | Hr]; [reflexivity|]). contradiction.
  - reflexivity.
Qed.
