(* C07 -- reduction identity: sample re-weighting is the exact gradient of the Lagrangian.
   Only statements, `exact`, and Print Assumptions.  gamma / signed_weights / project_lambda / relabel /
   reweight are the definitions of FL.Moments and FL.Reduction that the correspondence run evaluates. *)
From Coq Require Import QArith ZArith List.
From FL Require Import Num Moments Moments_proofs Reduction Reduction_proofs.
From FLGen Require Gen_moments.
Import ListNotations.
Open Scope Q_scope.

(* for EVERY multiplier vector lam (no sign condition), every ratio and any two prediction vectors *)
Theorem C07_reduction_identity :
  forall (k : kind) (r : Q) (rows : list row) (lam h h' : list Q),
  length h = length rows -> length h' = length rows ->
  dot lam (gamma k r rows h) - dot lam (gamma k r rows h')
  == - (1 / nrows rows) * dot (signed_weights k r rows lam) (vsub h h').
Proof. exact reduction_identity. Qed.
Print Assumptions C07_reduction_identity.

(* ErrorRate.gamma is the cost-weighted error (linear extension to soft h) ... *)
Theorem C07_error_rate_gamma_spec :
  forall (fp fn : Q) (rows : list row) (h : list Q),
  binary_rows rows -> soft h -> length h = length rows ->
  er_gamma fp fn rows h == qsum (zipw (er_cost fp fn) rows h) / nrows rows.
Proof. exact error_rate_gamma_spec. Qed.
Print Assumptions C07_error_rate_gamma_spec.

(* ... and its gradient is -(1/n) * (-c_fp + (c_fp + c_fn) y_i) *)
Theorem C07_objective_identity :
  forall (fp fn : Q) (rows : list row) (h h' : list Q),
  binary_rows rows -> soft h -> soft h' -> length h = length rows -> length h' = length rows ->
  er_gamma fp fn rows h - er_gamma fp fn rows h'
  == - (1 / nrows rows) * dot (er_signed_weights fp fn rows) (vsub h h').
Proof. exact objective_identity. Qed.
Print Assumptions C07_objective_identity.

Theorem C07_lagrangian_identity :
  forall (k : kind) (r eps fp fn : Q) (rows : list row) (lam h h' : list Q),
  binary_rows rows -> soft h -> soft h' -> length h = length rows -> length h' = length rows ->
  lagrangian k r eps fp fn rows lam h - lagrangian k r eps fp fn rows lam h'
  == - (1 / nrows rows) * dot (oracle_weights k r fp fn rows lam) (vsub h h').
Proof. exact lagrangian_identity. Qed.
Print Assumptions C07_lagrangian_identity.

(* weighted 0/1 error against labels 1[w>0] with weights |w| orders hard hypotheses exactly as
   objective + lambda.(gamma - bound): a learner minimising the former minimises the Lagrangian *)
Theorem C07_cost_sensitive_equiv :
  forall (k : kind) (r eps fp fn : Q) (rows : list row) (lam h h' : list Q),
  rows <> [] ->
  binary_rows rows -> hard h -> hard h' -> length h = length rows -> length h' = length rows ->
  let w := oracle_weights k r fp fn rows lam in
  w01 (reweight w) (relabel w) h <= w01 (reweight w) (relabel w) h'
  <-> lagrangian k r eps fp fn rows lam h <= lagrangian k r eps fp fn rows lam h'.
Proof. exact cost_sensitive_equiv. Qed.
Print Assumptions C07_cost_sensitive_equiv.

Theorem C07_project_lambda_sound :
  forall (k : kind) (r eps : Q) (rows : list row) (lam : list Q),
  r == 1 -> 0 <= eps ->
  length lam = length (index k rows) -> Forall (fun x => 0 <= x) lam ->
  let m := length (pairs_of k rows) in
  let lam' := project_lambda r m lam in
  Forall (fun x => 0 <= x) lam' /\ length lam' = length lam /\
  forall h, dot lam (vsub (gamma k r rows h) (bound eps k rows))
            <= dot lam' (vsub (gamma k r rows h) (bound eps k rows)).
Proof. exact project_lambda_sound. Qed.
Print Assumptions C07_project_lambda_sound.

Theorem C07_project_lambda_ratio :
  forall (r : Q) (m : nat) (lam : list Q), ~ r == 1 -> project_lambda r m lam = lam.
Proof. exact project_lambda_ratio. Qed.
Print Assumptions C07_project_lambda_ratio.

(* source tie: signed_weights is written with the expression regenerated from UtilityParity.signed_weights, over
   the same matrix Umat whose entries props/C06.v ties to the source (C06_src_uentry) *)
Theorem C07_src_signed_weights :
  forall k r rows lam,
  signed_weights k r rows lam
  = zipw Gen_moments.sw_entry (map (udiff k) rows) (lincomb (length rows) (Umat k r rows) lam).
Proof. exact src_signed_weights. Qed.
Print Assumptions C07_src_signed_weights.

(* BoundedGroupLoss: lambda . gamma(h) = (1/n) sum_i w_i loss_i(h), w_i = lambda_{g(i)} / P(g(i)) *)
Theorem C07_loss_identity :
  forall (l : loss) (rows : list lrow) (lam h : list Q),
  length h = length rows ->
  dot lam (bgl_gamma l rows h)
  == (1 / inject_nat (length rows)) * dot (bgl_signed_weights rows lam) (losses l rows h).
Proof. exact loss_identity. Qed.
Print Assumptions C07_loss_identity.

(* the n / sum|w| rescaling that _call_oracle applies to the weights does not change the order of hypotheses
   (reweight_eg = None exactly when every weight is 0, where the implementation divides 0 by 0) *)
Theorem C07_reweight_eg_order :
  forall (w ww yy h h' : list Q),
  reweight_eg w = Some ww ->
  (w01 ww yy h <= w01 ww yy h' <-> w01 (reweight w) yy h <= w01 (reweight w) yy h').
Proof. exact reweight_eg_order. Qed.
Print Assumptions C07_reweight_eg_order.

(* non-vacuity: equalized odds with a ratio bound on 5 rows; premises hold and both sides of the identity are
   the same non-zero rational *)
Example C07_example :
  let rows := [mkRow 0 0 None; mkRow 1 0 None; mkRow 1 1 None; mkRow 0 1 None; mkRow 1 1 None] in
  let lam := [2; 0; 1 # 2; 0; 0; 1; 0; 3] in
  let h := [1; 0; 1; 0; 1 # 2] in let h' := [0; 0; 0; 1; 1] in
  length lam = length (index EO rows) /\ binary_rows rows /\
  ~ dot lam (gamma EO (1 # 2) rows h) - dot lam (gamma EO (1 # 2) rows h') == 0 /\
  dot lam (gamma EO (1 # 2) rows h) - dot lam (gamma EO (1 # 2) rows h')
  == - (1 / nrows rows) * dot (signed_weights EO (1 # 2) rows lam) (vsub h h').
Proof.
  cbv zeta. split; [reflexivity|]. split; [repeat (apply Forall_cons; [cbn; first [left; reflexivity | right; reflexivity]|]); apply Forall_nil|]. split; vm_compute; congruence.
Qed.
