(* C07 -- reduction identity: sample re-weighting is the exact gradient of the Lagrangian.
   Only statements, `exact`, and Print Assumptions.  gamma / signed_weights / project_lambda / relabel /
   reweight are the definitions of FL.Moments and FL.Reduction that the correspondence run evaluates. *)
From Coq Require Import QArith ZArith List.
From FL Require Import Num ListX Moments Moments_proofs Reduction Reduction_proofs ReductionExt ReductionExt_proofs.
From FLGen Require Gen_moments Gen_reduction.
Import ListNotations.
Open Scope Q_scope.

(* for EVERY multiplier vector lam (no sign condition), every ratio and any two prediction vectors *)
Theorem C07_reduction_identity :
  forall (k : kind) (r : Q) (rows : list row) (lam h h' : list Q),
  length h = length rows -> length h' = length rows ->
  dot lam (gamma k r rows h) - dot lam (gamma k r rows h')
  == - (1 / nrows rows) * dot (signed_weights k r rows lam) (vsub h h').
Proof. exact reduction_identity. Qed.
Print Assumptions C07_reduction_identity.

(* ErrorRate.gamma is the cost-weighted error (linear extension to soft h) ... *)
Theorem C07_error_rate_gamma_spec :
  forall (fp fn : Q) (rows : list row) (h : list Q),
  binary_rows rows -> soft h -> length h = length rows ->
  er_gamma fp fn rows h == qsum (zipw (er_cost fp fn) rows h) / nrows rows.
Proof. exact error_rate_gamma_spec. Qed.
Print Assumptions C07_error_rate_gamma_spec.

(* ... and its gradient is -(1/n) * (-c_fp + (c_fp + c_fn) y_i) *)
Theorem C07_objective_identity :
  forall (fp fn : Q) (rows : list row) (h h' : list Q),
  binary_rows rows -> soft h -> soft h' -> length h = length rows -> length h' = length rows ->
  er_gamma fp fn rows h - er_gamma fp fn rows h'
  == - (1 / nrows rows) * dot (er_signed_weights fp fn rows) (vsub h h').
Proof. exact objective_identity. Qed.
Print Assumptions C07_objective_identity.

Theorem C07_lagrangian_identity :
  forall (k : kind) (r eps fp fn : Q) (rows : list row) (lam h h' : list Q),
  binary_rows rows -> soft h -> soft h' -> length h = length rows -> length h' = length rows ->
  lagrangian k r eps fp fn rows lam h - lagrangian k r eps fp fn rows lam h'
  == - (1 / nrows rows) * dot (oracle_weights k r fp fn rows lam) (vsub h h').
Proof. exact lagrangian_identity. Qed.
Print Assumptions C07_lagrangian_identity.

(* weighted 0/1 error against labels 1[w>0] with weights |w| orders hard hypotheses exactly as
   objective + lambda.(gamma - bound): a learner minimising the former minimises the Lagrangian *)
Theorem C07_cost_sensitive_equiv :
  forall (k : kind) (r eps fp fn : Q) (rows : list row) (lam h h' : list Q),
  rows <> [] ->
  binary_rows rows -> hard h -> hard h' -> length h = length rows -> length h' = length rows ->
  let w := oracle_weights k r fp fn rows lam in
  w01 (reweight w) (relabel w) h <= w01 (reweight w) (relabel w) h'
  <-> lagrangian k r eps fp fn rows lam h <= lagrangian k r eps fp fn rows lam h'.
Proof. exact cost_sensitive_equiv. Qed.
Print Assumptions C07_cost_sensitive_equiv.

Theorem C07_project_lambda_sound :
  forall (k : kind) (r eps : Q) (rows : list row) (lam : list Q),
  r == 1 -> 0 <= eps ->
  length lam = length (index k rows) -> Forall (fun x => 0 <= x) lam ->
  let m := length (pairs_of k rows) in
  let lam' := project_lambda r m lam in
  Forall (fun x => 0 <= x) lam' /\ length lam' = length lam /\
  forall h, dot lam (vsub (gamma k r rows h) (bound eps k rows))
            <= dot lam' (vsub (gamma k r rows h) (bound eps k rows)).
Proof. exact project_lambda_sound. Qed.
Print Assumptions C07_project_lambda_sound.

Theorem C07_project_lambda_ratio :
  forall (r : Q) (m : nat) (lam : list Q), ~ r == 1 -> project_lambda r m lam = lam.
Proof. exact project_lambda_ratio. Qed.
Print Assumptions C07_project_lambda_ratio.

(* source tie: signed_weights is written with the expression regenerated from UtilityParity.signed_weights, over
   the same matrix Umat whose entries props/C06.v ties to the source (C06_src_uentry) *)
Theorem C07_src_signed_weights :
  forall k r rows lam,
  signed_weights k r rows lam
  = zipw Gen_moments.sw_entry (map (udiff k) rows) (lincomb (length rows) (Umat k r rows) lam).
Proof. exact src_signed_weights. Qed.
Print Assumptions C07_src_signed_weights.

(* BoundedGroupLoss: lambda . gamma(h) = (1/n) sum_i w_i loss_i(h), w_i = lambda_{g(i)} / P(g(i)) *)
Theorem C07_loss_identity :
  forall (l : loss) (rows : list lrow) (lam h : list Q),
  length h = length rows ->
  dot lam (bgl_gamma l rows h)
  == (1 / inject_nat (length rows)) * dot (bgl_signed_weights rows lam) (losses l rows h).
Proof. exact loss_identity. Qed.
Print Assumptions C07_loss_identity.

(* the n / sum|w| rescaling that _call_oracle applies to the weights does not change the order of hypotheses
   (reweight_eg = None exactly when every weight is 0, where the implementation divides 0 by 0) *)
Theorem C07_reweight_eg_order :
  forall (w ww yy h h' : list Q),
  reweight_eg w = Some ww ->
  (w01 ww yy h <= w01 ww yy h' <-> w01 (reweight w) yy h <= w01 (reweight w) yy h').
Proof. exact reweight_eg_order. Qed.
Print Assumptions C07_reweight_eg_order.

(* ================= second phase: source ties regenerated by translators/t_reduction.py =================
   Each `exact` succeeds only if the fragment regenerated from the CURRENT source is convertible with the
   definition of Reduction.v / Moments.v / ReductionExt.v that the theorems above and the correspondence run use. *)
Module R := Gen_reduction.

(* UtilityParity.project_lambda, whole body: the `ratio == 1.0` test, lambda+ - lambda-, its negation, the two
   clippings at 0, the '+' ++ '-' concatenation, and `return lambda_vec` otherwise *)
Theorem C07_src_project_lambda :
  forall r m lam, project_lambda r m lam = R.project_lambda_src r m lam.
Proof. exact src_project_lambda. Qed.
Print Assumptions C07_src_project_lambda.

(* ErrorRate: default costs, the one-entry index, gamma (signed errors, the two masked sums, the division) and
   signed_weights without and with a multiplier *)
Theorem C07_src_error_rate :
  forall fp fn rows h l,
  er_default_costs = R.er_default_costs_src /\ er_index = R.er_index_src /\
  er_gamma fp fn rows h =
    (let signed_errors := zipw (fun rw p => R.er_signed_error_src (inject_Z (ry rw)) p) rows h in
     R.er_error_value_src (R.er_total_fn_src fp fn signed_errors) (R.er_total_fp_src fp fn signed_errors)
                          (nrows rows)) /\
  er_signed_weights fp fn rows = map (fun rw => R.er_weight_src fp fn (inject_Z (ry rw))) rows /\
  er_signed_weights_lam fp fn rows l = map (R.er_weight_lam_src l) (er_signed_weights fp fn rows).
Proof. exact src_error_rate. Qed.
Print Assumptions C07_src_error_rate.

(* ConditionalLossMoment: prob_attr = group size / n; signed_weights whole body (unit adjust when lambda_vec is
   None, lambda_g / P(g) otherwise, looked up by the row's group); bgl_signed_weights is its Some case *)
Theorem C07_src_loss_weights :
  forall rows lam,
  prob_attr rows
  = map (fun g => R.prob_attr_entry_src (inject_nat (count_if (fun rw : lrow => (snd rw =? g)%Z) rows))
                                        (inject_nat (length rows))) (bgl_index rows) /\
  bgl_signed_weights_opt rows lam = R.bgl_signed_weights_src rows lam /\
  forall l, bgl_signed_weights rows l = bgl_signed_weights_opt rows (Some l).
Proof. exact src_loss_weights. Qed.
Print Assumptions C07_src_loss_weights.

(* _Lagrangian._call_oracle: objective + constraint weights, 1 * (w > 0), |w|, n |w| / sum |w| (None = 0/0), and
   the single-label test with the constant handed to DummyClassifier *)
Theorem C07_src_call_oracle :
  forall k r fp fn rows lam w,
  oracle_weights k r fp fn rows lam
  = zipw R.co_weights_entry_src (er_signed_weights fp fn rows) (signed_weights k r rows lam) /\
  relabel w = map R.co_relabel_entry_src w /\
  reweight w = map R.co_abs_entry_src w /\
  reweight_eg w
  = (let redW := map R.co_abs_entry_src w in
     let s := qsum redW in
     if Qeqb s 0 then None else Some (map (fun a => R.co_norm_entry_src (inject_nat (length w)) a s) redW)) /\
  dummy_constant w = R.co_dummy_constant_src w.
Proof. exact src_call_oracle. Qed.
Print Assumptions C07_src_call_oracle.

(* ================= second phase: further theorems ================= *)

(* the re-weighting is linear in the multiplier (so the identity for unit multipliers extends to all) *)
Theorem C07_signed_weights_linear :
  forall (k : kind) (r : Q) (rows : list row) (c : Q) (a b : list Q) (m : nat),
  (length a = length b ->
   Forall2 Qeq (signed_weights k r rows (vadd a b)) (vadd (signed_weights k r rows a) (signed_weights k r rows b))) /\
  Forall2 Qeq (signed_weights k r rows (map (Qmult c) a)) (map (Qmult c) (signed_weights k r rows a)) /\
  Forall2 Qeq (signed_weights k r rows (repeat 0 m)) (repeat 0 (length rows)).
Proof. exact signed_weights_linear. Qed.
Print Assumptions C07_signed_weights_linear.

Theorem C07_loss_weights_linear :
  forall (rows : list lrow) (c : Q) (a b : list Q) (m : nat),
  (length a = length b ->
   Forall2 Qeq (bgl_signed_weights rows (vadd a b)) (vadd (bgl_signed_weights rows a) (bgl_signed_weights rows b))) /\
  Forall2 Qeq (bgl_signed_weights rows (map (Qmult c) a)) (map (Qmult c) (bgl_signed_weights rows a)) /\
  Forall2 Qeq (bgl_signed_weights rows (repeat 0 m)) (repeat 0 (length rows)).
Proof. exact bgl_signed_weights_linear. Qed.
Print Assumptions C07_loss_weights_linear.

Theorem C07_error_rate_weights_linear :
  forall (fp fn : Q) (rows : list row) (l1 l2 : Q),
  Forall2 Qeq (er_signed_weights_lam fp fn rows (l1 + l2))
              (vadd (er_signed_weights_lam fp fn rows l1) (er_signed_weights_lam fp fn rows l2)) /\
  Forall2 Qeq (er_signed_weights_lam fp fn rows 0) (repeat 0 (length rows)) /\
  er_signed_weights_lam fp fn rows 1 = map (Qmult 1) (er_signed_weights fp fn rows).
Proof. exact er_signed_weights_lam_linear. Qed.
Print Assumptions C07_error_rate_weights_linear.

(* signed_weights() of a loss moment: every row has weight 1 (no row falls outside the index) ... *)
Theorem C07_loss_unit_weights :
  forall rows : list lrow, bgl_signed_weights_opt rows None = map (fun _ => 1) rows.
Proof. exact bgl_unit_weights. Qed.
Print Assumptions C07_loss_unit_weights.

(* ... with which (1/n) sum_i w_i loss_i is the overall mean loss (the MeanLoss objective) ... *)
Theorem C07_mean_loss_identity :
  forall (l : loss) (rows : list lrow) (h : list Q),
  length h = length rows ->
  (1 / inject_nat (length rows)) * dot (bgl_signed_weights_opt rows None) (losses l rows h)
  == qsum (losses l rows h) / inject_nat (length rows).
Proof. exact mean_loss_identity. Qed.
Print Assumptions C07_mean_loss_identity.

(* ... and which are the weights of the multiplier prob_attr (= default_objective_lambda_vec) *)
Theorem C07_default_objective_weights :
  forall rows : list lrow,
  Forall2 Qeq (bgl_signed_weights rows (prob_attr rows)) (bgl_signed_weights_opt rows None).
Proof. exact bgl_default_objective_weights. Qed.
Print Assumptions C07_default_objective_weights.

(* the single-label branch: when the relabelled data carry one label c, the constant classifier c that
   _call_oracle returns WITHOUT training has weighted error 0 <= that of every h ... *)
Theorem C07_dummy_optimal :
  forall (w h : list Q) (c : Q),
  dummy_constant (relabel w) = Some c ->
  w01 (reweight w) (relabel w) (const_h c (length w)) == 0 /\
  w01 (reweight w) (relabel w) (const_h c (length w)) <= w01 (reweight w) (relabel w) h.
Proof. exact dummy_optimal. Qed.
Print Assumptions C07_dummy_optimal.

(* ... hence minimises objective + lambda.(gamma - bound) over all hard hypotheses *)
Theorem C07_dummy_minimises_lagrangian :
  forall (k : kind) (r eps fp fn : Q) (rows : list row) (lam h : list Q) (c : Q),
  binary_rows rows -> hard h -> length h = length rows ->
  let w := oracle_weights k r fp fn rows lam in
  dummy_constant (relabel w) = Some c ->
  lagrangian k r eps fp fn rows lam (const_h c (length rows)) <= lagrangian k r eps fp fn rows lam h.
Proof. exact dummy_minimises_lagrangian. Qed.
Print Assumptions C07_dummy_minimises_lagrangian.

(* non-vacuity of the single-label branch: demographic parity, all labels 1, lambda = 0: every weight is +1 *)
Example C07_example_dummy :
  let rows := [mkRow 1 0 None; mkRow 1 1 None; mkRow 1 0 None] in
  dummy_constant (relabel (oracle_weights DP 1 1 1 rows (repeat 0 4))) = Some 1 /\
  dummy_constant (relabel (oracle_weights DP 1 1 1 (mkRow 0 1 None :: rows) (repeat 0 4))) = None.
Proof. cbv zeta. split; vm_compute; reflexivity. Qed.

(* non-vacuity: equalized odds with a ratio bound on 5 rows; premises hold and both sides of the identity are
   the same non-zero rational *)
Example C07_example :
  let rows := [mkRow 0 0 None; mkRow 1 0 None; mkRow 1 1 None; mkRow 0 1 None; mkRow 1 1 None] in
  let lam := [2; 0; 1 # 2; 0; 0; 1; 0; 3] in
  let h := [1; 0; 1; 0; 1 # 2] in let h' := [0; 0; 0; 1; 1] in
  length lam = length (index EO rows) /\ binary_rows rows /\
  ~ dot lam (gamma EO (1 # 2) rows h) - dot lam (gamma EO (1 # 2) rows h') == 0 /\
  dot lam (gamma EO (1 # 2) rows h) - dot lam (gamma EO (1 # 2) rows h')
  == - (1 / nrows rows) * dot (signed_weights EO (1 # 2) rows lam) (vsub h h').
Proof.
  cbv zeta. split; [reflexivity|]. split; [repeat (apply Forall_cons; [cbn; first [left; reflexivity | right; reflexivity]|]); apply Forall_nil|]. split; vm_compute; congruence.
Qed.
