(* C07 -- reduction identity: sample re-weighting is the exact gradient of the Lagrangian.
   Only statements, `exact`, and Print Assumptions. *)
From Coq Require Import QArith ZArith List.
From FL Require Import Num Moments Moments_proofs Reduction Reduction_proofs.
Import ListNotations.
Open Scope Q_scope.

(* for EVERY multiplier vector lam (no sign condition) and any two prediction vectors *)
Theorem C07_reduction_identity :
  forall (k : kind) (r : Q) (rows : list row) (lam h h' : list Q),
  length h = length rows -> length h' = length rows ->
  dot lam (gamma k r rows h) - dot lam (gamma k r rows h')
  == - (1 / nrows rows) * dot (signed_weights k r rows lam) (vsub h h').
Proof. exact reduction_identity. Qed.
Print Assumptions C07_reduction_identity.

Theorem C07_objective_identity :
  forall (fp fn : Q) (rows : list row) (h h' : list Q),
  binary_rows rows -> soft h -> soft h' -> length h = length rows -> length h' = length rows ->
  er_gamma fp fn rows h - er_gamma fp fn rows h'
  == - (1 / nrows rows) * dot (er_signed_weights fp fn rows) (vsub h h').
Proof. exact objective_identity. Qed.
Print Assumptions C07_objective_identity.

Theorem C07_cost_sensitive_equiv :
  forall (k : kind) (r eps fp fn : Q) (rows : list row) (lam h h' : list Q),
  rows <> [] ->
  binary_rows rows -> hard h -> hard h' -> length h = length rows -> length h' = length rows ->
  let w := oracle_weights k r fp fn rows lam in
  w01 (reweight w) (relabel w) h <= w01 (reweight w) (relabel w) h'
  <-> lagrangian k r eps fp fn rows lam h <= lagrangian k r eps fp fn rows lam h'.
Proof. exact cost_sensitive_equiv. Qed.
Print Assumptions C07_cost_sensitive_equiv.
