(* C03 -- named fairness metrics equal their first-principles definitions.
   Only statements, `exact` (the two source-tie theorems: reflexivity), Print Assumptions.  All theorems are about the definitions of FL.Fairness
   that the correspondence run evaluates (derived / equalized_odds_* / derived_call), which are built
   from FL.BaseRates (C14) and FL.Aggregates (C02).  C03_fairness_source_tie: the composition of the six
   named functions, the keyword classification and transform chain of _DerivedMetric.__call__ and
   METRICS_SPEC, REGENERATED from /repo on every run (FLGen.Gen_fairness, translators/t_fairness.py), are the
   definitions of the model; C03_source_tie does the same for the two fragments the reused C14 / C02 models
   depend on (label function, ratio fold).

   Reading guide.  For a data set `valid y_true y_pred sf sw rows` (consistent columns, >= 1 row, 0/1
   labels, positive weights; rows = the weighted rows, sf = the group code of every row):
     group_rates spec (combine sf rows) = [ spec (rows of group g) | g in sorted unique groups ]
   with spec one of sel_spec 1 / tpr_spec 1 / fpr_spec 1 / tnr_spec 1 / fnr_spec 1 (the weighted ratios of
   C14_rates_are_ratios / C14_selection_rate_spec; an empty denominator gives 0) or acc_spec / zol_spec.
   family_is f qs o says, for the function family f of one base metric, the group rates qs and the overall rate o:
     f difference between_groups = max qs - min qs (in [0,1]);  f difference to_overall = max_g |q_g - o|;
     f ratio between_groups = min qs / max qs when max qs > 0 (in [0,1]) and NaN when max qs = 0;
     f ratio to_overall = min_g fold(q_g / o) when o > 0, NaN / 0 when o = 0;  group_min / group_max.
   Single-member groups and groups without positives / negatives are covered (no premise excludes them). *)
From Coq Require Import QArith ZArith List Bool.
From FL Require Disagg.
From FL Require Import Num ListX BaseRates BaseRates_proofs Aggregates Aggregates_proofs Fairness Fairness_proofs.
From FLGen Require Gen_labels Gen_ratio Gen_fairness.
Import ListNotations.
Open Scope Q_scope.

(* the regenerated label function and ratio fold ARE the ones inside the model *)
Theorem C03_source_tie :
  (forall ul pos, Gen_labels.labels_for_cm ul pos = labels_for_cm ul pos) /\
  (forall x, Gen_ratio.ratio_sub_one x = ratio_sub_one x) /\
  (forall a b sw pos, option_map (nth_cell Gen_labels.cell_of_true_positive_rate) (rates a b sw pos)
                      = true_positive_rate a b sw pos) /\
  (forall a b sw pos, option_map (nth_cell Gen_labels.cell_of_false_positive_rate) (rates a b sw pos)
                      = false_positive_rate a b sw pos) /\
  (forall a b sw pos, option_map (nth_cell Gen_labels.cell_of_true_negative_rate) (rates a b sw pos)
                      = true_negative_rate a b sw pos) /\
  (forall a b sw pos, option_map (nth_cell Gen_labels.cell_of_false_negative_rate) (rates a b sw pos)
                      = false_negative_rate a b sw pos).
Proof. repeat split; intros; reflexivity. Qed.
Print Assumptions C03_source_tie.

(* the regenerated compositions ARE the model's functions (so every theorem below is a theorem about
   the fragment regenerated from the source) *)
Theorem C03_fairness_source_tie :
  (forall m a b s w, Gen_fairness.demographic_parity_difference m a b s w = demographic_parity_difference m a b s w) /\
  (forall m a b s w, Gen_fairness.demographic_parity_ratio m a b s w = demographic_parity_ratio m a b s w) /\
  (forall m a b s w, Gen_fairness.equal_opportunity_difference m a b s w = equal_opportunity_difference m a b s w) /\
  (forall m a b s w, Gen_fairness.equal_opportunity_ratio m a b s w = equal_opportunity_ratio m a b s w) /\
  (forall m g a b s w, Gen_fairness.equalized_odds_difference m g a b s w = equalized_odds_difference m g a b s w) /\
  (forall m g a b s w, Gen_fairness.equalized_odds_ratio m g a b s w = equalized_odds_ratio m g a b s w) /\
  Gen_fairness.parameters_for_transforms = parameters_for_transforms /\
  (forall sn k, Gen_fairness.classify sn k = classify sn k) /\
  (forall t, Gen_fairness.transform_of t = transform_of t) /\
  Gen_fairness.metrics_spec = generated_spec /\
  Gen_fairness.generated_sample_param_names = [n_sample_weight].
Proof.
  repeat split; intros; try reflexivity; symmetry;
    first [apply equalized_odds_difference_unfold | apply equalized_odds_ratio_unfold].
Qed.
Print Assumptions C03_fairness_source_tie.

(* dp_difference_spec + dp_ratio_spec (both methods) + bounds: demographic parity is the stated function
   of the per-group weighted selection rates computed directly from the rows *)
Theorem C03_demographic_parity_spec :
  forall y_true y_pred sf sw rows, valid y_true y_pred sf sw rows ->
  let rates := group_rates (sel_spec 1) (combine sf rows) in
  good_frame rates (sel_spec 1 rows) /\
  diff_between_is (demographic_parity_difference Between y_true y_pred sf sw) rates /\
  diff_overall_is (demographic_parity_difference ToOverall y_true y_pred sf sw) rates (sel_spec 1 rows) /\
  ratio_between_is (demographic_parity_ratio Between y_true y_pred sf sw) rates /\
  ratio_overall_is (demographic_parity_ratio ToOverall y_true y_pred sf sw) rates (sel_spec 1 rows).
Proof. exact demographic_parity_direct. Qed.
Print Assumptions C03_demographic_parity_spec.

(* equal opportunity: the same with the per-group weighted true positive rates *)
Theorem C03_equal_opportunity_spec :
  forall y_true y_pred sf sw rows, valid y_true y_pred sf sw rows ->
  let rates := group_rates (tpr_spec 1) (combine sf rows) in
  good_frame rates (tpr_spec 1 rows) /\
  diff_between_is (equal_opportunity_difference Between y_true y_pred sf sw) rates /\
  diff_overall_is (equal_opportunity_difference ToOverall y_true y_pred sf sw) rates (tpr_spec 1 rows) /\
  ratio_between_is (equal_opportunity_ratio Between y_true y_pred sf sw) rates /\
  ratio_overall_is (equal_opportunity_ratio ToOverall y_true y_pred sf sw) rates (tpr_spec 1 rows).
Proof. exact equal_opportunity_direct. Qed.
Print Assumptions C03_equal_opportunity_spec.

(* every generated <metric>_{difference,ratio,group_min,group_max}: one theorem per base metric.
   good_frame: >= 1 group and every rate in [0,1] *)
Theorem C03_generated_selection_rate_spec :
  forall y_true y_pred sf sw rows, valid y_true y_pred sf sw rows ->
  let rates := group_rates (sel_spec 1) (combine sf rows) in
  good_frame rates (sel_spec 1 rows) /\
  family_is (fun t m => derived BSel t m y_true y_pred sf sw) rates (sel_spec 1 rows).
Proof. exact (derived_direct BSel (sel_spec 1) base_ok_sel). Qed.
Print Assumptions C03_generated_selection_rate_spec.

Theorem C03_generated_true_positive_rate_spec :
  forall y_true y_pred sf sw rows, valid y_true y_pred sf sw rows ->
  let rates := group_rates (tpr_spec 1) (combine sf rows) in
  good_frame rates (tpr_spec 1 rows) /\
  family_is (fun t m => derived BTpr t m y_true y_pred sf sw) rates (tpr_spec 1 rows).
Proof. exact (derived_direct BTpr (tpr_spec 1) base_ok_tpr). Qed.
Print Assumptions C03_generated_true_positive_rate_spec.

Theorem C03_generated_false_positive_rate_spec :
  forall y_true y_pred sf sw rows, valid y_true y_pred sf sw rows ->
  let rates := group_rates (fpr_spec 1) (combine sf rows) in
  good_frame rates (fpr_spec 1 rows) /\
  family_is (fun t m => derived BFpr t m y_true y_pred sf sw) rates (fpr_spec 1 rows).
Proof. exact (derived_direct BFpr (fpr_spec 1) base_ok_fpr). Qed.
Print Assumptions C03_generated_false_positive_rate_spec.

Theorem C03_generated_true_negative_rate_spec :
  forall y_true y_pred sf sw rows, valid y_true y_pred sf sw rows ->
  let rates := group_rates (tnr_spec 1) (combine sf rows) in
  good_frame rates (tnr_spec 1 rows) /\
  family_is (fun t m => derived BTnr t m y_true y_pred sf sw) rates (tnr_spec 1 rows).
Proof. exact (derived_direct BTnr (tnr_spec 1) base_ok_tnr). Qed.
Print Assumptions C03_generated_true_negative_rate_spec.

Theorem C03_generated_false_negative_rate_spec :
  forall y_true y_pred sf sw rows, valid y_true y_pred sf sw rows ->
  let rates := group_rates (fnr_spec 1) (combine sf rows) in
  good_frame rates (fnr_spec 1 rows) /\
  family_is (fun t m => derived BFnr t m y_true y_pred sf sw) rates (fnr_spec 1 rows).
Proof. exact (derived_direct BFnr (fnr_spec 1) base_ok_fnr). Qed.
Print Assumptions C03_generated_false_negative_rate_spec.

(* accuracy_score / zero_one_loss (sklearn, modelled as the weighted fraction of (in)correct rows) *)
Theorem C03_generated_accuracy_score_spec :
  forall y_true y_pred sf sw rows, valid y_true y_pred sf sw rows ->
  let rates := group_rates acc_spec (combine sf rows) in
  good_frame rates (acc_spec rows) /\
  family_is (fun t m => derived BAcc t m y_true y_pred sf sw) rates (acc_spec rows).
Proof. exact (derived_direct BAcc acc_spec base_ok_acc). Qed.
Print Assumptions C03_generated_accuracy_score_spec.

Theorem C03_generated_zero_one_loss_spec :
  forall y_true y_pred sf sw rows, valid y_true y_pred sf sw rows ->
  let rates := group_rates zol_spec (combine sf rows) in
  good_frame rates (zol_spec rows) /\
  family_is (fun t m => derived BZol t m y_true y_pred sf sw) rates (zol_spec rows).
Proof. exact (derived_direct BZol zol_spec base_ok_zol). Qed.
Print Assumptions C03_generated_zero_one_loss_spec.

(* overall rate 0 (nobody selected / no true positive at all): every group rate is 0 too and the
   to_overall ratio is NaN (0/0 in every group) -- for the named functions, and for every generated
   ratio whose base metric is a weighted ratio (zero_closed; all but zero_one_loss) *)
Theorem C03_ratio_to_overall_zero_nan :
  forall y_true y_pred sf sw rows, valid y_true y_pred sf sw rows ->
  (sel_spec 1 rows == 0 -> demographic_parity_ratio ToOverall y_true y_pred sf sw = Some NaN) /\
  (tpr_spec 1 rows == 0 -> equal_opportunity_ratio ToOverall y_true y_pred sf sw = Some NaN).
Proof. exact named_ratio_overall_zero_nan. Qed.
Print Assumptions C03_ratio_to_overall_zero_nan.

Theorem C03_generated_ratio_to_overall_zero_nan :
  forall b spec, base_ok b spec -> zero_closed spec ->
  forall y_true y_pred sf sw rows, valid y_true y_pred sf sw rows ->
  spec rows == 0 -> derived b TRatio ToOverall y_true y_pred sf sw = Some NaN.
Proof. exact ratio_overall_zero_nan. Qed.
Print Assumptions C03_generated_ratio_to_overall_zero_nan.

Theorem C03_rate_families_zero_closed :
  zero_closed (sel_spec 1) /\ zero_closed (tpr_spec 1) /\ zero_closed (fpr_spec 1) /\
  zero_closed (tnr_spec 1) /\ zero_closed (fnr_spec 1) /\ zero_closed acc_spec.
Proof. exact rate_families_zero_closed. Qed.
Print Assumptions C03_rate_families_zero_closed.

(* the base metrics of the model on >= 1 row of 0/1 labels with positive weights: a finite scalar in [0,1]
   equal to the weighted ratio (C14 lemmas; the denominators-empty-give-0 convention of sklearn) *)
Theorem C03_rate_families_base_ok :
  base_ok BSel (sel_spec 1) /\ base_ok BTpr (tpr_spec 1) /\ base_ok BFpr (fpr_spec 1) /\
  base_ok BTnr (tnr_spec 1) /\ base_ok BFnr (fnr_spec 1) /\ base_ok BAcc acc_spec /\ base_ok BZol zol_spec.
Proof. exact rate_families_base_ok. Qed.
Print Assumptions C03_rate_families_base_ok.

(* bounds: for every base metric of the model, every method: 0 <= difference <= 1 (a finite scalar),
   and the ratio is in [0,1] or NaN (NaN exactly in the 0/0 situations spelled out by family_is) *)
Theorem C03_bounds :
  forall f qs o, family_is f qs o -> good_frame qs o ->
  forall m, (exists d, f TDiff m = Some (Fin d) /\ 0 <= d <= 1) /\
            (exists r, f TRatio m = Some r /\ unit_or_nan r).
Proof. exact family_bounds. Qed.
Print Assumptions C03_bounds.

(* equalized odds x {between_groups, to_overall} x {worst_case, mean}: with dt, df the TPR / FPR
   differences and rt, rf the TPR / FPR ratios (the values of true_positive_rate_difference etc.,
   characterised by the theorems above): difference = max(dt, df) resp. (dt + df) / 2;
   ratio = builtin min(rt, rf) resp. Series.mean() of (rt, rf) -- see C03_eo_nan_semantics *)
Theorem C03_equalized_odds_spec :
  forall y_true y_pred sf sw rows, valid y_true y_pred sf sw rows ->
  forall m, exists dt df rt rf,
    derived BTpr TDiff m y_true y_pred sf sw = Some (Fin dt) /\
    derived BFpr TDiff m y_true y_pred sf sw = Some (Fin df) /\
    derived BTpr TRatio m y_true y_pred sf sw = Some rt /\
    derived BFpr TRatio m y_true y_pred sf sw = Some rf /\
    unit_or_nan rt /\ unit_or_nan rf /\ 0 <= dt <= 1 /\ 0 <= df <= 1 /\
    (exists v, equalized_odds_difference m WorstCase y_true y_pred sf sw = Some (Fin v) /\ v == Qmaxq dt df) /\
    (exists v, equalized_odds_difference m Mean y_true y_pred sf sw = Some (Fin v) /\ v == (dt + df) / 2) /\
    equalized_odds_ratio m WorstCase y_true y_pred sf sw = Some (py_min2 rt rf) /\
    equalized_odds_ratio m Mean y_true y_pred sf sw = Some (series_mean [rt; rf]).
Proof. exact equalized_odds_spec. Qed.
Print Assumptions C03_equalized_odds_spec.

(* what min(rt, rf) and mean(rt, rf) are on finite / NaN ratios: finite-finite is the minimum resp. the
   arithmetic mean; the builtin min keeps a NaN TPR ratio and skips a NaN FPR ratio; Series.mean skips NaN *)
Theorem C03_eo_nan_semantics :
  (forall a b, exists v, py_min2 (Fin a) (Fin b) = Fin v /\ v == Qminq a b) /\
  ((forall x, py_min2 NaN x = NaN) /\ (forall a, py_min2 (Fin a) NaN = Fin a)) /\
  (forall a b, exists v, series_mean [Fin a; Fin b] = Fin v /\ v == (a + b) / 2) /\
  (forall a, exists v, series_mean [Fin a; NaN] = Fin v /\ v == a) /\
  (forall b, exists v, series_mean [NaN; Fin b] = Fin v /\ v == b) /\
  series_mean [NaN; NaN] = NaN.
Proof. exact (conj py_min2_fin (conj py_min2_nan series_mean2)). Qed.
Print Assumptions C03_eo_nan_semantics.

(* derived_eq_frame: the dispatcher sends every keyword to exactly one dictionary by the documented
   rule, and a generated function called with sample_weight / method (either order), method alone or
   sample_weight=None is the frame call with those weights and that method; method omitted = between_groups *)
Theorem C03_dispatch_partition :
  forall sample_names (kws : list (name * kwval)) kv c,
    In kv (kws_of c sample_names kws) <-> In kv kws /\ classify sample_names (fst kv) = c.
Proof. exact dispatch_partition. Qed.
Print Assumptions C03_dispatch_partition.

Theorem C03_classify_spec :
  forall sample_names k,
  (classify sample_names k = KSample <-> existsb (name_eqb k) sample_names = true) /\
  (classify sample_names k = KTransform <->
     existsb (name_eqb k) sample_names = false /\ name_eqb k n_method = true) /\
  (classify sample_names k = KBound <->
     existsb (name_eqb k) sample_names = false /\ name_eqb k n_method = false).
Proof. exact classify_spec. Qed.
Print Assumptions C03_classify_spec.

Theorem C03_derived_eq_frame :
  forall b t kind sw m y_true y_pred sf,
  derived_call b t [n_sample_weight] y_true y_pred sf (kw_list kind sw m)
  = derived b t m y_true y_pred sf (match kind with 0%nat | 1%nat => sw | _ => None end).
Proof. exact derived_eq_frame. Qed.
Print Assumptions C03_derived_eq_frame.

Theorem C03_derived_default_method :
  forall b t sw y_true y_pred sf,
  derived_call b t [n_sample_weight] y_true y_pred sf
     [(n_sample_weight, match sw with Some w => VArr w | None => VNone end)]
  = derived b t Between y_true y_pred sf sw.
Proof. exact derived_default_method. Qed.
Print Assumptions C03_derived_default_method.

(* bridge to C01 (FL.Disagg, where MetricFrame's group-by is modelled and proved exact): for one sensitive
   column the row mask of index key [g] and the column slicing of that model are the ones used here, and
   its by_group index is the sorted unique group list *)
Theorem C03_bridge_to_C01 :
  (forall g (sf : list Z), Disagg.mask_of [g] (Disagg.row_keys [sf] (length sf)) = map (Z.eqb g) sf) /\
  (forall (A : Type) (m : list bool) (c : list A), Disagg.sel m c = sel m c) /\
  (forall c : list Z, kuniq (map (fun s => [s]) c) = map (fun s => [s]) (zuniq c)).
Proof. exact bridge_to_disagg. Qed.
Print Assumptions C03_bridge_to_C01.

(* non-vacuity: the witness of fix d0bb89c -- group 97 is a single weighted row, group 98 has no
   negative label (empty FPR denominator); the premises hold and the model gives 1/2 *)
Example C03_example :
  let y_true := [1; 0; 1]%Z in let y_pred := [1; 1; 0]%Z in let sf := [97; 98; 98]%Z in
  let sw := Some [2; 1; 1] in
  (exists rows, valid y_true y_pred sf sw rows) /\
  option_map Flat.enc_ext (demographic_parity_difference Between y_true y_pred sf sw) = Some [0; 1; 2]%Z /\
  option_map Flat.enc_ext (equalized_odds_ratio Between WorstCase y_true y_pred sf sw) = Some [0; 0; 1]%Z /\
  option_map Flat.enc_ext (equal_opportunity_ratio ToOverall [0; 0]%Z [1; 0]%Z [97; 98]%Z None) = Some [3]%Z.
Proof.
  cbv zeta. split; [|vm_compute; repeat split; reflexivity].
  eexists. split; [vm_compute; reflexivity|]. split; [reflexivity|]. split; [discriminate|].
  intros r Hr. cbn in Hr. unfold binary_row.
  repeat (destruct Hr as [<- | Hr]; [cbn; split; [reflexivity | split; auto]|]). contradiction.
Qed.
