(* C04 -- ThresholdOptimizer equalises the constrained metric exactly on the training data.
   Only statements, `exact`, and Print Assumptions.  Gen_metricdict / Gen_hull are regenerated from
   /repo on every run; the first four theorems tie the model's metric table, derived confusion-matrix
   fields, hull drop test and interpolation formulas to them. *)
From Coq Require Import QArith ZArith List Bool.
From FL Require Import Num Tradeoff Tradeoff_proofs Hull Hull_proofs Interp Interp_proofs ThreshOpt ThreshOpt_proofs.
From FLGen Require Gen_metricdict Gen_hull.
Import ListNotations.
Open Scope Q_scope.

(* ---- source ties ---- *)
Theorem C04_metric_table_is_source : forall m c, Gen_metricdict.metric_eval m c = metric_eval m c.
Proof. intros m c; destruct m; reflexivity. Qed.
Print Assumptions C04_metric_table_is_source.

Theorem C04_drop_test_is_source : forall r0 r1 r2,
  drop_test r0 r1 r2 = Gen_hull.drop_test_xy (px r0) (py r0) (px r1) (py r1) (px r2) (py r2).
Proof. intros; reflexivity. Qed.
Print Assumptions C04_drop_test_is_source.

Theorem C04_interp_formulas_are_source : forall h i x,
  let r := interp_at h i x in
  let a := nth i h dpt in let b := nth (S i) h dpt in
  ip0 r = Gen_hull.interp_p0 (px a) (px b) x /\ ip1 r = Gen_hull.interp_p1 (ip0 r) /\
  iy r = Gen_hull.interp_y (ip0 r) (ip1 r) (py a) (py b) /\ iop0 r = pop a /\ iop1 r = pop b.
Proof. intros; repeat split; reflexivity. Qed.
Print Assumptions C04_interp_formulas_are_source.

(* ---- interp_index_valid ---- *)
(* every row k <= N of a hull's interpolated curve mixes two ADJACENT hull vertices i, i+1 with x_i < x_{i+1},
   weights p0 in [0,1], p0 + p1 = 1, reproducing the grid value k/N exactly (non-zero denominator) *)
Theorem C04_interp_index_valid : forall h N k d, chain_ok (map px h) -> (k <= Pos.to_nat N)%nat ->
  let r := nth k (interpolate h (grid N)) d in
  (exists i, (S i < length h)%nat /\ iop0 r = pop (nth i h dpt) /\ iop1 r = pop (nth (S i) h dpt) /\
     0 <= ip0 r /\ ip0 r <= 1 /\ ip0 r + ip1 r == 1 /\
     ip0 r * px (nth i h dpt) + ip1 r * px (nth (S i) h dpt) == ix r /\
     iy r == ip0 r * py (nth i h dpt) + ip1 r * py (nth (S i) h dpt) /\
     px (nth i h dpt) < px (nth (S i) h dpt)) /\ ix r = grid_pt N k.
Proof. exact interpolate_row_ok. Qed.
Print Assumptions C04_interp_index_valid.

(* the index rule itself: x_i < x <= x_{i+1} for x > 0, and x_i = 0 < x_{i+1} for the first grid point *)
Theorem C04_interp_index_bracket : forall xs x, chain_ok xs ->
  (x == 0 -> bracket xs (idx_raw xs x) x) /\
  (0 < x -> x <= 1 -> bracket xs (idx_adj xs x) x /\ nth (idx_adj xs x) xs 0 < x).
Proof. intros xs x Hc. split; [apply idx_raw_valid; exact Hc | apply idx_adj_valid; exact Hc]. Qed.
Print Assumptions C04_interp_index_bracket.

(* ---- op_counts_sound ---- *)
Theorem C04_op_counts_sound : forall g t c0 c1, In (t, c0, c1) (thresholds_counts g) ->
  cm_eq (exp_cm (op_rule (mkop OpGt t)) g) (actual_cm (count_label false g) (count_label true g) c0 c1) /\
  cm_eq (exp_cm (op_rule (mkop OpLt t)) g) (flipped_cm (count_label false g) (count_label true g) c0 c1) /\
  (0 <= c0 <= count_label false g)%Z /\ (0 <= c1 <= count_label true g)%Z.
Proof. exact op_counts_sound. Qed.
Print Assumptions C04_op_counts_sound.

(* ---- hull_sublist_ends ---- *)
Theorem C04_hull_sublist_ends : forall flip mx my g, constraint_metric mx -> both_labels g = true ->
  (forall r, In r (group_hull flip mx my g) -> In r (tradeoff_points flip mx my g)) /\
  chain_ok (map px (group_hull flip mx my g)).
Proof.
  intros flip mx my g Hm Hb. split; [intros r; apply hull_incl | apply group_hull_chain_ok; assumption].
Qed.
Print Assumptions C04_hull_sublist_ends.

Theorem C04_hull_keeps_ends : forall p ps d,
  exists mid, hull (p :: ps) = p :: mid /\ last (hull (p :: ps)) d = last (p :: ps) d.
Proof. exact hull_ends. Qed.
Print Assumptions C04_hull_keeps_ends.

(* ---- metric_linear ---- *)
Theorem C04_metric_linear : forall m p0 p1 f h g, both_labels g = true -> p0 + p1 == 1 ->
  metric_eval m (exp_cm (fun s => p0 * f s + p1 * h s) g) ==
  p0 * metric_eval m (exp_cm f g) + p1 * metric_eval m (exp_cm h g).
Proof. exact metric_linear. Qed.
Print Assumptions C04_metric_linear.

(* ---- the property: simple constraints ---- *)
Theorem C04_simple_parity : forall flip mx my N gs, constraint_metric mx ->
  (forall g, In g gs -> both_labels g = true) ->
  let f := fit_simple flip mx my N gs in
  (fs_best f <= Pos.to_nat N)%nat /\
  Forall2 (fun g r => metric_eval mx (exp_cm (pmf r) g) == grid_pt N (fs_best f)) gs (simple_rules f).
Proof. exact simple_parity. Qed.
Print Assumptions C04_simple_parity.

(* ---- the property: equalized odds ---- *)
Theorem C04_eo_parity_fpr : forall flip obj N gs, (forall g, In g gs -> both_labels g = true) ->
  let f := fit_eo flip obj N gs in
  fe_xbest f = grid_pt N (fe_best f) /\
  Forall2 (fun g r => metric_eval FPR (exp_cm (pmf r) g) == fe_xbest f) gs (fe_rules f).
Proof. exact eo_parity_fpr. Qed.
Print Assumptions C04_eo_parity_fpr.

(* TPR half; uses hull_is_upper_hull (Hull_proofs) for the p_ignore = 0 branch, where a group's interpolated
   ROC point lies exactly on the diagonal and the common minimum must be on the diagonal too *)
Theorem C04_eo_parity_tpr : forall flip obj N gs, (forall g, In g gs -> both_labels g = true) ->
  let f := fit_eo flip obj N gs in
  Forall2 (fun g r => metric_eval TPR (exp_cm (pmf r) g) == fe_ybest f) gs (fe_rules f).
Proof. exact eo_parity_tpr. Qed.
Print Assumptions C04_eo_parity_tpr.

(* non-vacuity: two groups with both labels, tied scores, flip, grid size 4; the premises hold and the
   fitted rule is a genuine mixture *)
Example C04_example :
  let gs := [[(1, false); (2, true); (1, true)]; [(0, false); (2, true); (2, false); (0, true)]]%Z in
  (forall g, In g gs -> both_labels g = true) /\
  (forall g, In g gs -> is_upper_hull (group_hull true FPR TPR g) (tradeoff_points true FPR TPR g) = true) /\
  map (fun r => Qred (r_p0 r)) (simple_rules (fit_simple true SelRate Acc 4 gs)) = [3 # 4; 1 # 2].
Proof.
  cbv zeta. split; [|split].
  - intros g [<-|[<-|[]]]; reflexivity.
  - intros g [<-|[<-|[]]]; vm_compute; reflexivity.
  - vm_compute. reflexivity.
Qed.
