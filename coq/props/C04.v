(* C04 -- stub, theorems follow *)
From Coq Require Import QArith ZArith List.
From FL Require Import Tradeoff Hull Interp ThreshOpt.
