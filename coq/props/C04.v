(* C04 -- ThresholdOptimizer equalises the constrained metric exactly on the training data.
   Only statements, `exact` (source ties: reflexivity / ring / field), and Print Assumptions.  Gen_* are regenerated
   from /repo on every run; the first theorems tie the model's metric table, derived confusion-matrix
   fields, hull drop test, interpolation formulas, tradeoff-point construction and the optimisation step
   (group weights, accumulation, arg-max, row selection, pointwise min, objective counts, p_ignore) to them. *)
From Coq Require Import QArith ZArith List Bool.
From FL Require Import Num Tradeoff Tradeoff_proofs Hull Hull_proofs Interp Interp_proofs ThreshOpt ThreshOpt_proofs.
From FL Require Import ThreshOptSrc ThreshOptSrc_proofs.
From FLGen Require Gen_metricdict Gen_hull Gen_threshopt.
Import ListNotations.
Open Scope Q_scope.

(* ---- source ties ---- *)
Theorem C04_metric_table_is_source : forall m c, Gen_metricdict.metric_eval m c = metric_eval m c.
Proof. intros m c; destruct m; reflexivity. Qed.
Print Assumptions C04_metric_table_is_source.

Theorem C04_drop_test_is_source : forall r0 r1 r2,
  drop_test r0 r1 r2 = Gen_hull.drop_test_xy (px r0) (py r0) (px r1) (py r1) (px r2) (py r2).
Proof. intros; reflexivity. Qed.
Print Assumptions C04_drop_test_is_source.

Theorem C04_interp_formulas_are_source : forall h i x,
  let r := interp_at h i x in
  let a := nth i h dpt in let b := nth (S i) h dpt in
  ip0 r = Gen_hull.interp_p0 (px a) (px b) x /\ ip1 r = Gen_hull.interp_p1 (ip0 r) /\
  iy r = Gen_hull.interp_y (ip0 r) (ip1 r) (py a) (py b) /\ iop0 r = pop a /\ iop1 r = pop b.
Proof. intros; repeat split; reflexivity. Qed.
Print Assumptions C04_interp_formulas_are_source.

(* ---- the optimisation step is the source's (Gen_threshopt, regenerated from _threshold_optimizer.py) ---- *)
(* simple constraints: the fit re-assembled from the regenerated tags (i_best = FIRST ARG-MAX of the summed curve,
   every group's row read at that ONE COMMON index of its own interpolated curve, Bunch fields p0/operation0/
   p1/operation1 from the columns of the same name) IS fit_simple; the regenerated arithmetic (overall = 0 * x_grid,
   p = len(group) / n, overall += p * curve.y) is the model's frequency-weighted sum *)
Theorem C04_optimisation_is_source : forall flip mx my N gs,
  let f := fit_simple flip mx my N gs in
  fit_simple_src Gen_threshopt.simple_select Gen_threshopt.simple_index flip mx my N gs = f /\
  simple_rules_src Gen_threshopt.simple_bunch f = simple_rules f /\
  (forall x, Gen_threshopt.simple_init x == 0) /\
  (forall acc p y, Gen_threshopt.simple_acc acc p y == acc + p * y) /\
  (total_rows gs <> 0%nat -> forall g,
     gweight gs g == Gen_threshopt.simple_weight (inject_Z (Z.of_nat (length g))) (inject_Z (Z.of_nat (total_rows gs)))).
Proof.
  intros flip mx my N gs f. split; [reflexivity|]. split; [reflexivity|].
  split; [intro x; unfold Gen_threshopt.simple_init; ring|].
  split; [intros acc p y; unfold Gen_threshopt.simple_acc; ring|].
  intros Hn g. rewrite (gweight_ratio gs g Hn). unfold Gen_threshopt.simple_weight. reflexivity.
Qed.
Print Assumptions C04_optimisation_is_source.

(* the accumulation loop run with the regenerated expressions gives (up to ==) the model's overall curve, and the
   regenerated selection applied to it is the model's i_best *)
Theorem C04_accumulation_is_source : forall flip mx my N gs, total_rows gs <> 0%nat ->
  let ov := overall_curve_src Gen_threshopt.simple_init Gen_threshopt.simple_weight Gen_threshopt.simple_acc
                              gs (map (group_curve flip mx my N) gs) (grid N) in
  Forall2 Qeq ov (fs_overall (fit_simple flip mx my N gs)) /\
  select_src Gen_threshopt.simple_select ov = fs_best (fit_simple flip mx my N gs).
Proof.
  intros flip mx my N gs Hn.
  assert (Hi : forall x, Gen_threshopt.simple_init x == 0) by (intro; unfold Gen_threshopt.simple_init; ring).
  assert (Hw : forall a b, ~ b == 0 -> Gen_threshopt.simple_weight a b == a / b)
    by (intros a b Hb; unfold Gen_threshopt.simple_weight; field; exact Hb).
  assert (Ha : forall a p y, Gen_threshopt.simple_acc a p y == a + p * y)
    by (intros; unfold Gen_threshopt.simple_acc; ring).
  split; [exact (overall_curve_src_model _ _ _ gs _ N Hn Hi Hw Ha)
         | exact (simple_best_src_model _ _ _ flip mx my N gs Hn Hi Hw Ha)].
Qed.
Print Assumptions C04_accumulation_is_source.

(* equalized odds: ROC curves of the metrics _tradeoff_curve defaults to, POINTWISE MIN over the groups, objective =
   METRIC_DICT[objective] of the counts built from the overall label counts, first arg-max, common index,
   p_ignore with its on-the-diagonal branch, prediction_constant = x_best: re-assembled from the regenerated pieces
   it IS fit_eo *)
Theorem C04_eo_optimisation_is_source : forall flip obj N gs,
  fit_eo_src Gen_threshopt.eo_x_metric Gen_threshopt.eo_y_metric Gen_threshopt.eo_reduce Gen_threshopt.eo_select
             Gen_threshopt.eo_index Gen_threshopt.eo_const Gen_threshopt.eo_bunch Gen_threshopt.eo_n_negative
             Gen_threshopt.eo_counts Gen_threshopt.eo_p_ignore flip obj N gs
  = fit_eo flip obj N gs.
Proof. intros; reflexivity. Qed.
Print Assumptions C04_eo_optimisation_is_source.

(* _calculate_tradeoff_points: the operations list per threshold ('>' on the actual counts, and the flipped '<' ONLY
   when flip), the two confusion matrices, the (x, y) sort order, the degenerate-label guard, the midpoint rule
   (model: doubled integers) together with ThresholdOperation.__call__, and the searchsorted side *)
Theorem C04_tradeoff_points_are_source :
  (forall flip mx my nneg npos e,
     points_at_src Gen_threshopt.tp_actual Gen_threshopt.tp_flipped Gen_threshopt.tp_ops_flip
                   Gen_threshopt.tp_ops_noflip flip mx my nneg npos e = points_at flip mx my nneg npos e) /\
  (forall a b, sort_leb Gen_threshopt.tp_sort_ascending Gen_threshopt.tp_sort_keys a b = pt_leb a b) /\
  (forall g, both_labels g = negb (Gen_threshopt.tp_degenerate (count_label true g) (count_label false g))) /\
  (forall s s', thr_q (s + s') == Gen_threshopt.tp_midpoint (inject_Z s) (inject_Z s')) /\
  (forall k w s, apply_op (mkop k (TMid w)) s
                 = apply_op_q Gen_threshopt.op_gt Gen_threshopt.op_lt k (thr_q w) (inject_Z s)) /\
  (forall xs x, searchsorted_src Gen_threshopt.interp_side xs x = ss_right xs x).
Proof.
  split; [exact points_at_src_model|]. split; [exact key_leb_model|].
  split; [intro g; rewrite both_labels_guard; unfold Gen_threshopt.tp_degenerate;
          destruct (count_label true g =? 0)%Z, (count_label false g =? 0)%Z; reflexivity|].
  split; [intros s s'; rewrite thr_q_mid; unfold Gen_threshopt.tp_midpoint; field|].
  split; [exact apply_op_mid | exact searchsorted_src_model].
Qed.
Print Assumptions C04_tradeoff_points_are_source.

(* every metric SIMPLE_CONSTRAINTS maps a constraint name to satisfies the premise of C04_simple_parity, and every
   member of OBJECTIVES_FOR_EQUALIZED_ODDS the premise of C05_eo_optimal *)
Theorem C04_allowed_configurations_are_source :
  Forall constraint_metric Gen_threshopt.simple_constraint_metrics /\
  Forall (fun o => o = Acc \/ o = BalAcc) Gen_threshopt.eo_objectives.
Proof.
  split; [unfold Gen_threshopt.simple_constraint_metrics; repeat (apply Forall_cons; [exact I|]); apply Forall_nil
         | unfold Gen_threshopt.eo_objectives; repeat (apply Forall_cons; [auto|]); apply Forall_nil].
Qed.
Print Assumptions C04_allowed_configurations_are_source.

(* ---- interp_index_valid ---- *)
(* every row k <= N of a hull's interpolated curve mixes two ADJACENT hull vertices i, i+1 with x_i < x_{i+1},
   weights p0 in [0,1], p0 + p1 = 1, reproducing the grid value k/N exactly (non-zero denominator) *)
Theorem C04_interp_index_valid : forall h N k d, chain_ok (map px h) -> (k <= Pos.to_nat N)%nat ->
  let r := nth k (interpolate h (grid N)) d in
  (exists i, (S i < length h)%nat /\ iop0 r = pop (nth i h dpt) /\ iop1 r = pop (nth (S i) h dpt) /\
     0 <= ip0 r /\ ip0 r <= 1 /\ ip0 r + ip1 r == 1 /\
     ip0 r * px (nth i h dpt) + ip1 r * px (nth (S i) h dpt) == ix r /\
     iy r == ip0 r * py (nth i h dpt) + ip1 r * py (nth (S i) h dpt) /\
     px (nth i h dpt) < px (nth (S i) h dpt)) /\ ix r = grid_pt N k.
Proof. exact interpolate_row_ok. Qed.
Print Assumptions C04_interp_index_valid.

(* the index rule itself: x_i < x <= x_{i+1} for x > 0, and x_i = 0 < x_{i+1} for the first grid point *)
Theorem C04_interp_index_bracket : forall xs x, chain_ok xs ->
  (x == 0 -> bracket xs (idx_raw xs x) x) /\
  (0 < x -> x <= 1 -> bracket xs (idx_adj xs x) x /\ nth (idx_adj xs x) xs 0 < x).
Proof. intros xs x Hc. split; [apply idx_raw_valid; exact Hc | apply idx_adj_valid; exact Hc]. Qed.
Print Assumptions C04_interp_index_bracket.

(* ---- op_counts_sound ---- *)
Theorem C04_op_counts_sound : forall g t c0 c1, In (t, c0, c1) (thresholds_counts g) ->
  cm_eq (exp_cm (op_rule (mkop OpGt t)) g) (actual_cm (count_label false g) (count_label true g) c0 c1) /\
  cm_eq (exp_cm (op_rule (mkop OpLt t)) g) (flipped_cm (count_label false g) (count_label true g) c0 c1) /\
  (0 <= c0 <= count_label false g)%Z /\ (0 <= c1 <= count_label true g)%Z.
Proof. exact op_counts_sound. Qed.
Print Assumptions C04_op_counts_sound.

(* ---- hull_sublist_ends ---- *)
Theorem C04_hull_sublist_ends : forall flip mx my g, constraint_metric mx -> both_labels g = true ->
  (forall r, In r (group_hull flip mx my g) -> In r (tradeoff_points flip mx my g)) /\
  chain_ok (map px (group_hull flip mx my g)).
Proof.
  intros flip mx my g Hm Hb. split; [intros r; apply hull_incl | apply group_hull_chain_ok; assumption].
Qed.
Print Assumptions C04_hull_sublist_ends.

Theorem C04_hull_keeps_ends : forall p ps d,
  exists mid, hull (p :: ps) = p :: mid /\ last (hull (p :: ps)) d = last (p :: ps) d.
Proof. exact hull_ends. Qed.
Print Assumptions C04_hull_keeps_ends.

(* ---- metric_linear ---- *)
Theorem C04_metric_linear : forall m p0 p1 f h g, both_labels g = true -> p0 + p1 == 1 ->
  metric_eval m (exp_cm (fun s => p0 * f s + p1 * h s) g) ==
  p0 * metric_eval m (exp_cm f g) + p1 * metric_eval m (exp_cm h g).
Proof. exact metric_linear. Qed.
Print Assumptions C04_metric_linear.

(* ---- the property: simple constraints ---- *)
Theorem C04_simple_parity : forall flip mx my N gs, constraint_metric mx ->
  (forall g, In g gs -> both_labels g = true) ->
  let f := fit_simple flip mx my N gs in
  (fs_best f <= Pos.to_nat N)%nat /\
  Forall2 (fun g r => metric_eval mx (exp_cm (pmf r) g) == grid_pt N (fs_best f)) gs (simple_rules f).
Proof. exact simple_parity. Qed.
Print Assumptions C04_simple_parity.

(* ---- the property: equalized odds ---- *)
Theorem C04_eo_parity_fpr : forall flip obj N gs, (forall g, In g gs -> both_labels g = true) ->
  let f := fit_eo flip obj N gs in
  fe_xbest f = grid_pt N (fe_best f) /\
  Forall2 (fun g r => metric_eval FPR (exp_cm (pmf r) g) == fe_xbest f) gs (fe_rules f).
Proof. exact eo_parity_fpr. Qed.
Print Assumptions C04_eo_parity_fpr.

(* TPR half; uses hull_is_upper_hull (Hull_proofs) for the p_ignore = 0 branch, where a group's interpolated
   ROC point lies exactly on the diagonal and the common minimum must be on the diagonal too *)
Theorem C04_eo_parity_tpr : forall flip obj N gs, (forall g, In g gs -> both_labels g = true) ->
  let f := fit_eo flip obj N gs in
  Forall2 (fun g r => metric_eval TPR (exp_cm (pmf r) g) == fe_ybest f) gs (fe_rules f).
Proof. exact eo_parity_tpr. Qed.
Print Assumptions C04_eo_parity_tpr.

(* non-vacuity: two groups with both labels, tied scores, flip, grid size 4; the premises hold and the
   fitted rule is a genuine mixture *)
Example C04_example :
  let gs := [[(1, false); (2, true); (1, true)]; [(0, false); (2, true); (2, false); (0, true)]]%Z in
  (forall g, In g gs -> both_labels g = true) /\
  (forall g, In g gs -> is_upper_hull (group_hull true FPR TPR g) (tradeoff_points true FPR TPR g) = true) /\
  map (fun r => Qred (r_p0 r)) (simple_rules (fit_simple true SelRate Acc 4 gs)) = [3 # 4; 1 # 2].
Proof.
  cbv zeta. split; [|split].
  - intros g [<-|[<-|[]]]; reflexivity.
  - intros g [<-|[<-|[]]]; vm_compute; reflexivity.
  - vm_compute. reflexivity.
Qed.
