(* C09 -- GridSearch trains a faithful best response per grid point and picks the arg-min.
   Only statements, `exact`, and Print Assumptions.  The lattice / grid theorems are stated on
   the `values` rule and budget update REGENERATED from /repo (FLGen.Gen_grid) on every run.

   Proved here: the grid generator (integer lattice, search for n_units, rescaling, pos / neg
   basis) yields exactly grid_size pairwise distinct non-negative vectors of L1 norm <= limit
   (= limit for loss moments), and the selection rule returns the first index minimising
   (1-w)*objective + w*max(gamma) over all trained predictors.
   NOT proved here (checked on every run against the implementation's own numbers, see
   harness/props/c09.py): that each predictor is a best response of the exact learner to its
   multiplier (C07 proves the reduction identity) and that the recorded objective / gamma are those
   of the recorded predictor. *)
From Coq Require Import QArith ZArith List Bool.
From FL Require Import Num Grid Grid_proofs.
From FLGen Require Gen_grid.
Import ListNotations.

(* the generator of the current source *)
Definition lattice_src := lattice_with Gen_grid.values Gen_grid.step.
Definition n_units_src := n_units_with Gen_grid.values Gen_grid.step.
Definition grid_src := grid_with Gen_grid.values Gen_grid.step.

(* the regenerated rules are the model's rules *)
Theorem C09_values_rule :
  forall is_last force neg max_val cur,
    Gen_grid.values is_last force neg max_val = Grid.values is_last force neg max_val /\
    Gen_grid.step max_val cur = Grid.step max_val cur.
Proof. intros. split; reflexivity. Qed.
Print Assumptions C09_values_rule.

(* every lattice point has one coordinate per basis column, sum |c_i| <= n (= n when the L1 norm
   is forced), and coordinates without a negative basis are >= 0 *)
Theorem C09_lattice_l1 :
  forall negs force (n : Z) c, (0 <= n)%Z -> In c (lattice_src negs force n) ->
    length c = length negs /\ (l1 c <= n)%Z /\ (force = true -> negs <> [] -> l1 c = n) /\
    sign_ok negs c.
Proof. exact lattice_l1. Qed.
Print Assumptions C09_lattice_l1.

Theorem C09_lattice_nodup :
  forall negs force (n : Z), (0 <= n)%Z -> NoDup (lattice_src negs force n).
Proof. exact lattice_nodup. Qed.
Print Assumptions C09_lattice_nodup.

(* |lattice n| >= n + 1 as soon as the true dimension is >= 1, so the `while True` loop ends *)
Theorem C09_lattice_grows :
  forall negs force (n : Z), true_dim_pos negs force = true -> (0 <= n)%Z ->
    (Z.to_nat (n + 1) <= length (lattice_src negs force n))%nat.
Proof. exact lattice_grows. Qed.
Print Assumptions C09_lattice_grows.

(* the modelled n_units is the least n >= 0 whose lattice has at least grid_size points *)
Theorem C09_n_units_least :
  forall negs force gs n, n_units_src negs force gs = Some n ->
    (0 <= n)%Z /\ (gs <= length (lattice_src negs force n))%nat /\
    (forall k, (0 <= k < n)%Z -> (length (lattice_src negs force k) < gs)%nat).
Proof. exact n_units_spec. Qed.
Print Assumptions C09_n_units_least.

(* MAIN: for grid_size >= 2, limit > 0, a basis whose columns all have their index entries and a
   true dimension >= 1, the grid exists and consists of exactly grid_size vectors, pairwise
   distinct, each of the length of the constraint index, with all entries >= 0 and
   L1 norm <= limit (== limit when the norm is forced, i.e. for loss moments) *)
Theorem C09_grid_vectors :
  forall m cols negs force gs (limit : Q),
    good_basis m cols negs = true -> true_dim_pos negs force = true ->
    (2 <= gs)%nat -> 0 < limit ->
    exists n g,
      n_units_src negs force gs = Some n /\ (1 <= n)%Z /\
      grid_src m cols negs force gs limit = Some g /\
      length g = gs /\
      ForallOrdPairs (fun a b => ~ veq a b) g /\
      Forall (vector_ok m force limit) g.
Proof. exact grid_vectors. Qed.
Print Assumptions C09_grid_vectors.

(* the guard is discharged for the bases the moments build (model of UtilityParity.load_data /
   ConditionalLossMoment.load_data, tied to the code by the correspondence run): for EVERY dataset
   with at least one basis column (parity moments) resp. two groups (loss moments) the grid has
   exactly grid_size pairwise distinct non-negative vectors of L1 norm <= limit (== limit) *)
Theorem C09_grid_vectors_parity :
  forall events groups gs (limit : Q),
    true_dim_pos (up_negs events groups) false = true -> (2 <= gs)%nat -> 0 < limit ->
    exists n g,
      n_units_src (up_negs events groups) false gs = Some n /\ (1 <= n)%Z /\
      grid_src (up_m events groups) (up_cols events groups) (up_negs events groups) false gs limit = Some g /\
      length g = gs /\ ForallOrdPairs (fun a b => ~ veq a b) g /\
      Forall (vector_ok (up_m events groups) false limit) g.
Proof. exact grid_vectors_parity. Qed.
Print Assumptions C09_grid_vectors_parity.

Theorem C09_grid_vectors_loss :
  forall groups gs (limit : Q),
    true_dim_pos (bgl_negs groups) true = true -> (2 <= gs)%nat -> 0 < limit ->
    exists n g,
      n_units_src (bgl_negs groups) true gs = Some n /\ (1 <= n)%Z /\
      grid_src (bgl_m groups) (bgl_cols groups) (bgl_negs groups) true gs limit = Some g /\
      length g = gs /\ ForallOrdPairs (fun a b => ~ veq a b) g /\
      Forall (vector_ok (bgl_m groups) true limit) g.
Proof. exact grid_vectors_loss. Qed.
Print Assumptions C09_grid_vectors_loss.

(* the tradeoff selection: the selected index exists, holds the returned loss, no trained
   predictor has a smaller loss, and every earlier one has a strictly larger loss *)
Theorem C09_select_argmin :
  forall (w : Q) objs gammas, objs <> [] -> length objs = length gammas ->
    exists i v o g,
      select w objs gammas = Some (i, v) /\
      nth_error objs i = Some o /\ nth_error gammas i = Some g /\ v = tradeoff w o g /\
      (forall j o' g', nth_error objs j = Some o' -> nth_error gammas j = Some g' ->
                       v <= tradeoff w o' g') /\
      (forall j o' g', (j < i)%nat -> nth_error objs j = Some o' -> nth_error gammas j = Some g' ->
                       v < tradeoff w o' g').
Proof. exact select_argmin. Qed.
Print Assumptions C09_select_argmin.

(* max(gamma) in the tradeoff is attained and bounds every entry *)
Theorem C09_vmax :
  forall l : list Q, l <> [] -> In (vmax l) l /\ (forall y, In y l -> y <= vmax l).
Proof. exact vmax_spec. Qed.
Print Assumptions C09_vmax.

(* the guard of C09_grid_vectors is needed: the basis rule of the snapshot before the repair
   (a column allocated for an (event, group) cell without samples) duplicates grid points *)
Theorem C09_old_basis_refuted :
  exists events groups,
    let cols := up_cols_old events groups in
    good_basis (up_m events groups) cols (map (fun _ => true) cols) = false /\
    match grid_src (up_m events groups) cols (map (fun _ => true) cols) false 9 2 with
    | Some g => nodup_qvecs g = false
    | None => False
    end.
Proof. eexists; eexists; exact old_basis_duplicates. Qed.
Print Assumptions C09_old_basis_refuted.

(* non-vacuity: equalized odds, 3 groups, the group coded 0 has no sample with label 1 (an empty
   cell): the repaired basis satisfies the guard, the grid has 9 distinct vectors *)
Example C09_example :
  let events := [Some 0; Some 0; Some 1; Some 0; Some 1; Some 0; Some 0; Some 0]%Z in
  let groups := [0; 0; 1; 1; 2; 2; 1; 0]%Z in
  let cols := up_cols events groups in
  let negs := up_negs events groups in
  good_basis (up_m events groups) cols negs = true /\ true_dim_pos negs false = true /\
  length cols = 3%nat /\
  match grid_src (up_m events groups) cols negs false 9 2 with
  | Some g => length g = 9%nat /\ nodup_qvecs g = true
  | None => False
  end.
Proof. vm_compute. repeat split; reflexivity. Qed.
