(* C09 -- GridSearch trains a faithful best response per grid point and picks the arg-min.
   Only statements, `exact`, and Print Assumptions.  The lattice / grid theorems are stated on
   the `values` rule and budget update REGENERATED from /repo (FLGen.Gen_grid) on every run.

   Proved here: the grid generator (integer lattice, search for n_units, rescaling, pos / neg
   basis) yields exactly grid_size pairwise distinct non-negative vectors of L1 norm <= limit
   (= limit for loss moments), and the selection rule returns the first index minimising
   (1-w)*objective + w*max(gamma) over all trained predictors.
   Second part (below, after C09_example): the fit loop itself (FL.GridSearch): with an exact
   cost-sensitive learner every recorded predictor is a best response to its multiplier (corollary
   of C07's cost_sensitive_equiv / loss_identity), the recorded objective / gamma are those of the
   recorded predictor, predict delegates to the first arg-min of the trade-off loss; the relabel /
   reweight lines, the trade-off loss and the selection expression REGENERATED from
   GridSearch.fit (FLGen.Gen_gridsearch) are the model's definitions.
   Tied by the correspondence run only: that harness.learners.ExactLearner is the Gallina
   exact_learn, pandas alignment of the multipliers with the constraint index, float arithmetic. *)
From Coq Require Import QArith ZArith List Bool.
From FL Require Import Num Grid Grid_proofs.
From FLGen Require Gen_grid.
Import ListNotations.

(* the generator of the current source *)
Definition lattice_src := lattice_with Gen_grid.values Gen_grid.step.
Definition n_units_src := n_units_with Gen_grid.values Gen_grid.step.
Definition grid_src := grid_with Gen_grid.values Gen_grid.step.

(* the regenerated rules are the model's rules *)
Theorem C09_values_rule :
  forall is_last force neg max_val cur,
    Gen_grid.values is_last force neg max_val = Grid.values is_last force neg max_val /\
    Gen_grid.step max_val cur = Grid.step max_val cur.
Proof. intros. split; reflexivity. Qed.
Print Assumptions C09_values_rule.

(* every lattice point has one coordinate per basis column, sum |c_i| <= n (= n when the L1 norm
   is forced), and coordinates without a negative basis are >= 0 *)
Theorem C09_lattice_l1 :
  forall negs force (n : Z) c, (0 <= n)%Z -> In c (lattice_src negs force n) ->
    length c = length negs /\ (l1 c <= n)%Z /\ (force = true -> negs <> [] -> l1 c = n) /\
    sign_ok negs c.
Proof. exact lattice_l1. Qed.
Print Assumptions C09_lattice_l1.

Theorem C09_lattice_nodup :
  forall negs force (n : Z), (0 <= n)%Z -> NoDup (lattice_src negs force n).
Proof. exact lattice_nodup. Qed.
Print Assumptions C09_lattice_nodup.

(* |lattice n| >= n + 1 as soon as the true dimension is >= 1, so the `while True` loop ends *)
Theorem C09_lattice_grows :
  forall negs force (n : Z), true_dim_pos negs force = true -> (0 <= n)%Z ->
    (Z.to_nat (n + 1) <= length (lattice_src negs force n))%nat.
Proof. exact lattice_grows. Qed.
Print Assumptions C09_lattice_grows.

(* the modelled n_units is the least n >= 0 whose lattice has at least grid_size points *)
Theorem C09_n_units_least :
  forall negs force gs n, n_units_src negs force gs = Some n ->
    (0 <= n)%Z /\ (gs <= length (lattice_src negs force n))%nat /\
    (forall k, (0 <= k < n)%Z -> (length (lattice_src negs force k) < gs)%nat).
Proof. exact n_units_spec. Qed.
Print Assumptions C09_n_units_least.

(* MAIN: for grid_size >= 2, limit > 0, a basis whose columns all have their index entries and a
   true dimension >= 1, the grid exists and consists of exactly grid_size vectors, pairwise
   distinct, each of the length of the constraint index, with all entries >= 0 and
   L1 norm <= limit (== limit when the norm is forced, i.e. for loss moments) *)
Theorem C09_grid_vectors :
  forall m cols negs force gs (limit : Q),
    good_basis m cols negs = true -> true_dim_pos negs force = true ->
    (2 <= gs)%nat -> 0 < limit ->
    exists n g,
      n_units_src negs force gs = Some n /\ (1 <= n)%Z /\
      grid_src m cols negs force gs limit = Some g /\
      length g = gs /\
      ForallOrdPairs (fun a b => ~ veq a b) g /\
      Forall (vector_ok m force limit) g.
Proof. exact grid_vectors. Qed.
Print Assumptions C09_grid_vectors.

(* the guard is discharged for the bases the moments build (model of UtilityParity.load_data /
   ConditionalLossMoment.load_data, tied to the code by the correspondence run): for EVERY dataset
   with at least one basis column (parity moments) resp. two groups (loss moments) the grid has
   exactly grid_size pairwise distinct non-negative vectors of L1 norm <= limit (== limit) *)
Theorem C09_grid_vectors_parity :
  forall events groups gs (limit : Q),
    true_dim_pos (up_negs events groups) false = true -> (2 <= gs)%nat -> 0 < limit ->
    exists n g,
      n_units_src (up_negs events groups) false gs = Some n /\ (1 <= n)%Z /\
      grid_src (up_m events groups) (up_cols events groups) (up_negs events groups) false gs limit = Some g /\
      length g = gs /\ ForallOrdPairs (fun a b => ~ veq a b) g /\
      Forall (vector_ok (up_m events groups) false limit) g.
Proof. exact grid_vectors_parity. Qed.
Print Assumptions C09_grid_vectors_parity.

Theorem C09_grid_vectors_loss :
  forall groups gs (limit : Q),
    true_dim_pos (bgl_negs groups) true = true -> (2 <= gs)%nat -> 0 < limit ->
    exists n g,
      n_units_src (bgl_negs groups) true gs = Some n /\ (1 <= n)%Z /\
      grid_src (bgl_m groups) (bgl_cols groups) (bgl_negs groups) true gs limit = Some g /\
      length g = gs /\ ForallOrdPairs (fun a b => ~ veq a b) g /\
      Forall (vector_ok (bgl_m groups) true limit) g.
Proof. exact grid_vectors_loss. Qed.
Print Assumptions C09_grid_vectors_loss.

(* the tradeoff selection: the selected index exists, holds the returned loss, no trained
   predictor has a smaller loss, and every earlier one has a strictly larger loss *)
Theorem C09_select_argmin :
  forall (w : Q) objs gammas, objs <> [] -> length objs = length gammas ->
    exists i v o g,
      select w objs gammas = Some (i, v) /\
      nth_error objs i = Some o /\ nth_error gammas i = Some g /\ v = tradeoff w o g /\
      (forall j o' g', nth_error objs j = Some o' -> nth_error gammas j = Some g' ->
                       v <= tradeoff w o' g') /\
      (forall j o' g', (j < i)%nat -> nth_error objs j = Some o' -> nth_error gammas j = Some g' ->
                       v < tradeoff w o' g').
Proof. exact select_argmin. Qed.
Print Assumptions C09_select_argmin.

(* max(gamma) in the tradeoff is attained and bounds every entry *)
Theorem C09_vmax :
  forall l : list Q, l <> [] -> In (vmax l) l /\ (forall y, In y l -> y <= vmax l).
Proof. exact vmax_spec. Qed.
Print Assumptions C09_vmax.

(* the guard of C09_grid_vectors is needed: the basis rule of the snapshot before the repair
   (a column allocated for an (event, group) cell without samples) duplicates grid points *)
Theorem C09_old_basis_refuted :
  exists events groups,
    let cols := up_cols_old events groups in
    good_basis (up_m events groups) cols (map (fun _ => true) cols) = false /\
    match grid_src (up_m events groups) cols (map (fun _ => true) cols) false 9 2 with
    | Some g => nodup_qvecs g = false
    | None => False
    end.
Proof. eexists; eexists; exact old_basis_duplicates. Qed.
Print Assumptions C09_old_basis_refuted.

(* non-vacuity: equalized odds, 3 groups, the group coded 0 has no sample with label 1 (an empty
   cell): the repaired basis satisfies the guard, the grid has 9 distinct vectors *)
Example C09_example :
  let events := [Some 0; Some 0; Some 1; Some 0; Some 1; Some 0; Some 0; Some 0]%Z in
  let groups := [0; 0; 1; 1; 2; 2; 1; 0]%Z in
  let cols := up_cols events groups in
  let negs := up_negs events groups in
  good_basis (up_m events groups) cols negs = true /\ true_dim_pos negs false = true /\
  length cols = 3%nat /\
  match grid_src (up_m events groups) cols negs false 9 2 with
  | Some g => length g = 9%nat /\ nodup_qvecs g = true
  | None => False
  end.
Proof. vm_compute. repeat split; reflexivity. Qed.

(* ====================================================================================== *)
(* The fit loop (FL.GridSearch): best response, recorded values, delegation, source tie    *)
(* ====================================================================================== *)
From FL Require Import Moments Moments_proofs Reduction Reduction_proofs GridSearch GridSearch_proofs.
From FLGen Require Gen_gridsearch.
Open Scope Q_scope.

(* the kernels regenerated from GridSearch.fit / __init__ are the model's definitions:
   `weights + objective.signed_weights()`, `1 * (weights > 0)`, `weights.abs()`,
   `self.objective_weight * self.objectives_[i] + self.constraint_weight * self.gammas_[...].max()` with
   objective_weight = 1.0 - constraint_weight, and `losses.index(min(losses))`
   (`>=`, `.abs().max()`, `max(losses)`, swapped weights: not convertible / translator raises) *)
Theorem C09_src_weights : forall a b : list Q, zipw Gen_gridsearch.weights_entry a b = vadd a b.
Proof. reflexivity. Qed.
Print Assumptions C09_src_weights.

Theorem C09_src_relabel : forall w : list Q, map Gen_gridsearch.relabel_entry w = relabel w.
Proof. reflexivity. Qed.
Print Assumptions C09_src_relabel.

Theorem C09_src_reweight : forall w : list Q, map Gen_gridsearch.reweight_entry w = reweight w.
Proof. reflexivity. Qed.
Print Assumptions C09_src_reweight.

Theorem C09_src_loss : forall (cw obj : Q) (gam : list Q), Gen_gridsearch.loss cw obj gam = tradeoff cw obj gam.
Proof. reflexivity. Qed.
Print Assumptions C09_src_loss.

Theorem C09_src_select : forall l : list Q, Gen_gridsearch.best_idx l = index_of_min l.
Proof. reflexivity. Qed.
Print Assumptions C09_src_select.

(* the model's training step and selection, written with the regenerated kernels *)
Theorem C09_src_fit_point :
  forall (X Hyp : Type) (learn : list (X * Q * Q) -> Hyp) k r fp fn rows xs lam,
    fit_point_cls learn k r fp fn rows xs lam
    = let w := zipw Gen_gridsearch.weights_entry (signed_weights k r rows lam) (er_signed_weights fp fn rows) in
      train learn xs (map Gen_gridsearch.relabel_entry w) (map Gen_gridsearch.reweight_entry w).
Proof. reflexivity. Qed.
Print Assumptions C09_src_fit_point.

Theorem C09_src_best_idx :
  forall (Hyp : Type) cw (pts : list (point Hyp)),
    best_idx cw pts = Gen_gridsearch.best_idx (map (fun p => Gen_gridsearch.loss cw (p_obj p) (p_gamma p)) pts).
Proof. reflexivity. Qed.
Print Assumptions C09_src_best_idx.

(* the code's losses.index(min(losses)) is the left-to-right arg-min scan of C09_select_argmin *)
Theorem C09_index_of_min : forall l : list Q, index_of_min l = option_map fst (argmin_first l).
Proof. exact index_of_min_argmin. Qed.
Print Assumptions C09_index_of_min.

(* MAIN (classification; every parity moment k, ratio r, cost pair, non-empty binary dataset -- the
   configurations C07_cost_sensitive_equiv covers): if the estimator is an exact cost-sensitive
   learner over a class H of hard predictors (for binary labels and non-negative weights it returns
   a member of H of minimal weighted 0/1 error), then for EVERY multiplier vector of the grid the
   recorded predictor is hard, is a member of H or a constant 0/1 DummyClassifier, and minimises
   objective + lambda . gamma over H -- with the RECORDED objective_ / gammas_ on the left -- as well
   as the Lagrangian objective + lambda . (gamma - bound) *)
Theorem C09_grid_best_response :
  forall (X Hyp : Type) (learn : list (X * Q * Q) -> Hyp) (predict : Hyp -> list X -> list Q)
         (H : Hyp -> Prop) (k : kind) (r eps fp fn : Q) (rows : list row) (xs : list X)
         (grid : list (list Q)),
    rows <> [] -> binary_rows rows -> length xs = length rows ->
    hard_class X Hyp predict H xs -> exact_learner X Hyp learn predict H xs ->
    forall i lam p,
      nth_error grid i = Some lam ->
      nth_error (fit_cls learn predict k r fp fn rows xs grid) i = Some p ->
      hard (fpredict predict (p_fit p) xs) /\
      ((exists h, p_fit p = Learned h /\ H h) \/ (exists c, p_fit p = Dummy c /\ (c == 0 \/ c == 1))) /\
      forall h', H h' ->
        p_obj p + dot lam (p_gamma p)
          <= er_gamma fp fn rows (predict h' xs) + dot lam (gamma k r rows (predict h' xs)) /\
        lagrangian k r eps fp fn rows lam (fpredict predict (p_fit p) xs)
          <= lagrangian k r eps fp fn rows lam (predict h' xs).
Proof. exact grid_best_response. Qed.
Print Assumptions C09_grid_best_response.

(* MAIN (loss moments; the configurations C07_loss_identity covers): the objective is in the span, no
   relabelling; with an exact weighted-loss regressor over H every recorded predictor minimises
   lambda . gamma over H for every non-negative multiplier vector (C09_grid_vectors: all are) *)
Theorem C09_grid_best_response_loss :
  forall (X Hyp : Type) (learn : list (X * Q * Q) -> Hyp) (predict : Hyp -> list X -> list Q)
         (H : Hyp -> Prop) (l : loss) (rows : list lrow) (xs : list X) (grid : list (list Q)),
    length xs = length rows -> sized_class X Hyp predict H xs -> exact_regressor X Hyp learn predict l H xs ->
    forall i lam p,
      Forall (fun x => 0 <= x) lam ->
      nth_error grid i = Some lam ->
      nth_error (fit_loss learn predict l rows xs grid) i = Some p ->
      length (fpredict predict (p_fit p) xs) = length rows /\
      ((exists h, p_fit p = Learned h /\ H h) \/ (exists c, p_fit p = Dummy c)) /\
      forall h', H h' -> dot lam (p_gamma p) <= dot lam (bgl_gamma l rows (predict h' xs)).
Proof. exact grid_best_response_loss. Qed.
Print Assumptions C09_grid_best_response_loss.

(* one record per multiplier vector, in grid order; the predictor was trained on the data relabelled /
   reweighted for THAT vector; objectives_[i] / gammas_[i] are computed from predictors_[i]'s own
   predictions (by construction of the model; the translator checks the corresponding source lines) *)
Theorem C09_records_true :
  forall (X Hyp : Type) (learn : list (X * Q * Q) -> Hyp) (predict : Hyp -> list X -> list Q)
         k r fp fn rows xs grid,
    length (fit_cls learn predict k r fp fn rows xs grid) = length grid /\
    forall i p, nth_error (fit_cls learn predict k r fp fn rows xs grid) i = Some p ->
      exists lam, nth_error grid i = Some lam /\
        p_fit p = fit_point_cls learn k r fp fn rows xs lam /\
        p_obj p = er_gamma fp fn rows (fpredict predict (p_fit p) xs) /\
        p_gamma p = gamma k r rows (fpredict predict (p_fit p) xs).
Proof. intros. split; [apply fit_cls_length | apply records_true_cls]. Qed.
Print Assumptions C09_records_true.

Theorem C09_records_true_loss :
  forall (X Hyp : Type) (learn : list (X * Q * Q) -> Hyp) (predict : Hyp -> list X -> list Q)
         l rows xs grid,
    length (fit_loss learn predict l rows xs grid) = length grid /\
    forall i p, nth_error (fit_loss learn predict l rows xs grid) i = Some p ->
      exists lam, nth_error grid i = Some lam /\
        p_fit p = fit_point_loss learn rows xs lam /\
        p_obj p = mean_loss l rows (fpredict predict (p_fit p) xs) /\
        p_gamma p = bgl_gamma l rows (fpredict predict (p_fit p) xs).
Proof. intros. split; [apply fit_loss_length | apply records_true_loss]. Qed.
Print Assumptions C09_records_true_loss.

(* predict(X') is the prediction of the predictor at best_idx_ = losses.index(min(losses)), which is
   the index Grid.select returns: its trade-off loss (from the recorded values) is minimal over all
   trained predictors and strictly smaller than that of every earlier one *)
Theorem C09_select_delegates :
  forall (X Hyp : Type) (predict : Hyp -> list X -> list Q) cw (pts : list (point Hyp)) xs',
    pts <> [] ->
    exists i v p,
      select_pts cw pts = Some (i, v) /\ best_idx cw pts = Some i /\ nth_error pts i = Some p /\
      gs_predict predict cw pts xs' = Some (fpredict predict (p_fit p) xs') /\
      v = tradeoff cw (p_obj p) (p_gamma p) /\
      (forall q, In q pts -> v <= tradeoff cw (p_obj q) (p_gamma q)) /\
      (forall j q, (j < i)%nat -> nth_error pts j = Some q -> v < tradeoff cw (p_obj q) (p_gamma q)).
Proof. exact select_delegates. Qed.
Print Assumptions C09_select_delegates.

(* the premise `exact_learner` / `exact_regressor` is satisfiable for EVERY finite non-empty class
   given as a list: exhaustive search (first minimiser) is such a learner *)
Theorem C09_exact_learner_exists :
  forall (X Hyp : Type) (predict : Hyp -> list X -> list Q) (h0 : Hyp) (class : list Hyp) (xs : list X),
    class <> [] ->
    exact_learner X Hyp (enum_learn predict w01 h0 class) predict (fun h => In h class) xs /\
    forall l, exact_regressor X Hyp (enum_learn predict (wloss l) h0 class) predict l (fun h => In h class) xs.
Proof. intros. split; [apply enum_exact_learner | intro; apply enum_exact_regressor]; assumption. Qed.
Print Assumptions C09_exact_learner_exists.

(* non-vacuity: demographic parity, 7 rows, two feature cells, the class of all four cell labelings with
   the exhaustive learner: the premises of C09_grid_best_response hold, the five multiplier vectors
   train two different predictors, the first one is selected, and predict delegates to it *)
Example C09_fit_example :
  let rows := [mkRow 1 0 None; mkRow 0 0 None; mkRow 1 1 None; mkRow 1 1 None; mkRow 0 1 None;
               mkRow 0 0 None; mkRow 1 1 None] in
  let xs := [0; 1; 0; 1; 1; 0; 1]%Z in
  let class := [[(0%Z, 0); (1%Z, 0)]; [(0%Z, 0); (1%Z, 1)]; [(0%Z, 1); (1%Z, 0)]; [(0%Z, 1); (1%Z, 1)]] in
  let learn := enum_learn table_predict w01 [] class in
  let grid := [[0; 0; 0; 0]; [3; 0; 0; 0]; [0; 3; 0; 0]; [0; 0; 3; 0]; [0; 0; 0; 3]] in
  let pts := fit_cls learn table_predict DP 1 1 1 rows xs grid in
  rows <> [] /\ binary_rows rows /\ length xs = length rows /\
  hard_class Z _ table_predict (fun h => In h class) xs /\
  exact_learner Z _ learn table_predict (fun h => In h class) xs /\
  map (fun p => fpredict table_predict (p_fit p) xs) pts
    = [[1; 0; 1; 0; 0; 1; 0]; [0; 1; 0; 1; 1; 0; 1]; [1; 0; 1; 0; 0; 1; 0]; [1; 0; 1; 0; 0; 1; 0];
       [0; 1; 0; 1; 1; 0; 1]] /\
  best_idx (1 # 2) pts = Some 0%nat /\
  gs_predict table_predict (1 # 2) pts [1; 1; 0]%Z = Some [0; 0; 1].
Proof.
  cbv zeta. split; [discriminate|]. split.
  { repeat (apply Forall_cons; [cbn; first [left; reflexivity | right; reflexivity]|]). apply Forall_nil. }
  split; [reflexivity|]. split.
  { intros h Hh. cbn in Hh.
    repeat (destruct Hh as [<- | Hh]; [split; [|reflexivity];
      repeat (apply Forall_cons; [vm_compute; first [left; reflexivity | right; reflexivity]|]); apply Forall_nil|]).
    destruct Hh. }
  split; [apply enum_exact_learner; discriminate|].
  split; [vm_compute; reflexivity|]. split; vm_compute; reflexivity.
Qed.
