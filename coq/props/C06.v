(* C06 -- constraint moments measure exactly the documented parity violations.
   Only statements, `exact`, and Print Assumptions.  All theorems are about the definitions of
   FL.Moments that the correspondence run evaluates (index, gamma = map gamma_at index, bound, ...). *)
From Coq Require Import QArith ZArith List.
From FL Require Import Num ListX Moments Moments_proofs.
From FLGen Require Gen_moments.
Import ListNotations.
Open Scope Q_scope.

(* one '+' and one '-' entry for every (event, group) pair that occurs, nothing else, no duplicates *)
Theorem C06_index_exact :
  forall (k : kind) (rows : list row),
  NoDup (index k rows) /\
  forall s e g, In (s, (e, g)) (index k rows) <->
                exists rw, In rw rows /\ event_of k rw = Some e /\ rg rw = g.
Proof. exact index_exact. Qed.
Print Assumptions C06_index_exact.

(* rows outside the conditioned label class belong to no event, with or without a control value *)
Theorem C06_event_none :
  forall (k : kind) (rw : row),
  event_of k rw = None <->
  match k with TPR => ry rw <> 1%Z | FPR => ry rw <> 0%Z | _ => False end.
Proof. exact event_none_iff. Qed.
Print Assumptions C06_event_none.

(* events are (control stratum, label class) -- or (control stratum, "all") *)
Theorem C06_event_some :
  forall (k : kind) (rw : row) (e : event),
  event_of k rw = Some e -> fst e = rc rw /\
  match k with DP | ERP => snd e = all_code | _ => snd e = ry rw end.
Proof. exact event_some. Qed.
Print Assumptions C06_event_some.

Theorem C06_gamma_is_indexed :
  forall (k : kind) (r : Q) (rows : list row) (h : list Q),
  gamma k r rows h = map (gamma_at k r rows h) (index k rows).
Proof. exact gamma_is_map. Qed.
Print Assumptions C06_gamma_is_indexed.

(* for EVERY ratio r, dataset and prediction vector; positivity of the cell counts is derived from
   membership in the index, not assumed *)
Theorem C06_gamma_spec :
  forall (k : kind) (r : Q) (rows : list row) (h : list Q) (e : event) (g : Z),
  In (e, g) (pairs_of k rows) ->
  let u := pred k rows h in
  gamma_at k r rows h (Plus, (e, g))
    == r * mean_on (in_eg k e g) rows u - mean_on (in_event k e) rows u /\
  gamma_at k r rows h (Minus, (e, g))
    == r * mean_on (in_event k e) rows u - mean_on (in_eg k e g) rows u.
Proof. exact gamma_spec. Qed.
Print Assumptions C06_gamma_spec.

(* u is the prediction itself ... *)
Theorem C06_pred_default :
  forall (k : kind) (rows : list row) (h : list Q),
  k <> ERP -> length h = length rows -> Forall2 Qeq (pred k rows h) h.
Proof. exact pred_default. Qed.
Print Assumptions C06_pred_default.

(* ... or the error indicator |h - y| for error-rate parity (hard h) *)
Theorem C06_pred_error_rate_parity :
  forall (rows : list row) (h : list Q),
  length h = length rows ->
  Forall (fun rw => ry rw = 0%Z \/ ry rw = 1%Z) rows ->
  Forall (fun x => x == 0 \/ x == 1) h ->
  Forall2 (fun p t => p == qabs (snd t - inject_Z (ry (fst t)))) (pred ERP rows h) (combine rows h).
Proof. exact pred_erp_hard. Qed.
Print Assumptions C06_pred_error_rate_parity.

Theorem C06_no_event_rows_inert :
  forall (k : kind) (r : Q) (rows : list row) (h h' : list Q) (j : idx),
  length h = length rows -> length h' = length rows ->
  agree_on_events k rows h h' ->
  gamma_at k r rows h j == gamma_at k r rows h' j.
Proof. exact no_event_rows_inert. Qed.
Print Assumptions C06_no_event_rows_inert.

Theorem C06_strata_independent :
  forall (k : kind) (r : Q) (rows : list row) (h : list Q) (s : sign) (e : event) (g : Z),
  In (e, g) (pairs_of k rows) ->
  let c := fst e in
  gamma_at k r rows h (s, (e, g))
  == gamma_at k r (restrict_rows c rows) (restrict_vec c rows h) (s, (e, g)).
Proof. exact strata_independent. Qed.
Print Assumptions C06_strata_independent.

Theorem C06_bound_const :
  forall (eps : Q) (k : kind) (rows : list row),
  length (bound eps k rows) = length (index k rows) /\ Forall (fun b => b = eps) (bound eps k rows).
Proof. exact bound_const. Qed.
Print Assumptions C06_bound_const.

(* BoundedGroupLoss: one entry per group that occurs; the entry is the group mean of the clipped loss;
   the clipped loss lies in [0, loss.max] *)
Theorem C06_bgl_index_exact :
  forall (rows : list lrow) (g : Z),
  In g (bgl_index rows) <-> exists rw, In rw rows /\ snd rw = g.
Proof. exact bgl_index_exact. Qed.
Print Assumptions C06_bgl_index_exact.

Theorem C06_bgl_gamma_spec :
  forall (l : loss) (rows : list lrow) (h : list Q),
  bgl_gamma l rows h
  = map (fun g => let sel := filter (fun t => (fst t =? g)%Z) (combine (map snd rows) (losses l rows h)) in
                  qsum (map snd sel) / inject_nat (length sel)) (bgl_index rows)
  /\ losses l rows h = zipw (fun rw p => loss_eval l (fst rw) p) rows h.
Proof. exact bgl_gamma_spec. Qed.
Print Assumptions C06_bgl_gamma_spec.

Theorem C06_loss_range :
  forall (l : loss) (y p : Q),
  (match l with Square lo hi | Absolute lo hi => lo <= hi end) ->
  0 <= loss_eval l y p /\ loss_eval l y p <= loss_max l.
Proof. exact loss_range. Qed.
Print Assumptions C06_loss_range.

(* ---- source tie: the kernels REGENERATED from utility_parity.py by translators/t_moments.py (FLGen.Gen_moments)
   are the ones the model uses; each `exact` below succeeds only if the generated definition is convertible to
   the expression written in the model ---- *)
Module G := Gen_moments.

Theorem C06_src_uentry :
  forall k r s e g pe peg rw,
  uentry k r s e g pe peg rw =
  let es := ind (in_event k e rw) in
  let ges := es * ind (in_group g rw) in
  match s with Plus => G.uplus r es ges pe peg | Minus => G.uminus r es ges pe peg end.
Proof. exact src_uentry. Qed.
Print Assumptions C06_src_uentry.

Theorem C06_src_event_of :
  forall k rw, event_of k rw = G.combine_event_control (base_event k (ry rw)) (rc rw).
Proof. exact src_event_of. Qed.
Print Assumptions C06_src_event_of.

Theorem C06_src_base_event :
  forall y,
  base_event DP y = G.base_event_DP y /\ base_event TPR y = G.base_event_TPR y /\
  base_event FPR y = G.base_event_FPR y /\ base_event EO y = G.base_event_EO y /\
  base_event ERP y = G.base_event_ERP y.
Proof. exact src_base_event. Qed.
Print Assumptions C06_src_base_event.

Theorem C06_src_utilities :
  forall rw,
  (u0 DP rw = G.util0_DP (ry rw) /\ u1 DP rw = G.util1_DP (ry rw)) /\
  (u0 TPR rw = G.util0_TPR (ry rw) /\ u1 TPR rw = G.util1_TPR (ry rw)) /\
  (u0 FPR rw = G.util0_FPR (ry rw) /\ u1 FPR rw = G.util1_FPR (ry rw)) /\
  (u0 EO rw = G.util0_EO (ry rw) /\ u1 EO rw = G.util1_EO (ry rw)) /\
  (u0 ERP rw = G.util0_ERP (ry rw) /\ u1 ERP rw = G.util1_ERP (ry rw)).
Proof. exact src_utilities. Qed.
Print Assumptions C06_src_utilities.

Theorem C06_src_pred :
  forall k rows h, pred k rows h = zipw (fun rw hi => G.pred_entry (udiff k rw) hi (u0 k rw)) rows h.
Proof. exact src_pred. Qed.
Print Assumptions C06_src_pred.

Theorem C06_src_gamma_at :
  forall k r rows h j,
  gamma_at k r rows h j = G.gamma_entry (dot (ucol k r rows j) (pred k rows h)) (nrows rows).
Proof. exact src_gamma_at. Qed.
Print Assumptions C06_src_gamma_at.

(* non-vacuity: TPR parity with a control feature; the premise of gamma_spec holds for a label-1 cell and the
   '+' entry of the half-predictor is computed (1/4 - 1/2 ... as a concrete rational) *)
Example C06_example :
  let rows := [mkRow 0 0 (Some 0%Z); mkRow 1 0 (Some 0%Z); mkRow 1 1 (Some 0%Z); mkRow 1 1 (Some 1%Z);
               mkRow 0 1 (Some 1%Z)] in
  let e : event := (Some 0%Z, 1%Z) in
  In (e, 0%Z) (pairs_of TPR rows) /\ length (index TPR rows) = 6%nat /\
  gamma_at TPR (1 # 2) rows [1; 1; 0; 1; 1] (Plus, (e, 0%Z)) == 0 /\
  event_of TPR (mkRow 0 0 (Some 0%Z)) = None.
Proof. cbv zeta. repeat split; vm_compute; auto. Qed.
