(* C06 -- constraint moments measure exactly the documented parity violations.
   Only statements, `exact`, and Print Assumptions.  All theorems are about the definitions of
   FL.Moments that the correspondence run evaluates (index, gamma = map gamma_at index, bound, ...). *)
From Coq Require Import QArith ZArith List.
From FL Require Import Num ListX Moments Moments_proofs.
From FLGen Require Gen_moments.
Import ListNotations.
Open Scope Q_scope.

(* one '+' and one '-' entry for every (event, group) pair that occurs, nothing else, no duplicates *)
Theorem C06_index_exact :
  forall (k : kind) (rows : list row),
  NoDup (index k rows) /\
  forall s e g, In (s, (e, g)) (index k rows) <->
                exists rw, In rw rows /\ event_of k rw = Some e /\ rg rw = g.
Proof. exact index_exact. Qed.
Print Assumptions C06_index_exact.

(* rows outside the conditioned label class belong to no event, with or without a control value *)
Theorem C06_event_none :
  forall (k : kind) (rw : row),
  event_of k rw = None <->
  match k with TPR => ry rw <> 1%Z | FPR => ry rw <> 0%Z | _ => False end.
Proof. exact event_none_iff. Qed.
Print Assumptions C06_event_none.

(* events are (control stratum, label class) -- or (control stratum, "all") *)
Theorem C06_event_some :
  forall (k : kind) (rw : row) (e : event),
  event_of k rw = Some e -> fst e = rc rw /\
  match k with DP | ERP => snd e = all_code | _ => snd e = ry rw end.
Proof. exact event_some. Qed.
Print Assumptions C06_event_some.

Theorem C06_gamma_is_indexed :
  forall (k : kind) (r : Q) (rows : list row) (h : list Q),
  gamma k r rows h = map (gamma_at k r rows h) (index k rows).
Proof. exact gamma_is_map. Qed.
Print Assumptions C06_gamma_is_indexed.

(* for EVERY ratio r, dataset and prediction vector; positivity of the cell counts is derived from
   membership in the index, not assumed *)
Theorem C06_gamma_spec :
  forall (k : kind) (r : Q) (rows : list row) (h : list Q) (e : event) (g : Z),
  In (e, g) (pairs_of k rows) ->
  let u := pred k rows h in
  gamma_at k r rows h (Plus, (e, g))
    == r * mean_on (in_eg k e g) rows u - mean_on (in_event k e) rows u /\
  gamma_at k r rows h (Minus, (e, g))
    == r * mean_on (in_event k e) rows u - mean_on (in_eg k e g) rows u.
Proof. exact gamma_spec. Qed.
Print Assumptions C06_gamma_spec.

(* u is the prediction itself ... *)
Theorem C06_pred_default :
  forall (k : kind) (rows : list row) (h : list Q),
  k <> ERP -> length h = length rows -> Forall2 Qeq (pred k rows h) h.
Proof. exact pred_default. Qed.
Print Assumptions C06_pred_default.

(* ... or the error indicator |h - y| for error-rate parity (hard h) *)
Theorem C06_pred_error_rate_parity :
  forall (rows : list row) (h : list Q),
  length h = length rows ->
  Forall (fun rw => ry rw = 0%Z \/ ry rw = 1%Z) rows ->
  Forall (fun x => x == 0 \/ x == 1) h ->
  Forall2 (fun p t => p == qabs (snd t - inject_Z (ry (fst t)))) (pred ERP rows h) (combine rows h).
Proof. exact pred_erp_hard. Qed.
Print Assumptions C06_pred_error_rate_parity.

Theorem C06_no_event_rows_inert :
  forall (k : kind) (r : Q) (rows : list row) (h h' : list Q) (j : idx),
  length h = length rows -> length h' = length rows ->
  agree_on_events k rows h h' ->
  gamma_at k r rows h j == gamma_at k r rows h' j.
Proof. exact no_event_rows_inert. Qed.
Print Assumptions C06_no_event_rows_inert.

Theorem C06_strata_independent :
  forall (k : kind) (r : Q) (rows : list row) (h : list Q) (s : sign) (e : event) (g : Z),
  In (e, g) (pairs_of k rows) ->
  let c := fst e in
  gamma_at k r rows h (s, (e, g))
  == gamma_at k r (restrict_rows c rows) (restrict_vec c rows h) (s, (e, g)).
Proof. exact strata_independent. Qed.
Print Assumptions C06_strata_independent.

Theorem C06_bound_const :
  forall (eps : Q) (k : kind) (rows : list row),
  length (bound eps k rows) = length (index k rows) /\ Forall (fun b => b = eps) (bound eps k rows).
Proof. exact bound_const. Qed.
Print Assumptions C06_bound_const.

(* BoundedGroupLoss: one entry per group that occurs; the entry is the group mean of the clipped loss;
   the clipped loss lies in [0, loss.max] *)
Theorem C06_bgl_index_exact :
  forall (rows : list lrow) (g : Z),
  In g (bgl_index rows) <-> exists rw, In rw rows /\ snd rw = g.
Proof. exact bgl_index_exact. Qed.
Print Assumptions C06_bgl_index_exact.

Theorem C06_bgl_gamma_spec :
  forall (l : loss) (rows : list lrow) (h : list Q),
  bgl_gamma l rows h
  = map (fun g => let sel := filter (fun t => (fst t =? g)%Z) (combine (map snd rows) (losses l rows h)) in
                  qsum (map snd sel) / inject_nat (length sel)) (bgl_index rows)
  /\ losses l rows h = zipw (fun rw p => loss_eval l (fst rw) p) rows h.
Proof. exact bgl_gamma_spec. Qed.
Print Assumptions C06_bgl_gamma_spec.

Theorem C06_loss_range :
  forall (l : loss) (y p : Q),
  (match l with Square lo hi | Absolute lo hi => lo <= hi end) ->
  0 <= loss_eval l y p /\ loss_eval l y p <= loss_max l.
Proof. exact loss_range. Qed.
Print Assumptions C06_loss_range.

(* ---- source tie: the kernels REGENERATED from utility_parity.py by translators/t_moments.py (FLGen.Gen_moments)
   are the ones the model uses; each `exact` below succeeds only if the generated definition is convertible to
   the expression written in the model ---- *)
Module G := Gen_moments.

Theorem C06_src_uentry :
  forall k r s e g pe peg rw,
  uentry k r s e g pe peg rw =
  let es := ind (in_event k e rw) in
  let ges := es * ind (in_group g rw) in
  match s with Plus => G.uplus r es ges pe peg | Minus => G.uminus r es ges pe peg end.
Proof. exact src_uentry. Qed.
Print Assumptions C06_src_uentry.

Theorem C06_src_event_of :
  forall k rw, event_of k rw = G.combine_event_control (base_event k (ry rw)) (rc rw).
Proof. exact src_event_of. Qed.
Print Assumptions C06_src_event_of.

Theorem C06_src_base_event :
  forall y,
  base_event DP y = G.base_event_DP y /\ base_event TPR y = G.base_event_TPR y /\
  base_event FPR y = G.base_event_FPR y /\ base_event EO y = G.base_event_EO y /\
  base_event ERP y = G.base_event_ERP y.
Proof. exact src_base_event. Qed.
Print Assumptions C06_src_base_event.

Theorem C06_src_utilities :
  forall rw,
  (u0 DP rw = G.util0_DP (ry rw) /\ u1 DP rw = G.util1_DP (ry rw)) /\
  (u0 TPR rw = G.util0_TPR (ry rw) /\ u1 TPR rw = G.util1_TPR (ry rw)) /\
  (u0 FPR rw = G.util0_FPR (ry rw) /\ u1 FPR rw = G.util1_FPR (ry rw)) /\
  (u0 EO rw = G.util0_EO (ry rw) /\ u1 EO rw = G.util1_EO (ry rw)) /\
  (u0 ERP rw = G.util0_ERP (ry rw) /\ u1 ERP rw = G.util1_ERP (ry rw)).
Proof. exact src_utilities. Qed.
Print Assumptions C06_src_utilities.

Theorem C06_src_pred :
  forall k rows h, pred k rows h = zipw (fun rw hi => G.pred_entry (udiff k rw) hi (u0 k rw)) rows h.
Proof. exact src_pred. Qed.
Print Assumptions C06_src_pred.

Theorem C06_src_gamma_at :
  forall k r rows h j,
  gamma_at k r rows h j = G.gamma_entry (dot (ucol k r rows j) (pred k rows h)) (nrows rows).
Proof. exact src_gamma_at. Qed.
Print Assumptions C06_src_gamma_at.

(* non-vacuity: TPR parity with a control feature; the premise of gamma_spec holds for a label-1 cell and the
   '+' entry of the half-predictor is computed (1/4 - 1/2 ... as a concrete rational) *)
Example C06_example :
  let rows := [mkRow 0 0 (Some 0%Z); mkRow 1 0 (Some 0%Z); mkRow 1 1 (Some 0%Z); mkRow 1 1 (Some 1%Z);
               mkRow 0 1 (Some 1%Z)] in
  let e : event := (Some 0%Z, 1%Z) in
  In (e, 0%Z) (pairs_of TPR rows) /\ length (index TPR rows) = 6%nat /\
  gamma_at TPR (1 # 2) rows [1; 1; 0; 1; 1] (Plus, (e, 0%Z)) == 0 /\
  event_of TPR (mkRow 0 0 (Some 0%Z)) = None.
Proof. cbv zeta. repeat split; vm_compute; auto. Qed.

(* ================= gamma_vs_metricframe: the last clause of C06 =================
   For ratio r = 1 and a hard classifier h, the '+' entry of gamma at (event, g) is
   MetricFrame(metrics=<matching rate>, y_true=y, y_pred=h(X), sensitive_features=g).by_group[g] - .overall
   and the '-' entry is its negation.  The MetricFrame side is C03's model Fairness.metric_frame on unit weights
   (mf_of); its cells are the BaseRates (C14) / Fairness (C03) rates of `filter (group = g) rows` (the two
   `q == spec_of ...` conjuncts restate that).  Guards, all explicit: labels 0/1, h in {0,1}, one prediction per
   row, and the (event, group) cell occurs -- so every denominator involved is positive (group size; number of
   label-1 / label-0 rows of the group and overall); no conclusion rests on the totalised x/0 = 0. *)
From FL Require Import MomentBridge MomentBridge_proofs.
From FL Require BaseRates Fairness.

(* matching rates: DP -> selection_rate on "all"; TPR -> true_positive_rate on "label=1"; FPR ->
   false_positive_rate on "label=0"; EO -> both; ERP -> zero_one_loss (= 1 - accuracy_score) on "all" *)
Theorem C06_matching_metric :
  matching_metric DP all_code = Some Fairness.BSel /\ matching_metric TPR 1%Z = Some Fairness.BTpr /\
  matching_metric FPR 0%Z = Some Fairness.BFpr /\ matching_metric EO 1%Z = Some Fairness.BTpr /\
  matching_metric EO 0%Z = Some Fairness.BFpr /\ matching_metric ERP all_code = Some Fairness.BZol /\
  (forall k rows c bv g, binary_labels rows -> In ((c, bv), g) (pairs_of k rows) ->
                         exists b, matching_metric k bv = Some b).
Proof. exact (conj eq_refl (conj eq_refl (conj eq_refl (conj eq_refl (conj eq_refl (conj eq_refl cell_metric)))))). Qed.
Print Assumptions C06_matching_metric.

(* no control features, any of the five moments *)
Theorem C06_gamma_vs_metricframe :
  forall (k : kind) (bv : Z) (b : Fairness.base) (rows : list row) (h : list Q) (g : Z),
  matching_metric k bv = Some b ->
  single_stratum None rows -> binary_labels rows -> length h = length rows -> hard h ->
  In ((None, bv), g) (pairs_of k rows) ->
  exists f q o,
    mf_of b rows h = Some f /\
    frame_at (map rg rows) f g = Some (Fin q) /\ Fairness.fr_overall f = Fin o /\
    q == spec_of b (metric_rows_of g rows h) /\ o == spec_of b (metric_rows rows h) /\
    mf_gap b rows h g = Some (Fin (q + - o)) /\
    gamma_at k 1 rows h (Plus, ((None, bv), g)) == q - o /\
    gamma_at k 1 rows h (Minus, ((None, bv), g)) == - (q - o).
Proof. exact gamma_vs_metricframe. Qed.
Print Assumptions C06_gamma_vs_metricframe.

(* the five families spelled out *)
Theorem C06_gamma_vs_metricframe_DemographicParity :
  forall (rows : list row) (h : list Q) (g : Z),
  single_stratum None rows -> binary_labels rows -> length h = length rows -> hard h ->
  In ((None, all_code), g) (pairs_of DP rows) ->
  exists f q o,
    mf_of Fairness.BSel rows h = Some f /\
    frame_at (map rg rows) f g = Some (Fin q) /\ Fairness.fr_overall f = Fin o /\
    gamma_at DP 1 rows h (Plus, ((None, all_code), g)) == q - o /\
    gamma_at DP 1 rows h (Minus, ((None, all_code), g)) == - (q - o).
Proof. exact gvm_demographic_parity. Qed.
Print Assumptions C06_gamma_vs_metricframe_DemographicParity.

Theorem C06_gamma_vs_metricframe_TruePositiveRateParity :
  forall (rows : list row) (h : list Q) (g : Z),
  single_stratum None rows -> binary_labels rows -> length h = length rows -> hard h ->
  In ((None, 1%Z), g) (pairs_of TPR rows) ->
  exists f q o,
    mf_of Fairness.BTpr rows h = Some f /\
    frame_at (map rg rows) f g = Some (Fin q) /\ Fairness.fr_overall f = Fin o /\
    gamma_at TPR 1 rows h (Plus, ((None, 1%Z), g)) == q - o /\
    gamma_at TPR 1 rows h (Minus, ((None, 1%Z), g)) == - (q - o).
Proof. exact gvm_true_positive_rate_parity. Qed.
Print Assumptions C06_gamma_vs_metricframe_TruePositiveRateParity.

Theorem C06_gamma_vs_metricframe_FalsePositiveRateParity :
  forall (rows : list row) (h : list Q) (g : Z),
  single_stratum None rows -> binary_labels rows -> length h = length rows -> hard h ->
  In ((None, 0%Z), g) (pairs_of FPR rows) ->
  exists f q o,
    mf_of Fairness.BFpr rows h = Some f /\
    frame_at (map rg rows) f g = Some (Fin q) /\ Fairness.fr_overall f = Fin o /\
    gamma_at FPR 1 rows h (Plus, ((None, 0%Z), g)) == q - o /\
    gamma_at FPR 1 rows h (Minus, ((None, 0%Z), g)) == - (q - o).
Proof. exact gvm_false_positive_rate_parity. Qed.
Print Assumptions C06_gamma_vs_metricframe_FalsePositiveRateParity.

Theorem C06_gamma_vs_metricframe_EqualizedOdds :
  forall (rows : list row) (h : list Q) (g : Z),
  single_stratum None rows -> binary_labels rows -> length h = length rows -> hard h ->
  (In ((None, 1%Z), g) (pairs_of EO rows) ->
   exists f q o,
     mf_of Fairness.BTpr rows h = Some f /\
     frame_at (map rg rows) f g = Some (Fin q) /\ Fairness.fr_overall f = Fin o /\
     gamma_at EO 1 rows h (Plus, ((None, 1%Z), g)) == q - o /\
     gamma_at EO 1 rows h (Minus, ((None, 1%Z), g)) == - (q - o)) /\
  (In ((None, 0%Z), g) (pairs_of EO rows) ->
   exists f q o,
     mf_of Fairness.BFpr rows h = Some f /\
     frame_at (map rg rows) f g = Some (Fin q) /\ Fairness.fr_overall f = Fin o /\
     gamma_at EO 1 rows h (Plus, ((None, 0%Z), g)) == q - o /\
     gamma_at EO 1 rows h (Minus, ((None, 0%Z), g)) == - (q - o)).
Proof. exact gvm_equalized_odds. Qed.
Print Assumptions C06_gamma_vs_metricframe_EqualizedOdds.

Theorem C06_gamma_vs_metricframe_ErrorRateParity :
  forall (rows : list row) (h : list Q) (g : Z),
  single_stratum None rows -> binary_labels rows -> length h = length rows -> hard h ->
  In ((None, all_code), g) (pairs_of ERP rows) ->
  exists f q o,
    mf_of Fairness.BZol rows h = Some f /\
    frame_at (map rg rows) f g = Some (Fin q) /\ Fairness.fr_overall f = Fin o /\
    gamma_at ERP 1 rows h (Plus, ((None, all_code), g)) == q - o /\
    gamma_at ERP 1 rows h (Minus, ((None, all_code), g)) == - (q - o).
Proof. exact gvm_error_rate_parity. Qed.
Print Assumptions C06_gamma_vs_metricframe_ErrorRateParity.

(* with control features: the entries of control stratum c are by_group - overall of the MetricFrame of the rows
   of stratum c alone (MetricFrame(..., control_features=c) reports exactly these blocks) *)
Theorem C06_gamma_vs_metricframe_control :
  forall (k : kind) (bv : Z) (b : Fairness.base) (rows : list row) (h : list Q) (c : option Z) (g : Z),
  matching_metric k bv = Some b ->
  binary_labels rows -> length h = length rows -> hard h ->
  In ((c, bv), g) (pairs_of k rows) ->
  let rows_c := stratum_rows c rows in
  let h_c := stratum_vec c rows h in
  exists f q o,
    mf_of b rows_c h_c = Some f /\
    frame_at (map rg rows_c) f g = Some (Fin q) /\ Fairness.fr_overall f = Fin o /\
    q == spec_of b (metric_rows_of g rows_c h_c) /\ o == spec_of b (metric_rows rows_c h_c) /\
    mf_gap b rows_c h_c g = Some (Fin (q + - o)) /\
    gamma_at k 1 rows h (Plus, ((c, bv), g)) == q - o /\
    gamma_at k 1 rows h (Minus, ((c, bv), g)) == - (q - o).
Proof. exact gamma_vs_metricframe_control. Qed.
Print Assumptions C06_gamma_vs_metricframe_control.

(* the statement in the shape the correspondence run evaluates (MomentBridgeIO.run_bridge): EVERY entry of the
   index, any moment, with or without control features *)
Theorem C06_gamma_vs_metricframe_index :
  forall (k : kind) (rows : list row) (h : list Q) (s : sign) (e : event) (g : Z),
  binary_labels rows -> length h = length rows -> hard h ->
  In (s, (e, g)) (index k rows) ->
  exists d, bridge_entry k rows h (s, (e, g)) = Some (Fin d) /\
            gamma_at k 1 rows h (Plus, (e, g)) == d /\ gamma_at k 1 rows h (Minus, (e, g)) == - d.
Proof. exact bridge_entry_spec. Qed.
Print Assumptions C06_gamma_vs_metricframe_index.

(* MeanLoss (ConditionalLossMoment with no_groups=True): one constraint, the mean clipped loss over all rows *)
Theorem C06_mean_loss_spec :
  forall (l : loss) (rows : list lrow) (h : list Q),
  rows <> [] -> length h = length rows ->
  mean_loss_index rows = [0%Z] /\
  mean_loss_gamma l rows h = [qsum (losses l rows h) / inject_nat (length rows)].
Proof. exact mean_loss_spec. Qed.
Print Assumptions C06_mean_loss_spec.

(* ErrorRate(costs=...): accepted exactly for a {"fp","fn"} dict of non-negative costs that are not both 0 *)
Theorem C06_er_config_spec :
  forall (costs : option (bool * Q * Q)),
  match costs with
  | None => er_config costs = Some (1, 1)
  | Some (keys_ok, fp, fn) =>
      (er_config costs = Some (fp, fn) <-> keys_ok = true /\ 0 <= fp /\ 0 <= fn /\ ~ (fp == 0 /\ fn == 0)) /\
      (er_config costs = None <-> ~ (keys_ok = true /\ 0 <= fp /\ 0 <= fn /\ ~ (fp == 0 /\ fn == 0)))
  end.
Proof. exact er_config_spec. Qed.
Print Assumptions C06_er_config_spec.

(* non-vacuity of the bridge: TPR parity, two groups; every guard holds, the cell (label=1, group 0) occurs,
   TPR_0 - TPR = 1/2 - 2/3 on both sides; and a control-feature instance *)
Example C06_bridge_example :
  let rows := [mkRow 1 0 None; mkRow 1 0 None; mkRow 1 1 None; mkRow 0 1 None; mkRow 0 0 None] in
  let h := [1; 0; 1; 1; 0] in
  single_stratum None rows /\ binary_labels rows /\ length h = length rows /\ hard h /\
  In ((None, 1%Z), 0%Z) (pairs_of TPR rows) /\
  match mf_gap Fairness.BTpr rows h 0%Z with Some (Fin d) => d == - (1 # 6) | _ => False end /\
  gamma_at TPR 1 rows h (Plus, ((None, 1%Z), 0%Z)) == - (1 # 6) /\
  let rows2 := [mkRow 1 0 (Some 7%Z); mkRow 0 1 (Some 7%Z); mkRow 0 0 (Some 7%Z); mkRow 1 1 (Some 8%Z);
                mkRow 0 0 (Some 8%Z)] in
  In ((Some 7%Z, all_code), 0%Z) (pairs_of DP rows2) /\
  match bridge_entry DP rows2 h (Plus, ((Some 7%Z, all_code), 0%Z)) with Some (Fin d) => d == (1 # 3) | _ => False end /\
  gamma_at DP 1 rows2 h (Plus, ((Some 7%Z, all_code), 0%Z)) == 1 # 3.
Proof.
  cbv zeta. unfold single_stratum, binary_labels, hard.
  split; [repeat (apply Forall_cons; [reflexivity|]); apply Forall_nil|].
  split; [repeat (apply Forall_cons; [first [left; reflexivity | right; reflexivity]|]); apply Forall_nil|].
  split; [reflexivity|].
  split; [repeat (apply Forall_cons; [first [left; reflexivity | right; reflexivity]|]); apply Forall_nil|].
  repeat split; vm_compute; auto.
Qed.
