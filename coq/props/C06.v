From Coq Require Import QArith ZArith List.
From FL Require Import Num Moments Moments_proofs.
Import ListNotations.

Theorem C06_bound_const : forall (eps : Q) (k : kind) (rows : list row),
  length (bound eps k rows) = length (index k rows) /\ Forall (fun b => b = eps) (bound eps k rows).
Proof. exact bound_const. Qed.
Print Assumptions C06_bound_const.
