(* C10 -- randomised predictors sample from the probability mass function they report.
   Only statements, `exact`, and Print Assumptions.  The statements are about the expressions
   REGENERATED from /repo on every run (FLGen.Gen_thresholder: the comparison performed by each
   threshold operator, the two arithmetic expressions of InterpolatedThresholder._pmf_predict, the
   comparison with rand() in both predict methods, the indexing of choice's p= argument); the
   fitted rule (interpolation_dict / weights_ / predictors' outputs) is universally quantified.
   NOT proved (no measure theory is formalised): "frequencies over independent seeds match p".
   What is proved is the exact set of uniform numbers mapped to each outcome (an interval of
   length p, resp. of length weights_[t]); the frequency statement is then the elementary fact
   about a uniform variate and is only TESTED (harness, 6-sigma band). *)
From Coq Require Import QArith ZArith List Permutation.
From FL Require Import Num ListX Thresholder Thresholder_proofs.
From FLGen Require Gen_thresholder.
Import ListNotations.
Open Scope Q_scope.

Module G := Gen_thresholder.

(* the pmf of the current source for one fitted rule and one score *)
Definition apply_src (o : throp) (s : Q) : bool := G.op_src (t_op o) (t_thr o) s.
Definition pmf_thr_src (r : rule) (s : Q) : Q :=
  G.ignore_src (p_ignore r) (pred_const r)
    (G.interp_src (p0 r) (b2q (apply_src (op0 r) s)) (p1 r) (b2q (apply_src (op1 r) s))).
Definition pmf_row_src (d : list (Z * rule)) (g : Z) (s : Q) : Q :=
  match zassoc g d with Some r => pmf_thr_src r s | None => 0 end.
Definition pmf_rows_src (d : list (Z * rule)) (rows : list (Z * Q)) : list (Q * Q) :=
  map (fun gs => G.cols_src (pmf_row_src d (fst gs) (snd gs))) rows.

(* the generated fragment is the model the correspondence run evaluates *)
Theorem C10_src_is_model :
  (forall r s, pmf_thr_src r s = pmf_thr r s) /\
  (forall d rows, pmf_rows_src d rows = pmf_rows d rows) /\
  (forall p u, G.draw_thr_src p u = draw p u) /\ (forall p u, G.draw_eg_src p u = draw p u) /\
  (forall Qw outs, G.reg_probs_src Qw outs = reg_probs Qw outs) /\
  (forall Qw outs, G.pmf_eg_src Qw outs = pmf_eg Qw outs).
Proof. exact (conj (fun _ _ => eq_refl) (conj (fun _ _ => eq_refl) (conj (fun _ _ => eq_refl)
              (conj (fun _ _ => eq_refl) (conj (fun _ _ => eq_refl) (fun _ _ => eq_refl)))))). Qed.
Print Assumptions C10_src_is_model.

(* every valid rule (p0, p1 >= 0, p0 + p1 = 1, p_ignore and the constant in [0,1]) reports a
   distribution: both columns in [0,1], summing to 1 -- for every score and any thresholds *)
Theorem C10_pmf_thr_unit : forall r s, rule_valid r ->
  0 <= pmf_thr_src r s /\ pmf_thr_src r s <= 1 /\
  fst (G.cols_src (pmf_thr_src r s)) + snd (G.cols_src (pmf_thr_src r s)) == 1 /\
  0 <= fst (G.cols_src (pmf_thr_src r s)) /\ fst (G.cols_src (pmf_thr_src r s)) <= 1.
Proof. exact pmf_thr_unit. Qed.
Print Assumptions C10_pmf_thr_unit.

Theorem C10_pmf_rows_unit : forall d rows, (forall g r, In (g, r) d -> rule_valid r) ->
  Forall (fun c => 0 <= fst c /\ 0 <= snd c /\ fst c + snd c == 1) (pmf_rows_src d rows).
Proof. exact pmf_rows_unit. Qed.
Print Assumptions C10_pmf_rows_unit.

(* the reported row depends only on that row's (group, score): trivial BY CONSTRUCTION of the
   model (a `map` over rows) -- the content is in the correspondence run, which checks that the
   implementation's table equals this map on permuted / duplicated query rows *)
Theorem C10_pmf_thr_group_score_only : forall d rows i,
  nth_error (pmf_rows_src d rows) i =
  option_map (fun gs => G.cols_src (pmf_row_src d (fst gs) (snd gs))) (nth_error rows i).
Proof. exact pmf_thr_group_score_only. Qed.
Print Assumptions C10_pmf_thr_group_score_only.

Theorem C10_pmf_rows_perm : forall d rows rows', Permutation rows rows' ->
  Permutation (pmf_rows_src d rows) (pmf_rows_src d rows').
Proof. exact pmf_rows_perm. Qed.
Print Assumptions C10_pmf_rows_perm.

(* without flip (both operations are '>'), for ARBITRARY thresholds (finite, +-inf) and weights
   p0, p1 >= 0, p_ignore <= 1: the positive probability never decreases as the score increases *)
Theorem C10_pmf_thr_monotone : forall r s s',
  0 <= p0 r -> 0 <= p1 r -> p_ignore r <= 1 ->
  t_op (op0 r) = OpGt -> t_op (op1 r) = OpGt ->
  s <= s' -> pmf_thr_src r s <= pmf_thr_src r s'.
Proof. exact pmf_thr_monotone. Qed.
Print Assumptions C10_pmf_thr_monotone.

(* ExponentiatedGradient: the reported probability is the weights_-weighted mixture of the stored
   predictors' outputs, paired by predictor id, and lies in [0,1] *)
Theorem C10_pmf_eg_mixture : forall Qw outs, NoDup (map fst Qw) ->
  G.pmf_eg_src Qw outs == qsum (map (fun tw => snd tw * nth (fst tw) outs 0) Qw).
Proof. exact pmf_eg_mixture. Qed.
Print Assumptions C10_pmf_eg_mixture.

Theorem C10_pmf_eg_unit : forall Qw outs,
  Forall (fun tw => 0 <= snd tw) Qw -> qsum (map snd Qw) == 1 ->
  Forall (fun o => 0 <= o /\ o <= 1) outs ->
  0 <= G.pmf_eg_src Qw outs /\ G.pmf_eg_src Qw outs <= 1 /\
  fst (pmf_cols (G.pmf_eg_src Qw outs)) + snd (pmf_cols (G.pmf_eg_src Qw outs)) == 1.
Proof. exact pmf_eg_unit. Qed.
Print Assumptions C10_pmf_eg_unit.

(* the draw: label 1 exactly on the uniform numbers u <= p (the code compares p >= rand()),
   labels are 0/1; so the u in [0,1) giving 1 form the interval [0,p] *)
Theorem C10_draw_spec : forall p u,
  (G.draw_thr_src p u = 1%Z <-> u <= p) /\ (G.draw_eg_src p u = 1%Z <-> u <= p) /\
  (G.draw_thr_src p u = 0%Z \/ G.draw_thr_src p u = 1%Z) /\
  (G.draw_thr_src p u = 0%Z <-> p < u).
Proof. exact draw_spec_all. Qed.
Print Assumptions C10_draw_spec.

(* p = 1: label 1 for every u of [0,1).   p = 0: label 0 for every u of (0,1); the single point
   u = 0 (which rand() may return) gives label 1 because the comparison is non-strict. *)
Theorem C10_draw_deterministic : forall p u,
  (p == 1 -> u <= 1 -> G.draw_thr_src p u = 1%Z) /\
  (p == 0 -> 0 < u -> G.draw_thr_src p u = 0%Z) /\
  (p == 0 -> 0 <= u -> (G.draw_thr_src p u = 1%Z <-> u == 0)).
Proof. exact draw_deterministic. Qed.
Print Assumptions C10_draw_deterministic.

(* regression moments: with p = weights_[pred.columns] (as regenerated from the source), the
   uniform numbers that select predictor t are exactly [prefix_t, prefix_t + weights_[t]) --
   an interval whose length is t's OWN weight ... *)
Definition draw_reg_index_src (Qw : weights) (outs : list Q) (u : Q) : nat :=
  choice_index (G.reg_probs_src Qw outs) u 0 0.
Definition draw_reg_src (Qw : weights) (outs : list Q) (u : Q) : Q :=
  choice (reg_values Qw outs) (G.reg_probs_src Qw outs) u.

Theorem C10_draw_reg_aligned : forall Qw outs u t,
  Forall (fun tw => 0 <= snd tw) Qw -> (t < length outs)%nat -> 0 <= u ->
  (draw_reg_index_src Qw outs u = t <->
   reg_prefix Qw outs t <= u /\ u < reg_prefix Qw outs t + weight_of Qw t).
Proof. exact draw_reg_aligned. Qed.
Print Assumptions C10_draw_reg_aligned.

(* ... whatever the order in which weights_ stores its support ... *)
Theorem C10_draw_reg_order_irrelevant : forall Qw Qw' outs u,
  NoDup (map fst Qw) -> Permutation Qw Qw' ->
  combine (reg_values Qw' outs) (G.reg_probs_src Qw' outs) = combine (reg_values Qw outs) (G.reg_probs_src Qw outs) /\
  draw_reg_src Qw' outs u = draw_reg_src Qw outs u.
Proof. exact draw_reg_order_irrelevant. Qed.
Print Assumptions C10_draw_reg_order_irrelevant.

(* ... and the returned number is the output of that one stored predictor, of positive weight *)
Theorem C10_draw_reg_value : forall Qw outs u,
  Forall (fun tw => 0 <= snd tw) Qw -> ids_cover Qw (length outs) -> qsum (map snd Qw) == 1 ->
  0 <= u -> u < 1 ->
  exists t, (t < length outs)%nat /\ 0 < weight_of Qw t /\
            reg_prefix Qw outs t <= u /\ u < reg_prefix Qw outs t + weight_of Qw t /\
            draw_reg_index_src Qw outs u = t /\ draw_reg_src Qw outs u = nth t outs 0.
Proof. exact draw_reg_value. Qed.
Print Assumptions C10_draw_reg_value.

(* non-vacuity + the defect fixed in /repo commit 072f331: weights_ stored as index [2, 0, 1]
   (the zero-weight predictor 1 was appended last).  Aligned by id, u = 3/4 selects predictor 2
   and returns ITS output 3/4; pairing positionally (p = weights_ as stored) returns the zero
   column of predictor 1 with probability 1/2 and never predictor 2's output. *)
Example C10_example_mispairing :
  let Qw := [(2%nat, 1#2); (0%nat, 1#2); (1%nat, 0)] in
  let outs := [1#4; 1#2; 3#4] in
  Forall (fun tw => 0 <= snd tw) Qw /\ ids_cover Qw (length outs) /\ qsum (map snd Qw) == 1 /\
  draw_reg_src Qw outs (3#4) = (3#4) /\ draw_reg_positional Qw outs (3#4) = 0 /\
  draw_reg_src [(0%nat, 1#2); (1%nat, 0); (2%nat, 1#2)] outs (3#4) = (3#4).
Proof. exact example_mispairing. Qed.

(* non-vacuity for the thresholder: an equalized-odds style rule with p_ignore > 0, a threshold
   at a training level midpoint and an infinite threshold; score exactly AT the threshold is not above it *)
Example C10_example_rule :
  let r := mk_rule (1#3) (mk_throp OpGt (Fin (1#2))) (2#3) (mk_throp OpGt PInf) (1#4) (1#2) in
  rule_valid r /\ pmf_thr_src r (1#2) == 1#8 /\ pmf_thr_src r 1 == 3#8 /\ pmf_thr_src r (1#2) <= pmf_thr_src r 1.
Proof. exact example_rule. Qed.
