(* C10 -- randomised predictors sample from the probability mass function they report.
   Only statements, `exact`, and Print Assumptions.  The statements are about the expressions
   REGENERATED from /repo on every run (FLGen.Gen_thresholder: the comparison performed by each
   threshold operator, the two arithmetic expressions of InterpolatedThresholder._pmf_predict, the
   comparison with rand() in both predict methods, the indexing of choice's p= argument); the
   fitted rule (interpolation_dict / weights_ / predictors' outputs) is universally quantified.
   NOT proved (no measure theory is formalised): "frequencies over independent seeds match p".
   What is proved is the exact set of uniform numbers mapped to each outcome (an interval of
   length p, resp. of length weights_[t]); the frequency statement is then the elementary fact
   about a uniform variate and is only TESTED (harness, 6-sigma band). *)
From Coq Require Import QArith ZArith List Permutation.
From FL Require Import Num ListX Thresholder Thresholder_proofs.
From FL Require Tradeoff Hull Interp ThreshOpt ThreshOpt_proofs ThreshOptSrc ThreshOptSrc_proofs Saddle SaddleFit.
From FL Require ThresholderBridge ThresholderBridge_proofs.
From FLGen Require Gen_thresholder Gen_threshopt Gen_egconst Gen_egweights.
Import ListNotations.
Open Scope Q_scope.

Module G := Gen_thresholder.

(* the pmf of the current source for one fitted rule and one score *)
Definition apply_src (o : throp) (s : Q) : bool := G.op_src (t_op o) (t_thr o) s.
Definition pmf_thr_src (r : rule) (s : Q) : Q :=
  G.ignore_src (p_ignore r) (pred_const r)
    (G.interp_src (p0 r) (b2q (apply_src (op0 r) s)) (p1 r) (b2q (apply_src (op1 r) s))).
Definition pmf_row_src (d : list (Z * rule)) (g : Z) (s : Q) : Q :=
  match zassoc g d with Some r => pmf_thr_src r s | None => 0 end.
Definition pmf_rows_src (d : list (Z * rule)) (rows : list (Z * Q)) : list (Q * Q) :=
  map (fun gs => G.cols_src (pmf_row_src d (fst gs) (snd gs))) rows.

(* the generated fragment is the model the correspondence run evaluates *)
Theorem C10_src_is_model :
  (forall r s, pmf_thr_src r s = pmf_thr r s) /\
  (forall d rows, pmf_rows_src d rows = pmf_rows d rows) /\
  (forall p u, G.draw_thr_src p u = draw p u) /\ (forall p u, G.draw_eg_src p u = draw p u) /\
  (forall Qw outs, G.reg_probs_src Qw outs = reg_probs Qw outs) /\
  (forall Qw outs, G.pmf_eg_src Qw outs = pmf_eg Qw outs).
Proof. exact (conj (fun _ _ => eq_refl) (conj (fun _ _ => eq_refl) (conj (fun _ _ => eq_refl)
              (conj (fun _ _ => eq_refl) (conj (fun _ _ => eq_refl) (fun _ _ => eq_refl)))))). Qed.
Print Assumptions C10_src_is_model.

(* every valid rule (p0, p1 >= 0, p0 + p1 = 1, p_ignore and the constant in [0,1]) reports a
   distribution: both columns in [0,1], summing to 1 -- for every score and any thresholds *)
Theorem C10_pmf_thr_unit : forall r s, rule_valid r ->
  0 <= pmf_thr_src r s /\ pmf_thr_src r s <= 1 /\
  fst (G.cols_src (pmf_thr_src r s)) + snd (G.cols_src (pmf_thr_src r s)) == 1 /\
  0 <= fst (G.cols_src (pmf_thr_src r s)) /\ fst (G.cols_src (pmf_thr_src r s)) <= 1.
Proof. exact pmf_thr_unit. Qed.
Print Assumptions C10_pmf_thr_unit.

Theorem C10_pmf_rows_unit : forall d rows, (forall g r, In (g, r) d -> rule_valid r) ->
  Forall (fun c => 0 <= fst c /\ 0 <= snd c /\ fst c + snd c == 1) (pmf_rows_src d rows).
Proof. exact pmf_rows_unit. Qed.
Print Assumptions C10_pmf_rows_unit.

(* the reported row depends only on that row's (group, score): trivial BY CONSTRUCTION of the
   model (a `map` over rows) -- the content is in the correspondence run, which checks that the
   implementation's table equals this map on permuted / duplicated query rows *)
Theorem C10_pmf_thr_group_score_only : forall d rows i,
  nth_error (pmf_rows_src d rows) i =
  option_map (fun gs => G.cols_src (pmf_row_src d (fst gs) (snd gs))) (nth_error rows i).
Proof. exact pmf_thr_group_score_only. Qed.
Print Assumptions C10_pmf_thr_group_score_only.

Theorem C10_pmf_rows_perm : forall d rows rows', Permutation rows rows' ->
  Permutation (pmf_rows_src d rows) (pmf_rows_src d rows').
Proof. exact pmf_rows_perm. Qed.
Print Assumptions C10_pmf_rows_perm.

(* without flip (both operations are '>'), for ARBITRARY thresholds (finite, +-inf) and weights
   p0, p1 >= 0, p_ignore <= 1: the positive probability never decreases as the score increases *)
Theorem C10_pmf_thr_monotone : forall r s s',
  0 <= p0 r -> 0 <= p1 r -> p_ignore r <= 1 ->
  t_op (op0 r) = OpGt -> t_op (op1 r) = OpGt ->
  s <= s' -> pmf_thr_src r s <= pmf_thr_src r s'.
Proof. exact pmf_thr_monotone. Qed.
Print Assumptions C10_pmf_thr_monotone.

(* ExponentiatedGradient: the reported probability is the weights_-weighted mixture of the stored
   predictors' outputs, paired by predictor id, and lies in [0,1] *)
Theorem C10_pmf_eg_mixture : forall Qw outs, NoDup (map fst Qw) ->
  G.pmf_eg_src Qw outs == qsum (map (fun tw => snd tw * nth (fst tw) outs 0) Qw).
Proof. exact pmf_eg_mixture. Qed.
Print Assumptions C10_pmf_eg_mixture.

Theorem C10_pmf_eg_unit : forall Qw outs,
  Forall (fun tw => 0 <= snd tw) Qw -> qsum (map snd Qw) == 1 ->
  Forall (fun o => 0 <= o /\ o <= 1) outs ->
  0 <= G.pmf_eg_src Qw outs /\ G.pmf_eg_src Qw outs <= 1 /\
  fst (pmf_cols (G.pmf_eg_src Qw outs)) + snd (pmf_cols (G.pmf_eg_src Qw outs)) == 1.
Proof. exact pmf_eg_unit. Qed.
Print Assumptions C10_pmf_eg_unit.

(* the draw: label 1 exactly on the uniform numbers u <= p (the code compares p >= rand()),
   labels are 0/1; so the u in [0,1) giving 1 form the interval [0,p] *)
Theorem C10_draw_spec : forall p u,
  (G.draw_thr_src p u = 1%Z <-> u <= p) /\ (G.draw_eg_src p u = 1%Z <-> u <= p) /\
  (G.draw_thr_src p u = 0%Z \/ G.draw_thr_src p u = 1%Z) /\
  (G.draw_thr_src p u = 0%Z <-> p < u).
Proof. exact draw_spec_all. Qed.
Print Assumptions C10_draw_spec.

(* p = 1: label 1 for every u of [0,1).   p = 0: label 0 for every u of (0,1); the single point
   u = 0 (which rand() may return) gives label 1 because the comparison is non-strict. *)
Theorem C10_draw_deterministic : forall p u,
  (p == 1 -> u <= 1 -> G.draw_thr_src p u = 1%Z) /\
  (p == 0 -> 0 < u -> G.draw_thr_src p u = 0%Z) /\
  (p == 0 -> 0 <= u -> (G.draw_thr_src p u = 1%Z <-> u == 0)).
Proof. exact draw_deterministic. Qed.
Print Assumptions C10_draw_deterministic.

(* regression moments: with p = weights_[pred.columns] (as regenerated from the source), the
   uniform numbers that select predictor t are exactly [prefix_t, prefix_t + weights_[t]) --
   an interval whose length is t's OWN weight ... *)
Definition draw_reg_index_src (Qw : weights) (outs : list Q) (u : Q) : nat :=
  choice_index (G.reg_probs_src Qw outs) u 0 0.
Definition draw_reg_src (Qw : weights) (outs : list Q) (u : Q) : Q :=
  choice (reg_values Qw outs) (G.reg_probs_src Qw outs) u.

Theorem C10_draw_reg_aligned : forall Qw outs u t,
  Forall (fun tw => 0 <= snd tw) Qw -> (t < length outs)%nat -> 0 <= u ->
  (draw_reg_index_src Qw outs u = t <->
   reg_prefix Qw outs t <= u /\ u < reg_prefix Qw outs t + weight_of Qw t).
Proof. exact draw_reg_aligned. Qed.
Print Assumptions C10_draw_reg_aligned.

(* ... whatever the order in which weights_ stores its support ... *)
Theorem C10_draw_reg_order_irrelevant : forall Qw Qw' outs u,
  NoDup (map fst Qw) -> Permutation Qw Qw' ->
  combine (reg_values Qw' outs) (G.reg_probs_src Qw' outs) = combine (reg_values Qw outs) (G.reg_probs_src Qw outs) /\
  draw_reg_src Qw' outs u = draw_reg_src Qw outs u.
Proof. exact draw_reg_order_irrelevant. Qed.
Print Assumptions C10_draw_reg_order_irrelevant.

(* ... and the returned number is the output of that one stored predictor, of positive weight *)
Theorem C10_draw_reg_value : forall Qw outs u,
  Forall (fun tw => 0 <= snd tw) Qw -> ids_cover Qw (length outs) -> qsum (map snd Qw) == 1 ->
  0 <= u -> u < 1 ->
  exists t, (t < length outs)%nat /\ 0 < weight_of Qw t /\
            reg_prefix Qw outs t <= u /\ u < reg_prefix Qw outs t + weight_of Qw t /\
            draw_reg_index_src Qw outs u = t /\ draw_reg_src Qw outs u = nth t outs 0.
Proof. exact draw_reg_value. Qed.
Print Assumptions C10_draw_reg_value.

(* non-vacuity + the defect fixed in /repo commit 072f331: weights_ stored as index [2, 0, 1]
   (the zero-weight predictor 1 was appended last).  Aligned by id, u = 3/4 selects predictor 2
   and returns ITS output 3/4; pairing positionally (p = weights_ as stored) returns the zero
   column of predictor 1 with probability 1/2 and never predictor 2's output. *)
Example C10_example_mispairing :
  let Qw := [(2%nat, 1#2); (0%nat, 1#2); (1%nat, 0)] in
  let outs := [1#4; 1#2; 3#4] in
  Forall (fun tw => 0 <= snd tw) Qw /\ ids_cover Qw (length outs) /\ qsum (map snd Qw) == 1 /\
  draw_reg_src Qw outs (3#4) = (3#4) /\ draw_reg_positional Qw outs (3#4) = 0 /\
  draw_reg_src [(0%nat, 1#2); (1%nat, 0); (2%nat, 1#2)] outs (3#4) = (3#4).
Proof. exact example_mispairing. Qed.

(* non-vacuity for the thresholder: an equalized-odds style rule with p_ignore > 0, a threshold
   at a training level midpoint and an infinite threshold; score exactly AT the threshold is not above it *)
Example C10_example_rule :
  let r := mk_rule (1#3) (mk_throp OpGt (Fin (1#2))) (2#3) (mk_throp OpGt PInf) (1#4) (1#2) in
  rule_valid r /\ pmf_thr_src r (1#2) == 1#8 /\ pmf_thr_src r 1 == 3#8 /\ pmf_thr_src r (1#2) <= pmf_thr_src r 1.
Proof. exact example_rule. Qed.


(* ====================================================================================================
   Extension: no hypothesis left on the fitted rule / weights.
   The rule is what the C04/C05 model of ThresholdOptimizer.fit produces (re-assembled from the tags and
   expressions REGENERATED from _threshold_optimizer.py, FLGen.Gen_threshopt), converted to an entry of
   interpolation_dict by ThresholderBridge.conv_rule; the weights are what the C08 model of
   ExponentiatedGradient.fit hands out (Qsum / Qsum.sum() or the LP candidate, the EG/LP choice and
   best_iter_ REGENERATED from exponentiated_gradient.py, FLGen.Gen_egconst) followed by the zero padding.
   D is the common denominator of the scores (the C04 model works on the integers score * D; a midpoint
   threshold stored as the doubled integer w is the float w / (2 D)).
   ==================================================================================================== *)
Module B := ThresholderBridge.
Module BP := ThresholderBridge_proofs.
Module TO := ThreshOpt.
Module TOS := ThreshOptSrc.
Module GT := Gen_threshopt.
Module GE := Gen_egconst.

Definition both_labels_all (gs : list Tradeoff.group) : Prop :=
  forall g, In g gs -> Tradeoff.both_labels g = true.

(* interpolation_dict values, per group, of the fit re-assembled from the regenerated source pieces *)
Definition fit_simple_rules_src (D : positive) (flip : bool) (mx my : Tradeoff.metric) (N : positive)
                                (gs : list Tradeoff.group) : list rule :=
  map (B.conv_rule D)
      (TOS.simple_rules_src GT.simple_bunch (TOS.fit_simple_src GT.simple_select GT.simple_index flip mx my N gs)).

Definition fit_eo_rules_src (D : positive) (flip : bool) (obj : Tradeoff.metric) (N : positive)
                            (gs : list Tradeoff.group) : list rule :=
  map (B.conv_rule D)
      (TO.fe_rules (TOS.fit_eo_src GT.eo_x_metric GT.eo_y_metric GT.eo_reduce GT.eo_select GT.eo_index GT.eo_const
                                   GT.eo_bunch GT.eo_n_negative GT.eo_counts GT.eo_p_ignore flip obj N gs)).

(* "rules is what ThresholdOptimizer(constraints, objective, flip, grid_size).fit stored for the groups gs" *)
Definition is_fitted_src (rules : list rule) (flip : bool) (gs : list Tradeoff.group) : Prop :=
  (exists D mx my N, ThreshOpt_proofs.constraint_metric mx /\ rules = fit_simple_rules_src D flip mx my N gs) \/
  (exists D obj N, rules = fit_eo_rules_src D flip obj N gs).

(* the source-shaped fits are the definitions the correspondence run evaluates (run_bridge_simple / _eo) *)
Theorem C10_fit_src_is_model :
  (forall D flip mx my N gs, fit_simple_rules_src D flip mx my N gs = B.fitted_simple D flip mx my N gs) /\
  (forall D flip obj N gs, fit_eo_rules_src D flip obj N gs = B.fitted_eo D flip obj N gs) /\
  (forall mx, In mx GT.simple_constraint_metrics -> ThreshOpt_proofs.constraint_metric mx).
Proof.
  split; [intros; reflexivity|]. split; [intros; reflexivity|].
  intros mx H. unfold GT.simple_constraint_metrics in H.
  repeat (destruct H as [<-|H]; [exact I|]). destruct H.
Qed.
Print Assumptions C10_fit_src_is_model.

(* the operations _calculate_tradeoff_points generates without flip (regenerated list) are '>' only, and the
   regenerated per-threshold point construction is the model's (premise of the monotonicity theorem below) *)
Theorem C10_noflip_operations_are_source :
  (forall oc, In oc GT.tp_ops_noflip -> fst oc = Tradeoff.OpGt) /\
  (forall flip mx my nneg npos e,
     TOS.points_at_src GT.tp_actual GT.tp_flipped GT.tp_ops_flip GT.tp_ops_noflip flip mx my nneg npos e
     = Tradeoff.points_at flip mx my nneg npos e).
Proof.
  split; [intros oc H; unfold GT.tp_ops_noflip in H; repeat (destruct H as [<-|H]; [reflexivity|]); destruct H
         | exact ThreshOptSrc_proofs.points_at_src_model].
Qed.
Print Assumptions C10_noflip_operations_are_source.

(* the converted rule reports, at the real score s / D, the pmf the C04 / C05 theorems are about *)
Theorem C10_fitted_pmf_is_c04_pmf : forall D (r : TO.rule) (s : Z),
  pmf_thr_src (B.conv_rule D r) (s # D) == TO.pmf r s.
Proof. exact BP.conv_pmf. Qed.
Print Assumptions C10_fitted_pmf_is_c04_pmf.

(* fitted_rules_valid: for every list of groups each containing both labels, every constraint (the five simple
   constraint metrics; equalized odds), every objective, flip and grid size, EVERY rule the fit produces
   satisfies the hypotheses of C10_pmf_thr_unit: p0, p1 >= 0, p0 + p1 = 1 (C04 interp_index_valid),
   0 <= p_ignore <= 1 (y_best lies between the diagonal and the group's ROC hull: C05 hull_is_upper_hull,
   hull_ge_diagonal, pointwise min), 0 <= prediction_constant <= 1 (a grid value) *)
Theorem C10_fitted_rules_valid :
  (forall D flip mx my N gs, ThreshOpt_proofs.constraint_metric mx -> both_labels_all gs ->
     Forall rule_valid (fit_simple_rules_src D flip mx my N gs)) /\
  (forall D flip obj N gs, both_labels_all gs ->
     Forall rule_valid (fit_eo_rules_src D flip obj N gs)).
Proof. exact BP.fitted_rules_valid. Qed.
Print Assumptions C10_fitted_rules_valid.

(* ... hence the pmf a fitted ThresholdOptimizer reports is a distribution: for the rule of every group at
   EVERY score, and for every table of query rows (any codes for the groups, rows of unknown groups get (1, 0)) *)
Theorem C10_pmf_unit_for_fitted_models : forall rules flip gs, both_labels_all gs -> is_fitted_src rules flip gs ->
  (forall r s, In r rules ->
     0 <= pmf_thr_src r s /\ pmf_thr_src r s <= 1 /\
     fst (G.cols_src (pmf_thr_src r s)) + snd (G.cols_src (pmf_thr_src r s)) == 1 /\
     0 <= fst (G.cols_src (pmf_thr_src r s)) /\ fst (G.cols_src (pmf_thr_src r s)) <= 1) /\
  (forall codes rows,
     Forall (fun c => 0 <= fst c /\ 0 <= snd c /\ fst c + snd c == 1)
            (pmf_rows_src (B.fitted_dict codes rules) rows)).
Proof. exact BP.pmf_unit_for_fitted_models. Qed.
Print Assumptions C10_pmf_unit_for_fitted_models.

(* with flip = False the fit only produces '>' operations, hence for every group the positive probability never
   decreases as the score increases *)
Theorem C10_monotone_for_fitted_models_without_flip : forall rules gs, both_labels_all gs ->
  is_fitted_src rules false gs ->
  forall r, In r rules ->
    t_op (op0 r) = OpGt /\ t_op (op1 r) = OpGt /\
    forall s s', s <= s' -> pmf_thr_src r s <= pmf_thr_src r s'.
Proof. exact BP.monotone_for_fitted_models_without_flip. Qed.
Print Assumptions C10_monotone_for_fitted_models_without_flip.

(* ---- ExponentiatedGradient ---- *)
(* weights_ after fit, assembled from the REGENERATED pieces: Qsum bookkeeping and Q_EG (Gen_egweights), what one
   iteration appends to Qs (EG/LP choice, Gen_egconst), Qs[best_iter_] (selection with _PRECISION, Gen_egconst),
   and the entry added for every predictor id not in its index (Gen_egweights) *)
Module GW := Gen_egweights.
Definition eg_fit_weights_src (n : nat) (its : list B.eg_iter) : weights :=
  B.eg_fit_weights_gen GW.qsum_new GW.qsum_step GW.q_eg_values_src GW.pad_value
                       (@GE.keep_src weights) (@GE.returned_src weights) n its.

(* ... and it is the definition the theorems below are proved about: Qsum bookkeeping, Q_EG = Qsum / Qsum.sum(),
   the padding value (t_egweights), EG/LP choice, best_iter_ and _PRECISION (t_egconst) as in the model *)
Theorem C10_eg_fit_src_is_model : forall n its,
  eg_fit_weights_src n its = B.eg_fit_weights GE.precision n its.
Proof. exact (BP.eg_fit_weights_gen_model GE.precision). Qed.
Print Assumptions C10_eg_fit_src_is_model.

(* weights_ (either branch: normalised counts Qsum / Qsum.sum() -- C08 weights_probability -- or an answer of
   linprog meeting the constraints solve_linprog passes -- C08 lp_weights_probability --, whichever iteration
   is selected -- C08 returned_consistent --, after the zero padding) is a probability vector indexed by
   predictor ids, each id once.  Guards (BP.iter_ok): at least one iteration ran, iteration t has recorded
   t + 1 >= 1 best responses, and linprog's answer is feasible (the solver is trusted, as in C08). *)
Theorem C10_eg_weights_probability_for_fitted_models : forall n its, its <> [] ->
  (forall it, In it its -> BP.iter_ok it) ->
  Forall (fun tw => 0 <= snd tw) (eg_fit_weights_src n its) /\
  qsum (map snd (eg_fit_weights_src n its)) == 1 /\
  NoDup (map fst (eg_fit_weights_src n its)) /\
  (forall t, (t < n)%nat -> In t (map fst (eg_fit_weights_src n its))).
Proof.
  exact (fun n its => BP.eg_weights_probability_std GE.precision n its (Qle_bool_imp_le 0 GE.precision eq_refl)).
Qed.
Print Assumptions C10_eg_weights_probability_for_fitted_models.

(* ... hence for hard (0/1) predictors the reported probability of a fitted ExponentiatedGradient lies in [0,1],
   the two columns sum to 1, and it is the mixture of the predictors' outputs paired by predictor id *)
Theorem C10_pmf_eg_unit_for_fitted_models : forall n its outs, its <> [] ->
  (forall it, In it its -> BP.iter_ok it) ->
  Forall (fun o => o == 0 \/ o == 1) outs ->
  let W := eg_fit_weights_src n its in
  0 <= G.pmf_eg_src W outs /\ G.pmf_eg_src W outs <= 1 /\
  fst (pmf_cols (G.pmf_eg_src W outs)) + snd (pmf_cols (G.pmf_eg_src W outs)) == 1 /\
  G.pmf_eg_src W outs == qsum (map (fun tw => snd tw * nth (fst tw) outs 0) W).
Proof.
  exact (fun n its outs => BP.pmf_eg_unit_std GE.precision n its outs (Qle_bool_imp_le 0 GE.precision eq_refl)).
Qed.
Print Assumptions C10_pmf_eg_unit_for_fitted_models.

(* non-vacuity of the extension.  ThresholdOptimizer: equalized odds, flip, grid 3, two groups with half-integer
   scores (D = 2), the first one anti-correlated with its labels: the premises hold, the first group's rule uses a
   '<' operation, the second has p_ignore = 1/9 > 0, prediction_constant = 1/3; with the '<' operation the first
   group's reported probability really decreases (1 at the score 1/2, 1/3 at 3/2).  ExponentiatedGradient: three
   iterations, the second one keeps the LP candidate (gap 1/10 < 3/10) and is selected; weights_ = the LP weights
   padded with zeros for ids 2, 3; the LP answer is a feasible point of what solve_linprog passes. *)
Example C10_example_fitted :
  let gs := [[(0, true); (1, true); (2, false); (3, false); (3, true)];
             [(0, false); (1, true); (2, false); (3, true)]]%Z in
  let rules := fit_eo_rules_src 2 true Tradeoff.Acc 3 gs in
  both_labels_all gs /\ is_fitted_src rules true gs /\
  map (fun r => Qred (p0 r)) rules = [2 # 3; 1 # 3] /\
  map (fun r => t_op (op0 r)) rules = [OpLt; OpGt] /\
  map (fun r => Qred (p_ignore r)) rules = [0; 1 # 9] /\
  map (fun r => Qred (pmf_thr_src r (1 # 2))) rules = [1; 17 # 27] /\
  map (fun r => Qred (pmf_thr_src r (3 # 2))) rules = [1 # 3; 25 # 27] /\
  (let its := [B.mk_iter [0%nat] (3#10) None;
               B.mk_iter [0%nat; 1%nat] (3#10) (Some ([1#2; 1#2], 1#10));
               B.mk_iter [0%nat; 1%nat; 1%nat] (2#10) None] in
   (forall it, In it its -> BP.iter_ok it) /\
   eg_fit_weights_src 4 its = [(0%nat, 1#2); (1%nat, 1#2); (2%nat, 0); (3%nat, 0)] /\
   B.q_eg [1%nat; 0%nat; 1%nat] = [(1%nat, 2#3); (0%nat, 1#3)] /\
   Qred (G.pmf_eg_src (eg_fit_weights_src 4 its) [1; 0; 1; 1]) = 1 # 2).
Proof.
  cbv zeta. split; [|split; [|split; [|split; [|split; [|split; [|split; [|split; [|split; [|split]]]]]]]]].
  - intros g [<-|[<-|[]]]; reflexivity.
  - right. exists 2%positive, Tradeoff.Acc, 3%positive. reflexivity.
  - vm_compute. reflexivity.
  - vm_compute. reflexivity.
  - vm_compute. reflexivity.
  - vm_compute. reflexivity.
  - vm_compute. reflexivity.
  - intros it [<-|[<-|[<-|[]]]]; (split; [discriminate|]); intros xg E; try discriminate E.
    inversion E; subst. cbn [fst].
    exists [Saddle.mkHyp (1#4) [1#2; -(1#2)]; Saddle.mkHyp (1#2) [0; 0]], [1#10; 1#10], (3#20).
    vm_compute. reflexivity.
  - vm_compute. reflexivity.
  - vm_compute. reflexivity.
  - vm_compute. reflexivity.
Qed.
