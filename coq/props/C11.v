(* C11 -- sample weights mean multiplicity: weight k is k copies of the row.
   Only statements, `exact`, and Print Assumptions.  The four confusion-matrix rates are those of
   the label function REGENERATED from /repo (FLGen.Gen_labels); selection_rate and mean_prediction
   are the model functions of FL.BaseRates that the correspondence run evaluates.
   orates_eq / oext_eq: both calls rejected, or both accepted with == values (componentwise for
   the four rates TPR, FNR, FPR, TNR). *)
From Coq Require Import QArith ZArith List Bool.
From FL Require Import Num ListX BaseRates BaseRates_proofs Weights Weights_proofs.
From FLGen Require Gen_labels.
Import ListNotations.
Open Scope Q_scope.

Definition rates_src := rates_with Gen_labels.labels_for_cm.

(* ---- rate_expand: integer weight k == k unit-weight copies (weights then omitted) ---- *)

Theorem C11_rates_expand : forall y_true y_pred ks pos,
  length y_true = length y_pred -> length ks = length y_true ->
  orates_eq (rates_src y_true y_pred (Some (map kq ks)) pos)
            (rates_src (replicate ks y_true) (replicate ks y_pred) None pos).
Proof. exact rates_expand. Qed.
Print Assumptions C11_rates_expand.

Theorem C11_selection_rate_expand : forall y_pred ks p,
  length ks = length y_pred ->
  oext_eq (selection_rate y_pred p (Some (map kq ks))) (selection_rate (replicate ks y_pred) p None).
Proof. exact selection_rate_expand. Qed.
Print Assumptions C11_selection_rate_expand.

Theorem C11_mean_prediction_expand : forall y_pred ks,
  length ks = length y_pred ->
  oext_eq (mean_prediction y_pred (Some (map kq ks))) (mean_prediction (replicate ks y_pred) None).
Proof. exact mean_prediction_expand. Qed.
Print Assumptions C11_mean_prediction_expand.

(* ---- rate_scale: multiplying all weights by c > 0 changes nothing (any rational weights) ---- *)

Theorem C11_rates_scale : forall y_true y_pred ws c pos,
  0 < c ->
  orates_eq (rates_src y_true y_pred (Some ws) pos) (rates_src y_true y_pred (Some (scale_w c ws)) pos).
Proof. exact rates_scale. Qed.
Print Assumptions C11_rates_scale.

Theorem C11_selection_rate_scale : forall y_pred p ws c,
  0 < c -> oext_eq (selection_rate y_pred p (Some ws)) (selection_rate y_pred p (Some (scale_w c ws))).
Proof. exact selection_rate_scale. Qed.
Print Assumptions C11_selection_rate_scale.

Theorem C11_mean_prediction_scale : forall y_pred ws c,
  0 < c -> oext_eq (mean_prediction y_pred (Some ws)) (mean_prediction y_pred (Some (scale_w c ws))).
Proof. exact mean_prediction_scale. Qed.
Print Assumptions C11_mean_prediction_scale.

(* ---- rate_ones: omitted weights = all ones ---- *)

Theorem C11_rate_ones : forall y_true y_pred pos p,
  rates_src y_true y_pred None pos = rates_src y_true y_pred (Some (ones (length y_true))) pos /\
  selection_rate y_pred p None = selection_rate y_pred p (Some (ones (length y_pred))) /\
  mean_prediction y_pred None = mean_prediction y_pred (Some (ones (length y_pred))).
Proof. exact (fun y_true y_pred pos p =>
               conj (rates_ones y_true y_pred pos)
                    (conj (selection_rate_ones y_pred p) (mean_prediction_ones y_pred))). Qed.
Print Assumptions C11_rate_ones.

(* ---- per group: slicing by a mask commutes with replication and with rescaling ---- *)

Theorem C11_select_replicate : forall (ks : list positive) (m : list bool) (xs : list Z),
  select (replicate ks m) (replicate ks xs) = replicate (select m ks) (select m xs).
Proof. exact (@select_replicate Z). Qed.
Print Assumptions C11_select_replicate.

Theorem C11_select_scale : forall m c ws, select m (scale_w c ws) = scale_w c (select m ws).
Proof. exact select_scale. Qed.
Print Assumptions C11_select_scale.

(* the value MetricFrame computes for group g from the weighted rows of g equals the value it
   computes for g on the replicated data set -- single weighted-row groups included *)
Theorem C11_rates_expand_group : forall g sf y_true y_pred ks pos,
  length y_true = length y_pred -> length ks = length y_true ->
  let m := mask_of g sf in
  let m' := mask_of g (replicate ks sf) in
  orates_eq (rates_src (select m y_true) (select m y_pred) (Some (map kq (select m ks))) pos)
            (rates_src (select m' (replicate ks y_true)) (select m' (replicate ks y_pred)) None pos).
Proof. exact rates_expand_group. Qed.
Print Assumptions C11_rates_expand_group.

Theorem C11_selection_rate_expand_group : forall g sf y_pred ks p,
  length ks = length y_pred ->
  let m := mask_of g sf in
  let m' := mask_of g (replicate ks sf) in
  oext_eq (selection_rate (select m y_pred) p (Some (map kq (select m ks))))
          (selection_rate (select m' (replicate ks y_pred)) p None).
Proof. exact selection_rate_expand_group. Qed.
Print Assumptions C11_selection_rate_expand_group.

Theorem C11_mean_prediction_expand_group : forall g sf y_pred ks,
  length ks = length y_pred ->
  let m := mask_of g sf in
  let m' := mask_of g (replicate ks sf) in
  oext_eq (mean_prediction (select m y_pred) (Some (map kq (select m ks))))
          (mean_prediction (select m' (replicate ks y_pred)) None).
Proof. exact mean_prediction_expand_group. Qed.
Print Assumptions C11_mean_prediction_expand_group.

(* non-vacuity: a data set with a single weighted-row group (group 7 = one row of weight 2); the
   calls are accepted, the group's selection rate is the scalar 1 both ways, and the weighted
   overall TPR 2/3 is that of the 4 replicated rows *)
Example C11_example :
  let y_true := [1; 0; 1]%Z in let y_pred := [1; 1; 0]%Z in
  let sf := [7; 8; 8]%Z in let ks := [2; 1; 1]%positive in
  length ks = length y_true /\
  selection_rate (select (mask_of 7 sf) y_pred) 1 (Some (map kq (select (mask_of 7 sf) ks)))
    = Some (Fin (2 # 2)) /\
  selection_rate (select (mask_of 7 (replicate ks sf)) (replicate ks y_pred)) 1 None = Some (Fin (2 # 2)) /\
  option_map (fun c => Qred (q_tpr c)) (rates_src y_true y_pred (Some (map kq ks)) None) = Some (2 # 3) /\
  option_map (fun c => Qred (q_tpr c)) (rates_src (replicate ks y_true) (replicate ks y_pred) None None)
    = Some (2 # 3).
Proof. cbv zeta. repeat split; vm_compute; reflexivity. Qed.
