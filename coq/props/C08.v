(* C08 -- ExponentiatedGradient meets the saddle-point guarantees certified by best_gap_.
   Only statements, `exact`, and Print Assumptions.  The statements are about the definitions of
   FL.Saddle that the correspondence run evaluates (Saddle.evaluate, Saddle.select), instantiated with
   the constants, the multiplier literal and the gap expression REGENERATED from /repo
   (FLGen.Gen_egconst) on every run.

   Reading guide.  H : the enumerated hypothesis class, one record (err_h, gam_h) per hypothesis;
   c : constraints.bound(); B = 1/eps; Qw : weights_ over the class; lam : lambda_hat as recorded;
   lam' : the multiplier _eval uses (project_lambda lam); err / viol / L / L_high / L_low_code /
   gap_code follow _Lagrangian._eval, eval_gap and _GapResult.gap statement by statement;
   L_low_true / gap_true are the specification (true minimum over the class, true duality gap).

   Extension (second block of the file): Gen_egconst also carries the tail of _eval, the body of eval_gap,
   and from fit the choice of nu, the EG/LP choice, the break rule and best_iter_ / best_gap_ / weights_ as
   Gallina definitions regenerated from the source; C08_eval_src_is_model, C08_eval_gap_src_is_model and
   C08_fit_src_is_model state that they are the model's definitions.  FL.SaddleFit models what solve_linprog
   asks of scipy (lp_feasible / lp_objective / lp_optimal; the solver itself is trusted) and the object fit
   hands out (returned). *)
From Coq Require Import QArith ZArith List Bool.
From FL Require Import Num Saddle Saddle_proofs SaddleFit SaddleFit_proofs.
From FLGen Require Gen_egconst.
Import ListNotations.
Open Scope Q_scope.

(* the source still contains the constants and the gap expression the model was written for *)
Theorem C08_source_constants :
  Gen_egconst.precision = std_precision /\ Gen_egconst.min_iter = std_min_iter /\
  Gen_egconst.muls = std_muls /\
  (forall Lv low high, Gen_egconst.gap_of_src Lv low high = gap_of Lv low high) /\
  0 <= Gen_egconst.precision.
Proof. exact (conj eq_refl (conj eq_refl (conj eq_refl (conj (fun _ _ _ => eq_refl) (Qle_bool_imp_le 0 Gen_egconst.precision eq_refl))))). Qed.
Print Assumptions C08_source_constants.

(* L_high_is_max: L(Q, lam) <= L_high(Q) for every lam >= 0 with sum lam <= B *)
Theorem C08_L_high_is_max : forall H c B Qw lam,
  all_nonneg lam = true -> rsum lam <= B -> L H c Qw lam <= L_high H c B Qw.
Proof. exact L_high_is_max. Qed.
Print Assumptions C08_L_high_is_max.

(* L_low_is_min: the minimum over the class is below the Lagrangian of every distribution; the value the
   code computes lies between that minimum and L, and EQUALS the minimum for the source's multiplier list
   when lam and lam' act identically on the class (exact oracle answering the query 1*lam) *)
Theorem C08_L_low_is_min : forall H c B nu Qw lam lam',
  wf H c = true -> is_dist H Qw = true ->
  (forall Q', is_dist H Q' = true -> L_low_true H c lam' <= L H c Q' lam') /\
  (exists h, In h H /\ L_low_true H c lam' = L_pt c h lam') /\
  L_low_true H c lam' <= L_low_code H c B Gen_egconst.precision nu Gen_egconst.muls Qw lam lam' /\
  L_low_code H c B Gen_egconst.precision nu Gen_egconst.muls Qw lam lam' <= L H c Qw lam' /\
  (compat H lam lam' = true ->
   L_low_code H c B Gen_egconst.precision nu Gen_egconst.muls Qw lam lam' == L_low_true H c lam').
Proof.
  exact (fun H c B nu Qw lam lam' W D =>
    conj (fun Q' D' => L_low_is_min H c Q' lam' W D')
    (conj (L_low_true_attained H c lam' (proj1 (wf_unpack H c W)))
    (conj (L_low_code_ge_true H c B _ nu _ Qw lam lam' W D)
    (conj (L_low_code_le_L H c B _ nu _ Qw lam lam')
          (fun C => L_low_code_exact H c B _ nu _ Qw lam lam' W D C))))).
Qed.
Print Assumptions C08_L_low_is_min.

(* gap_is_duality_gap: any g >= gap_true bounds both saddle-point violations of (Q, lam') *)
Theorem C08_gap_is_duality_gap : forall H c B Qw lam' g,
  wf H c = true -> is_dist H Qw = true -> gap_true H c B Qw lam' <= g ->
  (forall Q', is_dist H Q' = true -> L H c Qw lam' <= L H c Q' lam' + g) /\
  (forall lam, all_nonneg lam = true -> rsum lam <= B -> L H c Qw lam <= L H c Qw lam' + g).
Proof. exact gap_is_duality_gap. Qed.
Print Assumptions C08_gap_is_duality_gap.

(* the gap eval_gap computes (source constants) is the true duality gap: never above it, and not below
   it when the oracle is exact *)
Theorem C08_gap_code_is_true_gap : forall H c B nu Qw lam lam',
  wf H c = true -> is_dist H Qw = true ->
  gap_code H c B Gen_egconst.precision nu Gen_egconst.muls Qw lam lam' <= gap_true H c B Qw lam' /\
  (compat H lam lam' = true ->
   gap_true H c B Qw lam' <= gap_code H c B Gen_egconst.precision nu Gen_egconst.muls Qw lam lam').
Proof.
  exact (fun H c B nu Qw lam lam' W D =>
    conj (gap_code_le_true H c B _ nu _ Qw lam lam' W D)
         (fun C => gap_code_ge_true H c B _ nu _ Qw lam lam' W D C)).
Qed.
Print Assumptions C08_gap_code_is_true_gap.

(* saddle_error_bound: err(Q) <= err(Q-star) + 2g for every feasible distribution Q-star, g >= the duality gap *)
Theorem C08_saddle_error_bound : forall H c B Qw Qs lam' g,
  wf H c = true -> is_dist H Qw = true -> is_dist H Qs = true ->
  all_nonneg lam' = true -> 0 <= B ->
  feasible H c Qs = true ->
  gap_true H c B Qw lam' <= g ->
  err H Qw <= err H Qs + 2 * g.
Proof. exact saddle_error_bound. Qed.
Print Assumptions C08_saddle_error_bound.

(* saddle_constraint_bound: every constraint of Q exceeds its bound by at most (1 + 2g)/B *)
Theorem C08_saddle_constraint_bound : forall H c B Qw Qs lam' g,
  wf H c = true -> is_dist H Qw = true -> is_dist H Qs = true ->
  all_nonneg lam' = true -> 0 < B ->
  feasible H c Qs = true ->
  0 <= err H Qw -> err H Qs <= 1 ->
  gap_true H c B Qw lam' <= g ->
  forall v, In v (viol H c Qw) -> v <= (1 + 2 * g) / B.
Proof. exact saddle_constraint_bound. Qed.
Print Assumptions C08_saddle_constraint_bound.

(* the form that applies to the number fit reports: g = the gap the code computes for (weights_, lambda_hat)
   with the source's constants, errors of the class in [0,1], exact oracle *)
Theorem C08_certificate : forall H c B nu Qw Qs lam lam',
  wf H c = true -> is_dist H Qw = true -> is_dist H Qs = true ->
  all_nonneg lam' = true -> 0 < B -> compat H lam lam' = true ->
  feasible H c Qs = true ->
  (forall h, In h H -> 0 <= err_h h <= 1) ->
  let g := gap_code H c B Gen_egconst.precision nu Gen_egconst.muls Qw lam lam' in
  err H Qw <= err H Qs + 2 * g /\ forall v, In v (viol H c Qw) -> v <= (1 + 2 * g) / B.
Proof. exact (fun H c B nu => saddle_bounds_for_code_gap H c B _ nu _). Qed.
Print Assumptions C08_certificate.

(* project_lambda for ratio = 1 yields an admissible multiplier that acts on antisymmetric gammas exactly
   as the recorded one: the premises lam' >= 0, sum lam' <= B and compat of C08_certificate *)
Theorem C08_projection : forall H lam,
  all_nonneg (project_r1 lam) = true /\
  (length lam = (2 * Nat.div2 (length lam))%nat -> all_nonneg lam = true ->
   rsum (project_r1 lam) <= rsum lam) /\
  ((forall h, In h H -> antisym (gam_h h) = true /\ length (gam_h h) = length lam) ->
   compat H lam (project_r1 lam) = true).
Proof.
  exact (fun H lam => conj (project_r1_nonneg lam)
          (conj (project_r1_norm lam) (compat_of_antisym H lam))).
Qed.
Print Assumptions C08_projection.

(* select_is_min: the iterate handed out is the last one whose gap is within _PRECISION of the minimum *)
Theorem C08_select_is_min : forall gaps, gaps <> [] ->
  let s := select Gen_egconst.precision gaps in
  (s < length gaps)%nat /\
  selected_gap Gen_egconst.precision gaps <= vmin gaps + Gen_egconst.precision /\
  (forall x, In x gaps -> selected_gap Gen_egconst.precision gaps <= x + Gen_egconst.precision) /\
  (forall j, (s < j < length gaps)%nat -> vmin gaps + Gen_egconst.precision < nth j gaps 0).
Proof.
  exact (fun gaps Hne => select_is_min Gen_egconst.precision gaps Hne
                           (proj2 (proj2 (proj2 (proj2 C08_source_constants))))).
Qed.
Print Assumptions C08_select_is_min.

(* early_stop_below_nu: for ANY sequence g of recorded gaps, if the loop of fit ran fewer than max_iter
   iterations then at least _MIN_ITER + 1 ran and the gap handed out is strictly below nu *)
Theorem C08_early_stop_below_nu : forall (g : nat -> Q) nu max_iter,
  let gaps := run g nu Gen_egconst.min_iter max_iter 0 in
  (length gaps < max_iter)%nat ->
  selected_gap Gen_egconst.precision gaps < nu /\ (Gen_egconst.min_iter <= length gaps - 1)%nat.
Proof.
  exact (fun g nu max_iter => early_stop_below_nu g nu Gen_egconst.min_iter Gen_egconst.precision max_iter
                                (proj2 (proj2 (proj2 (proj2 C08_source_constants))))).
Qed.
Print Assumptions C08_early_stop_below_nu.

(* weights_probability (EG branch): normalised counts are a probability vector *)
Theorem C08_weights_probability : forall counts,
  (forall x, In x counts -> 0 <= x) -> 0 < rsum counts ->
  (forall x, In x (eg_weights counts) -> 0 <= x) /\ rsum (eg_weights counts) == 1.
Proof. exact weights_probability. Qed.
Print Assumptions C08_weights_probability.

(* ====================================================================================================
   Extension: the regenerated kernels ARE the model's definitions; the linear program; the returned object
   ==================================================================================================== *)

(* _Lagrangian._eval (tail), regenerated: for the model's error / gamma / bound it yields the model's L and
   L_high -- `error + np.sum(lambda_vec * (gamma - bound))`, `error (+ B * max_constraint if max_constraint > 0)` *)
Theorem C08_eval_src_is_model : forall H c B Qw lam',
  Gen_egconst.eval_tail_src B (err H Qw) lam' (gammaQ H c Qw) c = (L H c Qw lam', L_high H c B Qw).
Proof. exact (fun _ _ _ _ _ => eq_refl). Qed.
Print Assumptions C08_eval_src_is_model.

(* eval_gap, regenerated (arguments of _GapResult, the query mul * lambda_hat handed to best_h, the candidate
   evaluated at lambda_hat, the update of L_low, the early break, the gap expression), is Saddle.gap_code with
   the source's constants: pieces by reflexivity, the loop by L_low_loop_for_break *)
Theorem C08_eval_gap_src_is_model :
  (forall Lv hi, Gen_egconst.gap_init_src Lv hi = (Lv, Lv, hi)) /\
  (forall H c nu Lv high lam lam' m cur,
     Gen_egconst.loop_step_src H c nu Lv high lam lam' m cur =
     (let cand := L_pt c (best_response H (vscale m lam)) lam' in if Qltb cand cur then cand else cur)) /\
  (forall nu Lv high cur,
     Gen_egconst.loop_break_src nu Lv high cur = Qltb (nu + Gen_egconst.precision) (gap_of Lv cur high)) /\
  (forall H c B nu Qw lam lam',
     Gen_egconst.eval_gap_src H c B nu Qw lam lam' =
     gap_code H c B Gen_egconst.precision nu Gen_egconst.muls Qw lam lam').
Proof.
  exact (conj (fun _ _ => eq_refl) (conj (fun _ _ _ _ _ _ _ _ _ => eq_refl) (conj (fun _ _ _ _ => eq_refl)
          (fun H c B nu Qw lam lam' =>
             gap_code_for_break H c B Gen_egconst.precision nu Gen_egconst.muls Qw lam lam')))).
Qed.
Print Assumptions C08_eval_gap_src_is_model.

(* fit, regenerated: which nu is used, what an iteration appends to (Qs, gaps), the break rule, and
   best_iter_ / best_gap_ / weights_ are the model's nu_used, keep_pair, stop_now, select and returned *)
Theorem C08_fit_src_is_model :
  (forall p a, Gen_egconst.nu_src p a = nu_used p a) /\
  (forall (A : Type) (q : A) g lp, Gen_egconst.keep_src q g lp = keep_pair q g lp) /\
  (forall g nu t, Gen_egconst.stop_src g nu t = stop_now g nu Gen_egconst.min_iter t) /\
  (forall gaps, Gen_egconst.select_src gaps = select Gen_egconst.precision gaps) /\
  (forall (A : Type) (d : A) gaps Qs,
     Gen_egconst.returned_src d gaps Qs = returned d Gen_egconst.precision gaps Qs).
Proof.
  exact (conj (fun _ _ => eq_refl) (conj (fun _ _ _ _ => eq_refl) (conj (fun _ _ _ => eq_refl)
          (conj (fun _ => eq_refl) (fun _ _ _ _ => eq_refl))))).
Qed.
Print Assumptions C08_fit_src_is_model.

(* the certificate, stated on the regenerated eval_gap *)
Theorem C08_certificate_src : forall H c B nu Qw Qs lam lam',
  wf H c = true -> is_dist H Qw = true -> is_dist H Qs = true ->
  all_nonneg lam' = true -> 0 < B -> compat H lam lam' = true ->
  feasible H c Qs = true ->
  (forall h, In h H -> 0 <= err_h h <= 1) ->
  let g := Gen_egconst.eval_gap_src H c B nu Qw lam lam' in
  err H Qw <= err H Qs + 2 * g /\ forall v, In v (viol H c Qw) -> v <= (1 + 2 * g) / B.
Proof.
  exact (fun H c B nu Qw Qs lam lam' W D Ds Hl HB C F U =>
    eq_ind_r (fun g => err H Qw <= err H Qs + 2 * g /\ forall v, In v (viol H c Qw) -> v <= (1 + 2 * g) / B)
             (C08_certificate H c B nu Qw Qs lam lam' W D Ds Hl HB C F U)
             (proj2 (proj2 (proj2 C08_eval_gap_src_is_model)) H c B nu Qw lam lam')).
Qed.
Print Assumptions C08_certificate_src.

(* a requested nu is the nu used: nu_src (Some v) = v (v = 0 included), and only nu=None gets the automatic value;
   a run GIVEN nu = v that stops before max_iter (regenerated break rule) hands out a gap < v *)
Theorem C08_requested_nu : forall (g : nat -> Q) v auto max_iter,
  Gen_egconst.nu_src (Some v) auto = v /\ Gen_egconst.nu_src None auto = auto /\
  (let gaps := run g (Gen_egconst.nu_src (Some v) auto) Gen_egconst.min_iter max_iter 0 in
   (length gaps < max_iter)%nat ->
   selected_gap Gen_egconst.precision gaps < v /\ (Gen_egconst.min_iter <= length gaps - 1)%nat).
Proof.
  exact (fun g v auto max_iter => conj eq_refl (conj eq_refl
          (early_stop_requested_nu g v auto Gen_egconst.min_iter Gen_egconst.precision max_iter
             (proj2 (proj2 (proj2 (proj2 C08_source_constants))))))).
Qed.
Print Assumptions C08_requested_nu.

(* one iteration appends one of the two candidates WHOLE (weights and gap of the same candidate), the one with
   the smaller gap *)
Theorem C08_keep_is_a_candidate : forall (A : Type) (q : A) g lp,
  (Gen_egconst.keep_src q g lp = (q, g) \/ lp = Some (Gen_egconst.keep_src q g lp)) /\
  snd (Gen_egconst.keep_src q g lp) = keep_gap g (option_map snd lp).
Proof. exact (fun A q g lp => conj (keep_pair_cases q g lp) (keep_pair_gap q g lp)). Qed.
Print Assumptions C08_keep_is_a_candidate.

(* returned object consistency: with `its` the pairs (Q_t, gap_t) appended by the iterations, fit hands out
   weights_ and best_gap_ of the SAME iteration best_iter_, and that gap is within _PRECISION of every recorded gap *)
Theorem C08_returned_consistent : forall (A : Type) (d : A) (its : list (A * Q)), its <> [] ->
  let r := Gen_egconst.returned_src d (map snd its) (map fst its) in
  (ret_iter r < length its)%nat /\
  nth_error its (ret_iter r) = Some (ret_weights r, ret_gap r) /\
  In (ret_weights r, ret_gap r) its /\
  ret_gap r = selected_gap Gen_egconst.precision (map snd its) /\
  (forall p, In p its -> ret_gap r <= snd p + Gen_egconst.precision).
Proof.
  exact (fun A d its Hne => returned_consistent d Gen_egconst.precision its Hne
                              (proj2 (proj2 (proj2 (proj2 C08_source_constants))))).
Qed.
Print Assumptions C08_returned_consistent.

(* ... hence the certificate travels with the weights: if every appended gap_t is the gap eval_gap computes
   for the appended Q_t (some recorded multiplier, exact oracle), both saddle-point bounds hold for the RETURNED
   weights_ with g = the RETURNED best_gap_ -- whichever iteration was selected *)
Theorem C08_returned_certificate : forall H c B nu (its : list (list Q * Q)) Qstar,
  wf H c = true -> 0 < B ->
  is_dist H Qstar = true -> feasible H c Qstar = true ->
  (forall h, In h H -> 0 <= err_h h <= 1) ->
  its <> [] ->
  (forall Qw g, In (Qw, g) its ->
     is_dist H Qw = true /\
     exists lam lam', all_nonneg lam' = true /\ compat H lam lam' = true /\
                      g == Gen_egconst.eval_gap_src H c B nu Qw lam lam') ->
  let r := Gen_egconst.returned_src [] (map snd its) (map fst its) in
  err H (ret_weights r) <= err H Qstar + 2 * ret_gap r /\
  forall v, In v (viol H c (ret_weights r)) -> v <= (1 + 2 * ret_gap r) / B.
Proof.
  exact (fun H c B nu its Qstar W HB Ds F U Hne Hall =>
    returned_certificate H c B Gen_egconst.precision nu [2; 5; 10] its Qstar W HB
      (proj2 (proj2 (proj2 (proj2 C08_source_constants)))) Ds F U Hne
      (fun Qw g Hin => match Hall Qw g Hin with
         | conj D (ex_intro _ lam (ex_intro _ lam' (conj Hl (conj C E)))) =>
             conj D (ex_intro _ lam (ex_intro _ lam' (conj Hl (conj C
               (eq_ind _ (fun x => g == x) E _
                  (proj2 (proj2 (proj2 C08_eval_gap_src_is_model)) H c B nu Qw lam lam'))))))
         end)).
Qed.
Print Assumptions C08_returned_certificate.

(* solve_linprog: every point satisfying what the code asks of scipy (sum of the weights = 1, default bounds
   >= 0, one row per constraint) is a probability vector over the hypotheses found so far *)
Theorem C08_lp_weights_probability : forall H c x z,
  lp_feasible H c x z = true -> is_dist H x = true.
Proof. exact lp_weights_probability. Qed.
Print Assumptions C08_lp_weights_probability.

(* what the LP minimises is L_high: at every feasible point objective >= L_high(weights); an OPTIMAL answer has
   L_high <= L_high(Q') for every distribution Q' over the same hypotheses, and objective value = its L_high *)
Theorem C08_lp_value_le_any_distribution : forall H c B x z,
  wf H c = true -> 0 <= B ->
  (lp_feasible H c x z = true -> L_high H c B x <= lp_objective H B x z) /\
  (lp_optimal H c B x z ->
   (forall Q', is_dist H Q' = true -> L_high H c B x <= L_high H c B Q') /\
   lp_objective H B x z == L_high H c B x).
Proof.
  exact (fun H c B x z W HB => conj (lp_objective_ge_L_high H c B x z W HB)
                                    (lp_value_le_any_distribution H c B x z W HB)).
Qed.
Print Assumptions C08_lp_value_le_any_distribution.


(* non-vacuity: a class of four hypotheses with two (antisymmetric) constraints, a mixed Q, a feasible
   Q-star, a non-zero multiplier: every premise of C08_certificate holds and the gap is positive *)
Example C08_example :
  let H := [mkHyp (1#4) [1#2; -(1#2)]; mkHyp (1#2) [0; 0]; mkHyp (1#2) [-(1#4); 1#4]; mkHyp (3#4) [1#8; -(1#8)]] in
  let c := [1#10; 1#10] in
  let B := 10 in
  let Qw := [1#2; 1#2; 0; 0] in
  let Qs := [0; 1; 0; 0] in
  let lam := [3#2; 1#2] in
  let lam' := project_r1 lam in
  wf H c = true /\ is_dist H Qw = true /\ is_dist H Qs = true /\ all_nonneg lam' = true /\
  compat H lam lam' = true /\ feasible H c Qs = true /\ lam' = [1; 0] /\
  Qred (gap_code H c B Gen_egconst.precision (1#100) Gen_egconst.muls Qw lam lam') = 27#20 /\
  Qred (gap_true H c B Qw lam') = 27#20.
Proof. vm_compute. repeat split. Qed.

(* non-vacuity of the extension: three recorded iterates whose smallest gap is NOT the last one -- fit hands out
   iteration 1 with its own gap; the EG/LP choice takes the LP pair whole; nu = 0 is kept; the mixed weights of
   C08_example with z = 3/20 satisfy what solve_linprog asks (and z = 1/10 does not) *)
Example C08_example_fit :
  let H := [mkHyp (1#4) [1#2; -(1#2)]; mkHyp (1#2) [0; 0]; mkHyp (1#2) [-(1#4); 1#4]; mkHyp (3#4) [1#8; -(1#8)]] in
  let c := [1#10; 1#10] in
  let its := [([1; 0; 0; 0], 3#10); ([1#2; 1#2; 0; 0], 1#10); ([0; 1; 0; 0], 2#10)] in
  let r := Gen_egconst.returned_src [] (map snd its) (map fst its) in
  r = (1%nat, 1#10, [1#2; 1#2; 0; 0]) /\
  Gen_egconst.keep_src [1; 0] (3#10) (Some ([0; 1], 1#10)) = ([0; 1], 1#10) /\
  Gen_egconst.keep_src [1; 0] (3#10) None = ([1; 0], 3#10) /\
  Gen_egconst.nu_src (Some 0) (1#100) = 0 /\
  lp_rows H c (ret_weights r) = [3#20; -(7#20)] /\
  lp_feasible H c (ret_weights r) (3#20) = true /\ lp_feasible H c (ret_weights r) (1#10) = false /\
  Qred (lp_objective H 10 (ret_weights r) (3#20)) = 15#8 /\ Qred (L_high H c 10 (ret_weights r)) = 15#8.
Proof. vm_compute. repeat split. Qed.
