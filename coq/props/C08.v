(* C08 -- ExponentiatedGradient meets the saddle-point guarantees certified by best_gap_.
   Only statements, `exact`, and Print Assumptions.  The statements are about the definitions of
   FL.Saddle that the correspondence run evaluates (Saddle.evaluate, Saddle.select), instantiated with
   the constants, the multiplier literal and the gap expression REGENERATED from /repo
   (FLGen.Gen_egconst) on every run.

   Reading guide.  H : the enumerated hypothesis class, one record (err_h, gam_h) per hypothesis;
   c : constraints.bound(); B = 1/eps; Qw : weights_ over the class; lam : lambda_hat as recorded;
   lam' : the multiplier _eval uses (project_lambda lam); err / viol / L / L_high / L_low_code /
   gap_code follow _Lagrangian._eval, eval_gap and _GapResult.gap statement by statement;
   L_low_true / gap_true are the specification (true minimum over the class, true duality gap). *)
From Coq Require Import QArith ZArith List Bool.
From FL Require Import Num Saddle Saddle_proofs.
From FLGen Require Gen_egconst.
Import ListNotations.
Open Scope Q_scope.

(* the source still contains the constants and the gap expression the model was written for *)
Theorem C08_source_constants :
  Gen_egconst.precision = std_precision /\ Gen_egconst.min_iter = std_min_iter /\
  Gen_egconst.muls = std_muls /\
  (forall Lv low high, Gen_egconst.gap_of_src Lv low high = gap_of Lv low high) /\
  0 <= Gen_egconst.precision.
Proof. exact (conj eq_refl (conj eq_refl (conj eq_refl (conj (fun _ _ _ => eq_refl) (Qle_bool_imp_le 0 Gen_egconst.precision eq_refl))))). Qed.
Print Assumptions C08_source_constants.

(* L_high_is_max: L(Q, lam) <= L_high(Q) for every lam >= 0 with sum lam <= B *)
Theorem C08_L_high_is_max : forall H c B Qw lam,
  all_nonneg lam = true -> rsum lam <= B -> L H c Qw lam <= L_high H c B Qw.
Proof. exact L_high_is_max. Qed.
Print Assumptions C08_L_high_is_max.

(* L_low_is_min: the minimum over the class is below the Lagrangian of every distribution; the value the
   code computes lies between that minimum and L, and EQUALS the minimum for the source's multiplier list
   when lam and lam' act identically on the class (exact oracle answering the query 1*lam) *)
Theorem C08_L_low_is_min : forall H c B nu Qw lam lam',
  wf H c = true -> is_dist H Qw = true ->
  (forall Q', is_dist H Q' = true -> L_low_true H c lam' <= L H c Q' lam') /\
  (exists h, In h H /\ L_low_true H c lam' = L_pt c h lam') /\
  L_low_true H c lam' <= L_low_code H c B Gen_egconst.precision nu Gen_egconst.muls Qw lam lam' /\
  L_low_code H c B Gen_egconst.precision nu Gen_egconst.muls Qw lam lam' <= L H c Qw lam' /\
  (compat H lam lam' = true ->
   L_low_code H c B Gen_egconst.precision nu Gen_egconst.muls Qw lam lam' == L_low_true H c lam').
Proof.
  exact (fun H c B nu Qw lam lam' W D =>
    conj (fun Q' D' => L_low_is_min H c Q' lam' W D')
    (conj (L_low_true_attained H c lam' (proj1 (wf_unpack H c W)))
    (conj (L_low_code_ge_true H c B _ nu _ Qw lam lam' W D)
    (conj (L_low_code_le_L H c B _ nu _ Qw lam lam')
          (fun C => L_low_code_exact H c B _ nu _ Qw lam lam' W D C))))).
Qed.
Print Assumptions C08_L_low_is_min.

(* gap_is_duality_gap: any g >= gap_true bounds both saddle-point violations of (Q, lam') *)
Theorem C08_gap_is_duality_gap : forall H c B Qw lam' g,
  wf H c = true -> is_dist H Qw = true -> gap_true H c B Qw lam' <= g ->
  (forall Q', is_dist H Q' = true -> L H c Qw lam' <= L H c Q' lam' + g) /\
  (forall lam, all_nonneg lam = true -> rsum lam <= B -> L H c Qw lam <= L H c Qw lam' + g).
Proof. exact gap_is_duality_gap. Qed.
Print Assumptions C08_gap_is_duality_gap.

(* the gap eval_gap computes (source constants) is the true duality gap: never above it, and not below
   it when the oracle is exact *)
Theorem C08_gap_code_is_true_gap : forall H c B nu Qw lam lam',
  wf H c = true -> is_dist H Qw = true ->
  gap_code H c B Gen_egconst.precision nu Gen_egconst.muls Qw lam lam' <= gap_true H c B Qw lam' /\
  (compat H lam lam' = true ->
   gap_true H c B Qw lam' <= gap_code H c B Gen_egconst.precision nu Gen_egconst.muls Qw lam lam').
Proof.
  exact (fun H c B nu Qw lam lam' W D =>
    conj (gap_code_le_true H c B _ nu _ Qw lam lam' W D)
         (fun C => gap_code_ge_true H c B _ nu _ Qw lam lam' W D C)).
Qed.
Print Assumptions C08_gap_code_is_true_gap.

(* saddle_error_bound: err(Q) <= err(Q-star) + 2g for every feasible distribution Q-star, g >= the duality gap *)
Theorem C08_saddle_error_bound : forall H c B Qw Qs lam' g,
  wf H c = true -> is_dist H Qw = true -> is_dist H Qs = true ->
  all_nonneg lam' = true -> 0 <= B ->
  feasible H c Qs = true ->
  gap_true H c B Qw lam' <= g ->
  err H Qw <= err H Qs + 2 * g.
Proof. exact saddle_error_bound. Qed.
Print Assumptions C08_saddle_error_bound.

(* saddle_constraint_bound: every constraint of Q exceeds its bound by at most (1 + 2g)/B *)
Theorem C08_saddle_constraint_bound : forall H c B Qw Qs lam' g,
  wf H c = true -> is_dist H Qw = true -> is_dist H Qs = true ->
  all_nonneg lam' = true -> 0 < B ->
  feasible H c Qs = true ->
  0 <= err H Qw -> err H Qs <= 1 ->
  gap_true H c B Qw lam' <= g ->
  forall v, In v (viol H c Qw) -> v <= (1 + 2 * g) / B.
Proof. exact saddle_constraint_bound. Qed.
Print Assumptions C08_saddle_constraint_bound.

(* the form that applies to the number fit reports: g = the gap the code computes for (weights_, lambda_hat)
   with the source's constants, errors of the class in [0,1], exact oracle *)
Theorem C08_certificate : forall H c B nu Qw Qs lam lam',
  wf H c = true -> is_dist H Qw = true -> is_dist H Qs = true ->
  all_nonneg lam' = true -> 0 < B -> compat H lam lam' = true ->
  feasible H c Qs = true ->
  (forall h, In h H -> 0 <= err_h h <= 1) ->
  let g := gap_code H c B Gen_egconst.precision nu Gen_egconst.muls Qw lam lam' in
  err H Qw <= err H Qs + 2 * g /\ forall v, In v (viol H c Qw) -> v <= (1 + 2 * g) / B.
Proof. exact (fun H c B nu => saddle_bounds_for_code_gap H c B _ nu _). Qed.
Print Assumptions C08_certificate.

(* project_lambda for ratio = 1 yields an admissible multiplier that acts on antisymmetric gammas exactly
   as the recorded one: the premises lam' >= 0, sum lam' <= B and compat of C08_certificate *)
Theorem C08_projection : forall H lam,
  all_nonneg (project_r1 lam) = true /\
  (length lam = (2 * Nat.div2 (length lam))%nat -> all_nonneg lam = true ->
   rsum (project_r1 lam) <= rsum lam) /\
  ((forall h, In h H -> antisym (gam_h h) = true /\ length (gam_h h) = length lam) ->
   compat H lam (project_r1 lam) = true).
Proof.
  exact (fun H lam => conj (project_r1_nonneg lam)
          (conj (project_r1_norm lam) (compat_of_antisym H lam))).
Qed.
Print Assumptions C08_projection.

(* select_is_min: the iterate handed out is the last one whose gap is within _PRECISION of the minimum *)
Theorem C08_select_is_min : forall gaps, gaps <> [] ->
  let s := select Gen_egconst.precision gaps in
  (s < length gaps)%nat /\
  selected_gap Gen_egconst.precision gaps <= vmin gaps + Gen_egconst.precision /\
  (forall x, In x gaps -> selected_gap Gen_egconst.precision gaps <= x + Gen_egconst.precision) /\
  (forall j, (s < j < length gaps)%nat -> vmin gaps + Gen_egconst.precision < nth j gaps 0).
Proof.
  exact (fun gaps Hne => select_is_min Gen_egconst.precision gaps Hne
                           (proj2 (proj2 (proj2 (proj2 C08_source_constants))))).
Qed.
Print Assumptions C08_select_is_min.

(* early_stop_below_nu: for ANY sequence g of recorded gaps, if the loop of fit ran fewer than max_iter
   iterations then at least _MIN_ITER + 1 ran and the gap handed out is strictly below nu *)
Theorem C08_early_stop_below_nu : forall (g : nat -> Q) nu max_iter,
  let gaps := run g nu Gen_egconst.min_iter max_iter 0 in
  (length gaps < max_iter)%nat ->
  selected_gap Gen_egconst.precision gaps < nu /\ (Gen_egconst.min_iter <= length gaps - 1)%nat.
Proof.
  exact (fun g nu max_iter => early_stop_below_nu g nu Gen_egconst.min_iter Gen_egconst.precision max_iter
                                (proj2 (proj2 (proj2 (proj2 C08_source_constants))))).
Qed.
Print Assumptions C08_early_stop_below_nu.

(* weights_probability (EG branch): normalised counts are a probability vector *)
Theorem C08_weights_probability : forall counts,
  (forall x, In x counts -> 0 <= x) -> 0 < rsum counts ->
  (forall x, In x (eg_weights counts) -> 0 <= x) /\ rsum (eg_weights counts) == 1.
Proof. exact weights_probability. Qed.
Print Assumptions C08_weights_probability.

(* non-vacuity: a class of four hypotheses with two (antisymmetric) constraints, a mixed Q, a feasible
   Q-star, a non-zero multiplier: every premise of C08_certificate holds and the gap is positive *)
Example C08_example :
  let H := [mkHyp (1#4) [1#2; -(1#2)]; mkHyp (1#2) [0; 0]; mkHyp (1#2) [-(1#4); 1#4]; mkHyp (3#4) [1#8; -(1#8)]] in
  let c := [1#10; 1#10] in
  let B := 10 in
  let Qw := [1#2; 1#2; 0; 0] in
  let Qs := [0; 1; 0; 0] in
  let lam := [3#2; 1#2] in
  let lam' := project_r1 lam in
  wf H c = true /\ is_dist H Qw = true /\ is_dist H Qs = true /\ all_nonneg lam' = true /\
  compat H lam lam' = true /\ feasible H c Qs = true /\ lam' = [1; 0] /\
  Qred (gap_code H c B Gen_egconst.precision (1#100) Gen_egconst.muls Qw lam lam') = 27#20 /\
  Qred (gap_true H c B Qw lam') = 27#20.
Proof. vm_compute. repeat split. Qed.
