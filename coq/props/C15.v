(* C15 -- CorrelationRemover output is uncorrelated with every sensitive column.
   Only statements, `exact`, and Print Assumptions.  Matrices are lists of columns over Q;
   wf n X says that every column has n entries.  The same functions (split, fit_transform, fit,
   transform) are evaluated against fairlearn.preprocessing.CorrelationRemover on every run. *)
From Coq Require Import QArith ZArith List Sorted.
From FL Require Import Num CorrRemover CorrRemover_proofs.
Import ListNotations.
Open Scope Q_scope.

(* every column of X - project S X is orthogonal to every column of centre S: any number of rows >= 1,
   any number of columns, collinear and constant sensitive columns included *)
Theorem C15_gs_orthogonal :
  forall (n : nat) (S X : mat), (1 <= n)%nat -> wf n S -> wf n X ->
  forall r c, In r (msub X (project S X)) -> In c (centre S) -> dot r c == 0.
Proof. exact gs_orthogonal. Qed.
Print Assumptions C15_gs_orthogonal.

(* alpha = 1: every output column of fit_transform has zero sample covariance with every sensitive
   column of the training data (ids by position or by label through names, in any order) *)
Theorem C15_zero_covariance :
  forall (n : nat) (names ids : list Z) (alpha : Q) (X out Xs Xuse : mat),
  (2 <= n)%nat -> wf n X -> length names = length X -> alpha == 1 ->
  split names ids X = Some (Xuse, Xs) -> fit_transform names ids alpha X = Some out ->
  forall r s, In r out -> In s Xs -> covsum r s == 0 /\ sample_cov r s == 0.
Proof. exact zero_covariance. Qed.
Print Assumptions C15_zero_covariance.

(* centring all sensitive columns by ONE scalar mean (the defect repaired by /repo commit e03cf38) does
   not have the property: computed witness with two sensitive columns *)
Theorem C15_global_centring_refuted :
  exists names ids out Xuse Xs r s,
    wf 6 witness_X /\ length names = length witness_X /\
    split names ids witness_X = Some (Xuse, Xs) /\
    fit_transform_global names ids 1 witness_X = Some out /\
    In r out /\ In s Xs /\ ~ covsum r s == 0.
Proof. exact global_centring_refuted. Qed.
Print Assumptions C15_global_centring_refuted.

(* the output is alpha * (X_use - project) + (1 - alpha) * X_use; alpha = 0 returns the non-sensitive
   columns unchanged, alpha = 1 the residual *)
Theorem C15_alpha_blend :
  forall (n : nat) (names ids : list Z) (alpha : Q) (X out Xuse Xs : mat),
  wf n X -> length names = length X ->
  split names ids X = Some (Xuse, Xs) -> fit_transform names ids alpha X = Some out ->
  out = mmap2 (vblend alpha) (msub Xuse (project Xs Xuse)) Xuse /\
  (alpha == 0 -> meq out Xuse) /\
  (alpha == 1 -> meq out (msub Xuse (project Xs Xuse))).
Proof. exact alpha_blend. Qed.
Print Assumptions C15_alpha_blend.

Theorem C15_blend_entry :
  forall (k : Q) (u x : vec), length u = length x ->
  forall i, nth i (vblend k u x) 0 == k * nth i u 0 + (1 - k) * nth i x 0.
Proof. exact vblend_entry. Qed.
Print Assumptions C15_blend_entry.

(* sensitive columns in the order of the ids (looked up by position or label), dropped from the output;
   the remaining columns keep their original order; one output column per remaining column *)
Theorem C15_columns_kept :
  forall (names ids : list Z) (X Xuse Xs : mat), split names ids X = Some (Xuse, Xs) ->
  exists s, Forall2 (fun id i => nth_error names i = Some id) ids s /\
            Xs = cols X s /\ Xuse = cols X (use_idx (length X) s) /\
            (forall i, In i (use_idx (length X) s) <-> (i < length X)%nat /\ ~ In i s) /\
            StronglySorted lt (use_idx (length X) s) /\
            (forall alpha out, fit_transform names ids alpha X = Some out -> length out = length Xuse).
Proof. exact columns_kept. Qed.
Print Assumptions C15_columns_kept.

(* the split is defined exactly when every id is a column (otherwise the code raises ValueError) *)
Theorem C15_split_defined :
  forall (names ids : list Z) (X : mat),
  (exists p, split names ids X = Some p) <-> Forall (fun id => In id names) ids.
Proof. exact split_defined. Qed.
Print Assumptions C15_split_defined.

(* any coefficient vector solving the normal equations C^T (C w) = C^T x yields the projection computed by
   Gram-Schmidt: the fitted values do not depend on which solution lstsq returns (rank-deficient C included) *)
Theorem C15_projection_unique :
  forall (n : nat) (C : mat) (x : vec) (ws : list Q), wf n C -> length x = n ->
  (forall c, In c C -> dot c (lincomb ws C x) == dot c x) ->
  veq (lincomb ws C x) (proj_basis (basis C) x).
Proof. exact projection_unique. Qed.
Print Assumptions C15_projection_unique.

(* FULL statement wanted (transform_affine): for a sensitive block of full column rank,
     fit names ids X = Some f -> transform names ids f alpha X =~ fit_transform names ids alpha X.
   PROVED: the same under the extra premise that the beta computed by Gauss-Jordan solves the normal
   equations (normal_eqs_hold ... = true, a closed boolean that the kernel evaluates on every
   correspondence case).  MISSING: correctness of the Gauss-Jordan elimination (solve_beta).
   That transform is ONE affine map (training means f_mean and coefficients f_beta) whatever data it is
   applied to holds by construction: transform_split uses only f and its argument. *)
Theorem C15_transform_is_fit_transform_partial :
  forall (n : nat) (names ids : list Z) (alpha : Q) (X Xuse Xs : mat) (f : fitted),
  wf n X -> length names = length X -> split names ids X = Some (Xuse, Xs) ->
  fit names ids X = Some f -> normal_eqs_hold (centre Xs) (f_beta f) Xuse = true ->
  exists o1 o2, transform names ids f alpha X = Some o1 /\
                fit_transform names ids alpha X = Some o2 /\ meq o1 o2.
Proof. exact transform_is_fit_transform_api_partial. Qed.
Print Assumptions C15_transform_is_fit_transform_partial.

(* non-vacuity: the premises of C15_zero_covariance / C15_transform_is_fit_transform_partial hold on a
   6 x 4 matrix with two sensitive columns given in decreasing order; the output really differs from the
   input columns, has zero covariance with the sensitive columns, and the learned beta solves the normal
   equations (closed boolean, evaluated by the kernel) *)
Example C15_example :
  wf 6 witness_X /\ length [0;1;2;3]%Z = length witness_X /\
  match split [0;1;2;3]%Z [2;0]%Z witness_X, fit_transform [0;1;2;3]%Z [2;0]%Z 1 witness_X,
        fit [0;1;2;3]%Z [2;0]%Z witness_X with
  | Some (Xuse, Xs), Some out, Some f =>
      (negb (mat_eqb out Xuse) && zero_cov_all out Xs && normal_eqs_hold (centre Xs) (f_beta f) Xuse)%bool
  | _, _, _ => false
  end = true.
Proof. split; [repeat constructor|]. split; [reflexivity|]. vm_compute. reflexivity. Qed.
