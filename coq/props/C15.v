(* C15 -- CorrelationRemover output is uncorrelated with every sensitive column.
   Only statements, `exact`, and Print Assumptions.  Matrices are lists of columns over Q;
   wf n X says that every column has n entries.  The same functions (split, fit_transform, fit,
   transform) are evaluated against fairlearn.preprocessing.CorrelationRemover on every run. *)
From Coq Require Import QArith ZArith List Sorted.
From FL Require Import Num CorrRemover CorrRemover_proofs CorrExpr CorrRemover_gj.
From FLGen Require Gen_corr.
Import ListNotations.
Open Scope Q_scope.

(* every column of X - project S X is orthogonal to every column of centre S: any number of rows >= 1,
   any number of columns, collinear and constant sensitive columns included *)
Theorem C15_gs_orthogonal :
  forall (n : nat) (S X : mat), (1 <= n)%nat -> wf n S -> wf n X ->
  forall r c, In r (msub X (project S X)) -> In c (centre S) -> dot r c == 0.
Proof. exact gs_orthogonal. Qed.
Print Assumptions C15_gs_orthogonal.

(* alpha = 1: every output column of fit_transform has zero sample covariance with every sensitive
   column of the training data (ids by position or by label through names, in any order) *)
Theorem C15_zero_covariance :
  forall (n : nat) (names ids : list Z) (alpha : Q) (X out Xs Xuse : mat),
  (2 <= n)%nat -> wf n X -> length names = length X -> alpha == 1 ->
  split names ids X = Some (Xuse, Xs) -> fit_transform names ids alpha X = Some out ->
  forall r s, In r out -> In s Xs -> covsum r s == 0 /\ sample_cov r s == 0.
Proof. exact zero_covariance. Qed.
Print Assumptions C15_zero_covariance.

(* centring all sensitive columns by ONE scalar mean (the defect repaired by /repo commit e03cf38) does
   not have the property: computed witness with two sensitive columns *)
Theorem C15_global_centring_refuted :
  exists names ids out Xuse Xs r s,
    wf 6 witness_X /\ length names = length witness_X /\
    split names ids witness_X = Some (Xuse, Xs) /\
    fit_transform_global names ids 1 witness_X = Some out /\
    In r out /\ In s Xs /\ ~ covsum r s == 0.
Proof. exact global_centring_refuted. Qed.
Print Assumptions C15_global_centring_refuted.

(* the output is alpha * (X_use - project) + (1 - alpha) * X_use; alpha = 0 returns the non-sensitive
   columns unchanged, alpha = 1 the residual *)
Theorem C15_alpha_blend :
  forall (n : nat) (names ids : list Z) (alpha : Q) (X out Xuse Xs : mat),
  wf n X -> length names = length X ->
  split names ids X = Some (Xuse, Xs) -> fit_transform names ids alpha X = Some out ->
  out = mmap2 (vblend alpha) (msub Xuse (project Xs Xuse)) Xuse /\
  (alpha == 0 -> meq out Xuse) /\
  (alpha == 1 -> meq out (msub Xuse (project Xs Xuse))).
Proof. exact alpha_blend. Qed.
Print Assumptions C15_alpha_blend.

Theorem C15_blend_entry :
  forall (k : Q) (u x : vec), length u = length x ->
  forall i, nth i (vblend k u x) 0 == k * nth i u 0 + (1 - k) * nth i x 0.
Proof. exact vblend_entry. Qed.
Print Assumptions C15_blend_entry.

(* sensitive columns in the order of the ids (looked up by position or label), dropped from the output;
   the remaining columns keep their original order; one output column per remaining column *)
Theorem C15_columns_kept :
  forall (names ids : list Z) (X Xuse Xs : mat), split names ids X = Some (Xuse, Xs) ->
  exists s, Forall2 (fun id i => nth_error names i = Some id) ids s /\
            Xs = cols X s /\ Xuse = cols X (use_idx (length X) s) /\
            (forall i, In i (use_idx (length X) s) <-> (i < length X)%nat /\ ~ In i s) /\
            StronglySorted lt (use_idx (length X) s) /\
            (forall alpha out, fit_transform names ids alpha X = Some out -> length out = length Xuse).
Proof. exact columns_kept. Qed.
Print Assumptions C15_columns_kept.

(* the split is defined exactly when every id is a column (otherwise the code raises ValueError) *)
Theorem C15_split_defined :
  forall (names ids : list Z) (X : mat),
  (exists p, split names ids X = Some p) <-> Forall (fun id => In id names) ids.
Proof. exact split_defined. Qed.
Print Assumptions C15_split_defined.

(* any coefficient vector solving the normal equations C^T (C w) = C^T x yields the projection computed by
   Gram-Schmidt: the fitted values do not depend on which solution lstsq returns (rank-deficient C included) *)
Theorem C15_projection_unique :
  forall (n : nat) (C : mat) (x : vec) (ws : list Q), wf n C -> length x = n ->
  (forall c, In c C -> dot c (lincomb ws C x) == dot c x) ->
  veq (lincomb ws C x) (proj_basis (basis C) x).
Proof. exact projection_unique. Qed.
Print Assumptions C15_projection_unique.

(* FULL statement wanted (transform_affine): for a sensitive block of full column rank,
     fit names ids X = Some f -> transform names ids f alpha X =~ fit_transform names ids alpha X.
   PROVED: the same under the extra premise that the beta computed by Gauss-Jordan solves the normal
   equations (normal_eqs_hold ... = true, a closed boolean that the kernel evaluates on every
   correspondence case).  MISSING: correctness of the Gauss-Jordan elimination (solve_beta).
   That transform is ONE affine map (training means f_mean and coefficients f_beta) whatever data it is
   applied to holds by construction: transform_split uses only f and its argument.
   UPDATE (second part below): the missing piece is now proved (C15_solve_beta_correct) and the full statement
   is C15_transform_is_fit_transform; the affine form is C15_transform_affine / _rowwise / _through_mean_beta.
   This theorem is kept unchanged. *)
Theorem C15_transform_is_fit_transform_partial :
  forall (n : nat) (names ids : list Z) (alpha : Q) (X Xuse Xs : mat) (f : fitted),
  wf n X -> length names = length X -> split names ids X = Some (Xuse, Xs) ->
  fit names ids X = Some f -> normal_eqs_hold (centre Xs) (f_beta f) Xuse = true ->
  exists o1 o2, transform names ids f alpha X = Some o1 /\
                fit_transform names ids alpha X = Some o2 /\ meq o1 o2.
Proof. exact transform_is_fit_transform_api_partial. Qed.
Print Assumptions C15_transform_is_fit_transform_partial.

(* ---------------------------------------------------------------------------------------------------------
   Second part: Gauss-Jordan correctness, the full transform = fit_transform, transform_affine, source tie *)

(* correctness of the Gauss-Jordan elimination behind beta_: whenever a pivot is found in every column
   (solve_beta returns Some), the coefficients satisfy C^T C beta = C^T X, row by row and as the closed boolean *)
Theorem C15_solve_beta_correct :
  forall (n : nat) (C X : mat) (b : list vec), wf n C -> wf n X -> solve_beta C X = Some b ->
  (length b = length C /\
   forall c j x, In c C -> nth_error X j = Some x -> dot (map (dot c) C) (bcol j b) == dot c x) /\
  normal_eqs_hold C b X = true.
Proof. exact (fun n C X b HC HX H => conj (solve_beta_rows n C X b HC HX H) (solve_beta_normal_eqs n C X b HC HX H)). Qed.
Print Assumptions C15_solve_beta_correct.

(* the guard "a pivot in every column" implies full column rank in the ordinary sense: no non-trivial
   combination of the centred sensitive columns vanishes *)
Theorem C15_guard_is_full_rank :
  forall (n : nat) (C X : mat) (b : list vec) (z : vec), wf n C -> length z = n -> solve_beta C X = Some b ->
  forall ws, length ws = length C -> Forall (fun q => q == 0) (lincomb ws C z) -> Forall (fun q => q == 0) ws.
Proof. exact solve_beta_independent. Qed.
Print Assumptions C15_guard_is_full_rank.

(* what fit stores: the per-column means and coefficients solving the normal equations of the centred block *)
Theorem C15_fit_spec :
  forall (n : nat) (names ids : list Z) (X Xuse Xs : mat) (f : fitted),
  wf n X -> length names = length X -> split names ids X = Some (Xuse, Xs) -> fit names ids X = Some f ->
  f_mean f = map mean Xs /\ length (f_beta f) = length Xs /\
  normal_eqs_hold (centre Xs) (f_beta f) Xuse = true /\
  (forall c j x, In c (centre Xs) -> nth_error Xuse j = Some x ->
     dot c (lincomb (bcol j (f_beta f)) (centre Xs) x) == dot c x).
Proof. exact fit_spec. Qed.
Print Assumptions C15_fit_spec.

(* FULL: transform (fit X) X = fit_transform X entrywise, under the full-rank guard only
   (fit returns Some exactly when Gauss-Jordan finds a pivot in every column of the centred block) *)
Theorem C15_transform_is_fit_transform :
  forall (n : nat) (names ids : list Z) (alpha : Q) (X : mat) (f : fitted),
  wf n X -> length names = length X -> fit names ids X = Some f ->
  exists o1 o2, transform names ids f alpha X = Some o1 /\
                fit_transform names ids alpha X = Some o2 /\ meq o1 o2.
Proof. exact transform_is_fit_transform. Qed.
Print Assumptions C15_transform_is_fit_transform.

(* transform_affine: on ANY data X (n rows, same columns) cell (i, j) of the output is
     alpha * (u - (srow - mean) . beta[:, j]) + (1 - alpha) * u
   with u = X_use[i, j], srow = X_sensitive[i, :] and the STORED (training) means and coefficients of f;
   one output column per non-sensitive column.  (vsub / dot stop at the shorter argument: for an f returned by
   fit on data with the same ids, C15_fit_spec gives length f_mean = length f_beta = number of sensitive
   columns = length (row i Xs), so nothing is cut off; numpy raises on any other shape.) *)
Theorem C15_transform_affine :
  forall (n : nat) (names ids : list Z) (f : fitted) (alpha : Q) (X Xuse Xs out : mat),
  wf n X -> length names = length X ->
  split names ids X = Some (Xuse, Xs) -> transform names ids f alpha X = Some out ->
  length out = length Xuse /\
  forall i j, (i < n)%nat -> (j < length Xuse)%nat ->
    nth i (nth j out []) 0 ==
    alpha * (nth j (row i Xuse) 0 - dot (vsub (row i Xs) (f_mean f)) (bcol j (f_beta f)))
    + (1 - alpha) * nth j (row i Xuse) 0.
Proof. exact transform_affine. Qed.
Print Assumptions C15_transform_affine.

(* row-wise: output row i depends only on input row i (two data sets of any numbers of rows) *)
Theorem C15_transform_rowwise :
  forall (n n' : nat) (names ids : list Z) (f : fitted) (alpha : Q) (X X' out out' : mat) (i i' : nat),
  wf n X -> wf n' X' -> length names = length X -> length X' = length X ->
  (i < n)%nat -> (i' < n')%nat -> veq (row i X) (row i' X') ->
  transform names ids f alpha X = Some out -> transform names ids f alpha X' = Some out' ->
  veq (row i out) (row i' out').
Proof. exact transform_rowwise. Qed.
Print Assumptions C15_transform_rowwise.

(* the training data enter only through (sensitive_mean_, beta_) *)
Theorem C15_transform_through_mean_beta :
  forall (n : nat) (names ids : list Z) (f1 f2 : fitted) (alpha : Q) (X out1 out2 : mat),
  wf n X -> length names = length X ->
  veq (f_mean f1) (f_mean f2) -> meq (f_beta f1) (f_beta f2) ->
  transform names ids f1 alpha X = Some out1 -> transform names ids f2 alpha X = Some out2 ->
  length out1 = length out2 /\
  forall i j, (i < n)%nat -> (j < length out1)%nat -> nth i (nth j out1 []) 0 == nth i (nth j out2 []) 0.
Proof. exact transform_through_mean_beta. Qed.
Print Assumptions C15_transform_through_mean_beta.

(* the cell expression is affine in the row: t * row + (1 - t) * row' goes to the same combination of images *)
Theorem C15_affine_entry_affine :
  forall (means : list Q) (beta : list vec) (alpha : Q) (j : nat) (t u u' : Q) (s s' : vec),
  length s = length s' ->
  affine_entry means beta alpha j (t * u + (1 - t) * u') (vblend t s s') ==
  t * affine_entry means beta alpha j u s + (1 - t) * affine_entry means beta alpha j u' s'.
Proof. exact affine_entry_affine. Qed.
Print Assumptions C15_affine_entry_affine.

(* SOURCE TIE (regenerated from /repo on every run by translators/t_corr.py): the expressions that fit()
   stores in sensitive_mean_ / beta_ evaluate to the model's fit_split (per-COLUMN mean, centred block,
   lstsq(centred, X_use)[0]) ... *)
Theorem C15_source_fit :
  forall (Xuse Xs : mat), eval_fit Xuse Xs Gen_corr.fit_mean_ex Gen_corr.fit_beta_ex = fit_split Xuse Xs.
Proof. exact eval_fit_model. Qed.
Print Assumptions C15_source_fit.

(* ... and the expression returned by transform() evaluates to the model's transform_split:
   alpha * (X_use - (X_sensitive - sensitive_mean_) . beta_) + (1 - alpha) * X_use *)
Theorem C15_source_transform :
  forall (f : fitted) (alpha : Q) (Xuse Xs : mat),
  eval_transform f alpha Xuse Xs Gen_corr.transform_return_ex = Some (transform_split f alpha Xuse Xs).
Proof. exact eval_transform_model. Qed.
Print Assumptions C15_source_transform.

(* X_sensitive - X_sensitive.mean() (no axis) is the scalar centring refuted by C15_global_centring_refuted *)
Theorem C15_scalar_mean_is_global_centring :
  forall (E : env), eval E (Sub XSens (MeanAll XSens)) = Some (VM (centre_global (e_sens E))).
Proof. exact eval_scalar_mean_is_global. Qed.
Print Assumptions C15_scalar_mean_is_global_centring.

(* non-vacuity: the premises of C15_zero_covariance / C15_transform_is_fit_transform_partial hold on a
   6 x 4 matrix with two sensitive columns given in decreasing order; the output really differs from the
   input columns, has zero covariance with the sensitive columns, and the learned beta solves the normal
   equations (closed boolean, evaluated by the kernel) *)
Example C15_example :
  wf 6 witness_X /\ length [0;1;2;3]%Z = length witness_X /\
  match split [0;1;2;3]%Z [2;0]%Z witness_X, fit_transform [0;1;2;3]%Z [2;0]%Z 1 witness_X,
        fit [0;1;2;3]%Z [2;0]%Z witness_X with
  | Some (Xuse, Xs), Some out, Some f =>
      (negb (mat_eqb out Xuse) && zero_cov_all out Xs && normal_eqs_hold (centre Xs) (f_beta f) Xuse)%bool
  | _, _, _ => false
  end = true.
Proof. split; [repeat constructor|]. split; [reflexivity|]. vm_compute. reflexivity. Qed.

(* non-vacuity of the second part: on the same matrix fit succeeds (the guard holds), the learned beta is not
   zero, and transform on two FRESH rows differs from the input columns *)
Example C15_example_transform :
  match fit [0;1;2;3]%Z [2;0]%Z witness_X with
  | Some f =>
      match split [0;1;2;3]%Z [2;0]%Z [[1;4];[2;0];[3;3];[5;1]],
            transform [0;1;2;3]%Z [2;0]%Z f (1#2) [[1;4];[2;0];[3;3];[5;1]] with
      | Some (Xuse, _), Some out =>
          (negb (mat_eqb out Xuse) && negb (mat_eqb (f_beta f) [[0;0];[0;0]]))%bool
      | _, _ => false
      end
  | None => false
  end = true.
Proof. vm_compute. reflexivity. Qed.
