(* C15 -- stub while the proofs are being written *)
From Coq Require Import QArith ZArith List.
From FL Require Import Num CorrRemover CorrRemover_proofs.
