(* C05 -- ThresholdOptimizer returns the best parity-satisfying threshold rule on its grid.
   Only statements, `exact`, and Print Assumptions. *)
From Coq Require Import QArith ZArith List Bool.
From FL Require Import Num Tradeoff Tradeoff_proofs Hull Hull_proofs Interp Interp_proofs ThreshOpt ThreshOpt_proofs.
From FL Require Import ThreshOptSrc ThreshOptSrc_proofs.
From FLGen Require Gen_metricdict Gen_hull Gen_threshopt.
Import ListNotations.
Open Scope Q_scope.

Theorem C05_metric_table_is_source : forall m c, Gen_metricdict.metric_eval m c = metric_eval m c.
Proof. intros m c; destruct m; reflexivity. Qed.
Print Assumptions C05_metric_table_is_source.

Theorem C05_drop_test_is_source : forall r0 r1 r2,
  drop_test r0 r1 r2 = Gen_hull.drop_test_xy (px r0) (py r0) (px r1) (py r1) (px r2) (py r2).
Proof. intros; reflexivity. Qed.
Print Assumptions C05_drop_test_is_source.

(* ---- the optimisation step is the source's (Gen_threshopt, regenerated from _threshold_optimizer.py) ---- *)
(* simple constraints: the fit re-assembled from the regenerated tags (i_best = FIRST ARG-MAX of the summed curve,
   every group's row read at that ONE COMMON index of its own interpolated curve, Bunch fields p0/operation0/
   p1/operation1 from the columns of the same name) IS fit_simple; the regenerated arithmetic (overall = 0 * x_grid,
   p = len(group) / n, overall += p * curve.y) is the model's frequency-weighted sum *)
Theorem C05_optimisation_is_source : forall flip mx my N gs,
  let f := fit_simple flip mx my N gs in
  fit_simple_src Gen_threshopt.simple_select Gen_threshopt.simple_index flip mx my N gs = f /\
  simple_rules_src Gen_threshopt.simple_bunch f = simple_rules f /\
  (forall x, Gen_threshopt.simple_init x == 0) /\
  (forall acc p y, Gen_threshopt.simple_acc acc p y == acc + p * y) /\
  (total_rows gs <> 0%nat -> forall g,
     gweight gs g == Gen_threshopt.simple_weight (inject_Z (Z.of_nat (length g))) (inject_Z (Z.of_nat (total_rows gs)))).
Proof.
  intros flip mx my N gs f. split; [reflexivity|]. split; [reflexivity|].
  split; [intro x; unfold Gen_threshopt.simple_init; ring|].
  split; [intros acc p y; unfold Gen_threshopt.simple_acc; ring|].
  intros Hn g. rewrite (gweight_ratio gs g Hn). unfold Gen_threshopt.simple_weight. reflexivity.
Qed.
Print Assumptions C05_optimisation_is_source.

(* the accumulation loop run with the regenerated expressions gives (up to ==) the model's overall curve, and the
   regenerated selection applied to it is the model's i_best *)
Theorem C05_accumulation_is_source : forall flip mx my N gs, total_rows gs <> 0%nat ->
  let ov := overall_curve_src Gen_threshopt.simple_init Gen_threshopt.simple_weight Gen_threshopt.simple_acc
                              gs (map (group_curve flip mx my N) gs) (grid N) in
  Forall2 Qeq ov (fs_overall (fit_simple flip mx my N gs)) /\
  select_src Gen_threshopt.simple_select ov = fs_best (fit_simple flip mx my N gs).
Proof.
  intros flip mx my N gs Hn.
  assert (Hi : forall x, Gen_threshopt.simple_init x == 0) by (intro; unfold Gen_threshopt.simple_init; ring).
  assert (Hw : forall a b, ~ b == 0 -> Gen_threshopt.simple_weight a b == a / b)
    by (intros a b Hb; unfold Gen_threshopt.simple_weight; field; exact Hb).
  assert (Ha : forall a p y, Gen_threshopt.simple_acc a p y == a + p * y)
    by (intros; unfold Gen_threshopt.simple_acc; ring).
  split; [exact (overall_curve_src_model _ _ _ gs _ N Hn Hi Hw Ha)
         | exact (simple_best_src_model _ _ _ flip mx my N gs Hn Hi Hw Ha)].
Qed.
Print Assumptions C05_accumulation_is_source.

(* equalized odds: ROC curves of the metrics _tradeoff_curve defaults to, POINTWISE MIN over the groups, objective =
   METRIC_DICT[objective] of the counts built from the overall label counts, first arg-max, common index,
   p_ignore with its on-the-diagonal branch, prediction_constant = x_best: re-assembled from the regenerated pieces
   it IS fit_eo *)
Theorem C05_eo_optimisation_is_source : forall flip obj N gs,
  fit_eo_src Gen_threshopt.eo_x_metric Gen_threshopt.eo_y_metric Gen_threshopt.eo_reduce Gen_threshopt.eo_select
             Gen_threshopt.eo_index Gen_threshopt.eo_const Gen_threshopt.eo_bunch Gen_threshopt.eo_n_negative
             Gen_threshopt.eo_counts Gen_threshopt.eo_p_ignore flip obj N gs
  = fit_eo flip obj N gs.
Proof. intros; reflexivity. Qed.
Print Assumptions C05_eo_optimisation_is_source.

(* _calculate_tradeoff_points: the operations list per threshold ('>' on the actual counts, and the flipped '<' ONLY
   when flip), the two confusion matrices, the (x, y) sort order, the degenerate-label guard, the midpoint rule
   (model: doubled integers) together with ThresholdOperation.__call__, and the searchsorted side *)
Theorem C05_tradeoff_points_are_source :
  (forall flip mx my nneg npos e,
     points_at_src Gen_threshopt.tp_actual Gen_threshopt.tp_flipped Gen_threshopt.tp_ops_flip
                   Gen_threshopt.tp_ops_noflip flip mx my nneg npos e = points_at flip mx my nneg npos e) /\
  (forall a b, sort_leb Gen_threshopt.tp_sort_ascending Gen_threshopt.tp_sort_keys a b = pt_leb a b) /\
  (forall g, both_labels g = negb (Gen_threshopt.tp_degenerate (count_label true g) (count_label false g))) /\
  (forall s s', thr_q (s + s') == Gen_threshopt.tp_midpoint (inject_Z s) (inject_Z s')) /\
  (forall k w s, apply_op (mkop k (TMid w)) s
                 = apply_op_q Gen_threshopt.op_gt Gen_threshopt.op_lt k (thr_q w) (inject_Z s)) /\
  (forall xs x, searchsorted_src Gen_threshopt.interp_side xs x = ss_right xs x).
Proof.
  split; [exact points_at_src_model|]. split; [exact key_leb_model|].
  split; [intro g; rewrite both_labels_guard; unfold Gen_threshopt.tp_degenerate;
          destruct (count_label true g =? 0)%Z, (count_label false g =? 0)%Z; reflexivity|].
  split; [intros s s'; rewrite thr_q_mid; unfold Gen_threshopt.tp_midpoint; field|].
  split; [exact apply_op_mid | exact searchsorted_src_model].
Qed.
Print Assumptions C05_tradeoff_points_are_source.

(* every metric SIMPLE_CONSTRAINTS maps a constraint name to satisfies the premise of C04_simple_parity, and every
   member of OBJECTIVES_FOR_EQUALIZED_ODDS the premise of C05_eo_optimal *)
Theorem C05_allowed_configurations_are_source :
  Forall constraint_metric Gen_threshopt.simple_constraint_metrics /\
  Forall (fun o => o = Acc \/ o = BalAcc) Gen_threshopt.eo_objectives.
Proof.
  split; [unfold Gen_threshopt.simple_constraint_metrics; repeat (apply Forall_cons; [exact I|]); apply Forall_nil
         | unfold Gen_threshopt.eo_objectives; repeat (apply Forall_cons; [auto|]); apply Forall_nil].
Qed.
Print Assumptions C05_allowed_configurations_are_source.

(* jensen_chain: a chain that passes the boolean upper-hull test against pts dominates every convex
   combination of pts (the hull is the concave envelope of the achievable points) *)
Theorem C05_jensen_chain : forall h pts wp x, chain_ok (map px h) -> is_upper_hull h pts = true ->
  (forall e, In e wp -> 0 <= fst e /\ In (snd e) pts) -> wtot wp == 1 ->
  wsum px wp == x -> 0 <= x -> x <= 1 ->
  wsum py wp <= interp_curve h x.
Proof. exact jensen_chain. Qed.
Print Assumptions C05_jensen_chain.

(* hull correctness, both halves, for every input: the returned chain is strictly concave (any three consecutive
   hull points fail the drop test) and no point of the (x, y)-sorted input lies above the line through two
   consecutive chain points (vertical first segment and duplicate points included) *)
Theorem C05_hull_concave : forall pts i, (S (S i) < length (hull pts))%nat ->
  drop_test (nth i (hull pts) dpt) (nth (S i) (hull pts) dpt) (nth (S (S i)) (hull pts) dpt) = false.
Proof. exact hull_concave. Qed.
Print Assumptions C05_hull_concave.

Theorem C05_hull_is_upper_hull : forall pts, lsorted pts -> is_upper_hull (hull pts) pts = true.
Proof. exact hull_is_upper_hull. Qed.
Print Assumptions C05_hull_is_upper_hull.

Theorem C05_sort_xy_sorted : forall l, lsorted (sort_xy l) /\ (forall r, In r (sort_xy l) <-> In r l).
Proof. intro l. split; [apply sort_xy_sorted | intro r; apply sort_xy_in]. Qed.
Print Assumptions C05_sort_xy_sorted.

(* every tradeoff point IS a threshold rule of the group: its (x, y) are the constraint metric and the
   objective of applying its operation to the group's rows -- so mixtures of tradeoff points are exactly
   the per-group randomisations over (flipped) thresholdings the property quantifies over *)
Theorem C05_points_are_rules : forall flip mx my g p, In p (tradeoff_points flip mx my g) ->
  px p == metric_eval mx (exp_cm (op_rule (pop p)) g) /\ py p == metric_eval my (exp_cm (op_rule (pop p)) g).
Proof. exact tradeoff_point_sound. Qed.
Print Assumptions C05_points_are_rules.

(* the property, simple constraints: the fitted rule attains `best` (frequency-weighted objective on the training
   rows), and no family of per-group randomisations over the groups' (flipped) threshold rules that gives every
   group the same grid value k/N of the constrained metric has a larger weighted objective.  The constant
   classifiers are such families (k = 0 / k = N, all weight on a corner point), so the fit is never worse. *)
Theorem C05_simple_optimal : forall flip mx my N gs, constraint_metric mx ->
  (forall g, In g gs -> both_labels g = true) ->
  let f := fit_simple flip mx my N gs in
  let best := nth (fs_best f) (fs_overall f) 0 in
  weighted gs (map (fun gr => metric_eval my (exp_cm (pmf (snd gr)) (fst gr))) (combine gs (simple_rules f))) == best /\
  forall k mixes, (k <= Pos.to_nat N)%nat ->
    Forall2 (fun g wp => valid_mix flip mx my (grid_pt N k) g wp) gs mixes ->
    weighted gs (map (wsum py) mixes) <= best.
Proof. exact simple_optimal. Qed.
Print Assumptions C05_simple_optimal.

(* "in particular it is never worse than the best constant classifier": c = false predicts 0 everywhere
   (operation > +inf), c = true predicts 1 everywhere (operation > -inf) *)
Theorem C05_simple_beats_constants : forall flip mx my N gs (c : bool), constraint_metric mx ->
  (forall g, In g gs -> both_labels g = true) ->
  let f := fit_simple flip mx my N gs in
  qsum (map (fun g => gweight gs g * metric_eval my (exp_cm (op_rule (mkop OpGt (const_thr c))) g)) gs)
  <= nth (fs_best f) (fs_overall f) 0.
Proof. exact simple_beats_constants. Qed.
Print Assumptions C05_simple_beats_constants.

(* equalized odds: any rule giving every group the same (FPR, TPR) = (k/N, y) by randomising over the group's
   threshold rules has an overall objective (from the overall label counts) not above the arg-max value ... *)
Theorem C05_eo_optimal : forall flip obj N gs, obj = Acc \/ obj = BalAcc -> gs <> [] ->
  (forall g, In g gs -> both_labels g = true) ->
  let f := fit_eo flip obj N gs in
  let npos := count_label true (concat gs) in
  let nneg := (Z.of_nat (length (concat gs)) - npos)%Z in
  nth (fe_best f) (fe_obj f) 0 = metric_eval obj (eo_counts npos nneg (fe_xbest f) (fe_ybest f)) /\
  forall k y mixes, (k <= Pos.to_nat N)%nat ->
    Forall2 (fun g wp => valid_mix flip FPR TPR (grid_pt N k) g wp /\ wsum py wp == y) gs mixes ->
    metric_eval obj (eo_counts npos nneg (grid_pt N k) y) <= nth (fe_best f) (fe_obj f) 0.
Proof. exact eo_optimal. Qed.
Print Assumptions C05_eo_optimal.

(* ... and that value is the overall objective of the fitted rule: accuracy / balanced accuracy of the expected
   confusion matrix of ALL training rows under the fitted per-group rules *)
Theorem C05_eo_objective_achieved : forall flip obj N gs, (forall g, In g gs -> both_labels g = true) ->
  let f := fit_eo flip obj N gs in
  metric_eval obj (total_cm (combine gs (fe_rules f))) ==
  metric_eval obj (eo_counts (count_label true (concat gs))
                             (Z.of_nat (length (concat gs)) - count_label true (concat gs)) (fe_xbest f) (fe_ybest f)).
Proof. exact eo_objective_achieved. Qed.
Print Assumptions C05_eo_objective_achieved.

(* non-vacuity: premises hold on a tied, flipped instance, the optimum is interior and beats both constants *)
Example C05_example :
  let gs := [[(0, false); (1, false); (2, true); (3, true); (1, true)];
             [(0, false); (2, false); (3, true); (1, true); (0, false); (3, true)]]%Z in
  let f := fit_simple true SelRate Acc 4 gs in
  (forall g, In g gs -> both_labels g = true) /\
  (forall g, In g gs -> is_upper_hull (group_hull true SelRate Acc g) (tradeoff_points true SelRate Acc g) = true) /\
  fs_best f = 2%nat /\ map Qred (fs_overall f) = [5 # 11; 31 # 44; 9 # 11; 17 # 22; 6 # 11] /\
  map (fun r => Qred (r_p0 r)) (simple_rules f) = [3 # 4; 1 # 2].
Proof.
  cbv zeta. split; [|split].
  - intros g [<-|[<-|[]]]; reflexivity.
  - intros g [<-|[<-|[]]]; vm_compute; reflexivity.
  - vm_compute. repeat split; reflexivity.
Qed.
