(* C19 -- estimator life cycle: fit depends on parameters and data, not on call history.
   Only statements, `exact`, and Print Assumptions.  Every theorem holds for ALL parameter, data
   and model types and ALL deterministic training functions; the correspondence run evaluates the
   same step functions on the free (injective) training function.

   after step s0 h o   = observation of operation o after the history h, started in s0
   observation         = (returned normally / Fit returned the estimator, get_params, fitted model, exception) *)
From Coq Require Import String ZArith List Bool.
From FL Require Import Lifecycle Lifecycle_proofs LifecycleSrc LifecycleSrc_proofs.
From FLGen Require Gen_lifecycle.
Import ListNotations.
Open Scope Z_scope.

(* ------------------------------------------------------------------ history_independent *)
Theorem C19_history_independent_ThresholdOptimizer :
  forall (P D M : Type) (train : P -> D -> M) (p : P) (h : list (op D)) (d : D),
    after (s_step train) (s_init p) h (Fit d) = mkObs true p (Some (train p d)) None /\
    after (s_step train) (s_init p) h (Fit d) = after (s_step train) (s_init p) [] (Fit d).
Proof. exact s_history_independent. Qed.
Print Assumptions C19_history_independent_ThresholdOptimizer.

Theorem C19_history_independent_GridSearch :
  forall (P D M : Type) (train : P -> D -> M) (p : P) (h : list (op D)) (d : D),
    after (gs_step train) (g_init p) h (Fit d) = mkObs true p (Some (train p d)) None /\
    after (gs_step train) (g_init p) h (Fit d) = after (gs_step train) (g_init p) [] (Fit d).
Proof. exact g_history_independent. Qed.
Print Assumptions C19_history_independent_GridSearch.

(* same schema: every Fit of the history has as many columns as D (the property's "D1, D2 of the
   same schema"); without it the hidden _n_features_in_ makes a refit raise (C19_CorrelationRemover_width_latch) *)
Theorem C19_history_independent_CorrelationRemover :
  forall (P D M : Type) (width : D -> Z) (train : P -> D -> M) (p : P) (h : list (op D)) (d : D),
    Forall (same_width width (width d)) h ->
    after (c_step width train) (c_init p) h (Fit d) = mkObs true p (Some (train p d)) None /\
    after (c_step width train) (c_init p) h (Fit d) = after (c_step width train) (c_init p) [] (Fit d).
Proof. exact c_history_independent. Qed.
Print Assumptions C19_history_independent_CorrelationRemover.

Theorem C19_CorrelationRemover_width_latch :
  forall (P D M : Type) (width : D -> Z) (train : P -> D -> M) (p : P) (d d' : D),
    width d <> width d' ->
    o_exc (after (c_step width train) (c_init p) [Fit d] (Fit d')) = Some ValueErr /\
    o_exc (after (c_step width train) (c_init p) [] (Fit d')) = None.
Proof. exact c_width_latch. Qed.
Print Assumptions C19_CorrelationRemover_width_latch.

(* warm_start = False and predictor / adversary given as LISTS of layer sizes (user_net p = None).
   FULL statement (no premise on user_net) is false of the code: see C19_Adversarial_user_module_refuted *)
Theorem C19_history_independent_Adversarial :
  forall (P D M : Type) (ws : P -> bool) (user_net : P -> option M) (init_net : P -> D -> M)
         (train_from : P -> M -> D -> M) (p : P) (h : list (op D)) (d : D),
    ws p = false -> user_net p = None ->
    after (adv_step ws init_net train_from) (a_init user_net p) h (Fit d)
      = mkObs true (p, None) (Some (train_from p (init_net p d) d)) None /\
    after (adv_step ws init_net train_from) (a_init user_net p) h (Fit d)
      = after (adv_step ws init_net train_from) (a_init user_net p) [] (Fit d).
Proof. exact a_history_independent. Qed.
Print Assumptions C19_history_independent_Adversarial.

(* warm_start = True: a fitted estimator continues from its current networks *)
Theorem C19_Adversarial_warm_start_continues :
  forall (P D M : Type) (ws : P -> bool) (init_net : P -> D -> M) (train_from : P -> M -> D -> M)
         (s : ast P M) (m : M) (d : D),
    ws (a_par s) = true -> a_net s = Some m -> a_classes s = true ->
    o_model (snd (adv_step ws init_net train_from s (Fit d))) = Some (train_from (a_par s) m d) /\
    o_self (snd (adv_step ws init_net train_from s (Fit d))) = true /\
    o_exc (snd (adv_step ws init_net train_from s (Fit d))) = None.
Proof. exact a_warm_start_continues. Qed.
Print Assumptions C19_Adversarial_warm_start_continues.

(* networks given as torch.nn.Module objects: BackendEngine.__init_model__ uses the parameter object
   itself, fit trains it in place -> get_params changes, a refit continues from the trained weights,
   a clone made after a fit is pre-trained *)
Theorem C19_Adversarial_user_module_refuted :
  let step := adv_step sym_ws sym_init_net sym_train_from in
  let s0 := a_init sym_user_net (0, (false, true)) in
  o_params (after step s0 [] (Fit 1)) <> a_params s0 /\
  o_model (after step s0 [Fit 1] (Fit 2)) <> o_model (after step s0 [] (Fit 2)) /\
  o_model (after step s0 [Fit 1; Clone] (Fit 2)) <> o_model (after step s0 [] (Fit 2)).
Proof. exact a_user_module_refuted. Qed.
Print Assumptions C19_Adversarial_user_module_refuted.

(* ExponentiatedGradient.  FULL statement (false of the code, see C19_nu_overwritten_refuted):
     forall p nu h d, after step (e_init p nu) h (Fit d) = after step (e_init p nu) [] (Fit d)
                      /\ o_params (...) = (p, nu).
   Proved instead: full independence when nu is given to the constructor; for nu = None the call
   returns the estimator, raises nothing, preserves every parameter but nu, and the whole
   observation equals the fresh one whenever the first fit of the history computed the same nu.
   Missing: get_params()["nu"] itself, and the model when an earlier fit saw data with another nu. *)
Theorem C19_history_independent_ExponentiatedGradient_nu_given :
  forall (P N D M : Type) (nu_of : P -> D -> N) (train : P -> N -> D -> M)
         (p : P) (v : N) (h : list (op D)) (d : D),
    after (eg_step nu_of train) (e_init p (Some v)) h (Fit d)
      = mkObs true (p, Some v) (Some (train p v d)) None /\
    after (eg_step nu_of train) (e_init p (Some v)) h (Fit d)
      = after (eg_step nu_of train) (e_init p (Some v)) [] (Fit d).
Proof. exact e_history_independent_nu_given. Qed.
Print Assumptions C19_history_independent_ExponentiatedGradient_nu_given.

Theorem C19_history_independent_ExponentiatedGradient_partial :
  forall (P N D M : Type) (nu_of : P -> D -> N) (train : P -> N -> D -> M)
         (p : P) (h : list (op D)) (d : D),
    let o := after (eg_step nu_of train) (e_init p None) h (Fit d) in
    let fresh := after (eg_step nu_of train) (e_init p None) [] (Fit d) in
    o_self o = true /\ o_exc o = None /\ fst (o_params o) = p /\
    ((forall d0, first_fit h = Some d0 -> nu_of p d0 = nu_of p d) -> o = fresh).
Proof. exact e_history_independent_partial. Qed.
Print Assumptions C19_history_independent_ExponentiatedGradient_partial.

(* exact description of what a refit does (nu of the FIRST fit ever is reused) *)
Theorem C19_ExponentiatedGradient_fit_after_history :
  forall (P N D M : Type) (nu_of : P -> D -> N) (train : P -> N -> D -> M)
         (p : P) (nu : option N) (h : list (op D)) (d : D),
    let v := match nu_after P N D nu_of p nu (h ++ [Fit d]) with Some v => v | None => nu_of p d end in
    after (eg_step nu_of train) (e_init p nu) h (Fit d) = mkObs true (p, Some v) (Some (train p v d)) None.
Proof. exact e_fit_after_history. Qed.
Print Assumptions C19_ExponentiatedGradient_fit_after_history.

(* F7a, known finding: one fit changes get_params (nu: None -> computed value) *)
Theorem C19_nu_overwritten_refuted :
  forall (P N D M : Type) (nu_of : P -> D -> N) (train : P -> N -> D -> M) (p : P) (d : D),
    exists h : list (op D),
      e_params (run (eg_step nu_of train) (e_init p None) h) <> e_params (@e_init P N M p None).
Proof. exact e_nu_overwritten_ex. Qed.
Print Assumptions C19_nu_overwritten_refuted.

(* ... and with it the fitted model becomes history dependent as soon as training depends on nu *)
Theorem C19_ExponentiatedGradient_model_refuted :
  exists (h : list (op Z)) (d : Z),
    o_model (after (eg_step sym_nu_of sym_train_eg) (e_init 0 None) h (Fit d)) <>
    o_model (after (eg_step sym_nu_of sym_train_eg) (e_init 0 None) [] (Fit d)).
Proof. exact e_model_history_dependent_ex. Qed.
Print Assumptions C19_ExponentiatedGradient_model_refuted.

(* ------------------------------------------------------------------ get_params never changes,
   the only exception is NotFitted from an unfitted object *)
Theorem C19_params_constant_ThresholdOptimizer :
  forall (P D M : Type) (train : P -> D -> M) (p : P) (h : list (op D)),
    Forall (fun o => o_params o = p /\ quiet o) (trace (s_step train) (s_init p) h).
Proof. exact s_params_constant. Qed.
Print Assumptions C19_params_constant_ThresholdOptimizer.

Theorem C19_params_constant_GridSearch :
  forall (P D M : Type) (train : P -> D -> M) (p : P) (h : list (op D)),
    Forall (fun o => o_params o = p /\ quiet o) (trace (gs_step train) (g_init p) h).
Proof. exact g_params_constant. Qed.
Print Assumptions C19_params_constant_GridSearch.

Theorem C19_params_constant_ExponentiatedGradient_nu_given :
  forall (P N D M : Type) (nu_of : P -> D -> N) (train : P -> N -> D -> M) (p : P) (v : N) (h : list (op D)),
    Forall (fun o => o_params o = (p, Some v)) (trace (eg_step nu_of train) (e_init p (Some v)) h).
Proof. exact e_params_constant_nu_given. Qed.
Print Assumptions C19_params_constant_ExponentiatedGradient_nu_given.

Theorem C19_params_constant_ExponentiatedGradient_partial :
  forall (P N D M : Type) (nu_of : P -> D -> N) (train : P -> N -> D -> M) (p : P) (nu : option N) (h : list (op D)),
    Forall (fun o => fst (o_params o) = p /\ quiet o) (trace (eg_step nu_of train) (e_init p nu) h).
Proof. exact e_params_constant_but_nu. Qed.
Print Assumptions C19_params_constant_ExponentiatedGradient_partial.

Theorem C19_params_constant_CorrelationRemover :
  forall (P D M : Type) (width : D -> Z) (train : P -> D -> M) (p : P) (w : Z) (h : list (op D)),
    Forall (fun o => o_params o = p) (trace (c_step width train) (c_init p) h) /\
    (Forall (same_width width w) h -> Forall quiet (trace (c_step width train) (c_init p) h)).
Proof. exact c_params_constant_quiet. Qed.
Print Assumptions C19_params_constant_CorrelationRemover.

Theorem C19_params_constant_Adversarial :
  forall (P D M : Type) (ws : P -> bool) (user_net : P -> option M) (init_net : P -> D -> M)
         (train_from : P -> M -> D -> M) (p : P) (h : list (op D)),
    user_net p = None ->
    Forall (fun o => o_params o = (p, None) /\ quiet o)
           (trace (adv_step ws init_net train_from) (a_init user_net p) h).
Proof. exact a_params_constant. Qed.
Print Assumptions C19_params_constant_Adversarial.

(* ------------------------------------------------------------------ predict_pure *)
Theorem C19_predict_pure :
  forall (P N D M : Type),
    (forall (train : P -> D -> M) s,
        fst (s_step train s Predict) = s /\
        snd (s_step train (fst (s_step train s Predict)) Predict) = snd (s_step train s Predict)) /\
    (forall (train : P -> D -> M) s,
        fst (gs_step train s Predict) = s /\
        snd (gs_step train (fst (gs_step train s Predict)) Predict) = snd (gs_step train s Predict)) /\
    (forall (nu_of : P -> D -> N) (train : P -> N -> D -> M) s,
        fst (eg_step nu_of train s Predict) = s /\
        snd (eg_step nu_of train (fst (eg_step nu_of train s Predict)) Predict)
          = snd (eg_step nu_of train s Predict)) /\
    (forall (width : D -> Z) (train : P -> D -> M) s,
        fst (c_step width train s Predict) = s /\
        snd (c_step width train (fst (c_step width train s Predict)) Predict)
          = snd (c_step width train s Predict)) /\
    (forall (ws : P -> bool) (init_net : P -> D -> M) (train_from : P -> M -> D -> M) s,
        fst (adv_step ws init_net train_from s Predict) = s /\
        snd (adv_step ws init_net train_from (fst (adv_step ws init_net train_from s Predict)) Predict)
          = snd (adv_step ws init_net train_from s Predict)).
Proof. exact all_predict_pure. Qed.
Print Assumptions C19_predict_pure.

(* ------------------------------------------------------------------ pickle_faithful
   (the four picklable families; the torch engine of the adversarial estimators is not picklable) *)
Theorem C19_pickle_faithful :
  forall (P N D M : Type),
    (forall (train : P -> D -> M) s,
        fst (s_step train s Pickle) = s /\ snd (s_step train s Pickle) = mkObs true (s_par s) (s_fit s) None) /\
    (forall (train : P -> D -> M) s,
        fst (gs_step train s Pickle) = s /\ snd (gs_step train s Pickle) = mkObs true (g_par s) (g_fit s) None) /\
    (forall (nu_of : P -> D -> N) (train : P -> N -> D -> M) s,
        fst (eg_step nu_of train s Pickle) = s /\
        snd (eg_step nu_of train s Pickle) = mkObs true (e_params s) (e_fit s) None) /\
    (forall (width : D -> Z) (train : P -> D -> M) s,
        fst (c_step width train s Pickle) = s /\
        snd (c_step width train s Pickle) = mkObs true (c_par s) (c_fit s) None).
Proof. exact all_pickle_faithful. Qed.
Print Assumptions C19_pickle_faithful.

(* ------------------------------------------------------------------ clone_fresh: the clone has
   the constructor parameters, no fitted state, and behaves like a new estimator ever after *)
Theorem C19_clone_fresh :
  forall (P D M : Type),
    (forall (train : P -> D -> M) s,
        fst (s_step train s Clone) = s_init (s_par s) /\
        snd (s_step train s Clone) = mkObs true (s_par s) None None) /\
    (forall (train : P -> D -> M) s,
        snd (gs_step train s Clone) = mkObs true (g_par s) None None /\
        forall h, trace (gs_step train) (fst (gs_step train s Clone)) h
                  = trace (gs_step train) (g_init (g_par s)) h) /\
    (forall (width : D -> Z) (train : P -> D -> M) s,
        fst (c_step width train s Clone) = c_init (c_par s) /\
        snd (c_step width train s Clone) = mkObs true (c_par s) None None) /\
    (forall (ws : P -> bool) (user_net : P -> option M) (init_net : P -> D -> M)
            (train_from : P -> M -> D -> M) p h,
        user_net p = None ->
        fst (adv_step ws init_net train_from (run (adv_step ws init_net train_from) (a_init user_net p) h) Clone)
          = a_init user_net p /\
        snd (adv_step ws init_net train_from (run (adv_step ws init_net train_from) (a_init user_net p) h) Clone)
          = mkObs true (p, None) None None).
Proof. exact all_clone_fresh. Qed.
Print Assumptions C19_clone_fresh.

(* ExponentiatedGradient: the clone is unfitted and carries the CURRENT get_params -- i.e. the
   overwritten nu, not the constructor's None (full statement `= e_init (e_par s) nu0` is false) *)
Theorem C19_clone_fresh_ExponentiatedGradient_partial :
  forall (P N D M : Type) (nu_of : P -> D -> N) (train : P -> N -> D -> M) (s : est P N M),
    snd (eg_step nu_of train s Clone) = mkObs true (e_params s) None None /\
    forall h, trace (eg_step nu_of train) (fst (eg_step nu_of train s Clone)) h
              = trace (eg_step nu_of train) (e_init (e_par s) (e_nu s)) h.
Proof. exact e_clone_fresh_partial. Qed.
Print Assumptions C19_clone_fresh_ExponentiatedGradient_partial.

(* ================================================================== tie to the source
   translators/t_lifecycle.py regenerates Gen_lifecycle.src from /repo on every run: per estimator (abstract
   execution of fit and of the methods of the same class it refers to) whether every path returns self, which
   constructor attributes are written, which attributes are read before this call assigned them, which are
   mutated in place, which callables receive the estimator; the guard of `self.nu = ...`; Moment.load_data's
   latch; who loads the moments; the adversarial re-initialisation tables; __init_model__ on a user module;
   .eval() / .train() before the forward passes.  model_src is what Lifecycle.v was written from. *)
Theorem C19_source_tie : Gen_lifecycle.src = model_src.
Proof. reflexivity. Qed.
Print Assumptions C19_source_tie.

(* the switches read off the regenerated description *)
Theorem C19_source_switches :
  sw_to Gen_lifecycle.src = sw_now /\ sw_gs Gen_lifecycle.src = sw_now /\ sw_latch Gen_lifecycle.src = false /\
  sw_nu Gen_lifecycle.src = Some WriteNuIfNone /\
  (forall f w, sw_reinit Gen_lifecycle.src f w = negb f || negb w) /\
  sw_in_place Gen_lifecycle.src = true /\ sw_eval_first Gen_lifecycle.src = true /\
  fs_returns_self (ls_to Gen_lifecycle.src) = true /\ fs_returns_self (ls_eg Gen_lifecycle.src) = true /\
  fs_returns_self (ls_gs Gen_lifecycle.src) = true /\ fs_returns_self (ls_cr Gen_lifecycle.src) = true /\
  fs_returns_self (ls_adv Gen_lifecycle.src) = true.
Proof. exact src_switches. Qed.
Print Assumptions C19_source_switches.

(* the machines determined by the regenerated switches ARE the machines of all theorems above *)
Theorem C19_source_step_ThresholdOptimizer :
  forall (P D M : Type) (train : P -> D -> M) (rebind : P -> D -> P) (carry : M -> M -> M) (p : P) (h : list (op D)),
    trace (x_step train rebind carry (sw_to Gen_lifecycle.src)) (g_init p) h = trace (s_step train) (s_init p) h.
Proof. exact src_step_to. Qed.
Print Assumptions C19_source_step_ThresholdOptimizer.

Theorem C19_source_step_GridSearch :
  forall (P D M : Type) (train : P -> D -> M) (rebind : P -> D -> P) (carry : M -> M -> M) (s : gst P M) (o : op D),
    x_step train rebind carry (sw_gs Gen_lifecycle.src) s o = gs_step train s o.
Proof. exact src_step_gs. Qed.
Print Assumptions C19_source_step_GridSearch.

Theorem C19_source_step_ExponentiatedGradient :
  forall (P N D M : Type) (nu_of : P -> D -> N) (train : P -> N -> D -> M) (rule : nu_rule) (s : est P N M) (o : op D),
    sw_nu Gen_lifecycle.src = Some rule ->
    e_step_gen nu_of train (sw_latch Gen_lifecycle.src) rule s o = eg_step nu_of train s o.
Proof. exact src_step_eg. Qed.
Print Assumptions C19_source_step_ExponentiatedGradient.

Theorem C19_source_step_Adversarial :
  forall (P D M : Type) (ws : P -> bool) (init_net : P -> D -> M) (train_from : P -> M -> D -> M) (perturb : M -> M)
         (s : ast P M) (o : op D),
    a_step_gen ws init_net train_from perturb (sw_reinit Gen_lifecycle.src) (sw_in_place Gen_lifecycle.src)
               (sw_eval_first Gen_lifecycle.src) s o
      = adv_step ws init_net train_from s o.
Proof. exact src_step_adv. Qed.
Print Assumptions C19_source_step_Adversarial.

(* the property stated directly on the regenerated switches *)
Theorem C19_source_history_independent :
  forall (P D M : Type) (train : P -> D -> M) (rebind : P -> D -> P) (carry : M -> M -> M) (p : P) (h : list (op D)) (d : D),
    after (x_step train rebind carry (sw_to Gen_lifecycle.src)) (g_init p) h (Fit d)
      = mkObs true p (Some (train p d)) None /\
    after (x_step train rebind carry (sw_gs Gen_lifecycle.src)) (g_init p) h (Fit d)
      = mkObs true p (Some (train p d)) None.
Proof. exact src_history_independent. Qed.
Print Assumptions C19_source_history_independent.

Theorem C19_source_history_independent_Adversarial :
  forall (P D M : Type) (ws : P -> bool) (user_net : P -> option M) (init_net : P -> D -> M)
         (train_from : P -> M -> D -> M) (perturb : M -> M) (p : P) (h : list (op D)) (d : D),
    ws p = false -> user_net p = None ->
    after (a_step_gen ws init_net train_from perturb (sw_reinit Gen_lifecycle.src) (sw_in_place Gen_lifecycle.src)
                      (sw_eval_first Gen_lifecycle.src)) (a_init user_net p) h (Fit d)
      = mkObs true (p, None) (Some (train_from p (init_net p d) d)) None.
Proof. exact src_history_independent_adv. Qed.
Print Assumptions C19_source_history_independent_Adversarial.

(* ------------------------------------------------------------------ the switches matter: on the free
   instances the property holds for EXACTLY the values the current source has *)
(* latch / returns self / rebinds a constructor attribute / carries fitted state over *)
Theorem C19_switches_characterised :
  forall w : switches,
    (forall (h : list (op Z)) (d : Z),
        after (x_step sym_trainl sym_rebind sym_carry w) (g_init 0) h (Fit d)
          = mkObs true 0 (Some (sym_trainl 0 d)) None)
    <-> w = sw_now.
Proof. exact x_switches_characterised. Qed.
Print Assumptions C19_switches_characterised.

(* the guard of `self.nu = ...`: only a fit that does not write nu (the repair of F7a) has the full
   property, nu = None included *)
Theorem C19_nu_rule_characterised :
  forall rule : nu_rule,
    (forall (nu : option (Z * Z)) (h : list (op Z)) (d : Z),
        after (e_step_gen sym_nu_of sym_train_eg false rule) (e_init 0 nu) h (Fit d)
          = mkObs true (0, nu)
                  (Some (sym_train_eg 0 (match nu with Some v => v | None => sym_nu_of 0 d end) d)) None)
    <-> rule = KeepNu.
Proof. exact e_nu_rule_characterised. Qed.
Print Assumptions C19_nu_rule_characterised.

Theorem C19_nu_kept_history_independent :
  forall (P N D M : Type) (nu_of : P -> D -> N) (train : P -> N -> D -> M) (p : P) (nu : option N)
         (h : list (op D)) (d : D),
    after (e_step_gen nu_of train false KeepNu) (e_init p nu) h (Fit d)
      = mkObs true (p, nu) (Some (train p (match nu with Some v => v | None => nu_of p d end) d)) None.
Proof. exact e_keepnu_history_independent. Qed.
Print Assumptions C19_nu_kept_history_independent.

(* the re-initialisation rule (any function of fitted / warm_start) *)
Theorem C19_reinit_rule_characterised :
  forall (rule : bool -> bool -> bool) (in_place eval_first : bool),
    (forall (h : list (op Z)) (d : Z),
        after (a_step_gen sym_ws sym_init_net sym_train_from sym_perturb rule in_place eval_first)
              (a_init sym_user_net (0, (false, false))) h (Fit d)
          = mkObs true ((0, (false, false)), None) (Some (d, [d])) None)
    <-> rule true false = true.
Proof. exact a_rule_characterised. Qed.
Print Assumptions C19_reinit_rule_characterised.

(* general form: any rule that re-initialises a fitted estimator when warm_start = False; networks given
   as lists, or a user module that is copied (and used by a never-fitted estimator as well) *)
Theorem C19_reinit_rule_sufficient :
  forall (P D M : Type) (ws : P -> bool) (user_net : P -> option M) (init_net : P -> D -> M)
         (train_from : P -> M -> D -> M) (perturb : M -> M) (rule : bool -> bool -> bool)
         (in_place eval_first : bool) (p : P) (h : list (op D)) (d : D),
    ws p = false -> rule true false = true ->
    user_net p = None \/ (in_place = false /\ rule false false = true) ->
    after (a_step_gen ws init_net train_from perturb rule in_place eval_first) (a_init user_net p) h (Fit d)
      = mkObs true (p, user_net p)
              (Some (train_from p (match user_net p with Some m => m | None => init_net p d end) d)) None.
Proof. exact ag_history_independent. Qed.
Print Assumptions C19_reinit_rule_sufficient.

(* a torch module given by the user (F15): history independent iff it is copied, not trained in place *)
Theorem C19_user_module_characterised :
  forall in_place eval_first : bool,
    (forall (h : list (op Z)) (d : Z),
        after (a_step_gen sym_ws sym_init_net sym_train_from sym_perturb (fun f w => negb f || negb w)
                          in_place eval_first)
              (a_init sym_user_net (0, (false, true))) h (Fit d)
          = mkObs true ((0, (false, true)), Some (0, [])) (Some (0, [d])) None)
    <-> in_place = false.
Proof. exact a_in_place_characterised. Qed.
Print Assumptions C19_user_module_characterised.

(* predict leaves the estimator alone iff the network is put into evaluation mode before the forward pass *)
Theorem C19_eval_mode_characterised :
  forall (rule : bool -> bool -> bool) (in_place eval_first : bool),
    (forall s : ast (Z * (bool * bool)) (Z * list Z),
        fst (a_step_gen sym_ws sym_init_net sym_train_from sym_perturb rule in_place eval_first s Predict) = s)
    <-> eval_first = true.
Proof. exact a_eval_characterised. Qed.
Print Assumptions C19_eval_mode_characterised.

(* the old rule (before e8b1939) is the old machine *)
Theorem C19_old_rule_is_old_machine :
  forall (P D M : Type) (ws : P -> bool) (init_net : P -> D -> M) (train_from : P -> M -> D -> M) (perturb : M -> M)
         (s : ast P M) (o : op D),
    a_step_gen ws init_net train_from perturb (fun f w => negb f) true true s o
      = adv_step_old ws init_net train_from s o.
Proof. exact a_step_gen_old. Qed.
Print Assumptions C19_old_rule_is_old_machine.

(* ------------------------------------------------------------------ the theorems separate the
   repaired defects: the same histories on the OLD switches of the same step functions *)
Example C19_old_behaviours_refuted :
  o_exc (after (gs_step_old sym_train) (g_init 0) [Fit 1] (Fit 1)) = Some AssertionErr /\
  o_exc (after (eg_step_old sym_nu_of sym_train_eg) (e_init 0 None) [Fit 1; Clone] (Fit 1)) = Some AssertionErr /\
  o_self (after (gs_step_old sym_train) (g_init 0) [] (Fit 1)) = false /\
  o_model (after (adv_step_old sym_ws sym_init_net sym_train_from) (a_init sym_user_net (0, (false, false))) [Fit 1] (Fit 2))
    <> o_model (after (adv_step_old sym_ws sym_init_net sym_train_from) (a_init sym_user_net (0, (false, false))) [] (Fit 2)).
Proof. repeat split; try reflexivity. vm_compute. intro H. discriminate H. Qed.

(* non-vacuity: a non-trivial history on the free instance; the refit equals the fresh fit and is
   distinguishable from a fit on the other data set *)
Example C19_example :
  let h := [Fit 1; Predict; Pickle; Fit 2; Clone; Predict] in
  after (gs_step sym_train) (g_init 7) h (Fit 1) = mkObs true 7 (Some (7, 1)) None /\
  after (gs_step sym_train) (g_init 7) h (Fit 1) <> after (gs_step sym_train) (g_init 7) h (Fit 2) /\
  o_exc (after (gs_step sym_train) (g_init 7) h Predict) = Some NotFitted /\
  Forall (same_width (sym_width [0; 3; 3]) 3) h.
Proof.
  cbn zeta. repeat split; try reflexivity.
  - vm_compute. intro H. discriminate H.
  - repeat constructor.
Qed.
