(* C01 -- MetricFrame disaggregation is exact.  Only statements, `exact`, Print Assumptions.
   All theorems are about Disagg.mf_by_group / mf_overall / call / build_frame, the definitions the
   correspondence run evaluates; they hold for EVERY cell type and EVERY family of metric callables fn. *)
From Coq Require Import QArith ZArith List Bool.
From FL Require Import Num ListX Disagg Disagg_proofs Disagg_ext Disagg_ext_proofs.
From FLGen Require Gen_disagg.
Import ListNotations.
Open Scope Z_scope.

(* every by_group entry is the metric on exactly the rows whose (control ++ sensitive) code tuple equals
   the index key -- y_true, y_pred and the metric's own parameters sliced by the same mask -- and an
   index key without rows holds the NaN row (None): never dropped, never filled *)
Theorem C01_by_group_cell :
  forall (V : Type) (key_of : V -> Z) (cell : Type)
         (fn : name -> list (list V) -> list (name * list V) -> cell)
         yt yp (ms : list (metric_spec V)) sfs cfs tbl,
    NoDup (map fst (all_assigns V yt yp ms sfs cfs)) -> sfs <> [] ->
    mf_by_group V key_of cell fn yt yp ms sfs cfs = Some tbl ->
    let keys := feature_keys V key_of (cfs ++ sfs) (length yt) in
    forall k, In k (map fst tbl) ->
      assoc k tbl = Some (if kmem k keys
                          then Some (expected_row V cell fn yt yp ms (sel (mask_of k keys)))
                          else None).
Proof. exact by_group_cell. Qed.
Print Assumptions C01_by_group_cell.

(* the index: the observed keys (one grouping column) or the Cartesian product of the per-column
   observed values (several); duplicate-free; contains the key of every row *)
Theorem C01_by_group_index :
  forall (V : Type) (key_of : V -> Z) (cell : Type)
         (fn : name -> list (list V) -> list (name * list V) -> cell)
         yt yp (ms : list (metric_spec V)) sfs cfs,
    NoDup (map fst (all_assigns V yt yp ms sfs cfs)) -> sfs <> [] ->
    let gfeats := cfs ++ sfs in
    let kcols := map (fun nc => map key_of (snd nc)) gfeats in
    let keys := feature_keys V key_of gfeats (length yt) in
    exists tbl, mf_by_group V key_of cell fn yt yp ms sfs cfs = Some tbl
      /\ map fst tbl = (if (1 <? length gfeats)%nat then product (map zuniq kcols) else kuniq keys)
      /\ NoDup (map fst tbl)
      /\ (forall k, In k keys -> In k (map fst tbl)).
Proof. exact by_group_index. Qed.
Print Assumptions C01_by_group_index.

Theorem C01_overall_cell :
  forall (V : Type) (key_of : V -> Z) (cell : Type)
         (fn : name -> list (list V) -> list (name * list V) -> cell)
         yt yp (ms : list (metric_spec V)) sfs,
    NoDup (map fst (all_assigns V yt yp ms sfs [])) ->
    mf_overall V key_of cell fn yt yp ms sfs []
      = Some [([], Some (expected_row V cell fn yt yp ms (fun x => x)))].
Proof. exact overall_cell_nocontrol. Qed.
Print Assumptions C01_overall_cell.

Theorem C01_overall_cell_control :
  forall (V : Type) (key_of : V -> Z) (cell : Type)
         (fn : name -> list (list V) -> list (name * list V) -> cell)
         yt yp (ms : list (metric_spec V)) sfs cfs,
    NoDup (map fst (all_assigns V yt yp ms sfs cfs)) -> cfs <> [] ->
    let kcols := map (fun nc => map key_of (snd nc)) cfs in
    let keys := feature_keys V key_of cfs (length yt) in
    exists tbl, mf_overall V key_of cell fn yt yp ms sfs cfs = Some tbl
      /\ map fst tbl = (if (1 <? length cfs)%nat then product (map zuniq kcols) else kuniq keys)
      /\ NoDup (map fst tbl)
      /\ (forall k, In k keys -> In k (map fst tbl))
      /\ (forall k, In k (map fst tbl) ->
            assoc k tbl = Some (if kmem k keys
                                then Some (expected_row V cell fn yt yp ms (sel (mask_of k keys)))
                                else None)).
Proof. exact overall_cell_control. Qed.
Print Assumptions C01_overall_cell_control.

(* if the generated column names f"{prefix}_{param}" are pairwise distinct and distinct from y_true,
   y_pred and the feature names, each function is called with its own parameters *)
Theorem C01_params_private :
  forall (V : Type) (cell : Type) (fn : name -> list (list V) -> list (name * list V) -> cell)
         yt yp (ms : list (metric_spec V)) sfs cfs m mask,
    NoDup (map fst (all_assigns V yt yp ms sfs cfs)) -> In m ms ->
    call V cell fn (annot_of V m) (sub_frame V mask (build_frame V yt yp ms sfs cfs))
      = Some (fn (m_name m) [sel mask yt; sel mask yp]
                 (map (fun pc => (fst pc, sel mask (snd pc))) (m_params m))).
Proof. exact params_private. Qed.
Print Assumptions C01_params_private.

(* the hypothesis is necessary (finding F8): distinct metric names and distinct parameter names per
   metric do not suffice -- metrics "a" (param "b_c") and "a_b" (param "c") share column "a_b_c" *)
Theorem C01_param_collision_refuted :
  let yt := [0; 1] in let yp := [1; 1] in let sfs := [([115], [0; 0])] in
  let m := {| m_name := [97]; m_prefix := [97]; m_params := [([98; 95; 99], [10; 20])] |} in
  NoDup (map (@m_name Z) coll_ms)
  /\ Forall (fun m => NoDup (map fst (m_params m))) coll_ms
  /\ In m coll_ms
  /\ call Z _ show_kw (annot_of Z m) (map_frame Z (fun x => x) (build_frame Z yt yp coll_ms sfs []))
     <> Some (expected_cell Z _ show_kw yt yp m (fun x => x))
  /\ ~ NoDup (map fst (all_assigns Z yt yp coll_ms sfs [])).
Proof. exact param_collision. Qed.
Print Assumptions C01_param_collision_refuted.

(* ---------------------------------------------------------------------------------------------------
   Tie to the source (translators/t_disagg.py regenerates FLGen.Gen_disagg from /repo on every run).
   Each theorem is stated ON the generated fragment; `exact` succeeds only while the fragment is
   convertible to the model's rule.
   --------------------------------------------------------------------------------------------------- *)

(* DisaggregatedResult._apply_functions + AnnotatedMetricFunction.__call__: with the source's own
   - test for "no grouping" (whole frame),
   - test for re-indexing to the Cartesian product (`len(grouping_names) > 1`),
   - index levels (np.unique of every grouping column),
   - fill value of reindex (none: NaN row),
   - positional / keyword argument assembly of the call,
   the parameterised pipeline IS Disagg.apply_functions, the function all C01 theorems are about *)
Theorem C01_src_grouping_rule :
  forall (V : Type) (key_of : V -> Z) (cell : Type)
         (fn : name -> list (list V) -> list (name * list V) -> cell) f afs gs,
    apply_functions_with V key_of cell (Gen_disagg.call_src V cell fn) Gen_disagg.early_return
                         Gen_disagg.reindex_cond Gen_disagg.reindex_fill Gen_disagg.reindex_levels f afs gs
    = apply_functions V key_of cell fn f afs gs.
Proof. exact apply_functions_with_model. Qed.
Print Assumptions C01_src_grouping_rule.

(* the rule itself, spelled out: product of levels exactly when there are at least two grouping columns;
   a product key without rows gets no fill value; the call passes y_true, y_pred positionally and each
   sample parameter under its own keyword *)
Theorem C01_src_rule_values :
  (forall n, Gen_disagg.reindex_cond n = (1 <? n)%nat)
  /\ (forall n, Gen_disagg.early_return n = (n =? 0)%nat)
  /\ (forall A, @Gen_disagg.reindex_fill A = None)
  /\ (forall kcols, Gen_disagg.reindex_levels kcols = map zuniq kcols)
  /\ (forall V cell fn af df, Gen_disagg.call_src V cell fn af df = call V cell fn af df).
Proof. repeat split. Qed.
Print Assumptions C01_src_rule_values.

(* DisaggregatedResult.create: overall is grouped by the control features, by_group by control ++ sensitive *)
Theorem C01_src_create_grouping :
  forall (V : Type) (key_of : V -> Z) (cell : Type)
         (fn : name -> list (list V) -> list (name * list V) -> cell) yt yp ms sfs cfs,
    mf_overall V key_of cell fn yt yp ms sfs cfs
    = apply_functions V key_of cell fn (build_frame V yt yp ms sfs cfs) (map (annot_of V) ms)
                      (Gen_disagg.overall_grouping (map fst cfs) (map fst sfs))
    /\ mf_by_group V key_of cell fn yt yp ms sfs cfs
       = apply_functions V key_of cell fn (build_frame V yt yp ms sfs cfs) (map (annot_of V) ms)
                         (Gen_disagg.by_group_grouping (map fst cfs) (map fst sfs)).
Proof. exact create_grouping_model. Qed.
Print Assumptions C01_src_create_grouping.

(* MetricFrame._extract_result and the feature-name bases, regenerated, are the model's *)
Theorem C01_src_extract_and_names :
  (forall cell c hc ncl names (t : table cell),
      Gen_disagg.extract_src c hc ncl names t = extract_result c hc ncl names t)
  /\ Gen_disagg.sf_base_src = sf_base /\ Gen_disagg.cf_base_src = cf_base.
Proof. repeat split. Qed.
Print Assumptions C01_src_extract_and_names.

(* ---------------------------------------------------------------------------------------------------
   _extract_result and feature names (model: Disagg_ext.extract_result, feature_names)
   --------------------------------------------------------------------------------------------------- *)

(* unwrapping only selects, no value changes: a dict of metrics is returned as is; for a bare callable the
   result is column 0 -- same index, each entry is the first metric's entry of that row, a NaN row stays
   NaN -- or, for `overall` without control features, the single entry of the single row *)
Theorem C01_extract_preserves :
  forall (cell : Type) (t : table cell) names hc ncl,
    extract_result false hc ncl names t = XSame t
    /\ (forall nm rest, names = nm :: rest -> hc || ncl = true ->
          exists c, extract_result true hc ncl names t = XColumn nm c
                    /\ map fst c = map fst t
                    /\ forall k, assoc k c = option_map (option_map row_at0) (assoc k t))
    /\ (forall k e r, t = [(k, Some (e :: r))] -> hc || ncl = false ->
          extract_result true hc ncl names t = XScalar (snd e)).
Proof. exact extract_preserves. Qed.
Print Assumptions C01_extract_preserves.

(* bare callable: what the user reads in mf.by_group is, key by key, the callable on exactly the rows of
   that key (or NaN for a product key without rows), in a Series named after the callable *)
Theorem C01_callable_by_group :
  forall (cell V : Type) (key_of : V -> Z) (fn : name -> list (list V) -> list (name * list V) -> cell)
         yt yp (m : metric_spec V) sfs cfs tbl,
    NoDup (map fst (all_assigns V yt yp [m] sfs cfs)) -> sfs <> [] ->
    mf_by_group V key_of cell fn yt yp [m] sfs cfs = Some tbl ->
    let keys := feature_keys V key_of (cfs ++ sfs) (length yt) in
    exists c, extract_result true (negb (is_nil cfs)) true [m_name m] tbl = XColumn (m_name m) c
      /\ map fst c = map fst tbl
      /\ forall k, In k (map fst tbl) ->
           assoc k c = Some (if kmem k keys
                             then Some (Some (expected_cell V cell fn yt yp m (sel (mask_of k keys))))
                             else None).
Proof. exact callable_by_group. Qed.
Print Assumptions C01_callable_by_group.

(* bare callable: mf.overall is the callable's value on all rows (no control features: a scalar) ... *)
Theorem C01_callable_overall :
  forall (cell V : Type) (key_of : V -> Z) (fn : name -> list (list V) -> list (name * list V) -> cell)
         yt yp (m : metric_spec V) sfs,
    NoDup (map fst (all_assigns V yt yp [m] sfs [])) ->
    option_map (extract_result true false false [m_name m]) (mf_overall V key_of cell fn yt yp [m] sfs [])
    = Some (XScalar (Some (expected_cell V cell fn yt yp m (fun x => x)))).
Proof. exact callable_overall_nocontrol. Qed.
Print Assumptions C01_callable_overall.

(* ... or one entry per control-feature combination *)
Theorem C01_callable_overall_control :
  forall (cell V : Type) (key_of : V -> Z) (fn : name -> list (list V) -> list (name * list V) -> cell)
         yt yp (m : metric_spec V) sfs cfs,
    NoDup (map fst (all_assigns V yt yp [m] sfs cfs)) -> cfs <> [] ->
    let keys := feature_keys V key_of cfs (length yt) in
    exists tbl c, mf_overall V key_of cell fn yt yp [m] sfs cfs = Some tbl
      /\ extract_result true (negb (is_nil cfs)) false [m_name m] tbl = XColumn (m_name m) c
      /\ map fst c = map fst tbl
      /\ forall k, In k (map fst tbl) ->
           assoc k c = Some (if kmem k keys
                             then Some (Some (expected_cell V cell fn yt yp m (sel (mask_of k keys))))
                             else None).
Proof. exact callable_overall_control. Qed.
Print Assumptions C01_callable_overall_control.

(* feature names: one per column of the container; a name given by the container (Series.name, DataFrame
   column label, dict key) is used verbatim, otherwise base ++ decimal(position); generated names of
   different positions differ, a generated sensitive name never equals a generated control name; up to
   10 columns this is Disagg.feat_names_from *)
Theorem C01_feature_names_spec :
  forall base c,
    length (feature_names base c) = length (given_names c)
    /\ (forall i, (i < length (given_names c))%nat ->
          nth_error (feature_names base c) i
          = Some (match nth i (given_names c) None with Some nm => nm | None => gen_name base i end))
    /\ (forall i, (i < 10)%nat -> gen_name base i = base ++ [48 + Z.of_nat i])
    /\ (forall i j, gen_name base i = gen_name base j -> i = j)
    /\ (forall i j, gen_name sf_base i <> gen_name cf_base j)
    /\ ((length (given_names c) <= 10)%nat -> feature_names base c = feat_names_from base (given_names c) 0).
Proof. exact feature_names_spec. Qed.
Print Assumptions C01_feature_names_spec.

(* non-vacuity of the naming / unwrapping model: a 12-column array gets a two-digit name; a bare callable
   over two sensitive columns yields a column with a NaN entry *)
Example C01_ext_example :
  nth_error (feature_names sf_base (FArray2 12)) 11 = Some (sf_base ++ [49; 49])
  /\ feature_names cf_base (FSeries (Some [120])) = [[120]]
  /\ (let yt := [0; 3; 4; 7] in let yp := [1; 0; 1; 1] in
      let m := {| m_name := [109]; m_prefix := n_None; m_params := [(n_sample_weight, [1; 2; 3; 4])] |} in
      let sfs := combine (feature_names sf_base (FArray2 2)) [[0; 0; 1; 1]; [0; 0; 0; 1]] in
      option_map (extract_result true false true [[109]])
                 (mf_by_group Z (fun z => z) ccell (fnc [([109], 1)]) yt yp [m] sfs [])
      = Some (XColumn [109] [([0; 0], Some (Some (CNum (1 # 3)))); ([0; 1], None);
                             ([1; 0], Some (Some (CNum (3 # 3)))); ([1; 1], Some (Some (CNum (4 # 4))))])).
Proof. repeat split; vm_compute; reflexivity. Qed.

(* non-vacuity: two sensitive columns, an empty intersection, a single-member group, one parameter *)
Example C01_example :
  let yt := [0; 3; 4; 7] in let yp := [1; 0; 1; 1] in
  let ms := [ {| m_name := [109]; m_prefix := n_None; m_params := [(n_sample_weight, [1; 2; 3; 4])] |} ] in
  let sfs := [([115; 48], [0; 0; 1; 1]); ([115; 49], [0; 0; 0; 1])] in
  NoDup (map fst (all_assigns Z yt yp ms sfs [])) /\ sfs <> []
  /\ option_map (map fst) (mf_by_group Z (fun z => z) ccell (fnc [([109], 1)]) yt yp ms sfs [])
     = Some [[0; 0]; [0; 1]; [1; 0]; [1; 1]]
  /\ option_map (map snd) (mf_by_group Z (fun z => z) ccell (fnc [([109], 1)]) yt yp ms sfs [])
     = Some [Some [([109], Some (CNum (1 # 3)))]; None;
             Some [([109], Some (CNum (3 # 3)))]; Some [([109], Some (CNum (4 # 4)))]].
Proof.
  cbv zeta. split; [|split; [discriminate | split; vm_compute; reflexivity]].
  repeat constructor; cbn; intuition discriminate.
Qed.
