(* C01 -- MetricFrame disaggregation is exact.  Only statements, `exact`, Print Assumptions.
   All theorems are about Disagg.mf_by_group / mf_overall / call / build_frame, the definitions the
   correspondence run evaluates; they hold for EVERY cell type and EVERY family of metric callables fn. *)
From Coq Require Import QArith ZArith List Bool.
From FL Require Import Num ListX Disagg Disagg_proofs.
Import ListNotations.
Open Scope Z_scope.

(* every by_group entry is the metric on exactly the rows whose (control ++ sensitive) code tuple equals
   the index key -- y_true, y_pred and the metric's own parameters sliced by the same mask -- and an
   index key without rows holds the NaN row (None): never dropped, never filled *)
Theorem C01_by_group_cell :
  forall (V : Type) (key_of : V -> Z) (cell : Type)
         (fn : name -> list (list V) -> list (name * list V) -> cell)
         yt yp (ms : list (metric_spec V)) sfs cfs tbl,
    NoDup (map fst (all_assigns V yt yp ms sfs cfs)) -> sfs <> [] ->
    mf_by_group V key_of cell fn yt yp ms sfs cfs = Some tbl ->
    let keys := feature_keys V key_of (cfs ++ sfs) (length yt) in
    forall k, In k (map fst tbl) ->
      assoc k tbl = Some (if kmem k keys
                          then Some (expected_row V cell fn yt yp ms (sel (mask_of k keys)))
                          else None).
Proof. exact by_group_cell. Qed.
Print Assumptions C01_by_group_cell.

(* the index: the observed keys (one grouping column) or the Cartesian product of the per-column
   observed values (several); duplicate-free; contains the key of every row *)
Theorem C01_by_group_index :
  forall (V : Type) (key_of : V -> Z) (cell : Type)
         (fn : name -> list (list V) -> list (name * list V) -> cell)
         yt yp (ms : list (metric_spec V)) sfs cfs,
    NoDup (map fst (all_assigns V yt yp ms sfs cfs)) -> sfs <> [] ->
    let gfeats := cfs ++ sfs in
    let kcols := map (fun nc => map key_of (snd nc)) gfeats in
    let keys := feature_keys V key_of gfeats (length yt) in
    exists tbl, mf_by_group V key_of cell fn yt yp ms sfs cfs = Some tbl
      /\ map fst tbl = (if (1 <? length gfeats)%nat then product (map zuniq kcols) else kuniq keys)
      /\ NoDup (map fst tbl)
      /\ (forall k, In k keys -> In k (map fst tbl)).
Proof. exact by_group_index. Qed.
Print Assumptions C01_by_group_index.

Theorem C01_overall_cell :
  forall (V : Type) (key_of : V -> Z) (cell : Type)
         (fn : name -> list (list V) -> list (name * list V) -> cell)
         yt yp (ms : list (metric_spec V)) sfs,
    NoDup (map fst (all_assigns V yt yp ms sfs [])) ->
    mf_overall V key_of cell fn yt yp ms sfs []
      = Some [([], Some (expected_row V cell fn yt yp ms (fun x => x)))].
Proof. exact overall_cell_nocontrol. Qed.
Print Assumptions C01_overall_cell.

Theorem C01_overall_cell_control :
  forall (V : Type) (key_of : V -> Z) (cell : Type)
         (fn : name -> list (list V) -> list (name * list V) -> cell)
         yt yp (ms : list (metric_spec V)) sfs cfs,
    NoDup (map fst (all_assigns V yt yp ms sfs cfs)) -> cfs <> [] ->
    let kcols := map (fun nc => map key_of (snd nc)) cfs in
    let keys := feature_keys V key_of cfs (length yt) in
    exists tbl, mf_overall V key_of cell fn yt yp ms sfs cfs = Some tbl
      /\ map fst tbl = (if (1 <? length cfs)%nat then product (map zuniq kcols) else kuniq keys)
      /\ NoDup (map fst tbl)
      /\ (forall k, In k keys -> In k (map fst tbl))
      /\ (forall k, In k (map fst tbl) ->
            assoc k tbl = Some (if kmem k keys
                                then Some (expected_row V cell fn yt yp ms (sel (mask_of k keys)))
                                else None)).
Proof. exact overall_cell_control. Qed.
Print Assumptions C01_overall_cell_control.

(* if the generated column names f"{prefix}_{param}" are pairwise distinct and distinct from y_true,
   y_pred and the feature names, each function is called with its own parameters *)
Theorem C01_params_private :
  forall (V : Type) (cell : Type) (fn : name -> list (list V) -> list (name * list V) -> cell)
         yt yp (ms : list (metric_spec V)) sfs cfs m mask,
    NoDup (map fst (all_assigns V yt yp ms sfs cfs)) -> In m ms ->
    call V cell fn (annot_of V m) (sub_frame V mask (build_frame V yt yp ms sfs cfs))
      = Some (fn (m_name m) [sel mask yt; sel mask yp]
                 (map (fun pc => (fst pc, sel mask (snd pc))) (m_params m))).
Proof. exact params_private. Qed.
Print Assumptions C01_params_private.

(* the hypothesis is necessary (finding F8): distinct metric names and distinct parameter names per
   metric do not suffice -- metrics "a" (param "b_c") and "a_b" (param "c") share column "a_b_c" *)
Theorem C01_param_collision_refuted :
  let yt := [0; 1] in let yp := [1; 1] in let sfs := [([115], [0; 0])] in
  let m := {| m_name := [97]; m_prefix := [97]; m_params := [([98; 95; 99], [10; 20])] |} in
  NoDup (map (@m_name Z) coll_ms)
  /\ Forall (fun m => NoDup (map fst (m_params m))) coll_ms
  /\ In m coll_ms
  /\ call Z _ show_kw (annot_of Z m) (map_frame Z (fun x => x) (build_frame Z yt yp coll_ms sfs []))
     <> Some (expected_cell Z _ show_kw yt yp m (fun x => x))
  /\ ~ NoDup (map fst (all_assigns Z yt yp coll_ms sfs [])).
Proof. exact param_collision. Qed.
Print Assumptions C01_param_collision_refuted.

(* non-vacuity: two sensitive columns, an empty intersection, a single-member group, one parameter *)
Example C01_example :
  let yt := [0; 3; 4; 7] in let yp := [1; 0; 1; 1] in
  let ms := [ {| m_name := [109]; m_prefix := n_None; m_params := [(n_sample_weight, [1; 2; 3; 4])] |} ] in
  let sfs := [([115; 48], [0; 0; 1; 1]); ([115; 49], [0; 0; 0; 1])] in
  NoDup (map fst (all_assigns Z yt yp ms sfs [])) /\ sfs <> []
  /\ option_map (map fst) (mf_by_group Z (fun z => z) ccell (fnc [([109], 1)]) yt yp ms sfs [])
     = Some [[0; 0]; [0; 1]; [1; 0]; [1; 1]]
  /\ option_map (map snd) (mf_by_group Z (fun z => z) ccell (fnc [([109], 1)]) yt yp ms sfs [])
     = Some [Some [([109], Some (CNum (1 # 3)))]; None;
             Some [([109], Some (CNum (3 # 3)))]; Some [([109], Some (CNum (4 # 4)))]].
Proof.
  cbv zeta. split; [|split; [discriminate | split; vm_compute; reflexivity]].
  repeat constructor; cbn; intuition discriminate.
Qed.
