(* C12 -- rows are matched by position, not by container type, index label or row order.
   Only statements, `exact`, Print Assumptions. *)
From Coq Require Import QArith ZArith List Permutation.
From FL Require Import Num ListX Containers Containers_proofs.
Import ListNotations.

(* the ingestion every fairlearn entry point is modelled with: containers that hold the same
   values give the same rows, whatever their kind and index labels *)
Theorem C12_position_invariance :
  forall c c' : container, values c = values c' -> by_position c = by_position c'.
Proof. exact position_invariance. Qed.
Print Assumptions C12_position_invariance.

Theorem C12_position_ignores_index :
  forall (idx idx' : list Z) (vs : list Q),
  by_position (CSeries idx vs) = by_position (CArray vs)
  /\ by_position (CFrame1 idx' vs) = by_position (CList vs).
Proof. exact position_ignores_index. Qed.
Print Assumptions C12_position_ignores_index.

(* pandas label alignment is a different function on the index schemes the correspondence
   run uses (shuffled / offset / duplicated), so that run separates the two semantics *)
Theorem C12_label_semantics_differs :
  by_label (CSeries [2; 0; 1]%Z [1#1; 2#1; 3#1]) <> by_position (CSeries [2; 0; 1]%Z [1#1; 2#1; 3#1])
  /\ by_label (CSeries [100; 101; 102]%Z [1#1; 2#1; 3#1]) = [None; None; None]
  /\ by_label (CFrame1 [0; 0; 0]%Z [1#1; 2#1; 3#1]) = [Some (1#1); None; None].
Proof.
  exact (conj label_semantics_differs_shuffled
        (conj label_semantics_differs_offset label_semantics_differs_duplicated)).
Qed.
Print Assumptions C12_label_semantics_differs.

(* jointly permuting all rows: same index, same count / weight sum / weighted value sum per group
   (hence the same count, mean_prediction, selection_rate and every ratio of such sums) *)
Theorem C12_perm_invariance :
  forall rows rows' : list row, Permutation rows rows' ->
  keys rows = keys rows' /\
  forall g, g_count rows g = g_count rows' g /\ g_wsum rows g == g_wsum rows' g
            /\ g_wvsum rows g == g_wvsum rows' g.
Proof. exact perm_invariance. Qed.
Print Assumptions C12_perm_invariance.

(* renaming group labels by an injective map renames exactly the index entries and keeps
   every group's statistics *)
Theorem C12_relabel_equivariance :
  forall (f : Z -> Z) (rows : list row), (forall a b, f a = f b -> a = b) ->
  (forall g, In (f g) (keys (map (rename f) rows)) <-> In g (keys rows)) /\
  (forall k, In k (keys (map (rename f) rows)) -> exists g, k = f g /\ In g (keys rows)) /\
  forall g, g_count (map (rename f) rows) (f g) = g_count rows g
            /\ g_wsum (map (rename f) rows) (f g) == g_wsum rows g
            /\ g_wvsum (map (rename f) rows) (f g) == g_wvsum rows g.
Proof. exact relabel_equivariance. Qed.
Print Assumptions C12_relabel_equivariance.

Example C12_example_nontrivial :
  let rows := zip3 [1; 0; 1]%Z [1#1; 0#1; 1#2] [2#1; 1#1; 1#1] in
  keys rows = [0; 1]%Z /\ g_count rows 1 = 2%nat /\ g_wvsum rows 1 == 5#2.
Proof. vm_compute. repeat split; reflexivity. Qed.
