(* C12 -- rows are matched by position, not by container type, index label or row order.
   Only statements, `exact`, Print Assumptions. *)
From Coq Require Import String.
From Coq Require Import QArith ZArith List Permutation.
From FL Require Import Num ListX Containers Containers_proofs.
From FL Require Import Disagg Disagg_proofs Disagg_ext Disagg_perm.
From FL Require Import Ingest Ingest_proofs.
From FLGen Require Gen_ingest.
Import ListNotations.

(* the ingestion every fairlearn entry point is modelled with: containers that hold the same
   values give the same rows, whatever their kind and index labels *)
Theorem C12_position_invariance :
  forall c c' : container, values c = values c' -> by_position c = by_position c'.
Proof. exact position_invariance. Qed.
Print Assumptions C12_position_invariance.

Theorem C12_position_ignores_index :
  forall (idx idx' : list Z) (vs : list Q),
  by_position (CSeries idx vs) = by_position (CArray vs)
  /\ by_position (CFrame1 idx' vs) = by_position (CList vs).
Proof. exact position_ignores_index. Qed.
Print Assumptions C12_position_ignores_index.

(* pandas label alignment is a different function on the index schemes the correspondence
   run uses (shuffled / offset / duplicated), so that run separates the two semantics *)
Theorem C12_label_semantics_differs :
  by_label (CSeries [2; 0; 1]%Z [1#1; 2#1; 3#1]) <> by_position (CSeries [2; 0; 1]%Z [1#1; 2#1; 3#1])
  /\ by_label (CSeries [100; 101; 102]%Z [1#1; 2#1; 3#1]) = [None; None; None]
  /\ by_label (CFrame1 [0; 0; 0]%Z [1#1; 2#1; 3#1]) = [Some (1#1); None; None].
Proof.
  exact (conj label_semantics_differs_shuffled
        (conj label_semantics_differs_offset label_semantics_differs_duplicated)).
Qed.
Print Assumptions C12_label_semantics_differs.

(* jointly permuting all rows: same index, same count / weight sum / weighted value sum per group
   (hence the same count, mean_prediction, selection_rate and every ratio of such sums) *)
Theorem C12_perm_invariance :
  forall rows rows' : list row, Permutation rows rows' ->
  keys rows = keys rows' /\
  forall g, g_count rows g = g_count rows' g /\ g_wsum rows g == g_wsum rows' g
            /\ g_wvsum rows g == g_wvsum rows' g.
Proof. exact perm_invariance. Qed.
Print Assumptions C12_perm_invariance.

(* renaming group labels by an injective map renames exactly the index entries and keeps
   every group's statistics *)
Theorem C12_relabel_equivariance :
  forall (f : Z -> Z) (rows : list row), (forall a b, f a = f b -> a = b) ->
  (forall g, In (f g) (keys (map (rename f) rows)) <-> In g (keys rows)) /\
  (forall k, In k (keys (map (rename f) rows)) -> exists g, k = f g /\ In g (keys rows)) /\
  forall g, g_count (map (rename f) rows) (f g) = g_count rows g
            /\ g_wsum (map (rename f) rows) (f g) == g_wsum rows g
            /\ g_wvsum (map (rename f) rows) (f g) == g_wvsum rows g.
Proof. exact relabel_equivariance. Qed.
Print Assumptions C12_relabel_equivariance.

Example C12_example_nontrivial :
  let rows := zip3 [1; 0; 1]%Z [1#1; 0#1; 1#2] [2#1; 1#1; 1#1] in
  keys rows = [0; 1]%Z /\ g_count rows 1 = 2%nat /\ g_wvsum rows 1 == 5#2.
Proof. vm_compute. repeat split; reflexivity. Qed.

(* ---------------------------------------------------------------------------------------------------
   The same two statements on the REAL MetricFrame model (Disagg.mf_by_group / mf_overall: the frame
   __init__ builds, the name glue, group-by, re-indexing), for every value type, cell type and family of
   metric callables.
   --------------------------------------------------------------------------------------------------- *)

(* jointly permuting y_true, y_pred, every sample parameter and every sensitive / control feature column
   by the index list pi (a permutation of 0..n-1) changes nothing: by_group and overall are EQUAL tables
   (same index in the same order, same cells).  Hypothesis on the callables (fn_perm_inv): jointly
   permuting all their equally long argument columns gives the same cell.  Guard: all columns have the
   length of y_true (MetricFrame / pandas reject anything else). *)
Theorem C12_metricframe_perm_invariance :
  forall (V : Type) (key_of : V -> Z) (cell : Type)
         (fn : name -> list (list V) -> list (name * list V) -> cell)
         yt yp (ms : list (metric_spec V)) sfs cfs (pi : list nat),
    fn_perm_inv V cell fn ->
    lengths_ok V (length yt) yp ms sfs cfs ->
    Permutation pi (seq 0 (length yt)) ->
    mf_by_group V key_of cell fn (apply_perm pi yt) (apply_perm pi yp) (map (perm_spec pi) ms)
                (perm_cols pi sfs) (perm_cols pi cfs)
    = mf_by_group V key_of cell fn yt yp ms sfs cfs
    /\ mf_overall V key_of cell fn (apply_perm pi yt) (apply_perm pi yp) (map (perm_spec pi) ms)
                  (perm_cols pi sfs) (perm_cols pi cfs)
       = mf_overall V key_of cell fn yt yp ms sfs cfs.
Proof. exact by_group_perm. Qed.
Print Assumptions C12_metricframe_perm_invariance.

(* renaming the values of ONE sensitive feature (column `col` named nm, at any position) by r, whose effect
   on the category codes is a STRICTLY MONOTONE map g: by_group is the same table with component
   (#control features + position) of every index key renamed by g -- same order, same cells -- and overall
   is unchanged.  Proved in full (equality of tables). *)
Theorem C12_metricframe_relabel :
  forall (V : Type) (key_of : V -> Z) (cell : Type)
         (fn : name -> list (list V) -> list (name * list V) -> cell)
         yt yp (ms : list (metric_spec V)) sfs1 nm col sfs2 cfs (r : V -> V) (g : Z -> Z) tbl,
    NoDup (map fst (all_assigns V yt yp ms (sfs1 ++ (nm, col) :: sfs2) cfs)) ->
    (forall a b, (a < b)%Z -> (g a < g b)%Z) ->
    (forall v, In v col -> key_of (r v) = g (key_of v)) ->
    mf_by_group V key_of cell fn yt yp ms (sfs1 ++ (nm, col) :: sfs2) cfs = Some tbl ->
    mf_by_group V key_of cell fn yt yp ms (sfs1 ++ (nm, map r col) :: sfs2) cfs
    = Some (rename_table (length cfs + length sfs1) g tbl)
    /\ mf_overall V key_of cell fn yt yp ms (sfs1 ++ (nm, map r col) :: sfs2) cfs
       = mf_overall V key_of cell fn yt yp ms (sfs1 ++ (nm, col) :: sfs2) cfs.
Proof. exact by_group_relabel. Qed.
Print Assumptions C12_metricframe_relabel.

(* the same for ANY injective renaming of the codes (the index is re-sorted, so equality holds up to the
   order of the rows): the new by_group is a permutation of the renamed old one, every renamed key holds
   the old cell, overall is unchanged.  Proved in full. *)
Theorem C12_metricframe_relabel_injective :
  forall (V : Type) (key_of : V -> Z) (cell : Type)
         (fn : name -> list (list V) -> list (name * list V) -> cell)
         yt yp (ms : list (metric_spec V)) sfs1 nm col sfs2 cfs (r : V -> V) (g : Z -> Z) tbl,
    NoDup (map fst (all_assigns V yt yp ms (sfs1 ++ (nm, col) :: sfs2) cfs)) ->
    (forall a b, g a = g b -> a = b) ->
    (forall v, In v col -> key_of (r v) = g (key_of v)) ->
    mf_by_group V key_of cell fn yt yp ms (sfs1 ++ (nm, col) :: sfs2) cfs = Some tbl ->
    exists tbl',
      mf_by_group V key_of cell fn yt yp ms (sfs1 ++ (nm, map r col) :: sfs2) cfs = Some tbl'
      /\ Permutation tbl' (rename_table (length cfs + length sfs1) g tbl)
      /\ (forall k, In k (map fst tbl) ->
            assoc (upd_key (length cfs + length sfs1) g k) tbl' = assoc k tbl)
      /\ mf_overall V key_of cell fn yt yp ms (sfs1 ++ (nm, map r col) :: sfs2) cfs
         = mf_overall V key_of cell fn yt yp ms (sfs1 ++ (nm, col) :: sfs2) cfs.
Proof. exact by_group_relabel_inj. Qed.
Print Assumptions C12_metricframe_relabel_injective.

(* the hypothesis on the callables is satisfiable by a metric that needs its rows paired:
   (sum w*y_pred, sum w), invariant under joint -- not separate -- permutations *)
Theorem C12_perm_hypothesis_satisfiable : fn_perm_inv Z (Z * Z)%type wsel_fn.
Proof. exact wsel_fn_perm_inv. Qed.
Print Assumptions C12_perm_hypothesis_satisfiable.

(* non-vacuity: 4 rows, two sensitive columns (an empty intersection), a control column, weights;
   rotation by one row; renaming codes 0,1 of the first sensitive feature to 7,3 (not monotone) *)
Example C12_metricframe_example :
  let yt := [0; 3; 4; 7]%Z in let yp := [1; 0; 1; 1]%Z in
  let ms := [ {| m_name := [109]%Z; m_prefix := n_None; m_params := [(n_sample_weight, [1; 2; 3; 4]%Z)] |} ] in
  let sfs := [([115; 48]%Z, [0; 0; 1; 1]%Z); ([115; 49]%Z, [0; 0; 0; 1]%Z)] in
  let cfs := [([99]%Z, [0; 1; 0; 0]%Z)] in
  let pi := [1; 2; 3; 0]%nat in
  lengths_ok Z (length yt) yp ms sfs cfs /\ Permutation pi (seq 0 (length yt))
  /\ apply_perm pi yt = [3; 4; 7; 0]%Z
  /\ NoDup (map fst (all_assigns Z yt yp ms sfs cfs))
  /\ option_map (map fst) (mf_by_group Z (fun z => z) _ wsel_fn yt yp ms sfs cfs)
     = Some [[0; 0; 0]; [0; 0; 1]; [0; 1; 0]; [0; 1; 1]; [1; 0; 0]; [1; 0; 1]; [1; 1; 0]; [1; 1; 1]]%Z
  /\ option_map (map fst)
       (mf_by_group Z (fun z => z) _ wsel_fn yt yp ms
                    [([115; 48]%Z, map (fun v => if (v =? 0)%Z then 7 else 3)%Z [0; 0; 1; 1]%Z);
                     ([115; 49]%Z, [0; 0; 0; 1]%Z)] cfs)
     = Some [[0; 3; 0]; [0; 3; 1]; [0; 7; 0]; [0; 7; 1]; [1; 3; 0]; [1; 3; 1]; [1; 7; 0]; [1; 7; 1]]%Z.
Proof.
  cbv zeta. repeat split; try (vm_compute; reflexivity).
  - repeat constructor.
  - repeat constructor.
  - repeat constructor.
  - cbn. apply Permutation_sym. apply (Permutation_cons_app [1; 2; 3]%nat [] 0%nat). apply Permutation_refl.
  - repeat constructor; cbn; intuition discriminate.
Qed.

(* ---------------------------------------------------------------------------------------------------
   "Every fairlearn entry point consumes containers by position" as an OBLIGATION on the source.
   translators/t_ingest.py executes MetricFrame.__init__, load_data of the five parity moments and of ErrorRate,
   ThresholdOptimizer.fit and InterpolatedThresholder._pmf_predict (with every helper of the anchored files
   they call) abstractly over the provenance of row data and regenerates Gen_ingest.sites: one row per
   statement that places caller data into an internal pandas object or re-wraps it (pandas constructor,
   store into a frame / column dict, conversion to an array, assignment to .index), classified Positional
   (list / ndarray / np.asarray / .values / check_array / pandas object just built from those with the
   default index) or Labelled (a pandas object that still carries the caller's index reaches the site).
   --------------------------------------------------------------------------------------------------- *)

(* the regenerated table is the table the model was written from, and every site in it is positional *)
Theorem C12_ingestion_sites_positional :
  Gen_ingest.sites = expected_sites /\ Gen_ingest.entries = expected_entries
  /\ all_positional Gen_ingest.sites = true.
Proof. exact (conj eq_refl (conj eq_refl eq_refl)). Qed.
Print Assumptions C12_ingestion_sites_positional.

(* connection to the model: for every analysed entry point e, whatever it computes downstream of its sites
   (body, any result type), it reaches at least one site, it computes on Containers.by_position of the
   containers that reach its sites, and therefore (C12_position_invariance) gives the same result when the
   same values arrive in other containers / under other index labels.  Stated on the REGENERATED table. *)
Theorem C12_entry_points_by_position :
  forall (e : String.string) (R : Type) (body : list (list (option Q)) -> R) (cs cs' : list container),
    In e Gen_ingest.entries -> same_values cs cs' ->
    sites_of e Gen_ingest.sites <> []
    /\ run_entry (sites_of e Gen_ingest.sites) body cs
       = body (map by_position (firstn (length (sites_of e Gen_ingest.sites)) cs))
    /\ run_entry (sites_of e Gen_ingest.sites) body cs = run_entry (sites_of e Gen_ingest.sites) body cs'.
Proof. exact (entry_points_by_position Gen_ingest.sites Gen_ingest.entries eq_refl eq_refl). Qed.
Print Assumptions C12_entry_points_by_position.

(* the same for any table: all sites positional is what is needed ... *)
Theorem C12_positional_sites_invariant :
  forall (R : Type) (t : list site) (body : list (list (option Q)) -> R) (cs cs' : list container),
    all_positional t = true -> same_values cs cs' -> run_entry t body cs = run_entry t body cs'.
Proof. exact positional_entry_invariant. Qed.
Print Assumptions C12_positional_sites_invariant.

(* ... and it is needed: one Labelled site and the entry point sees the caller's index labels *)
Theorem C12_labelled_site_not_invariant :
  exists (t : list site) (cs cs' : list container),
    all_positional t = false /\ same_values cs cs'
    /\ run_entry t (fun x => x) cs <> run_entry t (fun x => x) cs'.
Proof. exact labelled_site_not_invariant. Qed.
Print Assumptions C12_labelled_site_not_invariant.

(* non-vacuity: MetricFrame reaches 7 sites, ThresholdOptimizer.fit 12; a Series with a shuffled index and
   a list with the same values give the same ingested rows at MetricFrame's first two sites *)
Example C12_ingest_example :
  length (sites_of "MetricFrame"%string Gen_ingest.sites) = 7%nat
  /\ length (sites_of "ThresholdOptimizer.fit"%string Gen_ingest.sites) = 12%nat
  /\ same_values [CSeries [2; 0; 1]%Z [1#1; 2#1; 3#1]; CFrame1 [5; 5; 5]%Z [0#1; 1#1; 1#1]]
                 [CList [1#1; 2#1; 3#1]; CArray [0#1; 1#1; 1#1]]
  /\ run_entry (sites_of "MetricFrame"%string Gen_ingest.sites) (fun x => x)
               [CSeries [2; 0; 1]%Z [1#1; 2#1; 3#1]; CFrame1 [5; 5; 5]%Z [0#1; 1#1; 1#1]]
     = [[Some (1#1); Some (2#1); Some (3#1)]; [Some (0#1); Some (1#1); Some (1#1)]].
Proof. repeat split; try reflexivity. repeat constructor. Qed.
