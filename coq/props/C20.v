(* C20 -- inconsistent or unsupported inputs are rejected, never silently processed.
   Only statements, `exact`, and Print Assumptions.  `rejects v` = exists k, v = Reject k.
   The ThresholdOptimizer theorems are stated on the constraint / objective tables REGENERATED
   from /repo (FLGen.Gen_tables) on every run; C20_tables_as_specified ties them to the tables
   the property specifies (the ones the correspondence run evaluates).
   The C20_src_* theorems (end of the file) are stated on the GUARDS regenerated from /repo
   (FLGen.Gen_validate: condition, operands, flags and position of every check): their meaning,
   given by the interpreters of FL.ValidateSrc, is the decision function of the model. *)
From Coq Require Import ZArith QArith List Bool.
From FL Require Import Num Validate Validate_proofs ValidateSrc ValidateSrc_proofs.
From FLGen Require Gen_tables Gen_validate.
Import ListNotations.
Open Scope Z_scope.

(* the tables of the current source *)
Definition src_tables : tables :=
  mkTables (map fst Gen_tables.simple_constraints) Gen_tables.objectives_simple
           Gen_tables.eo_name Gen_tables.objectives_eo.

Definition validate_to_src : to_in -> verdict := validate_threshold_optimizer src_tables.

Theorem C20_tables_as_specified : src_tables = std_tables.
Proof. exact (eq_refl std_tables). Qed.
Print Assumptions C20_tables_as_specified.

(* ---- length_mismatch_rejected: any two given arguments differing in length, by any amount ---- *)
Theorem C20_length_mismatch_rejected_moment :
  forall (m : moment) (d : data) (a b : nat),
  In a (arg_lengths d) -> In b (arg_lengths d) -> a <> b -> rejects (validate_load m d).
Proof. exact load_length_mismatch_rejected. Qed.
Print Assumptions C20_length_mismatch_rejected_moment.

Theorem C20_length_mismatch_rejected_reduction :
  forall (r : red_in) (a b : nat),
  In a (arg_lengths (r_data r)) -> In b (arg_lengths (r_data r)) -> a <> b ->
  rejects (validate_reduction_fit r) /\ rejects (validate_reduction r).
Proof. exact reduction_length_mismatch_rejected. Qed.
Print Assumptions C20_length_mismatch_rejected_reduction.

Theorem C20_length_mismatch_rejected_threshold_optimizer :
  forall (i : to_in) (a b : nat),
  In a (arg_lengths (to_data i)) -> In b (arg_lengths (to_data i)) -> a <> b -> rejects (validate_to_src i).
Proof. exact (to_length_mismatch_rejected src_tables). Qed.
Print Assumptions C20_length_mismatch_rejected_threshold_optimizer.

(* y_true, y_pred, every sample parameter, every sensitive / control feature that has a column *)
Theorem C20_length_mismatch_rejected_metric_frame :
  forall (i : mf_in) (a b : nat),
  In a (mf_lengths i) -> In b (mf_lengths i) -> a <> b -> rejects (validate_metric_frame i).
Proof. exact mf_length_mismatch_rejected. Qed.
Print Assumptions C20_length_mismatch_rejected_metric_frame.

(* ---- nonbinary_label_rejected: the offending label at an arbitrary position ---- *)
Theorem C20_nonbinary_label_rejected_moment :
  forall (m : moment) (d : data) (ys : list Z) (i : nat),
  is_classification m = true -> d_y d = Some ys -> (i < length ys)%nat ->
  nth i ys 0 <> 0 -> nth i ys 0 <> 1 -> rejects (validate_load m d).
Proof. exact load_nonbinary_rejected. Qed.
Print Assumptions C20_nonbinary_label_rejected_moment.

Theorem C20_nonbinary_label_rejected_reduction :
  forall (r : red_in) (m : moment) (ys : list Z) (i : nat),
  r_constraints r = Some m -> is_classification m = true ->
  d_y (r_data r) = Some ys -> (i < length ys)%nat -> nth i ys 0 <> 0 -> nth i ys 0 <> 1 ->
  rejects (validate_reduction_fit r) /\ rejects (validate_reduction r).
Proof. exact reduction_nonbinary_rejected. Qed.
Print Assumptions C20_nonbinary_label_rejected_reduction.

Theorem C20_nonbinary_label_rejected_threshold_optimizer :
  forall (i : to_in) (ys : list Z) (n : nat),
  d_y (to_data i) = Some ys -> (n < length ys)%nat -> nth n ys 0 <> 0 -> nth n ys 0 <> 1 ->
  rejects (validate_to_src i).
Proof. exact (to_nonbinary_rejected src_tables). Qed.
Print Assumptions C20_nonbinary_label_rejected_threshold_optimizer.

(* ---- missing_sensitive_rejected (and y None / empty for the reductions) ---- *)
Theorem C20_missing_sensitive_rejected_moment :
  forall (m : moment) (d : data), d_sf d = None -> rejects (validate_load m d).
Proof. exact load_missing_sensitive_rejected. Qed.
Print Assumptions C20_missing_sensitive_rejected_moment.

Theorem C20_missing_sensitive_rejected_reduction :
  forall r : red_in, d_sf (r_data r) = None ->
  rejects (validate_reduction_fit r) /\ rejects (validate_reduction r).
Proof. exact reduction_missing_sensitive_rejected. Qed.
Print Assumptions C20_missing_sensitive_rejected_reduction.

Theorem C20_missing_sensitive_rejected_threshold_optimizer :
  forall i : to_in, d_sf (to_data i) = None -> rejects (validate_to_src i).
Proof. exact (to_missing_sensitive_rejected src_tables). Qed.
Print Assumptions C20_missing_sensitive_rejected_threshold_optimizer.

Theorem C20_missing_y_rejected_reduction :
  forall r : red_in, d_y (r_data r) = None \/ d_y (r_data r) = Some [] ->
  rejects (validate_reduction_fit r) /\ rejects (validate_reduction r).
Proof. exact reduction_missing_y_rejected. Qed.
Print Assumptions C20_missing_y_rejected_reduction.

Theorem C20_missing_column_rejected_correlation_remover :
  forall (i : cr_in) (c : Z), In c (c_ids i) -> ~ In c (c_columns i) ->
  validate_correlation_remover i = Reject KMissingColumn.
Proof. exact cr_missing_column_rejected. Qed.
Print Assumptions C20_missing_column_rejected_correlation_remover.

(* ---- degenerate_group_rejected: group g has no row with label l (l one of the two labels) ---- *)
Theorem C20_degenerate_group_rejected :
  forall (i : to_in) (s ys : list Z) (g l : Z),
  d_sf (to_data i) = Some s -> d_y (to_data i) = Some ys -> In g s -> l = 0 \/ l = 1 ->
  (forall n, nth_error s n = Some g -> nth_error ys n <> Some l) ->
  rejects (validate_to_src i).
Proof. exact (to_degenerate_group_rejected src_tables). Qed.
Print Assumptions C20_degenerate_group_rejected.

Theorem C20_degenerate_group_kind :
  forall (i : to_in) (s ys : list Z) (g l : Z),
  to_estimator i = true -> supported src_tables (to_constraints i) (to_objective i) ->
  d_cf (to_data i) = None -> wf_input true true (to_data i) ->
  d_sf (to_data i) = Some s -> d_y (to_data i) = Some ys -> In g s -> l = 0 \/ l = 1 ->
  (forall n, nth_error s n = Some g -> nth_error ys n <> Some l) ->
  validate_to_src i = Reject KDegenerate.
Proof. exact (to_degenerate_kind src_tables). Qed.
Print Assumptions C20_degenerate_group_kind.

(* ---- unsupported_combo_rejected <-> (non-)membership in the generated tables ---- *)
Theorem C20_unsupported_combo_rejected :
  forall i : to_in, to_estimator i = true ->
  ((validate_to_src i = Reject KConstraint \/ validate_to_src i = Reject KObjective) <->
   ~ supported src_tables (to_constraints i) (to_objective i)).
Proof. exact (to_unsupported_combo_rejected src_tables). Qed.
Print Assumptions C20_unsupported_combo_rejected.

Theorem C20_unsupported_combo_never_accepted :
  forall i : to_in, ~ supported src_tables (to_constraints i) (to_objective i) -> rejects (validate_to_src i).
Proof. exact (to_unsupported_rejects src_tables). Qed.
Print Assumptions C20_unsupported_combo_never_accepted.

(* ---- control_features_rejected ---- *)
Theorem C20_control_features_rejected :
  forall (i : to_in) (c : list Z), d_cf (to_data i) = Some c -> rejects (validate_to_src i).
Proof. exact (to_control_features_rejected src_tables). Qed.
Print Assumptions C20_control_features_rejected.

(* ---- bounds_rejected ---- *)
Theorem C20_bounds_rejected_both :
  forall (b : bounds) (x y : ext),
  difference_bound b = Some x -> ratio_bound b = Some y -> validate_bounds b = Reject KBothBounds.
Proof. exact both_bounds_rejected. Qed.
Print Assumptions C20_bounds_rejected_both.

(* ratio_bound NaN, +-inf, <= 0 or > 1 *)
Theorem C20_bounds_rejected_ratio_range :
  forall (b : bounds) (r : ext),
  ratio_bound b = Some r -> (forall q, r = Fin q -> ~ ((0 < q)%Q /\ (q <= 1)%Q)) ->
  rejects (validate_bounds b).
Proof. exact ratio_out_of_range_rejected. Qed.
Print Assumptions C20_bounds_rejected_ratio_range.

Theorem C20_bounds_accepted_iff :
  forall b : bounds, validate_bounds b = Accept <->
  ratio_bound b = None \/
  (difference_bound b = None /\ exists q, ratio_bound b = Some (Fin q) /\ (0 < q)%Q /\ (q <= 1)%Q).
Proof. exact bounds_accept_iff. Qed.
Print Assumptions C20_bounds_accepted_iff.

Theorem C20_costs_rejected_wrong_keys :
  forall items : list (Z * ext),
  length items <> 2%nat \/ lookup key_fp items = None \/ lookup key_fn items = None ->
  validate_costs (CostsDict items) = Reject KBadCosts.
Proof. exact costs_wrong_keys_rejected. Qed.
Print Assumptions C20_costs_rejected_wrong_keys.

Theorem C20_costs_rejected_negative :
  forall (items : list (Z * ext)) (k : Z) (q : Q),
  k = key_fp \/ k = key_fn -> lookup k items = Some (Fin q) -> (q < 0)%Q ->
  validate_costs (CostsDict items) = Reject KBadCosts.
Proof. exact costs_negative_rejected. Qed.
Print Assumptions C20_costs_rejected_negative.

Theorem C20_costs_rejected_both_zero :
  forall (items : list (Z * ext)) (a b : Q),
  lookup key_fp items = Some (Fin a) -> lookup key_fn items = Some (Fin b) -> (a == 0)%Q -> (b == 0)%Q ->
  validate_costs (CostsDict items) = Reject KBadCosts.
Proof. exact costs_both_zero_rejected. Qed.
Print Assumptions C20_costs_rejected_both_zero.

Theorem C20_costs_accepted_iff :
  forall items : list (Z * ext), validate_costs (CostsDict items) = Accept <->
  length items = 2%nat /\ exists fp fn, lookup key_fp items = Some fp /\ lookup key_fn items = Some fn /\
    ext_leb (Fin 0) fp = true /\ ext_leb (Fin 0) fn = true /\ ext_ltb (Fin 0) (ext_add fp fn) = true.
Proof. exact costs_accept_iff. Qed.
Print Assumptions C20_costs_accepted_iff.

(* GridSearch constraint_weight NaN, +-inf, < 0 or > 1 *)
Theorem C20_constraint_weight_rejected :
  forall r : red_in, r_est r = GridSearch ->
  (forall q, r_cw r = Fin q -> ~ ((0 <= q)%Q /\ (q <= 1)%Q)) ->
  rejects (validate_gs_ctor r) /\ rejects (validate_reduction r).
Proof. exact constraint_weight_rejected. Qed.
Print Assumptions C20_constraint_weight_rejected.

(* ---- feature_names_rejected (MetricFrame) ---- *)
Theorem C20_feature_names_rejected_nonstring :
  forall (i : mf_in) (c : Z), In (NNonStr c) (mf_names i) -> rejects (validate_metric_frame i).
Proof. exact mf_nonstring_name_rejected. Qed.
Print Assumptions C20_feature_names_rejected_nonstring.

Theorem C20_feature_names_rejected_duplicate :
  forall i : mf_in, ~ NoDup (mf_names i) -> rejects (validate_metric_frame i).
Proof. exact mf_duplicate_name_rejected. Qed.
Print Assumptions C20_feature_names_rejected_duplicate.

Theorem C20_feature_names_rejected_shared :
  forall (i : mf_in) (x : fname),
  In x (declared_names 0 (m_sf i)) -> In x (cf_names i) -> rejects (validate_metric_frame i).
Proof. exact mf_shared_name_rejected. Qed.
Print Assumptions C20_feature_names_rejected_shared.

(* ---- predict_before_fit_rejected ---- *)
Theorem C20_predict_before_fit_rejected :
  forall e : estimator, validate_predict e false = Reject KNotFitted.
Proof. exact predict_before_fit_rejected. Qed.
Print Assumptions C20_predict_before_fit_rejected.

(* ---- valid_accepted: "reject everything" is not a model of the code ---- *)
Theorem C20_valid_accepted_moment :
  forall (m : moment) (d : data) (ys s : list Z),
  d_y d = Some ys -> d_sf d = Some s -> ys <> [] ->
  (is_classification m = true -> Forall is_binary ys) ->
  length ys = d_x d -> length s = d_x d ->
  match d_cf d with Some c => length c = d_x d /\ takes_control m = true | None => True end ->
  validate_load m d = Accept.
Proof. exact load_valid_accepted. Qed.
Print Assumptions C20_valid_accepted_moment.

Theorem C20_valid_accepted_reduction :
  forall (r : red_in) (m : moment),
  r_constraints r = Some m -> r_objective r = None ->
  (r_est r = GridSearch -> r_rule_ok r = true /\ exists q, r_cw r = Fin q /\ (0 <= q)%Q /\ (q <= 1)%Q) ->
  wf_input true (is_classification m) (r_data r) ->
  (d_cf (r_data r) <> None -> takes_control m = true) ->
  validate_reduction r = Accept.
Proof. exact reduction_valid_accepted. Qed.
Print Assumptions C20_valid_accepted_reduction.

Theorem C20_valid_accepted_threshold_optimizer :
  forall (i : to_in) (s ys : list Z),
  to_estimator i = true -> supported src_tables (to_constraints i) (to_objective i) ->
  d_cf (to_data i) = None -> d_sf (to_data i) = Some s -> d_y (to_data i) = Some ys ->
  ys <> [] -> Forall is_binary ys -> length ys = d_x (to_data i) -> length s = d_x (to_data i) ->
  (forall g, In g s -> has_label s ys g 0 /\ has_label s ys g 1) ->
  validate_to_src i = Accept.
Proof. exact (to_valid_accepted src_tables). Qed.
Print Assumptions C20_valid_accepted_threshold_optimizer.

Theorem C20_accepted_iff_metric_frame :
  forall i : mf_in, validate_metric_frame i = Accept <->
  m_ytrue i = m_ypred i /\ Forall (fun k => k = m_ytrue i) (m_params i) /\
  wf_feats (m_sf i) (m_ytrue i) /\
  match m_cf i with Some c => wf_feats c (m_ytrue i) | None => True end /\
  NoDup (mf_names i) /\ declared_names 0 (m_sf i) <> [].
Proof. exact mf_accept_iff. Qed.
Print Assumptions C20_accepted_iff_metric_frame.

Theorem C20_accepted_iff_correlation_remover :
  forall i : cr_in, validate_correlation_remover i = Accept <->
  (forall c, In c (c_ids i) -> In c (c_columns i)) /\ c_rows i <> O.
Proof. exact cr_accept_iff. Qed.
Print Assumptions C20_accepted_iff_correlation_remover.

(* non-vacuity: a valid input is accepted by every entry point, and one defect flips each *)
Definition ex_data : data := mkData 6 (Some [0; 1; 1; 0; 1; 0]) (Some [7; 7; 8; 8; 7; 8]) None.
Definition ex_to : to_in := mkTO true (Some s_demographic_parity) (Some s_accuracy_score) ex_data.

Example C20_example :
  validate_load EqualizedOdds ex_data = Accept /\
  validate_reduction (mkRed GridSearch (Some DemographicParity) true (Fin (1 # 2)) None ex_data) = Accept /\
  validate_to_src ex_to = Accept /\
  validate_metric_frame (mkMF 6 6 [6%nat] (mkFeats (FFrame [NStr 1; NStr 2]) 6)
                              (Some (mkFeats (FSeries None) 6))) = Accept /\
  validate_bounds (mkBounds None (Some (Fin (4 # 5)))) = Accept /\
  validate_costs (CostsDict [(key_fn, Fin 1); (key_fp, Fin 0)]) = Accept /\
  (* one defect each *)
  validate_load EqualizedOdds (mkData 6 (Some [0; 1; 1; 0; 1; 2]) (Some [7; 7; 8; 8; 7; 8]) None)
    = Reject KNonBinary /\
  validate_to_src (mkTO true (Some s_equalized_odds) (Some s_selection_rate) ex_data) = Reject KObjective /\
  validate_to_src (mkTO true (Some s_demographic_parity) (Some s_accuracy_score)
                     (mkData 6 (Some [0; 1; 1; 1; 1; 1]) (Some [7; 7; 8; 8; 7; 8]) None)) = Reject KDegenerate /\
  validate_metric_frame (mkMF 6 6 [] (mkFeats (FSeries (Some (NStr 1))) 6)
                              (Some (mkFeats (FFrame [NStr 2; NStr 1]) 6))) = Reject KDuplicateName.
Proof. vm_compute. repeat split; reflexivity. Qed.

(* ====================================================================================== *)
(* The checks of the current source (FLGen.Gen_validate) are the checks the model decides *)
(* ====================================================================================== *)

(* every regenerated description equals the one the hand-written decision functions implement *)
Theorem C20_src_as_specified :
  Gen_validate.input_guards = model_input_guards /\ Gen_validate.load_calls = model_load_calls /\
  Gen_validate.to_call = model_to_call /\ Gen_validate.bounds_init = model_bounds_src /\
  Gen_validate.costs_init = model_costs_src /\ Gen_validate.gs_ctor = model_gs_src /\
  Gen_validate.degenerate = model_deg_src /\ Gen_validate.pf = model_pf_src /\
  Gen_validate.mf_init = model_mf_src /\ Gen_validate.cr = model_cr_src /\
  Gen_validate.fitted = model_fitted_src.
Proof.
  exact (conj (eq_refl model_input_guards) (conj (eq_refl model_load_calls) (conj (eq_refl model_to_call)
        (conj (eq_refl model_bounds_src) (conj (eq_refl model_costs_src) (conj (eq_refl model_gs_src)
        (conj (eq_refl model_deg_src) (conj (eq_refl model_pf_src) (conj (eq_refl model_mf_src)
        (conj (eq_refl model_cr_src) (eq_refl model_fitted_src))))))))))).
Qed.
Print Assumptions C20_src_as_specified.

(* _validate_and_reformat_input: running the guards of the source in source order, under the flags
   with which each load_data / ThresholdOptimizer.fit calls it, is validate_input / validate_load /
   validate_reduction_fit / validate_threshold_optimizer *)
Theorem C20_src_input_validation :
  (forall es eb d, run_guards (mkFlags true eb es) d Gen_validate.input_guards = validate_input es eb d) /\
  (forall m d, run_load Gen_validate.input_guards Gen_validate.load_calls m d = validate_load m d) /\
  (forall r, reduction_fit_with (run_load Gen_validate.input_guards Gen_validate.load_calls) r
             = validate_reduction_fit r) /\
  (forall T i, threshold_optimizer_with (run_call Gen_validate.input_guards Gen_validate.to_call) T i
               = validate_threshold_optimizer T i).
Proof.
  exact (input_validation_src Gen_validate.input_guards Gen_validate.load_calls Gen_validate.to_call
           (eq_refl model_input_guards) (eq_refl model_load_calls) (eq_refl model_to_call)).
Qed.
Print Assumptions C20_src_input_validation.

(* UtilityParity.__init__: the branch chain and the range test of the source decide validate_bounds *)
Theorem C20_src_bounds : forall b, run_bounds Gen_validate.bounds_init b = validate_bounds b.
Proof. exact (bounds_src_model Gen_validate.bounds_init (eq_refl model_bounds_src)). Qed.
Print Assumptions C20_src_bounds.

(* ErrorRate.__init__: the accepting conjunction of the source decides validate_costs *)
Theorem C20_src_costs : forall c, run_costs Gen_validate.costs_init c = validate_costs c.
Proof. exact (costs_src_model Gen_validate.costs_init (eq_refl model_costs_src)). Qed.
Print Assumptions C20_src_costs.

(* GridSearch.__init__ (Moment test, selection rule, constraint_weight range) and then fit *)
Theorem C20_src_constraint_weight :
  (forall r, run_gs r Gen_validate.gs_ctor = validate_gs_ctor r) /\
  (forall r, reduction_src Gen_validate.input_guards Gen_validate.load_calls Gen_validate.gs_ctor r
             = validate_reduction r).
Proof.
  exact (gs_src_model Gen_validate.input_guards Gen_validate.load_calls Gen_validate.gs_ctor
           (eq_refl model_input_guards) (eq_refl model_load_calls) (eq_refl model_gs_src)).
Qed.
Print Assumptions C20_src_constraint_weight.

(* _get_counts / _calculate_tradeoff_points: on binary labels the source's guard fires exactly when a
   label is missing from the group; with it, ThresholdOptimizer.fit read off the source (tables, shared
   validation, guard) is the model's decision *)
Theorem C20_src_degenerate_guard :
  (forall ls, forallb binary ls = true ->
     deg_rejects Gen_validate.degenerate ls = negb (existsb (Z.eqb 0) ls && existsb (Z.eqb 1) ls)) /\
  (forall d, (forall ys, d_y d = Some ys -> forallb binary ys = true) ->
     groups_ok_src Gen_validate.degenerate d = groups_ok d) /\
  (forall T i, threshold_optimizer_src Gen_validate.input_guards Gen_validate.to_call Gen_validate.degenerate T i
               = validate_threshold_optimizer T i).
Proof.
  exact (degenerate_src_model Gen_validate.input_guards Gen_validate.to_call Gen_validate.degenerate
           (eq_refl model_input_guards) (eq_refl model_to_call) (eq_refl model_deg_src)).
Qed.
Print Assumptions C20_src_degenerate_guard.

(* MetricFrame.__init__ / _process_features / GroupFeature.__init__: the length checks on y_true / y_pred,
   every sample parameter and every feature column, the name tests and the duplicate loop of the source,
   in source order, decide validate_metric_frame *)
Theorem C20_src_metric_frame_checks :
  (forall f n, wf_kind f -> process_features_src Gen_validate.pf f n = process_features f n) /\
  (forall i, wf_kind (m_sf i) -> (forall c, m_cf i = Some c -> wf_kind c) ->
             metric_frame_src Gen_validate.pf Gen_validate.mf_init i = validate_metric_frame i).
Proof.
  exact (metric_frame_src_model Gen_validate.pf Gen_validate.mf_init (eq_refl model_pf_src) (eq_refl model_mf_src)).
Qed.
Print Assumptions C20_src_metric_frame_checks.

(* CorrelationRemover.fit / _check_sensitive_features_in_X *)
Theorem C20_src_correlation_remover : forall i, run_cr Gen_validate.cr i = validate_correlation_remover i.
Proof. exact (cr_src_model Gen_validate.cr (eq_refl model_cr_src)). Qed.
Print Assumptions C20_src_correlation_remover.

(* check_is_fitted(self) is the first thing every predict / predict_proba / _pmf_predict / _raw_predict /
   transform of the source does; every estimator has its user-facing method listed *)
Theorem C20_src_fitted_checks :
  (forall e m p fitted, In (e, m, p) Gen_validate.fitted ->
     run_fitted Gen_validate.fitted e m fitted = validate_predict e fitted) /\
  (forall e, exists p, In (e, main_meth e, p) Gen_validate.fitted) /\
  (forall e, run_fitted Gen_validate.fitted e (main_meth e) false = Reject KNotFitted).
Proof. exact (fitted_src_model Gen_validate.fitted (eq_refl model_fitted_src)). Qed.
Print Assumptions C20_src_fitted_checks.

(* non-vacuity of the source descriptions: a description with ONE guard changed means something else *)
Example C20_src_example :
  (* control-feature length checked against sensitive_features *)
  run_guards (mkFlags true true true) (mkData 2 (Some [0; 1]) (Some [7; 8]) (Some [5]))
    [mkGuard [] (GLength ACf AX ASf)] = Accept /\
  run_guards (mkFlags true true true) (mkData 2 (Some [0; 1]) (Some [7; 8]) (Some [5]))
    Gen_validate.input_guards = Reject KLenXCf /\
  (* n_negative == n *)
  deg_rejects (mkDegSrc DLen DSum (DSub NAll NPos) true [(NPos, CEq, OConst 0); (NNeg, CEq, OCnt NAll)]) [1; 1]
    = false /\
  deg_rejects Gen_validate.degenerate [1; 1] = true /\
  (* 0 <= ratio_bound *)
  run_bounds (mkBoundsSrc [mkBranch [(BDiff, TIsNone); (BRatio, TIsNotNone)] (BRange BRatio (mkRange 0 CLe CLe 1))] BRaise)
    (mkBounds None (Some (Fin 0))) = Accept /\
  run_bounds Gen_validate.bounds_init (mkBounds None (Some (Fin 0))) = Reject KRatioRange /\
  (* sample parameter assigned through a Series *)
  run_mf Gen_validate.pf (mkMF 3 3 [2%nat] (mkFeats FList 3) None)
    [MLenTruePred; MSampleParams ViaSeries; MSensitive; MControl; MDuplicate] = Accept /\
  run_mf Gen_validate.pf (mkMF 3 3 [2%nat] (mkFeats FList 3) None) Gen_validate.mf_init = Reject KLenSampleParam /\
  (* check_is_fitted removed *)
  run_fitted [(EGridSearch, MPredict, PAbsent)] EGridSearch MPredict false = Accept /\
  run_fitted Gen_validate.fitted EGridSearch MPredict false = Reject KNotFitted.
Proof. vm_compute. repeat split; reflexivity. Qed.
